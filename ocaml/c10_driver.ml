(* C10 driver: runs the extracted Tokens model (step / outcome_of / get_token) and the extracted
   declarative spec (spec_outcome / spec_role, i.e. "last admin create/revoke naming t decides")
   on the harness cases.  Token values are symbolic: the k-th successful create of name n yields
   "n#k", an unbound name n denotes "?n", "adm" denotes the admin token - the harness asserts on
   every run that the real values are pairwise distinct, distinct from the admin token and from the
   never-issued values, which is what makes this naming faithful. *)
open Vutil
open C10_util

let cur_admin = ref (coq_of_string "ADMIN")
let admin_gen = ref 0
let old_admin : String0.string option ref = ref None
let reset_admin () = cur_admin := coq_of_string "ADMIN"; admin_gen := 0; old_admin := None

type pop = PC of string * string | PR of string * string | PH of string | PW of string | PX | PBad
         | PCf of string * string | PRf of string * string | PRace of string | POvl of string * string * string
         | PXA | PAge of string | PFrr of string | PCc of string | PXf of string
         | PW2 of pop * string   (* Cw / Rw: a create / revoke with <probe> authenticated inside its write transaction *)

let parse_op (o : string) : pop * string list =
  match split_on ':' o with
  | ["C"; c; n] -> PC (c, n), [c; n]
  | ["R"; c; n] -> PR (c, n), [c; n]
  | ["H"; n] -> PH n, [n]
  | ["W"; n] | ["Wr"; n] -> PW n, [n]
  | ["X"] -> PX, []
  (* Cl / Rl: the write cannot be done because another connection holds the write lock - for the model the same as a
     failed COMMIT: the operation changes nothing and must be reported as failed *)
  | ["Cf"; c; n] | ["Cl"; c; n] -> PCf (c, n), [c; n]
  | ["Rf"; c; n] | ["Rl"; c; n] -> PRf (c, n), [c; n]
  | ["RACE"; n] -> PRace n, [n]
  | ["XA"; _] -> PXA, []
  | ["XF"; n] -> PXf n, [n]
  | [f; n] when Stdlib.String.length f > 2 && (Stdlib.String.sub f 0 2 = "CC" || Stdlib.String.sub f 0 2 = "CS") -> PCc n, [n]
  | ["AGE"; n; _] -> PAge n, [n]
  | [f; n] when Stdlib.String.length f > 3 && Stdlib.String.sub f 0 3 = "FRR" -> PFrr n, [n]
  | ["Cw"; c; n; q] -> PW2 (PC (c, n), q), [c; n; q]
  | ["Rw"; c; n; q] -> PW2 (PR (c, n), q), [c; n; q]
  | ["OVL"; h; n] -> POvl ("ovl", h, n), [h; n]
  | ["SLW"; h; n] -> POvl ("slw", h, n), [h; n]
  | _ :: rest -> PBad, rest
  | [] -> PBad, []

let parse (input : string) =
  (* "A=<value>" (configured admin token of the case) is configuration, not an operation: the model is
     parametric in the admin token and runs with the symbolic one *)
  let is_head o =
    let l = Stdlib.String.length o in
    (l >= 2 && Stdlib.String.sub o 0 2 = "A=") || (l >= 3 && o.[0] = 'A' && o.[2] = '=' && (o.[1] = 'e' || o.[1] = 'f' || o.[1] = 'd')) in
  let ops = Stdlib.List.filter (fun o -> o <> "" && not (is_head o)) (split_on ';' input) in
  let parsed = Stdlib.List.map parse_op ops in
  let names = Stdlib.List.concat (Stdlib.List.map snd parsed) in
  let names = Stdlib.List.sort_uniq compare (Stdlib.List.filter (fun n -> n <> "adm" && n <> "") names) in
  Stdlib.List.map fst parsed, names

(* name resolution, mirrored from the harness *)
type env = { mutable bind : (string * String0.string) list; mutable cnt : (string * int) list }
let new_env () = { bind = []; cnt = [] }
let rec resolve env n =
  let l = Stdlib.String.length n in
  if l > 1 && (n.[l - 1] = '^' || n.[l - 1] = '-') then
    (* near miss of the value of the base name: a different, never-issued value *)
    coq_of_string (string_of_coq (resolve env (Stdlib.String.sub n 0 (l - 1))) ^ Stdlib.String.make 1 n.[l - 1])
  else if n = "adm" then !cur_admin
  else if n = "oadm" then (match !old_admin with Some a -> a | None -> coq_of_string "?oadm")
  else if n = "emp" || n = "non" then coq_of_string ""   (* the empty bearer value / no Authorization header *)
  else match Stdlib.List.assoc_opt n env.bind with Some v -> v | None -> coq_of_string ("?" ^ n)
let next_value env n =
  let k = (match Stdlib.List.assoc_opt n env.cnt with Some k -> k | None -> 0) + 1 in
  coq_of_string (Printf.sprintf "%s#%d" n k), k
let do_bind env n v k =
  env.bind <- (n, v) :: Stdlib.List.remove_assoc n env.bind;
  env.cnt <- (n, k) :: Stdlib.List.remove_assoc n env.cnt

let role_s = function Tokens.Admin -> "A" | Tokens.User -> "U" | Tokens.NoTok -> "N"

let outcome_s (p : pop) (o : Tokens.outcome) =
  match p, o with
  | PC _, Tokens.OCreated -> "c:ok"
  | PC _, Tokens.ODenied -> "c:401"
  | PR _, Tokens.ORevoked -> "r:ok"
  | PR _, Tokens.ODenied -> "r:401"
  | PH _, Tokens.ORole r -> "h:" ^ role_s r
  | PW _, Tokens.OWs b -> if b then "w:ok" else "w:no"
  | PX, Tokens.ORestarted -> "x"
  | PAge _, Tokens.ORestarted -> "age"
  | PCf _, Tokens.OFailed -> "c:fail"
  | PCf _, Tokens.ODenied -> "c:401"
  | PRf _, Tokens.OFailed -> "r:fail"
  | PRf _, Tokens.ODenied -> "r:401"
  | PRace _, Tokens.ORace r -> "race:" ^ role_s r
  | _ -> "MODEL-BUG"

(* the Coq operation for a parsed one; for a create also the fresh value it would bind *)
let coq_op env (p : pop) =
  match p with
  | PC (c, n) -> let v, k = next_value env n in Some (Tokens.Create (resolve env c, v)), Some (n, v, k)
  | PR (c, n) -> Some (Tokens.Revoke (resolve env c, resolve env n)), None
  | PH n -> Some (Tokens.AuthHttp (resolve env n)), None
  | PW n -> Some (Tokens.AuthWs (resolve env n)), None
  | PX -> Some Tokens.Restart, None
  | PCf (c, n) -> let v, _ = next_value env n in Some (Tokens.CreateFail (resolve env c, v)), None
  | PRf (c, n) -> Some (Tokens.RevokeFail (resolve env c, resolve env n)), None
  | PRace n -> Some (Tokens.Race (resolve env n)), None
  | PAge _ -> Some Tokens.Restart, None    (* the age of a token is not a criterion: nothing changes *)
  | PBad | POvl _ | PW2 _ | PXA | PFrr _ | PCc _ | PXf _ -> None, None

(* SLW:<first>:<second> is judged like OVL (the overlap is produced below the repository instead of above it).
   OVL:<held>:<probe> = authenticate <held> (HTTP), and while it is in flight authenticate <probe> on an ordinary
   route, on an !cur_admin route (revocation of a never issued value) and on the websocket check.  In the model these
   are four operations; the answers are computed by [f] (outcome_of on the state, or spec_outcome on the history) *)
let ovl_ops env h n =
  [Tokens.AuthHttp (resolve env h); Tokens.AuthHttp (resolve env n);
   Tokens.Revoke (resolve env n, coq_of_string "?!ovl"); Tokens.AuthWs (resolve env n)]
let ovl_s kind (outs : Tokens.outcome list) =
  match outs with
  | [Tokens.ORole a; Tokens.ORole b; c; Tokens.OWs w] ->
    Printf.sprintf "%s:%s:%s,%s,%s" kind (role_s a) (role_s b)
      (match c with Tokens.ORevoked -> "ok" | Tokens.ODenied -> "401" | _ -> "MODEL-BUG") (if w then "ok" else "no")
  | _ -> "MODEL-BUG"

(* XA: the admin token is reconfigured (the table stays).  The history is re-read under the new configuration:
   what was done with the old admin credential counts as done by the admin *)
let change_admin () =
  let old = !cur_admin in
  incr admin_gen;
  let nw = coq_of_string (Printf.sprintf "ADMIN-%d" !admin_gen) in
  cur_admin := nw; old_admin := Some old; old, nw
let rewrite_cred old nw (o : Tokens.op) =
  let f c = if c = old then nw else c in
  match o with
  | Tokens.Create (c, t) -> Tokens.Create (f c, t)
  | Tokens.Revoke (c, t) -> Tokens.Revoke (f c, t)
  | Tokens.CreateFail (c, t) -> Tokens.CreateFail (f c, t)
  | Tokens.RevokeFail (c, t) -> Tokens.RevokeFail (f c, t)
  | o -> o
(* FRR<n>:<name>: for the model the last fresh token is created and then revoked with an authenticate in flight *)
let frr_ops env n = let v, k = next_value env n in [Tokens.Create (!cur_admin, v); Tokens.Race v], (n, v, k)
let has_frr ops = Stdlib.List.exists (function PFrr _ -> true | _ -> false) ops

let model input =
  reset_admin ();
  let ops, names = parse input in
  let env = new_env () in
  let st = ref [] in
  let out = Stdlib.List.map (fun p ->
      let r = match p, coq_op env p with
        | PXA, _ -> ignore (change_admin ()); "xa"
        | PCc n, _ ->
          (* of the k concurrently issued tokens the model follows the one that is bound to the name (the others
             stay valid or are revoked without a name) *)
          let v, k = next_value env n in
          st := Tokens.step !cur_admin !st (Tokens.Create (!cur_admin, v)); do_bind env n v k; "cc:ok"
        | PXf n, _ ->
          (* restart = identity; the first lookup fails: only the admin token gets through *)
          "xf:" ^ (if resolve env n = !cur_admin then "A" else "N")
        | PFrr n, _ ->
          let os, (n, v, k) = frr_ops env n in
          Stdlib.List.iter (fun o -> st := Tokens.step !cur_admin !st o) os; do_bind env n v k; "frr:ok"
        | POvl (kind, h, n), _ ->
          ovl_s kind (Stdlib.List.map (fun o -> let oc = Tokens.outcome_of !cur_admin !st o in st := Tokens.step !cur_admin !st o; oc) (ovl_ops env h n))
        | PW2 (inner, q), _ ->
          (* the probe runs before the COMMIT: it is answered from the table as it was *)
          let probe = resolve env q in
          let skip = (match inner with PR (_, n) -> resolve env n = probe | _ -> false) in
          (match coq_op env inner with
           | Some o, b ->
             let oc = Tokens.outcome_of !cur_admin !st o in
             st := Tokens.step !cur_admin !st o;
             (* a token other than the one being written gets the same answer before and after the write *)
             let r = Tokens.get_token !cur_admin !st probe in
             (match oc, b with Tokens.OCreated, Some (n, v, k) -> do_bind env n v k | _ -> ());
             outcome_s inner oc ^ "+" ^ (match oc with
                 | Tokens.ODenied -> "-"
                 | _ when skip -> "-"
                 | _ -> role_s r ^ "," ^ (if Tokens.authenticated r then "ok" else "no"))
           | None, _ -> "BAD-OP")
        | _, (None, _) -> "BAD-OP"
        | _, (Some o, b) ->
          let oc = Tokens.outcome_of !cur_admin !st o in
          st := Tokens.step !cur_admin !st o;
          (match oc, b with Tokens.OCreated, Some (n, v, k) -> do_bind env n v k | _ -> ());
          outcome_s p oc in
      let vec = Stdlib.List.map (fun n -> n ^ "=" ^ role_s (Tokens.get_token !cur_admin !st (resolve env n))) names in
      let vec = if has_frr ops then vec @ ["raced*=N"] else vec in
      r ^ "/" ^ Stdlib.String.concat "," (vec @ ["adm=" ^ role_s (Tokens.get_token !cur_admin !st !cur_admin)])) ops in
  Stdlib.String.concat " " out

(* failure class from (wanted, got) answers of an authentication *)
let auth_class want got =
  let valid s = (s = "U" || s = "A" || s = "ok") in
  let invalid s = (s = "N" || s = "no") in
  if invalid want && valid got then "stale-token-accepted"
  else if valid want && invalid got then "valid-token-rejected"
  else if valid want && valid got then "wrong-role"
  else "outcome-mismatch"

exception Fail of string
let got_opt_ok res = Stdlib.String.length res >= 4 && Stdlib.String.sub res 0 4 = "c:ok"

let spec input obs =
  reset_admin ();
  let ops, names = parse input in
  let results = words obs in
  if Stdlib.List.length results <> Stdlib.List.length ops then "FAIL malformed-observable result count"
  else
    let env = new_env () in
    let pre = ref [] in
    try
      Stdlib.List.iteri (fun i (p, r) ->
          let res, vec = match split_on '/' r with [a; b] -> a, b | _ -> raise (Fail "malformed-observable no vector") in
          (match p, coq_op env p with
           | PCc n, _ ->
             if res <> "cc:ok" then
               raise (Fail (Printf.sprintf "%s op %d got %s"
                              (if Stdlib.String.length res >= 6 && Stdlib.String.sub res 0 6 = "cc:DUP" then "token-not-distinct" else "concurrent-create-failed") i res));
             let v, k = next_value env n in
             pre := !pre @ [Tokens.Create (!cur_admin, v)]; do_bind env n v k
           | PXf n, _ ->
             let want = "xf:" ^ (if resolve env n = !cur_admin then "A" else "N") in
             if res <> want then raise (Fail (Printf.sprintf "%s op %d want %s got %s" (if want = "xf:N" then "store-failure-fails-open" else "valid-token-rejected") i want res))
           | PXA, _ ->
             if res <> "xa" then raise (Fail (Printf.sprintf "outcome-mismatch op %d want xa got %s" i res));
             let old, nw = change_admin () in
             pre := Stdlib.List.map (rewrite_cred old nw) !pre
           | PFrr n, _ ->
             if res <> "frr:ok" then raise (Fail (Printf.sprintf "revoked-token-authenticates-after-race op %d got %s" i res));
             let os, (n, v, k) = frr_ops env n in
             pre := !pre @ os; do_bind env n v k
           | POvl (kind, h, n), _ ->
             let want = ovl_s kind (Stdlib.List.map (fun o -> let oc = Tokens.spec_outcome !cur_admin !pre o in pre := !pre @ [o]; oc) (ovl_ops env h n)) in
             if res <> want then raise (Fail (Printf.sprintf "overlap-interference op %d want %s got %s" i want res))
           | PW2 (inner, q), _ ->
             let probe = resolve env q in
             let skip = (match inner with PR (_, n) -> resolve env n = probe | _ -> false) in
             let r = Tokens.spec_role !cur_admin !pre probe in
             (match coq_op env inner with
              | Some o, b ->
                let oc = Tokens.spec_outcome !cur_admin !pre o in
                let want_op = outcome_s inner oc in
                let want = want_op ^ "+" ^ (match oc with
                    | Tokens.ODenied -> "-"
                    | _ when skip -> "-"
                    | _ -> role_s r ^ "," ^ (if Tokens.authenticated r then "ok" else "no")) in
                (match split_on '+' res with
                 | [got_op; got_in] ->
                   if got_op <> want_op then raise (Fail (Printf.sprintf "admin-op-outcome op %d want %s got %s" i want_op got_op));
                   if res <> want then raise (Fail (Printf.sprintf "write-in-progress-changes-other-token op %d want %s got %s (probe %s)" i want res got_in))
                 | _ -> raise (Fail "malformed-observable Cw/Rw"));
                (match got_opt_ok res, b with true, Some (n, v, k) -> do_bind env n v k | _ -> ());
                pre := !pre @ [Tokens.AuthHttp probe; o]
              | None, _ -> raise (Fail "malformed-observable bad op"))
           | _, (None, _) -> if res <> "BAD-OP" then raise (Fail "malformed-observable bad op")
           | _, (Some o, b) ->
             let want = outcome_s p (Tokens.spec_outcome !cur_admin !pre o) in
             if res = "c:DUP" then raise (Fail (Printf.sprintf "token-not-distinct op %d" i));
             if res = "c:SHAPE" then raise (Fail (Printf.sprintf "token-shape op %d" i));
             (* the authenticate that overlaps the revoke may answer either way *)
             let res_ok = match p, o with
               | PRace _, Tokens.Race t ->
                 res = want || res = "race:" ^ role_s (Tokens.spec_role !cur_admin (!pre @ [Tokens.Revoke (!cur_admin, t)]) t)
               | _ -> res = want in
             if (match p with PCf _ | PRf _ -> res = "c:ok" || res = "r:ok" | _ -> false) then
               raise (Fail (Printf.sprintf "failed-op-reported-success op %d want %s got %s" i want res));
             if not res_ok then begin
               let cls = match p with
                 | PH _ | PW _ ->
                   let tail s = Stdlib.String.sub s 2 (Stdlib.String.length s - 2) in
                   if Stdlib.String.length res > 2 && Stdlib.String.length (tail res) <= 2 then auth_class (tail want) (tail res) else "auth-inconsistent"
                 | PC _ | PR _ | PCf _ | PRf _ -> "admin-op-outcome"
                 | PRace _ -> "race-inflight-answer"
                 | _ -> "outcome-mismatch" in
               raise (Fail (Printf.sprintf "%s op %d want %s got %s" cls i want res))
             end;
             (match res, b with "c:ok", Some (n, v, k) -> do_bind env n v k | _ -> ());
             pre := !pre @ [o]);
          let entries = split_on ',' vec in
          let want_entries = Stdlib.List.map (fun n -> n, role_s (Tokens.spec_role !cur_admin !pre (resolve env n))) names
                             @ (if has_frr ops then ["raced*", "N"] else [])
                             @ ["adm", role_s (Tokens.spec_role !cur_admin !pre !cur_admin)] in
          if Stdlib.List.length entries <> Stdlib.List.length want_entries then raise (Fail "malformed-observable vector length");
          Stdlib.List.iter2 (fun e (n, w) ->
              match split_on '=' e with
              | [n'; g] when n' = n ->
                if g <> w then raise (Fail (Printf.sprintf "%s after op %d token %s want %s got %s"
                                              (if n = "raced*" then "revoked-token-authenticates-after-race" else auth_class w g) i n w g))
              | _ -> raise (Fail "malformed-observable vector entry")) entries want_entries)
        (Stdlib.List.combine ops results);
      "OK"
    with Fail m -> "FAIL " ^ m

let () = run_driver model spec
