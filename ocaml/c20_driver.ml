(* C20 driver: runs the extracted Config model (load_model, db_validate) and the spec oracle (load_spec = the
   contract "environment over file over defaults" with a set variable meaning set; db_okb = the declarative
   validity of a database section) on the harness cases.  Glue only: parsing of the case line, conversion
   between OCaml strings and the extracted Coq strings, printing. *)
open C20_util

let cs_of_string (s : string) : String.string =
  let r = ref String.EmptyString in
  for i = Stdlib.String.length s - 1 downto 0 do
    let c = Char.code (Stdlib.String.get s i) in
    let b k = (c lsr k) land 1 = 1 in
    r := String.String (Ascii.Ascii (b 0, b 1, b 2, b 3, b 4, b 5, b 6, b 7), !r)
  done; !r

let string_of_cs (s : String.string) : string =
  let buf = Buffer.create 32 in
  let rec go = function
    | String.EmptyString -> ()
    | String.String (Ascii.Ascii (b0, b1, b2, b3, b4, b5, b6, b7), r) ->
      let v b k = if b then 1 lsl k else 0 in
      Buffer.add_char buf (Char.chr (v b0 0 + v b1 1 + v b2 2 + v b3 3 + v b4 4 + v b5 5 + v b6 6 + v b7 7));
      go r in
  go s; Buffer.contents buf

let ml_list l = l

let cut_eq t =
  match Stdlib.String.index_opt t '=' with
  | Some i -> (Stdlib.String.sub t 0 i, Stdlib.String.sub t (i + 1) (Stdlib.String.length t - i - 1))
  | None -> (t, "")

let pair (k, v) = (cs_of_string k, cs_of_string v)

(* "load;E:VAR=v;F:key=v;Q:key=v;A:how;X:ext;C:key=v;D:ext:key=v;N:stem;P:where"
   -> (process environment, file named by the option as (ext, content) if any, content of ./config.yaml if any).
   Dropped here on purpose, because they must not matter: D: (decoy siblings of the selected file), N: (the base
   name of the selected file) and P: (its directory and the spelling of its path). *)
let parse_load toks =
  let env = ref [] and file = ref [] and cwdf = ref [] and how = ref "" and ext = ref "" in
  Stdlib.List.iter (fun t ->
      if Stdlib.String.length t > 2 && Stdlib.String.get t 1 = ':' then begin
        let body = Stdlib.String.sub t 2 (Stdlib.String.length t - 2) in
        match Stdlib.String.get t 0 with
        | 'E' -> env := cut_eq body :: !env
        | 'F' | 'Q' -> file := cut_eq body :: !file
        | 'C' -> cwdf := cut_eq body :: !cwdf
        | 'A' -> if !how = "" then how := fst (cut_eq body)
        | 'X' -> if !ext = "" then ext := fst (cut_eq body)
        | _ -> ()
      end) toks;
  let ext = match !ext with "" -> "yaml" | "none" -> "" | e -> e in
  let f = Stdlib.List.rev_map pair !file and c = Stdlib.List.rev_map pair !cwdf in
  let c_opt = if c = [] then None else Some c in
  let (opt, dflt) =
    if f = [] then (None, c_opt)
    else if !how = "cwd" then
      (* the F: items are the content of ./config.<ext>: the default file only when ext = yaml *)
      (None, if ext = "yaml" then Some f else c_opt)
    else (Some (cs_of_string ext, f), c_opt) in
  (Stdlib.List.rev_map pair !env, opt, dflt)

let unsupported_selection = function
  | None -> false
  | Some (ext, _) -> not (Stdlib.List.mem ext Config.viper_exts)

let verdict_text = function
  | Config.Accept -> "OK"
  | Config.RejNil -> "ERR nil-config"
  | Config.RejPreparedPathEmpty -> "ERR prepared-path-empty"
  | Config.RejPreparedMissing -> "ERR prepared-missing"
  | Config.RejSqliteEmpty -> "ERR sqlite-path-empty"
  | Config.RejPostgresIncomplete -> "ERR postgres-incomplete"
  | Config.RejUnsupported -> "ERR unsupported-engine"

let tbl = ConfigKeys.config_keys

(* in a load case every path is relative to an empty working directory (or an absolute path that does not
   exist): os.Stat answers ENOENT *)
(* T:<relative path>=<empty|dir> items: things that exist in the working directory of a load case.  The file
   system oracle of the model answers Found exactly for those paths (an optional leading "./" is dropped). *)
let norm_path p =
  if Stdlib.String.length p >= 2 && Stdlib.String.sub p 0 2 = "./" then Stdlib.String.sub p 2 (Stdlib.String.length p - 2) else p

let touched toks =
  Stdlib.List.filter_map (fun t ->
      if Stdlib.String.length t > 2 && Stdlib.String.get t 0 = 'T' && Stdlib.String.get t 1 = ':'
      then Some (norm_path (fst (cut_eq (Stdlib.String.sub t 2 (Stdlib.String.length t - 2))))) else None) toks

let fs_of toks =
  let ts = touched toks in
  fun (p : String.string) -> if Stdlib.List.mem (norm_path (string_of_cs p)) ts then Config.Found else Config.NotExist

let render_loaded toks = function
  | None -> "LOAD-ERROR"
  | Some cfg ->
    let kv = Stdlib.List.map (fun (k, v) -> string_of_cs k ^ "=" ^ string_of_cs v) (ml_list cfg) in
    let v = Config.db_validate_fs (Some (Config.db_of_cfg cfg)) (fs_of toks) in
    Stdlib.String.concat ";" (kv @ ["validate=" ^ verdict_text v])

type vcase = { nil : bool; cfg : Config.dbcfg; st : Config.stat }

let parse_validate toks =
  let g = Hashtbl.create 16 in
  Stdlib.List.iter (fun t -> let (k, v) = cut_eq t in if not (Hashtbl.mem g k) then Hashtbl.replace g k v) toks;
  let get k = try Hashtbl.find g k with Not_found -> "" in
  let port = match Config.parse_udec (cs_of_string (get "port")) with Some n -> n | None -> BinNums.N0 in
  let ppath = get "ppath" = "1" in
  let st = match get "stat" with
    | "file" | "dir" -> Config.Found
    | "notdir" | "toolong" -> Config.StatError
    | _ -> Config.NotExist in
  { nil = Hashtbl.mem g "nil";
    cfg = { Config.engine = cs_of_string (get "engine"); sqlite_path = cs_of_string (get "sqlite");
            pg_host = cs_of_string (get "host"); pg_port = port; pg_user = cs_of_string (get "user");
            pg_db = cs_of_string (get "dbname");
            prepared = (get "prepared" = "1");
            prepared_path = cs_of_string (if ppath then "/some/non-empty/path" else "") };
    st }

(* docdefault;F:key=value *)
let parse_doc toks =
  match toks with
  | t :: _ when Stdlib.String.length t > 2 && Stdlib.String.get t 1 = ':' ->
    Some (cut_eq (Stdlib.String.sub t 2 (Stdlib.String.length t - 2)))
  | _ -> None

let table_entry k =
  let ck = cs_of_string k in
  Stdlib.List.find_opt (fun ((k', _), _) -> k' = ck) tbl

let model input =
  match split_on ';' input with
  | "docdefault" :: toks ->
    (match parse_doc toks with
     | None -> "BAD-INPUT"
     | Some (k, _) ->
       (match table_entry k with
        | Some ((_, _), d) -> k ^ "=" ^ string_of_cs d
        | None -> k ^ "=<absent>"))
  | "load" :: toks -> let (env, opt, dflt) = parse_load toks in render_loaded toks (Config.load_files_model tbl env opt dflt)
  | "validate" :: toks ->
    let v = parse_validate toks in
    verdict_text (Config.db_validate (if v.nil then None else Some v.cfg) v.st)
  | _ -> "BAD-INPUT"

let assoc_of_obs obs =
  Stdlib.List.map cut_eq (split_on ';' obs)

let spec input obs =
  if Config.table_ok tbl <> true then "FAIL key-table-malformed (see the obligations over BHSGen.ConfigKeys)" else
  match split_on ';' input with
  | "load" :: toks ->
    let (env, sel, dflt) = parse_load toks in
    let file = match sel, dflt with Some (_, f), _ -> f | None, Some f -> f | None, None -> [] in
    (* a selected file with an extension viper does not know: the property statement is silent; only the
       model comparison speaks (HEAD refuses it) *)
    if unsupported_selection sel then "OK" else
    (match Config.load_files_spec tbl env sel dflt with
     | None ->
       if obs = "LOAD-ERROR" then "OK"
       else
         (* WHY the contract refuses (C20_load_refuses_iff): an ill-typed winning value, or a log level zerolog
            does not know *)
         (match Config.load_refusal (Config.env_of_spec tbl) tbl env file with
          | Some Config.BadLogLevel -> "FAIL invalid-logging-accepted got " ^ obs
          | _ -> "FAIL ill-typed-value-accepted got " ^ obs)
     | Some cfg ->
       if obs = "LOAD-ERROR" then begin
         let blank = Stdlib.List.exists (fun (_, v) -> v = String.EmptyString) env in
         let env_nb = Stdlib.List.filter (fun (_, v) -> v <> String.EmptyString) env in
         (* the blank variable of a string key ignored (the known finding) and what is left is refused for a
            reason of its own: not a refusal of valid sources *)
         if blank && Config.load_files_spec tbl env_nb sel dflt = None then "FAIL env-empty-ignored the blank variable is skipped and the remaining sources are refused"
         else if blank then "FAIL load-refused-valid-sources a blank variable must never make Load fail"
         else "FAIL load-refused-valid-sources" end else
       let got = assoc_of_obs obs in
       let bad = ref None in
       Stdlib.List.iter (fun (k, v) ->
           if (match !bad with None -> true | Some (c, _) -> c = "env-empty-ignored" || c = "section-env-shadows-file") then begin
             let k = string_of_cs k and v = string_of_cs v in
             let g = try Some (Stdlib.List.assoc k got) with Not_found -> None in
             if g <> Some v then begin
               let var = Config.env_name (cs_of_string k) in
               let cls = match Config.lookup env var with
                 | Some String.EmptyString ->
                   (* a blank variable: for a string-typed key the contract says the key becomes empty (the code
                      ignores it: the known finding); for any other type the empty text is no value of the
                      type and the file or the default must be in force *)
                   if Config.stringy (Config.type_of tbl (cs_of_string k)) then "env-empty-ignored"
                   else "blank-env-not-ignored"
                 | Some _ -> "env-not-effective"
                 | None ->
                   (match Config.lookup file (cs_of_string k) with
                    | Some _ ->
                      (* the file's entry lost although the key's own variable is unset: because a non-empty
                         variable is named like a section above the key (known finding), or otherwise *)
                      let dflt_k = match table_entry k with Some ((_, _), d) -> Some (string_of_cs d) | None -> None in
                      if Config.shadowed env (cs_of_string k) && g = dflt_k && g <> None
                      then "section-env-shadows-file" else "file-not-effective"
                    | None -> "default-not-kept") in
               let weak c = (c = "env-empty-ignored" || c = "section-env-shadows-file") in
               if !bad = None || not (weak cls) then
                 bad := Some (cls, Printf.sprintf "FAIL %s key=%s want=%s got=%s" cls k v
                                (match g with Some x -> x | None -> "<absent>"))
             end
           end) (ml_list cfg);
       (match !bad with
        | Some (_, m) -> m
        | None ->
          if Stdlib.List.length got <> Stdlib.List.length (ml_list cfg) + 1 then "FAIL key-set-differs-from-table"
          else
            let dbc = Config.db_of_cfg cfg in
            let want = Config.db_okb dbc (fs_of toks dbc.Config.prepared_path) in
            let v = try Stdlib.List.assoc "validate" got with Not_found -> "<absent>" in
            if want && v <> "OK" then "FAIL valid-db-refused " ^ v
            else if (not want) && (v = "OK" || Stdlib.String.length v < 4 || Stdlib.String.sub v 0 4 <> "ERR ") then "FAIL invalid-db-accepted " ^ v
            else "OK"))
  | "validate" :: toks ->
    let v = parse_validate toks in
    let accepted = (obs = "OK") in
    let refused = Stdlib.String.length obs > 4 && Stdlib.String.sub obs 0 4 = "ERR " in
    if not (accepted || refused) then "FAIL malformed-observable " ^ obs
    else if v.nil then (if refused then "OK" else "FAIL nil-db-accepted")
    else
      let want = Config.db_okb v.cfg v.st in
      if want = accepted then "OK"
      else if accepted then
        (if v.st = Config.StatError && v.cfg.Config.prepared
            && Config.db_okb v.cfg Config.Found
         then "FAIL prepared-stat-error-accepted the prepared-database file cannot be there, yet the section is accepted"
         else "FAIL invalid-db-accepted")
      else "FAIL valid-db-refused " ^ obs
  | "docdefault" :: toks ->
    (match parse_doc toks with
     | None -> "FAIL malformed-input"
     | Some (k, v) ->
       (match table_entry k with
        | None -> "FAIL documented-key-unknown key=" ^ k
        | Some ((_, ty), _) ->
          let want = match Config.canon ty (cs_of_string v) with Some c -> string_of_cs c | None -> "<ill-typed " ^ v ^ ">" in
          if obs = k ^ "=" ^ want then "OK"
          else Printf.sprintf "FAIL documented-default-differs documented=%s actual=%s" want obs))
  | _ -> "FAIL malformed-input"

let () = run_driver model spec
