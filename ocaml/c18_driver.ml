(* C18 driver: runs the extracted Peers / ConnMgr models on the harness cases and applies the
   extracted spec oracles (Peers.check_trace, ConnMgr.cm_check) to the implementation's observables. *)
open Vutil

let zi = z_of_int
let iz = int_of_z
let sl = Stdlib.List.length
let smap = Stdlib.List.map
let sort_ints l = Stdlib.List.sort compare l
let join sep l = Stdlib.String.concat sep l

let head_int head key def =
  let r = ref def in
  Stdlib.List.iter (fun w ->
      let k = key ^ "=" in
      let lk = String.length k in
      if String.length w > lk && String.sub w 0 lk = k then
        (try r := int_of_string (String.sub w lk (String.length w - lk)) with _ -> ())) head;
  !r

(* ------------------------------------------------------------------ admission *)
type tok = TAdd of char * int * int | TDone of int | TDisc of int | TBan of int | TTick of int | TBad

let parse_adm_tok e =
  let n = String.length e in
  try
    if n >= 2 && (e.[0] = 'A' || e.[0] = 'L') then
      (match split_on '.' (String.sub e 2 (n - 2)) with
       | [""; p; h] when (e.[1] = 'i' || e.[1] = 'o' || e.[1] = 'p') ->
         let p = int_of_string p and h = int_of_string h in
         if p > 0 && h >= 0 && h < 300 then TAdd (e.[1], p, h) else TBad
       | _ -> TBad)
    else if n >= 3 && e.[0] = 'X' && e.[1] = '.' then TDone (int_of_string (String.sub e 2 (n - 2)))
    else if n >= 3 && e.[0] = 'C' && e.[1] = '.' then TDisc (int_of_string (String.sub e 2 (n - 2)))
    else if n >= 2 && e.[0] = 'B' then
      (let h = int_of_string (String.sub e 1 (n - 1)) in if h >= 0 && h < 300 then TBan h else TBad)
    else if n >= 2 && e.[0] = 'T' then
      (let k = int_of_string (String.sub e 1 (n - 1)) in if k >= 0 && k <= 1000000000 then TTick k else TBad)
    else TBad
  with _ -> TBad

let strict_int s =
  if s = "" then failwith "int" else
    (String.iter (fun c -> if not ((c >= '0' && c <= '9') || c = '-') then failwith "int") s; int_of_string s)

let mk_peer kind pid h : Peers.peer =
  { Peers.pid = zi pid; Peers.host = zi h; Peers.group = zi (h / 3);
    Peers.pkind = (match kind with 'i' -> Peers.Inbound | 'o' -> Peers.Outbound | _ -> Peers.Persistent) }

(* the case as a list of (token text, model event option); None = token the runner ignores ("?") *)
let adm_events (toks : string list) =
  let specs = Hashtbl.create 16 in
  Stdlib.List.iter (fun e -> match parse_adm_tok e with
      | TAdd (k, p, h) -> if not (Hashtbl.mem specs p) then Hashtbl.replace specs p (k, h)
      | _ -> ()) toks;
  let added = Hashtbl.create 16 in
  let clock = ref 0 in
  let evs = smap (fun e ->
      match parse_adm_tok e with
      | TAdd (k, p, h) ->
        (match Hashtbl.find_opt specs p with
         | Some (k0, h0) when k0 = k && h0 = h && not (Hashtbl.mem added p) ->
           Hashtbl.replace added p ();
           (`Add, Some (Peers.Add (mk_peer k p h, zi !clock)), !clock)
         | _ -> (`Bad, None, !clock))
      | TDone p ->
        (match Hashtbl.find_opt specs p with
         | Some (k, h) -> (`Done, Some (Peers.Done (mk_peer k p h)), !clock)
         | None -> (`Bad, None, !clock))
      | TDisc p ->
        (match Hashtbl.find_opt specs p with
         | Some (k, h) -> (`Disc, Some (Peers.Disc (mk_peer k p h)), !clock)
         | None -> (`Bad, None, !clock))
      | TBan h -> (`Ban, Some (Peers.Ban (zi h, zi !clock)), !clock)
      | TTick k -> clock := !clock + k; (`Tick, None, !clock)
      | TBad -> (`Bad, None, !clock)) toks in
  let peers = Hashtbl.fold (fun p (k, h) acc -> (zi p, mk_peer k p h) :: acc) specs [] in
  (evs, peers)

let adm_cfg head : Peers.cfg =
  { Peers.max_peers = zi (head_int head "mp" 0); Peers.max_per_ip = zi (head_int head "ip" 0);
    Peers.ban_dur = zi (head_int head "D" 10) }

let kv_nonzero (m : (BinNums.coq_Z * BinNums.coq_Z) list) =
  let l = Stdlib.List.filter (fun (_, v) -> v <> 0) (smap (fun (k, v) -> (iz k, iz v)) m) in
  join "," (smap (fun (k, v) -> Printf.sprintf "%d:%d" k v) (Stdlib.List.sort compare l))

let adm_digest (s : Peers.st) clock =
  let ids m = join "," (smap string_of_int (sort_ints (smap (fun (k, _) -> iz k) m))) in
  let b = Stdlib.List.filter (fun (_, l) -> l >= 1)
      (Stdlib.List.sort compare (smap (fun (h, e) -> (iz h, iz e - clock)) s.Peers.banned)) in
  Printf.sprintf "n%d/I%s/O%s/P%s/H%s/G%s/B%s" (iz (Peers.total s)) (ids s.Peers.inb) (ids s.Peers.outb) (ids s.Peers.pers)
    (kv_nonzero s.Peers.ccount) (kv_nonzero s.Peers.groups)
    (join "," (smap (fun (h, l) -> Printf.sprintf "%d:%d" h l) b))

let adm_model head toks =
  let c = adm_cfg head in
  let evs, _ = adm_events toks in
  let s = ref Peers.init in
  let out = smap (fun (kind, ev, clock) ->
      let tag = match kind, ev with
        | `Add, Some e ->
          (* Connected() after the call: an admitted peer is connected; a refused one was
             disconnected by the handler or had disconnected before *)
          let (s', d) = Peers.step c !s e in s := s'; if d then "a11" else "a00"
        | `Done, Some e -> let (s', _) = Peers.step c !s e in s := s'; "x"
        | `Disc, Some e -> let (s', _) = Peers.step c !s e in s := s'; "c"
        | `Ban, Some e -> let (s', _) = Peers.step c !s e in s := s'; "b"
        | `Tick, _ -> "t"
        | _ -> "?" in
      tag ^ ":" ^ adm_digest !s clock) evs in
  if out = [] then "-" else join " " out

(* parse "n3/I1,2/O/P/H0:1/G/B0:10" *)
let parse_ids s = if s = "" then [] else smap (fun w -> zi (strict_int w)) (split_on ',' s)
let parse_kv s = if s = "" then [] else smap (fun w -> match split_on ':' w with
    | [k; v] -> (zi (strict_int k), zi (strict_int v)) | _ -> failwith "kv") (split_on ',' s)
let parse_ost (d : string) : Peers.ost =
  match split_on '/' d with
  | [n; i; o; p; h; g; b] when n <> "" && n.[0] = 'n' && i <> "" && i.[0] = 'I' && o <> "" && o.[0] = 'O'
                               && p <> "" && p.[0] = 'P' && h <> "" && h.[0] = 'H' && g <> "" && g.[0] = 'G' && b <> "" && b.[0] = 'B' ->
    let tl s = String.sub s 1 (String.length s - 1) in
    { Peers.o_n = zi (strict_int (tl n)); Peers.o_inb = parse_ids (tl i); Peers.o_outb = parse_ids (tl o);
      Peers.o_pers = parse_ids (tl p); Peers.o_hosts = parse_kv (tl h); Peers.o_groups = parse_kv (tl g);
      Peers.o_banned = parse_kv (tl b) }
  | _ -> failwith "ost"

let adm_class = function
  | 1 -> "above-total-limit" | 2 -> "above-host-limit" | 3 -> "host-counter-wrong" | 4 -> "group-counter-wrong"
  | 5 -> "admitted-while-banned" | 6 -> "refused-without-cause" | 7 -> "decision-state-mismatch"
  | 8 -> "left-peer-still-admitted" | 9 -> "count-field-wrong" | 10 -> "admitted-after-it-left" | _ -> "unclassified"

let adm_spec head toks obs =
  let c = adm_cfg head in
  let evs, peers = adm_events toks in
  let ws = words obs in
  if toks = [] then "OK"
  else if sl ws <> sl evs then
    (if sl ws >= 1 && Stdlib.List.hd ws = "LIMITS" then "FAIL case-limits-differ the case names other limits than the compiled ones"
     else "FAIL malformed-observable word count")
  else
    try
      let pairs = Stdlib.List.combine evs ws in
      if Stdlib.List.exists (fun (_, w) -> String.length w >= 5 && String.sub w 0 5 = "PANIC") pairs then "FAIL panic handler panicked"
      else begin
        let mevs = ref [] and mobs = ref [] in
        Stdlib.List.iter (fun ((kind, ev, _), w) ->
            match Stdlib.String.index_opt w ':' with
            | None -> failwith "word"
            | Some i ->
              let tag = String.sub w 0 i and d = String.sub w (i + 1) (String.length w - i - 1) in
              let o = parse_ost d in
              (match kind, ev with
               | `Add, Some e ->
                 if String.length tag <> 3 || tag.[0] <> 'a' then failwith "tag";
                 (* a refused peer must be disconnected afterwards, an admitted one connected; an
                    admitted peer that had disconnected before is left to the oracle (class
                    admitted-after-it-left) *)
                 let gone = (match e with Peers.Add (p, _) -> Peers.was_disc (Stdlib.List.rev !mevs) p.Peers.pid | _ -> false) in
                 if tag.[1] <> tag.[2] && not (tag = "a10" && gone) then failwith "connected";
                 mevs := e :: !mevs; mobs := ((tag.[1] = '1'), o) :: !mobs
               | (`Done | `Ban | `Disc), Some e -> mevs := e :: !mevs; mobs := (false, o) :: !mobs
               | _ -> ())) pairs;
        match Peers.check_trace c peers [] Peers.empty_ost (Stdlib.List.rev !mevs) (Stdlib.List.rev !mobs) with
        | Peers.VOk -> "OK"
        | Peers.VFail (cls, det) -> Printf.sprintf "FAIL %s at %s" (adm_class (int_of_nat cls)) (dec_of_z det)
      end
    with Failure "connected" -> "FAIL connected-flag-mismatch rejected peer left connected or admitted peer disconnected"
       | Failure m -> "FAIL malformed-observable " ^ m

(* ------------------------------------------------------------------ connection manager *)
let parse_cm_tok e =
  let n = String.length e in
  try
    if e = "E" then Some ConnMgr.SE
    else if e = "Z" then Some ConnMgr.SZ
    else if e = "C" then Some ConnMgr.SC
    else if e = "BF" then Some ConnMgr.SBF
    else if n >= 3 && e.[0] = 'B' && (e.[1] = 'E' || e.[1] = 'G') then
      (let v = strict_int (String.sub e 2 (n - 2)) in
       if v < 0 || v > 250 then None
       else if e.[1] = 'E' then Some (ConnMgr.SBE (zi v)) else Some (ConnMgr.SBG (zi v)))
    else if n >= 2 then
      let v = strict_int (String.sub e 1 (n - 1)) in
      if v < 0 then None else
        (match e.[0] with
         | 'G' when v <= 250 -> Some (ConnMgr.SG (zi v))
         | 'K' when v <= 250 -> Some (ConnMgr.SK (zi v))
         | 'F' when v <= 250 -> Some (ConnMgr.SF (zi v))
         | 'D' -> Some (ConnMgr.SD (zi v))
         | 'R' -> Some (ConnMgr.SR (zi v))
         | _ -> None)
    else None
  with _ -> None

let cm_digest (s : ConnMgr.cst) =
  let d = sort_ints (smap iz (ConnMgr.dialing_addrs s)) in
  let rec grp = function
    | [] -> []
    | a :: t -> let same, rest = Stdlib.List.partition (fun x -> x = a) t in (a, 1 + sl same) :: grp rest in
  Printf.sprintf "o%d/w%d/d%s/n%d/b%d" (sl s.ConnMgr.conns) (iz (ConnMgr.n_wait s))
    (join "," (smap (fun (a, n) -> Printf.sprintf "%d:%d" a n) (grp d))) (iz s.ConnMgr.dials) (iz s.ConnMgr.bans)

let cm_model head toks =
  let t = head_int head "t" 0 and mf = head_int head "mf" 0 in
  if t < 1 || t > 64 then "BAD-INPUT" else begin
    let x = ref (ConnMgr.sinit (zi t) (zi mf) (head_int head "nb" 0 <> 1)) in
    let out = ref [ "s:" ^ cm_digest (ConnMgr.core !x) ] in
    Stdlib.List.iter (fun e ->
        let tag = match parse_cm_tok e with
          | None -> "?"
          | Some ev -> let (x', ok) = ConnMgr.sstep !x ev in x := x'; if ok then String.make 1 e.[0] else "-" in
        out := (tag ^ ":" ^ cm_digest (ConnMgr.core !x)) :: !out) toks;
    out := ("e:" ^ cm_digest (ConnMgr.core !x)) :: !out;
    join " " (Stdlib.List.rev !out)
  end

let cm_spec head toks obs =
  let t = head_int head "t" 0 in
  let ws = words obs in
  if sl ws <> sl toks + 2 then
    (if sl ws >= 1 && Stdlib.List.hd ws = "LIMITS" then "FAIL case-limits-differ the case names another threshold than the compiled one"
     else "FAIL malformed-observable word count")
  else
    try
      let res = ref "OK" in
      let cancels = ref 0 in
      Stdlib.List.iteri (fun idx w ->
          if !res = "OK" then
            match Stdlib.String.index_opt w ':' with
            | None -> failwith "word"
            | Some i ->
              let tag = String.sub w 0 i and d = String.sub w (i + 1) (String.length w - i - 1) in
              if tag = "C" || tag = "R" then incr cancels;
              (match split_on '/' d with
                | [o; wq; dl; n; b] ->
                  let num s = strict_int (String.sub s 1 (String.length s - 1)) in
                  let dsum = Stdlib.List.fold_left (fun acc (_, v) -> acc + iz v) 0 (parse_kv (String.sub dl 1 (String.length dl - 1))) in
                  (match int_of_nat (ConnMgr.cm_check (zi t) (zi (num o)) (zi (num wq)) (zi dsum) (zi !cancels)) with
                   | 0 -> if tag = "!" then res := Printf.sprintf "FAIL reaction-missing step %d: the manager did not react within the bound" idx
                   | 1 -> res := Printf.sprintf "FAIL above-target step %d: %s" idx d
                   | 4 -> res := Printf.sprintf "FAIL too-many-requests step %d: %s" idx d
                   | _ ->
                     (* the class names the cause when the implementation reports an address ban *)
                     if num b > 0 && num o + num wq + dsum + num b + !cancels >= t
                     then res := Printf.sprintf "FAIL slot-lost-after-address-ban step %d: %s (target %d)" idx d t
                     else res := Printf.sprintf "FAIL slot-lost step %d: %s (target %d)" idx d t)
                | _ -> failwith "digest")) ws;
      !res
    with Failure m -> "FAIL malformed-observable " ^ m

(* ------------------------------------------------------------------ server wired to the connection manager
   The wired cases are read through the ConnMgr script layer: a connection that dies during or after the
   handshake is a successful dial followed by the Disconnect the server owes the manager; the number of
   connected peers the server reports equals the number of established connections. *)
let wr_digest (s : ConnMgr.cst) =
  (* every admitted outbound peer counts once in its outbound group: g = number of connections *)
  Printf.sprintf "o%d/w%d/c%d/n%d/g%d" (sl s.ConnMgr.conns) (iz (ConnMgr.n_wait s)) (sl s.ConnMgr.conns) (iz s.ConnMgr.dials) (sl s.ConnMgr.conns)

let wr_model head toks =
  let t = head_int head "t" 0 and mf = head_int head "mf" 0 in
  if t < 1 || t > 8 then "BAD-INPUT" else begin
    let x = ref (ConnMgr.sinit (zi t) (zi mf) true) in
    let seq = ref 0 in
    let out = ref [ "s:" ^ wr_digest (ConnMgr.core !x) ] in
    let app ev = let (x', ok) = ConnMgr.sstep !x ev in x := x'; ok in
    Stdlib.List.iter (fun e ->
        let dial ok_dial dies =
          let a = zi (!seq + 1) in
          if app (ConnMgr.SG a) then begin
            incr seq;
            if ok_dial then begin
              ignore (app (ConnMgr.SK a));
              if dies then ignore (app (ConnMgr.SD (zi (sl (ConnMgr.core !x).ConnMgr.conns - 1))))
            end else ignore (app (ConnMgr.SF a));
            true
          end else false in
        let tag =
          (* N4 / N5: a second version message is a protocol violation, the peer drops the connection *)
          if e = "N0" || e = "N1" || e = "N3" || e = "N4" || e = "N5" then (if dial true true then "N" else "-")
          else if e = "N2" then (if dial true false then "N" else "-")
          else if e = "F" then (if dial false false then "F" else "-")
          else if String.length e >= 2 && e.[0] = 'X' then
            (match (try Some (strict_int (String.sub e 1 (String.length e - 1))) with _ -> None) with
             | Some k when k >= 0 -> if app (ConnMgr.SD (zi k)) then "X" else "-"
             | _ -> "?")
          else "?" in
        out := (tag ^ ":" ^ wr_digest (ConnMgr.core !x)) :: !out) toks;
    out := ("e:" ^ wr_digest (ConnMgr.core !x)) :: !out;
    join " " (Stdlib.List.rev !out)
  end

(* oracle: the manager returns to TargetOutbound live connections and keeps dialling - at every
   quiescent point open connections + requests waiting for an address = target, never above it *)
let wr_spec head toks obs =
  let t = head_int head "t" 0 in
  let ws = words obs in
  if sl ws <> sl toks + 2 then
    (if sl ws >= 1 && Stdlib.List.hd ws = "LIMITS" then "FAIL case-limits-differ the case names another threshold than the compiled one"
     else "FAIL malformed-observable word count")
  else
    try
      let res = ref "OK" in
      Stdlib.List.iteri (fun idx w ->
          if !res = "OK" then
            match Stdlib.String.index_opt w ':' with
            | None -> failwith "word"
            | Some i ->
              let tag = String.sub w 0 i and d = String.sub w (i + 1) (String.length w - i - 1) in
              (match split_on '/' d with
               | [o; wq; c; n; g] ->
                 let num s = strict_int (String.sub s 1 (String.length s - 1)) in
                 (match int_of_nat (ConnMgr.cm_check (zi t) (zi (num o)) (zi (num wq)) (zi 0) (zi 0)) with
                  | 0 -> if num g <> num o then res := Printf.sprintf "FAIL group-counter-wrong step %d: %s - the outbound group counters sum to %d with %d outbound connections open" idx d (num g) (num o)
                    else if tag = "!" then res := Printf.sprintf "FAIL reaction-missing step %d: no reaction within the bound (%s)" idx d
                    else if num c > num o then res := Printf.sprintf "FAIL connected-above-open step %d: %s" idx d
                  | 1 -> res := Printf.sprintf "FAIL above-target step %d: %s" idx d
                  | 4 -> res := Printf.sprintf "FAIL too-many-requests step %d: %s" idx d
                  | _ -> res := Printf.sprintf "FAIL outbound-slot-not-replaced step %d: %s (target %d): a closed or failed outbound connection was not replaced" idx d t)
               | _ -> failwith "digest")) ws;
      !res
    with Failure m -> "FAIL malformed-observable " ^ m

(* ------------------------------------------------------------------ wired, with the real address source
   The address manager is an ENVIRONMENT of the ConnMgr model: which address it hands out is not observed.
   What the script determines is, at each step, U = the number of outbound groups with a known address
   that has not gone away.  If U >= target every free slot can be filled (a free, usable group exists
   for it), so the target is owed: o = c = target.  If U < target the group filter may make the target
   unreachable (by design): the step is "u".  Dial counts are only determined in scripts without Z/D. *)
type wa_step = WStart | WEnd | WEv of string * bool   (* tag, applies *)

let wa_addr s with_flags =
  match split_on '.' s, with_flags with
  | [g; i], false | [g; i; _], true ->
    (try
       let g = strict_int g and i = strict_int i in
       if g < 0 || g > 99 || i < 0 || i > 99 then None
       else if with_flags then
         (match split_on '.' s with
          | [_; _; fl] when (String.length fl = 2 || (String.length fl = 3 && fl.[2] >= '1' && fl.[2] <= '8'))
                            && (fl.[0] = 'd' || fl.[0] = 'n') && (fl.[1] = 'f' || fl.[1] = 'r') -> Some (g, i)
          | _ -> None)
       else Some (g, i)
     with _ -> None)
  | _ -> None

(* returns (bad, star, expected words as (tag option: None = "u", Some tag), for s / events / e) *)
let wa_plan head toks =
  let t = head_int head "t" 0 in
  let known = Hashtbl.create 16 and gone = Hashtbl.create 16 in
  let bad = ref (t < 1 || t > 8) in
  let rest = Stdlib.List.filter (fun e ->
      if String.length e >= 2 && e.[0] = 'a' then begin
        (match wa_addr (String.sub e 1 (String.length e - 1)) true with
         | Some (g, i) -> if not (Hashtbl.mem known (g, i)) then Hashtbl.replace known (g, i) ()
         | None -> bad := true);
        false
      end else true) toks in
  let star = Stdlib.List.exists (fun e -> String.length e >= 2 && (e.[0] = 'Z' || e.[0] = 'D')) rest in
  let usable () =
    let gs = Hashtbl.create 8 in
    Hashtbl.iter (fun (g, i) () -> if not (Hashtbl.mem gone (g, i)) then Hashtbl.replace gs g ()) known;
    Hashtbl.length gs in
  let xs = ref 0 in
  let word tag = if usable () >= t then Some tag else None in
  let first = word "s" in
  let steps = smap (fun e ->
      let n = String.length e in
      let tag =
        if n >= 2 && e.[0] = 'X' then
          (match (try Some (strict_int (String.sub e 1 (n - 1))) with _ -> None) with
           | Some k when k >= 0 -> incr xs; "X"   (* applies whenever the step is owed: live = target >= 1 *)
           | _ -> "?")
        else if n >= 2 && (e.[0] = 'Z' || e.[0] = 'D') then
          (match wa_addr (String.sub e 1 (n - 1)) false with
           | Some k -> if Hashtbl.mem known k then (Hashtbl.replace gone k (); String.make 1 e.[0]) else "-"
           | None -> "?")
        else if n >= 2 && e.[0] = 'B' then
          (match wa_addr (String.sub e 1 (n - 1)) true with
           | Some k -> if not (Hashtbl.mem known k) then Hashtbl.replace known k (); "B"
           | None -> "?")
        else "?" in
      (word tag, !xs)) rest in
  let last = word "e" in
  (* dial counts are only determined when no address goes away and the target is owed from the start
     (without Z/D the number of usable groups never decreases) *)
  let star = star || first = None in
  (!bad, star, t, first, steps, last, !xs)

let wa_model head toks =
  let (bad, star, t, first, steps, last, xs) = wa_plan head toks in
  if bad then "BAD-INPUT" else begin
    let w tag n = match tag with
      | None -> "u"
      | Some tg -> Printf.sprintf "%s:o%d/c%d/n%s" tg t t (if star then "*" else string_of_int (t + n)) in
    join " " ([ w first 0 ] @ smap (fun (tg, n) -> w tg n) steps @ [ w last xs ])
  end

(* oracle: whenever the known, not departed addresses offer at least as many outbound groups as the
   target, the manager is (back) at TargetOutbound within the bound - and the address manager answers *)
let wa_spec head toks obs =
  let (bad, _, t, first, steps, last, _) = wa_plan head toks in
  if obs = "BAD-INPUT" then (if bad then "OK" else "FAIL malformed-observable")
  else
    let ws = words obs in
    let plan = [ first ] @ smap fst steps @ [ last ] in
    if sl ws <> sl plan then
      (if sl ws >= 1 && Stdlib.List.hd ws = "LIMITS" then "FAIL case-limits-differ the case names another threshold than the compiled one"
       else if sl ws >= 1 && (Stdlib.List.hd ws = "CHILD-TIMEOUT" || Stdlib.List.hd ws = "CHILD-FAILED")
       then "FAIL outbound-target-not-reached the case did not finish within the hard limit of its child process: " ^ obs
       else "FAIL malformed-observable word count")
    else
      try
        let res = ref "OK" in
        Stdlib.List.iteri (fun idx (w, owed) ->
            if !res = "OK" then begin
              let blocked =
                let sfx = "/ADDRMGR-BLOCKED" in
                let ls = String.length sfx and lw = String.length w in
                lw >= ls && String.sub w (lw - ls) ls = sfx in
              let counts =
                (try ignore (Str.search_forward (Str.regexp_string "/ADDRMGR-COUNTS:") w 0); true with Not_found -> false) in
              if counts then
                res := Printf.sprintf "FAIL addrmgr-counters-disagree step %d: %s - the address manager's counters (nTried-in tried table, nNew-in new table, index) no longer describe its tables; GetAddress decides by the counters" idx w
              else if blocked then
                res := Printf.sprintf "FAIL outbound-target-not-reached step %d: %s - ADDRMGR-BLOCKED: a call into the address manager (GetAddress / AddAddresses / NeedMoreAddresses) does not return, the manager can never dial again" idx w
              else match owed with
                | None -> if w <> "u" then failwith "expected u"
                | Some _ ->
                  (match Stdlib.String.index_opt w ':' with
                   | None -> failwith "word"
                   | Some i ->
                     let d = String.sub w (i + 1) (String.length w - i - 1) in
                     (match split_on '/' d with
                      | [o; c; _] ->
                        let num s = strict_int (String.sub s 1 (String.length s - 1)) in
                        (match int_of_nat (ConnMgr.cm_check (zi t) (zi (num o)) (zi 0) (zi 0) (zi 0)) with
                         | 0 -> if num c <> num o then res := Printf.sprintf "FAIL connected-differs-from-open step %d: %s" idx d
                         | 1 -> res := Printf.sprintf "FAIL above-target step %d: %s" idx d
                         | _ -> res := Printf.sprintf "FAIL outbound-target-not-reached step %d: %s (target %d): the manager did not get back to the target within the bound" idx d t)
                      | _ -> failwith "digest"))
            end) (Stdlib.List.combine ws plan);
        !res
      with Failure m -> "FAIL malformed-observable " ^ m

(* ------------------------------------------------------------------ *)
(* ab: the address manager's bookkeeping (AddrBook.step) on a script with the realised bucket hits *)
let ab_keys = 6
let ab_snap (s : AddrBook.st) =
  let z x = Z.to_string (zt_of_z x) in
  Printf.sprintf "%s,%s,%s,%s,%d/%s" (z (AddrBook.n_tried s)) (z (AddrBook.n_new s)) (z (AddrBook.in_tried s)) (z (AddrBook.in_new s))
    (Stdlib.List.length (AddrBook.index s))
    (Stdlib.String.concat "," (Stdlib.List.init ab_keys (fun i -> z (AddrBook.refs_of s (n_of_int (i + 1))))))

let ab_model toks =
  let s = ref AddrBook.init and out = ref [] and i = ref 0 in
  (try
     Stdlib.List.iter (fun t ->
         if t <> "" then begin
           incr i;
           let n = Stdlib.String.length t in
           (match t.[0] with
            | 'A' | 'O' ->
              let hit = t.[n - 1] = '+' in
              let body = Stdlib.String.sub t 1 (n - 2) in
              let k = int_of_string (Stdlib.List.hd (split_on '.' body)) in
              (* the bucket the manager's keyed hash chose is not observable: a hit is a bucket the address was not in *)
              s := AddrBook.step !s (AddrBook.OpAdd (n_of_int k, n_of_int (1000 + !i), hit));
              out := ab_snap !s :: !out
            | 'G' -> s := AddrBook.step !s (AddrBook.OpGood (n_of_int (int_of_string (Stdlib.String.sub t 1 (n - 1))), n_of_int (2000 + !i)));
              out := ab_snap !s :: !out
            | 'B' -> s := AddrBook.step !s (AddrBook.OpBan (n_of_int (int_of_string (Stdlib.String.sub t 1 (n - 1)))));
              out := ab_snap !s :: !out
            | 'Q' -> out := ((if AddrBook.index !s = [] then "nil:" else "some:") ^ ab_snap !s) :: !out
            | _ -> failwith "op")
         end) toks;
     Stdlib.String.concat ";" (Stdlib.List.rev !out)
   with _ -> "BAD-INPUT")

(* declarative oracle on the implementation's own observations: the counters are what the tables hold, the index
   holds exactly the counted addresses, GetAddress returns, with an address iff one is known *)
let ab_spec obs =
  if obs = "BAD-INPUT" then "OK" else
    let bad = Stdlib.List.find_map (fun w ->
        let (pre, body) = match Stdlib.String.index_opt w ':' with
          | Some k -> (Stdlib.String.sub w 0 k, Stdlib.String.sub w (k + 1) (Stdlib.String.length w - k - 1)) | None -> ("", w) in
        if pre = "BLOCKED" then Some ("get-address-does-not-return " ^ w)
        else if body = "LOCKED" || body = "SKIPPED" then Some ("address-manager-locked " ^ w)
        else match split_on '/' body with
          | [cs; _] ->
            (match Stdlib.List.map int_of_string (split_on ',' cs) with
             | [nt; nn; it; inn; idx] ->
               if nt <> it || nn <> inn || idx <> nt + nn then Some ("addrmgr-counters-disagree " ^ w)
               else if pre = "nil" && idx > 0 then Some ("no-address-although-one-is-known " ^ w)
               else if pre = "some" && idx = 0 then Some ("address-from-an-empty-book " ^ w)
               else None
             | _ -> Some ("malformed-observable " ^ w))
          | _ -> Some ("malformed-observable " ^ w)) (split_on ';' obs) in
    match bad with None -> "OK" | Some m -> "FAIL " ^ m

(* ------------------------------------------------------------------ *)
(* na: the outbound address selection (AddrSearch.new_address) on a scripted sequence of draws *)
let na_parse head toks =
  let used = Stdlib.List.concat_map (fun w ->
      if Stdlib.String.length w > 2 && Stdlib.String.sub w 0 2 = "u=" then
        Stdlib.List.filter_map (fun g -> if g = "" then None else Some (int_of_string g))
          (split_on ',' (Stdlib.String.sub w 2 (Stdlib.String.length w - 2)))
      else []) (Stdlib.List.tl head) in
  let draws = Stdlib.List.filter (fun d -> d <> "") toks in
  let parse d =
    if d = "nil" then None else
      match split_on '.' d with
      | [g; pr] when Stdlib.String.length g >= 2 && g.[0] = 'g' && Stdlib.String.length pr = 2 ->
        let gi = int_of_string (Stdlib.String.sub g 1 (Stdlib.String.length g - 1)) in
        if gi < 0 || gi > 200 then failwith "bad draw" else
        Some (gi, pr.[1] = 'r', pr.[0] = 'd')
      | _ -> failwith "bad draw" in
  (used, Stdlib.List.map (fun d -> (d, parse d)) draws)

let na_model head toks =
  match na_parse head toks with
  | exception _ -> "BAD-INPUT"
  | (used, draws) ->
    let picks = Stdlib.List.map (fun (_, p) -> match p with
        | None -> None
        | Some (g, r, dp) -> Some { AddrSearch.c_group = n_of_int g; c_recent = r; c_default_port = dp }) draws in
    let usedf g = Stdlib.List.mem (Z.to_int (zt_of_n g)) used in
    match AddrSearch.new_address picks usedf with
    | None -> "none"
    | Some (i, _) -> let i = int_of_nat i in Printf.sprintf "%d:%s" i (fst (Stdlib.List.nth draws i))

(* declarative oracle, independent of the model's recursion: the answer names the FIRST draw, among the first 100
   and before the source runs dry, that is of a free group, not recently attempted unless 30 draws precede it, on
   the default port unless 50 do; "none" iff there is no such draw *)
let na_spec head toks obs =
  match na_parse head toks with
  | exception _ -> if obs = "BAD-INPUT" then "OK" else "FAIL malformed-observable"
  | (used, draws) ->
    let arr = Stdlib.Array.of_list draws in
    let n = Stdlib.Array.length arr in
    let dry = let rec go i = if i >= n then n else match snd arr.(i) with None -> i | Some _ -> go (i + 1) in go 0 in
    let lim = min (min n 100) dry in
    let ok i = match snd arr.(i) with
      | None -> false
      | Some (g, r, dp) -> not (Stdlib.List.mem g used) && (i >= 30 || not r) && (i >= 50 || dp) in
    let first = let rec go i = if i >= lim then None else if ok i then Some i else go (i + 1) in go 0 in
    (match first with
     | None -> if obs = "none" then "OK" else "FAIL address-returned-that-the-filters-exclude " ^ obs
     | Some i ->
       let want = Printf.sprintf "%d:%s" i (fst arr.(i)) in
       if obs = want then "OK"
       else if obs = "none" then "FAIL no-address-although-a-candidate-passes want " ^ want
       else "FAIL wrong-address want " ^ want ^ " got " ^ obs)

(* ------------------------------------------------------------------ *)
let split_case input =
  match split_on ';' input with
  | [] -> ([], [])
  | h :: t -> (words h, t)

let model input =
  match split_case input with
  | ("adm" :: _ as head), toks -> adm_model head toks
  | ("cm" :: _ as head), toks -> cm_model head toks
  | ("wr" :: _ as head), toks -> wr_model head toks
  | ("wa" :: _ as head), toks -> wa_model head toks
  | ("na" :: _ as head), toks -> na_model head toks
  | ["ab"], toks -> ab_model toks
  | _ -> "BAD-INPUT"

let spec input obs =
  match split_case input with
  | ("adm" :: _ as head), toks -> adm_spec head toks obs
  | ("cm" :: _ as head), toks -> cm_spec head toks obs
  | ("wr" :: _ as head), toks -> wr_spec head toks obs
  | ("wa" :: _ as head), toks -> wa_spec head toks obs
  | ("na" :: _ as head), toks -> na_spec head toks obs
  | ["ab"], _ -> ab_spec obs
  | _ -> if obs = "BAD-INPUT" then "OK" else "FAIL malformed-observable"

let () = run_driver model spec
