(* C08 driver: replays the history of a case through the extracted model of chainService.Add, evaluates the
   extracted model of the merkle-root listing (Merkle.page_http / walk_pages) at every query operation, and
   applies the extracted declarative oracle (Merkle.spec_page / spec_walk_ok on the label-free specification
   store of ChainSpec) to the implementation's observed pages. *)
open Vutil
open Vchain

type op = Sub of Store.src | Q of string * string

let starts_with p s = Stdlib.String.length s >= Stdlib.String.length p && Stdlib.String.sub s 0 (Stdlib.String.length p) = p
let after n s = Stdlib.String.sub s n (Stdlib.String.length s - n)

(* set by parse_case: the history contains zero-work headers (oracle from the history-level spec not applicable) *)
let zero_work = ref false

let parse_case (line : string) =
  zero_work := false;
  let toks = Stdlib.List.filter (fun t -> t <> "") (split_on ';' line) in
  let head = Stdlib.List.filter (fun t -> starts_with "g=" t || starts_with "f=" t) toks in
  let h0 = parse_history (Stdlib.String.concat ";" head) in
  let ho = ref None in
  let ops = Stdlib.List.filter_map (fun t ->
      if starts_with "g=" t || starts_with "f=" t then None
      else if starts_with "zw=" t then (zero_work := true; None)
      else if starts_with "ho=" t then (ho := Some (Stdlib.List.map n_of_string (Stdlib.List.filter (fun x -> x <> "") (split_on ',' (after 3 t)))); None)
      else if Stdlib.String.length t >= 2 && t.[1] = '=' then Some (Q (Stdlib.String.sub t 0 1, after 2 t))
      else match (parse_history t).subs with
        | [s] -> Some (Sub s)
        | _ -> failwith ("bad operation " ^ t)) toks in
  (h0, !ho, ops)

(* hash-text order of ids: position in the ho= list (ids not listed sort last, by id) *)
let hlt_of (ho : BinNums.coq_N list option) : BinNums.coq_N -> BinNums.coq_N -> bool =
  match ho with
  | None -> (fun a b -> Z.lt (zt_of_n a) (zt_of_n b))
  | Some l ->
    let tbl = Hashtbl.create 64 in
    Stdlib.List.iteri (fun i x -> Hashtbl.replace tbl (Z.to_string (zt_of_n x)) i) l;
    let pos x = try Hashtbl.find tbl (Z.to_string (zt_of_n x)) with Not_found -> 1000000 + Z.to_int (zt_of_n x) in
    (fun a b -> pos a < pos b)

let big40 = Z.shift_left Z.one 40
let big41 = Z.shift_left Z.one 41

let root_of_tok (t : string) : BinNums.coq_N =
  let n = Z.of_string (after 1 t) in
  match t.[0] with
  | 'r' -> n_of_zt n
  | 'u' -> n_of_zt (Z.add big40 n)
  | 'x' -> n_of_zt (Z.add big41 n)
  | _ -> failwith ("bad root token " ^ t)

let tok_of_root (r : BinNums.coq_N) : string =
  let n = zt_of_n r in
  if Z.geq n big41 then "x" ^ Z.to_string (Z.sub n big41)
  else if Z.geq n big40 then "u" ^ Z.to_string (Z.sub n big40)
  else "r" ^ Z.to_string n

let key_of_tok = function "-" | "e" -> None | t -> Some (root_of_tok t)

let batch_of_tok (t : string) : Merkle.batch_arg =
  if t = "abs" then Merkle.BAbsent
  else if starts_with "j" t then Merkle.BJunk
  else Merkle.BInt (z_of_string t)

let content_string (c : (BinNums.coq_N * BinNums.coq_Z) list) =
  Stdlib.String.concat "," (Stdlib.List.map (fun (r, h) -> tok_of_root r ^ ":" ^ dec_of_z h) c)

let page_string = function
  | Merkle.PErrNotFound -> "404/ErrMerkleRootNotFound"
  | Merkle.PErrConflict -> "409/ErrMerkleRootNotInLongestChain"
  | Merkle.PErrNoTip -> "500/error-unknown"
  | Merkle.POk (c, k, t) ->
    Printf.sprintf "200/%s/%s/%s/%d" (content_string c) (match k with None -> "-" | Some r -> tok_of_root r) (dec_of_z t) (Stdlib.List.length c)

let http_string = function Merkle.HBadBatch -> "400/ErrInvalidBatchSize" | Merkle.HPage p -> page_string p

(* the page size the handler passes on (as a Coq Z), or None when it answers 400 (malformed, negative, above 2^63-1) *)
let max_int64 = Z.of_string "9223372036854775807"
let batch_z (b : Merkle.batch_arg) : BinNums.coq_Z option =
  match b with
  | Merkle.BAbsent -> Some (z_of_int 2000)
  | Merkle.BJunk -> None
  | Merkle.BInt z -> let v = zt_of_z z in if Z.sign v < 0 || Z.gt v max_int64 then None else Some z
let ge1 (z : BinNums.coq_Z) = Z.sign (zt_of_z z) > 0

let split_arg a = let i = Stdlib.String.index a ':' in (Stdlib.String.sub a 0 i, after (i + 1) a)

let model input =
  let (h, ho, ops) = parse_case input in
  let hlt = hlt_of ho in
  let s = ref (Chain.init h.gid h.gpl) in
  let cursor = ref None in
  let out = ref [] in
  Stdlib.List.iter (function
      | Sub sub -> s := fst (Chain.add h.forbidden !s sub)
      | Q ("p", a) ->
        let (b, k) = split_arg a in
        out := http_string (Merkle.page_http hlt !s (batch_of_tok b) (key_of_tok k)) :: !out
      | Q ("w", a) ->
        (match batch_z (batch_of_tok a) with
         | None -> out := "400/ErrInvalidBatchSize" :: !out
         | Some b ->
           (* Merkle.cap: the count capped at rows + 1 (C08_page_http_cap: the same pages) *)
           let pages = Merkle.walk_pages (nat_of_int (Stdlib.List.length !s + 3)) hlt !s (Merkle.cap !s b) in
           out := Stdlib.String.concat "+" (Stdlib.List.map page_string pages) :: !out)
      | Q ("c", a) ->
        let r = Merkle.page_http hlt !s (batch_of_tok a) !cursor in
        (match r with Merkle.HPage (Merkle.POk (_, k, _)) -> cursor := k | _ -> ());
        out := http_string r :: !out
      | Q ("z", _) -> cursor := None
      | Q ("d", _) -> s := Stdlib.List.map (Store.set_st Store.Stale) !s
      | Q (t, _) -> failwith ("unknown operation " ^ t)) ops;
  Stdlib.String.concat "|" (Stdlib.List.rev !out)

(* ---- the declarative oracle on the implementation's observable ---- *)
exception Malformed

let parse_content (s : string) =
  if s = "" then [] else
    Stdlib.List.map (fun e ->
        match split_on ':' e with
        | [t; h] -> if t = "?" then raise Malformed else (root_of_tok t, z_of_string h)
        | _ -> raise Malformed) (split_on ',' s)

(* observed block -> page_result (status/codes other than the modelled ones are Malformed) *)
let parse_page (b : string) : Merkle.page_result =
  match split_on '/' b with
  | ["200"; c; k; t; sz] ->
    let c = parse_content c in
    if int_of_string sz <> Stdlib.List.length c then raise Malformed;
    if k = "?" then raise Malformed;
    Merkle.POk (c, (if k = "-" then None else Some (root_of_tok k)), z_of_string t)
  | ["404"; "ErrMerkleRootNotFound"] -> Merkle.PErrNotFound
  | ["409"; "ErrMerkleRootNotInLongestChain"] -> Merkle.PErrConflict
  | _ -> raise Malformed

let spec input obs =
  let (h, _, ops) = parse_case input in
  let nq = Stdlib.List.length (Stdlib.List.filter (function Q (t, _) -> t <> "z" && t <> "d" | _ -> false) ops) in
  let blocks = if obs = "" && nq = 0 then [] else split_on '|' obs in
  if Stdlib.List.length blocks <> nq then "FAIL answer-block-count"
  else if !zero_work then (if Stdlib.List.exists (fun b -> Stdlib.List.mem "PANIC" (split_on '+' b)) blocks then "FAIL panic zero-work history" else "OK")
  else begin
    let ss = ref (Chain.init h.gid h.gpl) in       (* label-free specification store *)
    let blocks = ref blocks in
    let verdict = ref "OK" in
    let fail c d = if !verdict = "OK" then verdict := "FAIL " ^ c ^ " " ^ d in
    let qi = ref 0 in
    let cursor = ref None in
    let damaged = ref false in
    let distinct_cache = ref None in
    let acc = ref [] and listings = ref [] in      (* interleaved walk: contents so far, listings seen *)
    let next () = let b = Stdlib.List.hd !blocks in blocks := Stdlib.List.tl !blocks; incr qi; b in
    (* one observed page against the declarative page for (batch, key); returns the parsed page *)
    let check_page what (b : string) (batch : BinNums.coq_Z) (key : BinNums.coq_N option) : Merkle.page_result option =
      let tip = ChainSpec.spec_tip !ss in
      (* "at most batch entries": a count above the number of rows is capped at rows + 1 to stay executable *)
      let want = Merkle.spec_page !ss tip (Merkle.cap !ss batch) key in
      if b = "PANIC" then (fail "panic" (Printf.sprintf "query %d" !qi); None) else
        match (try Some (parse_page b) with _ -> None) with
        | None -> fail "unexpected-answer" (Printf.sprintf "query %d %s got %s want %s" !qi what b (page_string want)); None
        | Some got ->
          if not (Merkle.page_result_eqb got want) then begin
            let cls = match want, got with
              | Merkle.PErrNotFound, _ -> "unknown-key-not-rejected"
              | Merkle.PErrConflict, _ -> "off-chain-key-not-conflict"
              | Merkle.POk (c, k, t), Merkle.POk (c', k', t') ->
                if not (Merkle.list_eqb Merkle.pair_eqb c c') then "page-content-wrong"
                else if k <> k' then "page-last-key-wrong" else "page-total-wrong"
              | _, _ -> "page-rejected" in
            fail cls (Printf.sprintf "query %d %s got %s want %s" !qi what b (page_string want))
          end;
          Some got in
    Stdlib.List.iter (function
        | Sub sub -> ss := fst (ChainSpec.spec_step h.forbidden !ss sub); distinct_cache := None
        | Q ("z", _) -> cursor := None; acc := []; listings := []
        | Q ("d", _) -> damaged := true
        | Q (_, _) when !damaged -> ignore (next ())       (* outside the quantifier: model = implementation only *)
        | Q (t, a) when !verdict = "OK" ->
          let b = next () in
          (* quadratic in the store size: computed once per store *)
          let distinct = match !distinct_cache with
            | Some d -> d
            | None -> let d = Merkle.roots_distinct_b !ss in distinct_cache := Some d; d in
          let tip = ChainSpec.spec_tip !ss in
          if not distinct then begin
            (* outside the quantifier of the property: only model = implementation is required *)
            if t = "c" then (match (try Some (parse_page b) with _ -> None) with Some (Merkle.POk (_, k, _)) -> cursor := k | _ -> ())
          end else begin
            match t with
            | "p" ->
              let (bt, k) = split_arg a in
              (match batch_z (batch_of_tok bt) with
               | None -> if b <> "400/ErrInvalidBatchSize" then fail "bad-batch-not-rejected" (Printf.sprintf "query %d got %s" !qi b)
               | Some n -> ignore (check_page "page" b n (key_of_tok k)))
            | "c" ->
              (match batch_z (batch_of_tok a) with
               | None -> if b <> "400/ErrInvalidBatchSize" then fail "bad-batch-not-rejected" (Printf.sprintf "query %d got %s" !qi b)
               | Some n ->
                 listings := Merkle.spec_listing !ss tip :: !listings;
                 (match check_page "continue" b n !cursor with
                  | Some (Merkle.POk (c, k, _)) ->
                    acc := !acc @ c; cursor := k;
                    if k = None && ge1 n then begin
                      (* the walk is over: if the longest chain only grew while it ran, it was listed exactly once *)
                      let final = Merkle.spec_listing !ss tip in
                      let rec is_prefix a b = match a, b with [] , _ -> true | x :: a', y :: b' -> Merkle.pair_eqb x y && is_prefix a' b' | _, [] -> false in
                      if Stdlib.List.for_all (fun l -> is_prefix l final) !listings && not (Merkle.list_eqb Merkle.pair_eqb !acc final) then
                        fail "interleaved-walk-incomplete" (Printf.sprintf "query %d listed %s want %s" !qi (content_string !acc) (content_string final));
                      acc := []; listings := []
                    end
                  | _ -> ()))
            | "w" ->
              (match batch_z (batch_of_tok a) with
               | None -> if b <> "400/ErrInvalidBatchSize" then fail "bad-batch-not-rejected" (Printf.sprintf "query %d got %s" !qi b)
               | Some n ->
                 let pages = split_on '+' b in
                 (* every page is the declarative page for the key the previous page returned *)
                 let key = ref None and stop = ref false and contents = ref [] and lastkey = ref None in
                 Stdlib.List.iteri (fun i pb ->
                     if not !stop then
                       match check_page (Printf.sprintf "walk page %d" i) pb n !key with
                       | Some (Merkle.POk (c, k, _)) -> contents := c :: !contents; key := k; lastkey := k
                       | _ -> stop := true) pages;
                 if !verdict = "OK" && ge1 n then begin
                   if !stop then fail "walk-page-error" (Printf.sprintf "query %d %s" !qi b)
                   else if !lastkey <> None then fail "walk-does-not-terminate" (Printf.sprintf "query %d %d pages" !qi (Stdlib.List.length pages))
                   else if not (Merkle.spec_walk_ok !ss tip (Merkle.cap !ss n) (Stdlib.List.rev !contents)) then
                     fail "walk-incomplete" (Printf.sprintf "query %d got %s want %s" !qi b (content_string (Merkle.spec_listing !ss tip)))
                 end)
            | _ -> fail "unknown-operation" t
          end
        | Q (_, _) -> ()) ops;
    !verdict
  end

let () = run_driver model spec
