(* C02 driver: replays the history of a case through the extracted model of chainService.Add, evaluates the
   extracted model of the merkle-root verification path at every q operation, and applies the extracted
   declarative oracle (Merkle.spec_answers_ok / spec_overall_ok on the label-free specification store of
   ChainSpec) to the implementation's observed answers. *)
open Vutil
open Vchain

type op = Sub of Store.src | Query of string | Damage

let starts_with p s = Stdlib.String.length s >= Stdlib.String.length p && Stdlib.String.sub s 0 (Stdlib.String.length p) = p
let after n s = Stdlib.String.sub s n (Stdlib.String.length s - n)

(* set by parse_case: the history contains zero-work headers (oracle from the history-level spec not applicable) *)
let zero_work = ref false

(* head tokens g= f= e= [zw=] ; every other token is an operation *)
let parse_case (line : string) =
  let toks = Stdlib.List.filter (fun t -> t <> "") (split_on ';' line) in
  let head = Stdlib.List.filter (fun t -> starts_with "g=" t || starts_with "f=" t) toks in
  let h0 = parse_history (Stdlib.String.concat ";" head) in
  let excess = ref (z_of_int 6) in
  zero_work := false;
  let ops = Stdlib.List.filter_map (fun t ->
      if starts_with "g=" t || starts_with "f=" t then None
      else if starts_with "zw=" t then (zero_work := true; None)
      else if starts_with "e=" t then (excess := z_of_string (after 2 t); None)
      else if starts_with "q=" t then Some (Query (after 2 t))
      else if starts_with "d=" t then Some Damage
      else match (parse_history t).subs with
        | [s] -> Some (Sub s)
        | _ -> failwith ("bad operation " ^ t)) toks in
  (h0, !excess, ops)

let big40 = Z.shift_left Z.one 40
let big41 = Z.shift_left Z.one 41

(* root token -> abstract root id: r<id> is the id; u<id> / x<k> are texts no row carries *)
let root_of_tok (t : string) : BinNums.coq_N =
  let n = Z.of_string (after 1 t) in
  match t.[0] with
  | 'r' -> n_of_zt n
  | 'u' -> n_of_zt (Z.add big40 n)
  | 'x' -> n_of_zt (Z.add big41 n)
  | _ -> failwith ("bad root token " ^ t)

let tok_of_root (r : BinNums.coq_N) : string =
  let n = zt_of_n r in
  if Z.geq n big41 then "x" ^ Z.to_string (Z.sub n big41)
  else if Z.geq n big40 then "u" ^ Z.to_string (Z.sub n big40)
  else "r" ^ Z.to_string n

let parse_items (s : string) : (BinNums.coq_N * BinNums.coq_Z) list =
  if s = "" then [] else
    Stdlib.List.map (fun p ->
        let i = Stdlib.String.rindex p ':' in
        (root_of_tok (Stdlib.String.sub p 0 i), z_of_string (after (i + 1) p))) (split_on ',' s)

let conf_letter = function Merkle.Confirmed _ -> "C" | Merkle.UnableToVerify -> "U" | Merkle.Invalid -> "I"
let conf_hash = function Merkle.Confirmed x -> dec_of_n x | _ -> "-"
let overall_letter = function Merkle.OConfirmed -> "C" | Merkle.OUnable -> "U" | Merkle.OInvalid -> "I"

let answer_string (((r, h), c) : Merkle.answer) =
  Printf.sprintf "%s:%s:%s:%s" (tok_of_root r) (dec_of_z h) (conf_letter c) (conf_hash c)

let result_string = function
  | Merkle.VErrEmptyBody -> "400/ErrVerifyMerklerootsBadBody"
  | Merkle.VErrTipHeight -> "400/ErrGetChainTipHeight"
  | Merkle.VOk (o, l) -> Printf.sprintf "200/%s/%s" (overall_letter o) (Stdlib.String.concat "," (Stdlib.List.map answer_string l))

let model input =
  let (h, excess, ops) = parse_case input in
  let s = ref (Chain.init h.gid h.gpl) in
  let out = ref [] in
  Stdlib.List.iter (function
      | Sub sub -> s := fst (Chain.add h.forbidden !s sub)
      | Damage -> s := Stdlib.List.map (Store.set_st Store.Stale) !s
      | Query q -> out := result_string (Merkle.verify !s excess (parse_items q)) :: !out) ops;
  Stdlib.String.concat "|" (Stdlib.List.rev !out)

(* ---- the declarative oracle on the implementation's observable ---- *)
let parse_answer (a : string) : Merkle.answer option =
  match split_on ':' a with
  | [tok; h; c; x] ->
    (try
       let conf = match c with
         | "C" -> if x = "-" then raise Exit else Merkle.Confirmed (n_of_string x)
         | "U" -> if x <> "-" then raise Exit else Merkle.UnableToVerify
         | "I" -> if x <> "-" then raise Exit else Merkle.Invalid
         | _ -> raise Exit in
       Some ((root_of_tok tok, z_of_string h), conf)
     with _ -> None)
  | _ -> None

let overall_of_letter = function "C" -> Some Merkle.OConfirmed | "U" -> Some Merkle.OUnable | "I" -> Some Merkle.OInvalid | _ -> None

let two31 = Z.shift_left Z.one 31

let spec input obs =
  let (h, excess, ops) = parse_case input in
  let blocks = if obs = "" then [] else split_on '|' obs in
  let nq = Stdlib.List.length (Stdlib.List.filter (function Query _ -> true | _ -> false) ops) in
  if Stdlib.List.length blocks <> nq then "FAIL answer-block-count"
  else if !zero_work then (if Stdlib.List.mem "PANIC" blocks then "FAIL panic zero-work history" else "OK")
  else begin
    let ss = ref (Chain.init h.gid h.gpl) in          (* label-free specification store *)
    let blocks = ref blocks in
    let verdict = ref "OK" in
    let fail c d = if !verdict = "OK" then verdict := "FAIL " ^ c ^ " " ^ d in
    let ez = zt_of_z excess in
    let wraps = Z.geq ez two31 || Z.lt ez (Z.neg two31) in
    let qi = ref 0 in
    let damaged = ref false in
    Stdlib.List.iter (function
        | Sub sub -> ss := fst (ChainSpec.spec_step h.forbidden !ss sub)
        | Damage -> damaged := true
        | Query q when !damaged -> blocks := Stdlib.List.tl !blocks; incr qi   (* outside the quantifier *)
        | Query q ->
          let b = Stdlib.List.hd !blocks in
          blocks := Stdlib.List.tl !blocks;
          incr qi;
          let items = parse_items q in
          let tip = ChainSpec.spec_tip !ss in
          if b = "PANIC" then fail "panic" (Printf.sprintf "query %d" !qi)
          else if items = [] then begin
            if b <> "400/ErrVerifyMerklerootsBadBody" then fail "empty-list-not-rejected" (Printf.sprintf "query %d got %s" !qi b)
          end else
            match split_on '/' b with
            | ["200"; o; l] ->
              let strs = if l = "" then [] else split_on ',' l in
              let parsed = Stdlib.List.map parse_answer strs in
              if Stdlib.List.exists (fun x -> x = None) parsed then fail "malformed-answer" (Printf.sprintf "query %d %s" !qi b)
              else begin
                let answers = Stdlib.List.map (function Some a -> a | None -> assert false) parsed in
                let want = Stdlib.List.map (fun it -> ((fst it, snd it), Merkle.spec_verify1 !ss tip excess it)) items in
                if Stdlib.List.length answers <> Stdlib.List.length items then
                  fail "answer-count" (Printf.sprintf "query %d: %d answers for %d items" !qi (Stdlib.List.length answers) (Stdlib.List.length items))
                else if not (Merkle.spec_answers_ok !ss tip excess items answers) then begin
                  (* locate the first wrong answer for the report *)
                  let k = ref 0 and msg = ref "" in
                  Stdlib.List.iteri (fun i (a, w) ->
                      if !msg = "" && answer_string a <> answer_string w then begin
                        k := i; msg := Printf.sprintf "got %s want %s" (answer_string a) (answer_string w) end)
                    (Stdlib.List.combine answers want);
                  let (((ar, ah), _), ((wr, wh), _)) = (Stdlib.List.nth answers !k, Stdlib.List.nth want !k) in
                  if ar <> wr || ah <> wh then fail "answer-order" (Printf.sprintf "query %d item %d %s" !qi !k !msg)
                  else if wraps && (match snd (Stdlib.List.nth answers !k), snd (Stdlib.List.nth want !k) with
                      | (Merkle.UnableToVerify | Merkle.Invalid), (Merkle.UnableToVerify | Merkle.Invalid) -> true
                      | _ -> false) then fail "excess-int32-wrap" (Printf.sprintf "query %d item %d %s (regression of fix 54e9bff)" !qi !k !msg)
                  else fail "verdict-mismatch" (Printf.sprintf "query %d item %d %s" !qi !k !msg)
                end else
                  match overall_of_letter o with
                  | Some ov -> if not (Merkle.spec_overall_ok ov answers) then fail "overall-not-worst" (Printf.sprintf "query %d overall %s" !qi o)
                  | None -> fail "malformed-answer" (Printf.sprintf "query %d overall %s" !qi o)
              end
            | _ -> fail "unexpected-status" (Printf.sprintf "query %d got %s" !qi b)) ops;
    !verdict
  end

let () = run_driver model spec
