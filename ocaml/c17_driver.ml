(* C17 driver: runs the extracted ExportImport model and the declarative oracles on the harness
   cases.  Case syntax: see harness/zz_verif/c17.go.

   The model compared with the implementation is [startup]: database.Init as it is since service commit
   6243e75 (a refused import removes what it inserted).  VERIF_C17_MODEL=old compares against
   [startup_old], the behaviour before that commit (history; only useful to look at an old tree). *)
open Vutil
module S = Stdlib.String
module L = Stdlib.List
module EI = ExportImport

let use_old_model = (Sys.getenv_opt "VERIF_C17_MODEL" = Some "old")

(* ---- Coq strings ---- *)
let ascii_of_char (c : char) : Ascii.ascii =
  let n = Char.code c in
  let b i = n land (1 lsl i) <> 0 in
  Ascii.Ascii (b 0, b 1, b 2, b 3, b 4, b 5, b 6, b 7)

let char_of_ascii (a : Ascii.ascii) : char =
  match a with
  | Ascii.Ascii (b0, b1, b2, b3, b4, b5, b6, b7) ->
    let v b i = if b then 1 lsl i else 0 in
    Char.chr (v b0 0 + v b1 1 + v b2 2 + v b3 3 + v b4 4 + v b5 5 + v b6 6 + v b7 7)

let cstr (s : string) : String.string =
  let r = ref String.EmptyString in
  for i = S.length s - 1 downto 0 do r := String.String (ascii_of_char (S.get s i), !r) done;
  !r

let ostr (cs : String.string) : string =
  let b = Buffer.create 32 in
  let rec go = function
    | String.EmptyString -> ()
    | String.String (a, r) -> Buffer.add_char b (char_of_ascii a); go r in
  go cs; Buffer.contents b

(* ---- case text ---- *)
let enc f = S.map (fun c -> if c = ' ' then '^' else c) f
let dec f = if f = "~" then "" else S.map (fun c -> if c = '^' then ' ' else c) f

let show_recs (f : string list list) = S.concat "/" (L.map (fun r -> S.concat "," (L.map enc r)) f)
let read_recs (s : string) : string list list =
  L.map (fun r -> L.map (fun f -> S.map (fun c -> if c = '^' then ' ' else c) f) (S.split_on_char ',' r)) (S.split_on_char '/' s)

let state_code = function "L" -> 0 | "S" -> 1 | "O" -> 2 | "R" -> 3 | s -> failwith ("state " ^ s)
let state_name n = match int_of_n n with 0 -> "L" | 1 -> "S" | 2 -> "O" | 3 -> "R" | _ -> "?"
let hex64 n = Z.format "%064x" (zt_of_n n)
let n_of_hex s = n_of_zt (Z.of_string_base 16 s)

let read_row (s : string) : EI.dbrow =
  match S.split_on_char ',' s with
  | [hid; pid; h; v; m; ts; bits; nonce; w; cum; st] ->
    ({ EI.x_hash = n_of_string hid; x_prev = n_of_string pid; x_height = z_of_string h; x_version = z_of_string v;
       x_merkle = n_of_hex m; x_ts = z_of_string ts; x_bits = z_of_string bits; x_nonce = z_of_string nonce;
       x_work = z_of_string w; x_cum = z_of_string cum }, n_of_int (state_code st))
  | _ -> failwith ("row " ^ s)

let read_table s : EI.table = if s = "-" || s = "" then [] else L.map read_row (S.split_on_char '/' s)

let show_row ((r, st) : EI.dbrow) =
  S.concat "," [dec_of_n r.EI.x_hash; dec_of_n r.EI.x_prev; dec_of_z r.EI.x_height; dec_of_z r.EI.x_version;
                hex64 r.EI.x_merkle; dec_of_z r.EI.x_ts; dec_of_z r.EI.x_bits; dec_of_z r.EI.x_nonce;
                dec_of_z r.EI.x_work; dec_of_z r.EI.x_cum; state_name st]
let show_table (t : EI.table) = if t = [] then "-" else S.concat "/" (L.map show_row t)

type case = {
  ops : string list list;           (* target operations, as words *)
  bsz : int;
  genesis : EI.xrow option;
  ckh : BinNums.coq_Z;
  ckhash : BinNums.coq_N;
  s : EI.table;
  t : EI.table;
  files : string list;              (* F: one entry per start *)
  hashf : EI.src -> BinNums.coq_N;
}

let is_src_op = function "a" | "d" | "f" | "e" | "o" | "oc" | "z" | "xe" | "tz" -> true | _ -> false

let parse_case (input : string) : case =
  let toks = L.map S.trim (S.split_on_char ';' input) in
  let derived = try L.find (fun t -> S.length t > 2 && S.sub t 0 2 = "D ") toks with Not_found -> failwith "no derived part" in
  let kv = Hashtbl.create 8 in
  L.iter (fun w -> match S.index_opt w '=' with
      | Some i -> Hashtbl.replace kv (S.sub w 0 i) (S.sub w (i + 1) (S.length w - i - 1))
      | None -> ()) (words derived);
  let get k = try Hashtbl.find kv k with Not_found -> failwith ("missing " ^ k) in
  let ops = L.filter (fun w -> w <> [] && not (is_src_op (L.hd w)) && L.hd w <> "c17" && L.hd w <> "D")
      (L.map words toks) in
  let tbl = Hashtbl.create 4096 in
  (match get "H" with
   | "-" | "" -> ()
   | h -> L.iter (fun e -> match S.index_opt e '>' with
       | Some i -> Hashtbl.replace tbl (S.sub e 0 i) (n_of_string (S.sub e (i + 1) (S.length e - i - 1)))
       | None -> ()) (S.split_on_char '/' h));
  let hashf (x : EI.src) =
    let key = S.concat "," [dec_of_z x.EI.s_version; dec_of_n x.EI.s_prev; hex64 x.EI.s_merkle; dec_of_z x.EI.s_ts;
                            dec_of_z x.EI.s_bits; dec_of_z x.EI.s_nonce] in
    try Hashtbl.find tbl key with Not_found -> n_of_int 999999999 in
  let ckh, ckhash = match S.split_on_char ',' (get "P") with
    | [a; b] -> z_of_string a, n_of_string b | _ -> failwith "P" in
  { ops; bsz = int_of_string (get "b");
    genesis = (match read_table (get "G") with (r, _) :: _ -> Some r | [] -> None);
    ckh; ckhash; s = read_table (get "S"); t = read_table (get "T");
    files = (match get "F" with "-" | "" -> [] | f -> S.split_on_char '@' f); hashf }

(* ---- the prepared file of each start: the harness passes the records as encoding/csv in its default
   configuration reads the bytes it wrote (F=..), relative to the exported file ---- *)
type fspec = Same | Nofile | Recs of string list list

let pct_decode f =
  let b = Buffer.create (S.length f) in
  let n = S.length f in
  let i = ref 0 in
  while !i < n do
    if S.get f !i = '%' && !i + 2 <= n - 1 then begin
      Buffer.add_char b (Char.chr (int_of_string ("0x" ^ S.sub f (!i + 1) 2))); i := !i + 3
    end else begin Buffer.add_char b (S.get f !i); incr i end
  done;
  Buffer.contents b

let read_rec r = L.map pct_decode (S.split_on_char ',' r)

(* the file of one start, given the exported file *)
let file_of (good : string list list) (spec : string) : fspec * string list list =
  if spec = "*" then (Same, good)
  else if spec = "!" then (Nofile, [])
  else match S.split_on_char '/' spec with
    | "f" :: recs -> let r = L.map read_rec recs in (Recs r, r)
    | hd :: diffs when S.length hd > 1 && S.get hd 0 = 'd' ->
      let tbl = Hashtbl.create 16 in
      L.iter (fun d -> match S.index_opt d ':' with
          | Some i -> Hashtbl.replace tbl (int_of_string (S.sub d 0 i)) (read_rec (S.sub d (i + 1) (S.length d - i - 1)))
          | None -> failwith "F diff") diffs;
      let r = L.mapi (fun i g -> match Hashtbl.find_opt tbl i with Some x -> x | None -> g) good in
      (Recs r, r)
    | _ -> failwith ("F " ^ spec)

let coq_file (fs, recs) : EI.file option =
  match fs with Nofile -> None | _ -> Some (L.map (L.map cstr) recs)

let start c prepared tbl fopt =
  match c.genesis with
  | None -> failwith "no genesis row"
  | Some g ->
    (if use_old_model then EI.startup_old else EI.startup)
      c.hashf (nat_of_int c.bsz) c.ckh c.ckhash g prepared tbl fopt

(* ---- model observable ---- *)
let model input =
  let c = parse_case input in
  let good = L.map (L.map ostr) (EI.export_db c.s) in
  let obs = ref ["X=" ^ show_recs good] in
  let tbl = ref c.t and files = ref c.files in
  L.iter (fun w ->
      match L.hd w with
      | "i" | "iu" ->
        let f = (match !files with x :: r -> files := r; x | [] -> failwith "F: too few files") in
        let (ok, t') = start c (L.hd w = "i") !tbl (coq_file (file_of good f)) in
        tbl := t';
        obs := ("I=" ^ (if ok then "ok" else "err") ^ ":" ^ show_table t') :: !obs
      | _ -> ()) c.ops;
  S.concat "|" (L.rev !obs)

(* ---- spec oracle on the implementation's observable ---- *)
let spec input obs =
  let c = parse_case input in
  let parts = S.split_on_char '|' obs in
  match parts with
  | [] -> "FAIL malformed-observable"
  | x :: starts ->
    if S.length x < 2 || S.sub x 0 2 <> "X=" then "FAIL malformed-observable " ^ x else
    let xs = S.sub x 2 (S.length x - 2) in
    if xs = "ERR" || xs = "PANIC" || xs = "UNREADABLE" then "FAIL export-failed " ^ xs else
    let good = read_recs xs in
    let longest = EI.longest_of c.s in
    (* the source store's longest chain is a chain with in-range fields (hypotheses of C17_roundtrip) *)
    if not (EI.chain_okb c.hashf longest && L.for_all EI.fields_okb longest) then "FAIL precondition-chain-ok" else
    (* the exported file: the column line, then one record per longest-chain row, in height order;
       stale and orphan rows are not there *)
    if not (match good with
        | hdr :: recs -> hdr = ["version"; "merkleroot"; "nonce"; "bits"; "timestamp"]
                         && EI.records_denote (L.map (L.map cstr) recs) longest
        | [] -> false) then "FAIL export-mismatch" else
    let expected_rt = L.map (fun r -> (r, EI.st_longest)) longest in
    let fs = ref (Same, good) and edited = ref false and files = ref c.files in
    let ck_good = (match L.nth_opt longest (try int_of_z c.ckh with _ -> -1) with
        | Some r -> r.EI.x_hash = c.ckhash | None -> false) in
    (* table state as observed: contents + whether it is legitimate (initial content, result of a
       matching import, genesis insertion) or what a refused import left behind *)
    let tbl = ref c.t and tainted = ref false in
    let verdict = ref "OK" in
    let fail s = if !verdict = "OK" then verdict := "FAIL " ^ s in
    let starts = ref starts in
    L.iter (fun w ->
        match L.hd w with
        | "i" | "iu" ->
          (match !files with
           | f :: r -> files := r; fs := file_of good f; edited := (fst !fs <> Same)
           | [] -> fail "malformed-input missing-file");
          (match !starts with
           | [] -> fail "malformed-observable missing-start"
           | st :: rest ->
             starts := rest;
             let res, t' =
               match S.index_opt st ':' with
               | Some i when S.length st > 2 && S.sub st 0 2 = "I=" ->
                 S.sub st 2 (i - 2), (try Some (read_table (S.sub st (i + 1) (S.length st - i - 1))) with _ -> None)
               | _ -> "?", None in
             (match t' with
              | None -> fail ("malformed-observable " ^ res)
              | Some t' ->
                if res = "panic" then fail "start-panicked"
                else if L.hd w = "iu" then begin
                  (* not part of the property; only keep track of the table *)
                  tbl := t'
                end else if !tbl <> [] && not !tainted then begin
                  (* a database that already holds headers is never overwritten by an import *)
                  if res <> "ok" then fail "nonempty-db-start-refused"
                  else if t' <> !tbl then fail "nonempty-db-modified";
                  tbl := t'
                end else if !tbl <> [] then begin
                  (* rows left behind by a refused import *)
                  if res = "ok" then begin
                    if EI.table_matches_file c.hashf t' (coq_file !fs) c.ckh c.ckhash then tainted := false
                    else fail "second-start-accepts-leftovers"
                  end;
                  tbl := t'
                end else begin
                  (* empty database *)
                  if res = "ok" then begin
                    (* a file with a malformed row (wrong number of fields, or a field that is not a base-10 numeral of the
                       column's range / a hash of at most 64 hex digits, or unreadable for the csv reader) must be refused *)
                    let malformed = (match snd !fs with
                        | hdr :: recs when fst !fs <> Nofile ->
                          let n = nat_of_int (L.length hdr) in
                          L.exists (fun r -> not (EI.good_record n (L.map cstr r))) recs
                        | _ -> false) in
                    if malformed then fail "import-accepted-malformed-row"
                    else if not (EI.table_matches_file c.hashf t' (coq_file !fs) c.ckh c.ckhash) then fail "accepted-table-does-not-match-file"
                    else if not !edited && t' <> expected_rt then fail "roundtrip-mismatch"
                  end else begin
                    if not !edited && ck_good then fail "roundtrip-refused";
                    if t' <> [] then tainted := true
                  end;
                  tbl := t'
                end))
        | _ -> ()) c.ops;
    !verdict

(* ---- main: the cases are spread over worker processes (the long-chain cases cost about half a second
   each in the extracted exact arithmetic); every worker is this same program on a slice ---- *)
let read_lines file =
  let ic = open_in file in
  let acc = ref [] in
  (try while true do acc := input_line ic :: !acc done with End_of_file -> ());
  close_in ic; L.rev !acc

let append_file oc file =
  let ic = open_in_bin file in
  let buf = Bytes.create 65536 in
  let rec go () = let n = input ic buf 0 65536 in if n > 0 then (output oc buf 0 n; go ()) in
  go (); close_in ic

let line_id l = match S.index_opt l '\t' with Some i -> S.sub l 0 i | None -> l

let () =
  match Sys.getenv_opt "C17_CHILD" with
  | Some _ -> run_driver model spec
  | None ->
    let cases = Sys.argv.(1) and impl = Sys.argv.(2) and mout = Sys.argv.(3) and sout = Sys.argv.(4) in
    let lines = Array.of_list (read_lines cases) in
    let n = Array.length lines in
    let workers = try int_of_string (Sys.getenv "C17_WORKERS") with _ -> 12 in
    let k = max 1 (min workers (n / 20 + 1)) in
    if k = 1 then run_driver model spec else begin
      let part f i = Printf.sprintf "%s.part%d" f i in
      let where = Hashtbl.create (2 * n + 1) in
      let ocs = Array.init k (fun i -> open_out (part cases i)) in
      Array.iteri (fun j l -> Hashtbl.replace where (line_id l) (j mod k);
                    output_string ocs.(j mod k) l; output_char ocs.(j mod k) '\n') lines;
      Array.iter close_out ocs;
      let iocs = Array.init k (fun i -> open_out (part impl i)) in
      L.iter (fun l -> match Hashtbl.find_opt where (line_id l) with
          | Some i -> output_string iocs.(i) l; output_char iocs.(i) '\n'
          | None -> ()) (read_lines impl);
      Array.iter close_out iocs;
      Unix.putenv "C17_CHILD" "1";
      let self = Sys.executable_name in
      let pids = Array.init k (fun i ->
          Unix.create_process self [| self; part cases i; part impl i; part mout i; part sout i |]
            Unix.stdin Unix.stdout Unix.stderr) in
      let failed = ref false in
      Array.iter (fun pid -> match Unix.waitpid [] pid with
          | (_, Unix.WEXITED 0) -> ()
          | _ -> failed := true) pids;
      let mo = open_out_bin mout and so = open_out_bin sout in
      for i = 0 to k - 1 do
        (try append_file mo (part mout i) with _ -> failed := true);
        (try append_file so (part sout i) with _ -> failed := true);
        L.iter (fun f -> try Sys.remove f with _ -> ()) [part cases i; part impl i; part mout i; part sout i]
      done;
      close_out mo; close_out so;
      if !failed then (prerr_endline "c17_driver: a worker failed"; exit 2)
    end
