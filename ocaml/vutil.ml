(* Trusted glue shared by the drivers: conversions between the extracted binary integers
   (BinNums.positive / z / n, kept as extracted inductives) and zarith (used ONLY for text I/O),
   line-oriented reading of case files, canonical printing. *)
open BinNums

let rec pos_of_zt (n : Z.t) : positive =
  if Z.equal n Z.one then Coq_xH
  else if Z.testbit n 0 then Coq_xI (pos_of_zt (Z.shift_right n 1))
  else Coq_xO (pos_of_zt (Z.shift_right n 1))

let rec zt_of_pos (p : positive) : Z.t =
  match p with
  | Coq_xH -> Z.one
  | Coq_xO q -> Z.shift_left (zt_of_pos q) 1
  | Coq_xI q -> Z.succ (Z.shift_left (zt_of_pos q) 1)

let z_of_zt (n : Z.t) : coq_Z =
  let s = Z.sign n in
  if s = 0 then Z0 else if s > 0 then Zpos (pos_of_zt n) else Zneg (pos_of_zt (Z.neg n))

let zt_of_z (z : coq_Z) : Z.t =
  match z with Z0 -> Z.zero | Zpos p -> zt_of_pos p | Zneg p -> Z.neg (zt_of_pos p)

let n_of_zt (n : Z.t) : coq_N = if Z.sign n = 0 then N0 else Npos (pos_of_zt n)
let zt_of_n (n : coq_N) : Z.t = match n with N0 -> Z.zero | Npos p -> zt_of_pos p

let z_of_string s = z_of_zt (Z.of_string s)        (* decimal, or 0x.. hex *)
let z_of_int i = z_of_zt (Z.of_int i)
let n_of_string s = n_of_zt (Z.of_string s)
let n_of_int i = n_of_zt (Z.of_int i)
let int_of_z z = Z.to_int (zt_of_z z)
let int_of_n n = Z.to_int (zt_of_n n)
let dec_of_z z = Z.to_string (zt_of_z z)
let dec_of_n n = Z.to_string (zt_of_n n)
let hex_of_z z = Z.format "%x" (zt_of_z z)          (* same as Go's big.Int.Text(16) *)
let hex_of_n n = Z.format "%x" (zt_of_n n)
let z_of_hex s = if s = "" then Z0 else
  if Stdlib.String.get s 0 = '-' then z_of_zt (Z.neg (Z.of_string_base 16 (Stdlib.String.sub s 1 (Stdlib.String.length s - 1))))
  else z_of_zt (Z.of_string_base 16 s)

let rec nat_of_int i : Datatypes.nat = if i <= 0 then Datatypes.O else Datatypes.S (nat_of_int (i - 1))
let rec int_of_nat (n : Datatypes.nat) = match n with Datatypes.O -> 0 | Datatypes.S m -> 1 + int_of_nat m

let split_on c s = Stdlib.String.split_on_char c s
let words s = Stdlib.List.filter (fun w -> w <> "") (split_on ' ' s)

(* iterate over "id \t payload" lines *)
let iter_lines file f =
  let ic = open_in file in
  (try
     while true do
       let l = input_line ic in
       match Stdlib.String.index_opt l '\t' with
       | Some i -> f (Stdlib.String.sub l 0 i) (Stdlib.String.sub l (i + 1) (Stdlib.String.length l - i - 1))
       | None -> if l <> "" then f l ""
     done
   with End_of_file -> ());
  close_in ic

(* standard driver main: for each case compute the model observable and the spec verdict on
   the implementation's observable.
   usage: driver cases.txt impl.txt model.txt spec.txt
   [model input] returns the model's observable string;
   [spec input impl_obs] returns "OK" or "FAIL <class> <detail>". *)
let run_driver (model : string -> string) (spec : string -> string -> string) =
  let cases = Sys.argv.(1) and impl = Sys.argv.(2) and mout = Sys.argv.(3) and sout = Sys.argv.(4) in
  let tbl = Hashtbl.create 100000 in
  iter_lines impl (fun id obs -> Hashtbl.replace tbl id obs);
  let mo = Stdlib.open_out mout and so = Stdlib.open_out sout in
  iter_lines cases (fun id input ->
      let m = try model input with e -> "MODEL-EXCEPTION " ^ Printexc.to_string e in
      Printf.fprintf mo "%s\t%s\n" id m;
      let obs = try Hashtbl.find tbl id with Not_found -> "MISSING" in
      let v = try spec input obs with e -> "FAIL oracle-exception " ^ Printexc.to_string e in
      Printf.fprintf so "%s\t%s\n" id v);
  close_out mo; close_out so
