(* Shared by the C06 and C07 drivers: parsing of scenario lines (see harness/zz_verif/c06_rig.go), running the
   extracted closed-system models (SyncSys.y_run / z_run) and printing their traces in the rig's observable syntax. *)
open Vutil
open Vchain

type node_spec = { np : int; ncap : int; nchain : int list; nreserve : int list }

type scenario = {
  eng : string; dis : bool; cps : (int * int) list; init : int list; nodes : node_spec list;
  hints : int list; hist : hist; cmds : string list; }

let dot_ints s = Stdlib.List.map int_of_string (Stdlib.List.filter (fun x -> x <> "") (split_on '.' s))

let starts_with pre s = Stdlib.String.length s >= Stdlib.String.length pre && Stdlib.String.sub s 0 (Stdlib.String.length pre) = pre
let after n s = Stdlib.String.sub s n (Stdlib.String.length s - n)
let count_char c s = let n = ref 0 in Stdlib.String.iter (fun x -> if x = c then incr n) s; !n

let parse_scenario (line : string) : scenario =
  let eng = ref "d" and dis = ref false and cps = ref [] and init = ref [] and nodes = ref [] and hints = ref []
  and hist = ref [] and cmds = ref [] in
  Stdlib.List.iter (fun tok ->
      let tok = Stdlib.String.trim tok in
      if tok = "" then ()
      else if starts_with "eng=" tok then eng := after 4 tok
      else if starts_with "dis=" tok then dis := (after 4 tok = "1")
      else if starts_with "cps=" tok then
        cps := Stdlib.List.map (fun c -> match split_on ':' c with
            | [h; i] -> (int_of_string h, int_of_string i) | _ -> failwith ("bad checkpoint " ^ c))
            (Stdlib.List.filter (fun x -> x <> "") (split_on ',' (after 4 tok)))
      else if starts_with "init=" tok then init := dot_ints (after 5 tok)
      else if starts_with "ch=" tok then hints := dot_ints (after 3 tok)
      else if starts_with "n=" tok then begin
        match split_on ':' (after 2 tok) with
        | [p; c; ch; rs] -> nodes := { np = int_of_string p; ncap = int_of_string c; nchain = dot_ints ch; nreserve = dot_ints rs } :: !nodes
        | _ -> failwith ("bad node " ^ tok)
      end
      else if starts_with "g=" tok || starts_with "f=" tok || count_char ',' tok = 6 then hist := tok :: !hist
      else if tok.[0] >= 'A' && tok.[0] <= 'Z' then cmds := tok :: !cmds
      else failwith ("bad token " ^ tok))
    (split_on ';' line);
  { eng = !eng; dis = !dis; cps = !cps; init = !init; nodes = Stdlib.List.rev !nodes; hints = !hints;
    hist = parse_history (Stdlib.String.concat ";" (Stdlib.List.rev !hist)); cmds = Stdlib.List.rev !cmds }

let rig_now = z_of_string "1800000000"

(* the header universe: id -> src (first definition wins) *)
let universe (sc : scenario) : (int, Store.src) Hashtbl.t =
  let t = Hashtbl.create 64 in
  Stdlib.List.iter (fun (s : Store.src) -> let i = int_of_n s.Store.s_id in if not (Hashtbl.mem t i) then Hashtbl.add t i s) sc.hist.subs;
  t

let src_of u i = try Hashtbl.find u i with Not_found -> failwith (Printf.sprintf "header id %d is not defined" i)

let coq_cps (sc : scenario) = Stdlib.List.map (fun (h, i) -> (z_of_int h, n_of_int i)) sc.cps

let init_store (sc : scenario) u : Store.store =
  Stdlib.List.fold_left (fun s i -> fst (Chain.add sc.hist.forbidden s (src_of u i))) (Chain.init sc.hist.gid sc.hist.gpl) sc.init

let coq_node u (n : node_spec) : SyncSys.node =
  { SyncSys.n_chain = Stdlib.List.map (src_of u) n.nchain; n_reserve = Stdlib.List.map (src_of u) n.nreserve;
    n_cap = nat_of_int n.ncap; n_open = false; n_used = false; n_stalled = false; n_out = [] }

let parse_cmd (c : string) : SyncSys.cmd =
  let op = c.[0] in
  let parts = split_on '.' (after 1 c) in
  let a = match parts with x :: _ when x <> "" -> int_of_string x | _ -> 0 in
  let b = match parts with _ :: y :: _ -> int_of_string y | _ -> 0 in
  let kind = match parts with _ :: _ :: k :: _ -> k | _ -> "" in
  match op with
  | 'C' -> SyncSys.CConnect (n_of_int a)
  | 'D' -> SyncSys.CDeliver (n_of_int a)
  | 'Q' -> SyncSys.CDone (n_of_int a)
  | 'X' -> SyncSys.CClose (n_of_int a)
  | 'S' -> SyncSys.CStall (n_of_int a)
  | 'A' -> SyncSys.CAnnounce (n_of_int a, nat_of_int b, kind = "i")
  | 'T' -> SyncSys.CTick (a = 1)
  | 'G' -> SyncSys.CGetHeaders (n_of_int a)
  | 'K' -> SyncSys.CConnectDrop (n_of_int a, nat_of_int b)
  | 'R' -> SyncSys.CRun (nat_of_int a)
  | _ -> failwith ("unknown command " ^ c)

(* ---- printing ---- *)
let ids_string (l : BinNums.coq_N list) = Stdlib.String.concat "." (Stdlib.List.map dec_of_n l)
let b2i b = if b then 1 else 0

let eff_rank = function
  | SyncNode.Ban _ -> 0 | SyncNode.Disconnect _ -> 1 | SyncNode.GetHeaders _ -> 2 | SyncNode.SendHdrs _ -> 3
  | SyncNode.Serve _ -> 4 | SyncNode.Panic -> 5

let eff_string = function
  | SyncNode.GetHeaders (p, loc, stop) -> Printf.sprintf "G%s(%s>%s)" (dec_of_n p) (ids_string loc) (dec_of_n stop)
  | SyncNode.Disconnect p -> "X" ^ dec_of_n p
  | SyncNode.Ban p -> "B" ^ dec_of_n p
  | SyncNode.SendHdrs p -> "SH" ^ dec_of_n p
  | SyncNode.Serve p -> "SV" ^ dec_of_n p
  | SyncNode.Panic -> "P"

let effs_string (es : SyncNode.eff list) =
  let sorted = Stdlib.List.stable_sort (fun a b -> compare (eff_rank a) (eff_rank b)) es in
  Stdlib.String.concat "+" (Stdlib.List.map eff_string sorted)

let hdr_label p (hs : Store.src list) =
  Printf.sprintf "H%s.%d[%s]" (dec_of_n p) (Stdlib.List.length hs) (ids_string (Stdlib.List.map (fun (h : Store.src) -> h.Store.s_id) hs))
let inv_label p (l : (bool * BinNums.coq_N) list) =
  Printf.sprintf "I%s.%d[%s]" (dec_of_n p) (Stdlib.List.length l) (ids_string (Stdlib.List.map snd l))

let dstate_string (st : SyncDefault.dstate) =
  Printf.sprintf "~%d.%s.%s.%s" (b2i st.SyncDefault.d_hfm)
    (match st.SyncDefault.d_next with Some (h, _) -> dec_of_z h | None -> "-1")
    (match st.SyncDefault.d_sync with Some p -> dec_of_n p | None -> "0")
    (tip_string st.SyncDefault.d_store)

let devent_label = function
  | SyncDefault.ENew (p, _, _) -> "N" ^ dec_of_n p
  | SyncDefault.EHeaders (p, hs) -> hdr_label p hs
  | SyncDefault.EInv (p, l) -> inv_label p l
  | SyncDefault.EDone p -> "Q" ^ dec_of_n p
  | SyncDefault.ETick b -> Printf.sprintf "T%d" (b2i b)
  | SyncDefault.ENewGone (p, _, _) -> "N" ^ dec_of_n p

let estate_string (st : SyncExp.estate) =
  let (h, i) = match st.SyncExp.e_cur with Some (i, (h, _)) -> (dec_of_z h, string_of_int (int_of_nat i)) | None -> ("-1", "-1") in
  Printf.sprintf "~%s.%s.%d.%d.%s.%s" h i (b2i st.SyncExp.e_shm) (b2i st.SyncExp.e_sc) (dec_of_z st.SyncExp.e_latest) (tip_string st.SyncExp.e_store)

let final_string (sc : scenario) (s : Store.store) =
  let http = Stdlib.String.concat "," (Stdlib.List.map (fun f ->
      Printf.sprintf "%s:%d" (dec_of_n f) (match Store.by_hash s f with Some _ -> 200 | None -> 404)) sc.hist.forbidden) in
  Printf.sprintf "tip=%s|rows=%s|http=%s" (tip_string s) (rows_string s) http

(* runs the model on a scenario; returns the observable string *)
let run_model (sc : scenario) : string =
  let u = universe sc in
  let s0 = init_store sc u in
  let cmds = Stdlib.List.map parse_cmd sc.cmds in
  if sc.eng = "x" then begin
    (* every connection has its own experimental Peer object (own cursor, flags, latest height); the objects share nothing
       but the store: one extracted xsys per node, the store threaded through them *)
    let cfg = { SyncExp.x_cps = coq_cps sc; x_forb = sc.hist.forbidden } in
    let store = ref s0 in
    let zs = Stdlib.List.map (fun n -> (n.np, ref (SyncSys.z_init cfg sc.hist.gid (n_of_int n.np) s0 (coq_node u n)))) sc.nodes in
    let with_store (z : SyncSys.xsys) st = { z with SyncSys.z_eng = { z.SyncSys.z_eng with SyncExp.e_store = st } } in
    let render p tr = Stdlib.String.concat "," (Stdlib.List.map (fun ((ev, es), st) ->
        let label = match ev with
          | None -> "N" ^ dec_of_n p
          | Some (SyncExp.XHeaders hs) -> hdr_label p hs
          | Some (SyncExp.XInv l) -> inv_label p l
          | Some SyncExp.XGetHeaders -> "GH" ^ dec_of_n p in
        label ^ ":" ^ effs_string es ^ estate_string st) tr) in
    let on_node pi c =
      match Stdlib.List.assoc_opt pi zs with
      | None -> ""
      | Some zr ->
        let (z', tr) = SyncSys.z_cmd (with_store !zr !store) c in
        zr := z'; store := z'.SyncSys.z_eng.SyncExp.e_store;
        render (n_of_int pi) tr in
    let ready () = Stdlib.List.find_opt (fun (_, zr) ->
        let n = !zr.SyncSys.z_node in n.SyncSys.n_open && n.SyncSys.n_out <> []) zs in
    let steps = Stdlib.List.map (fun c ->
        match c with
        | SyncSys.CRun fuel ->
          let parts = ref [] in
          let f = ref (int_of_nat fuel) in
          let go = ref true in
          while !go && !f > 0 do
            (match ready () with
             | None -> go := false
             | Some (pi, _) -> parts := on_node pi (SyncSys.CDeliver (n_of_int pi)) :: !parts);
            decr f
          done;
          Stdlib.String.concat "," (Stdlib.List.rev !parts)
        | SyncSys.CConnect p | SyncSys.CDeliver p | SyncSys.CClose p | SyncSys.CStall p | SyncSys.CGetHeaders p -> on_node (int_of_n p) c
        | SyncSys.CAnnounce (p, _, _) -> on_node (int_of_n p) c
        | SyncSys.CDone _ | SyncSys.CTick _ | SyncSys.CConnectDrop _ -> "") cmds in
    Stdlib.String.concat ";" ("init~-" :: steps) ^ "|" ^ final_string sc !store
  end else begin
    let cfg = { SyncDefault.c_cps = coq_cps sc; c_disable = sc.dis; c_forb = sc.hist.forbidden; c_now = rig_now } in
    let nodes = Stdlib.List.map (fun n -> (n_of_int n.np, coq_node u n)) sc.nodes in
    let y0 = SyncSys.y_init cfg sc.hist.gid s0 nodes (Stdlib.List.map n_of_int sc.hints) in
    let (y, traces) = SyncSys.y_run y0 cmds in
    let steps = Stdlib.List.map (fun tr ->
        Stdlib.String.concat "," (Stdlib.List.map (fun ((ev, es), st) ->
            devent_label ev ^ ":" ^ effs_string es ^ dstate_string st) tr)) traces in
    Stdlib.String.concat ";" (("init" ^ dstate_string y0.SyncSys.y_eng) :: steps) ^ "|" ^ final_string sc y.SyncSys.y_eng.SyncDefault.d_store
  end

(* ---- parsing an OBSERVED trace (the implementation's observable) for the spec oracles ---- *)
type obs_event = { label : string; kind : char; peer : int; batch : int list; effs : string list; state : string list }
type obs = { steps : obs_event list list; init_state : string list; tip : int; rows : (int * int * int * string * string) list; http : (int * int) list }

let parse_event (s : string) : obs_event =
  (* <label>:<effs>~<state> *)
  let (body, state) = match Stdlib.String.rindex_opt s '~' with
    | Some i -> (Stdlib.String.sub s 0 i, split_on '.' (after (i + 1) s)) | None -> (s, []) in
  let (label, effs) = match Stdlib.String.index_opt body ':' with
    | Some i -> (Stdlib.String.sub body 0 i, Stdlib.List.filter (fun x -> x <> "") (split_on '+' (after (i + 1) body)))
    | None -> (body, []) in
  let kind = if label = "" then '?' else label.[0] in
  let batch = match Stdlib.String.index_opt label '[' with
    | Some i -> dot_ints (Stdlib.String.sub label (i + 1) (Stdlib.String.length label - i - 2)) | None -> [] in
  let peer =
    let digits = Buffer.create 4 in
    (try Stdlib.String.iteri (fun i c -> if i >= 1 then (if c >= '0' && c <= '9' then Buffer.add_char digits c else raise Exit)) label with Exit -> ());
    if label <> "" && Stdlib.String.length label >= 2 && label.[0] = 'G' && label.[1] = 'H' then
      (try int_of_string (after 2 label) with _ -> 0)
    else (try int_of_string (Buffer.contents digits) with _ -> 0) in
  { label; kind; peer; batch; effs; state }

let parse_obs (o : string) : obs option =
  match split_on '|' o with
  | [steps_s; tip_s; rows_s; http_s] when starts_with "tip=" tip_s && starts_with "rows=" rows_s && starts_with "http=" http_s ->
    let steps = split_on ';' steps_s in
    let init_state = match steps with
      | i :: _ -> (match Stdlib.String.index_opt i '~' with Some k -> split_on '.' (after (k + 1) i) | None -> []) | [] -> [] in
    let evs = Stdlib.List.map (fun st -> if st = "" then [] else Stdlib.List.map parse_event (split_on ',' st))
        (match steps with _ :: r -> r | [] -> []) in
    let rows = Stdlib.List.map (fun r -> match split_on ':' r with
        | [i; p; h; _; cum; st] -> (int_of_string i, int_of_string p, int_of_string h, cum, st)
        | _ -> failwith ("bad row " ^ r)) (Stdlib.List.filter (fun x -> x <> "") (split_on ',' (after 5 rows_s))) in
    let http = Stdlib.List.map (fun r -> match split_on ':' r with
        | [i; c] -> (int_of_string i, int_of_string c) | _ -> failwith ("bad http " ^ r))
        (Stdlib.List.filter (fun x -> x <> "") (split_on ',' (after 5 http_s))) in
    Some { steps = evs; init_state; tip = int_of_string (after 4 tip_s); rows; http }
  | _ -> None

(* G<p>(loc>stop) *)
let parse_g (e : string) : (int * int list * int) option =
  if Stdlib.String.length e > 1 && e.[0] = 'G' then
    match Stdlib.String.index_opt e '(', Stdlib.String.index_opt e '>' with
    | Some i, Some j ->
      let p = int_of_string (Stdlib.String.sub e 1 (i - 1)) in
      let loc = dot_ints (Stdlib.String.sub e (i + 1) (j - i - 1)) in
      let stop = int_of_string (Stdlib.String.sub e (j + 1) (Stdlib.String.length e - j - 2)) in
      Some (p, loc, stop)
    | _ -> None
  else None

let st_of_letter = function "L" -> Store.Longest | "S" -> Store.Stale | _ -> Store.Orphan
let orows (o : obs) : SyncSpec.orow list =
  Stdlib.List.map (fun (i, p, _, cum, st) ->
      { SyncSpec.o_id = n_of_int i; o_prev = n_of_int p; o_st = st_of_letter st; o_cum = z_of_hex cum }) o.rows

(* tree height of a header id inside the universe (genesis = 0); None when it does not connect to genesis *)
let tree_height (sc : scenario) u : int -> int option =
  let memo = Hashtbl.create 64 in
  let g = int_of_n sc.hist.gid in
  let rec go depth i =
    if i = g then Some 0
    else if depth > 100000 then None
    else match Hashtbl.find_opt memo i with
      | Some r -> r
      | None ->
        let r = match Hashtbl.find_opt u i with
          | None -> None
          | Some (s : Store.src) -> (match go (depth + 1) (int_of_n s.Store.s_prev) with Some h -> Some (h + 1) | None -> None) in
        Hashtbl.replace memo i r; r in
  go 0

let g_effs_empty (effs : string list) = not (Stdlib.List.exists (fun e -> parse_g e <> None) effs)
