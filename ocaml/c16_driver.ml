(* C16 driver: runs the extracted Http model (respond_current = respond_gen current_fixes; flip the fields of
   Http.current_fixes in coq/theories/Http.v when a proposed fix has been committed to /repo) and the extracted
   spec oracle Http.check on the harness cases.
   input : "<auth> <route> k=v ... | st=<rows> ## <concrete request>"   (see harness/zz_verif/c16.go) *)
open Vutil
open Http

let split_str sep s = Str.split_delim (Str.regexp_string sep) s

let code_names = [
  ErrUnknown, "error-unknown"; ErrBindBody, "ErrBindBody"; ErrMissingAuthHeader, "ErrMissingAuthHeader";
  ErrInvalidAuthHeader, "ErrInvalidAuthHeader"; ErrInvalidAccessToken, "ErrInvalidAccessToken";
  ErrUnauthorized, "ErrUnauthorized"; ErrAdminTokenNotFound, "ErrAdminTokenNotFound";
  ErrMerkleRootNotFound, "ErrMerkleRootNotFound"; ErrMerkleRootNotInLongestChain, "ErrMerkleRootNotInLongestChain";
  ErrInvalidBatchSize, "ErrInvalidBatchSize"; ErrGetChainTipHeight, "ErrGetChainTipHeight";
  ErrVerifyMerklerootsBadBody, "ErrVerifyMerklerootsBadBody"; ErrTokenNotFound, "ErrTokenNotFound";
  ErrAncestorHashHigher, "ErrAncestorHashHigher"; ErrAncestorNotFound, "ErrAncestorNotFound";
  ErrHeadersNotPartOfTheSameChain, "ErrHeadersNotPartOfTheSameChain"; ErrHeaderWithGivenHashes, "ErrHeaderWithGivenHashes";
  ErrHeaderNotFound, "ErrHeaderNotFound"; ErrHeadersForGivenRangeNotFound, "ErrHeadersForGivenRangeNotFound";
  ErrURLBodyRequired, "ErrURLBodyRequired"; ErrURLParamRequired, "ErrURLParamRequired";
  ErrWebhookNotFound, "ErrWebhookNotFound"; ErrRefreshWebhook, "ErrRefreshWebhook";
  ErrInvalidHeightParam, "ErrInvalidHeightParam" ]

let code_name c = Stdlib.List.assoc c code_names
let code_of_name s =
  match Stdlib.List.filter (fun (_, n) -> n = s) code_names with
  | (c, _) :: _ -> Some c
  | [] -> None

exception Bad of string
let bad fmt = Printf.ksprintf (fun s -> raise (Bad s)) fmt

let nat_of_string s = nat_of_int (int_of_string s)

let href_of s =
  if s = "unk" then HUnk else if s = "mal" then HMal
  else if Stdlib.String.length s > 1 && s.[0] = 'k' then HK (nat_of_string (Stdlib.String.sub s 1 (Stdlib.String.length s - 1)))
  else bad "href %s" s

let iparam_of s =
  match s with
  | "missing" -> IMissing | "empty" -> IEmpty | "junk" -> IJunk
  | _ when Stdlib.String.length s > 2 && Stdlib.String.sub s 0 2 = "n:" -> INum (z_of_string (Stdlib.String.sub s 2 (Stdlib.String.length s - 2)))
  | _ -> bad "iparam %s" s

let badkind_of s =
  match s with
  | "syntax" -> BadSyntax | "type" -> BadType | "empty" -> BadEmpty | "range" -> BadRange | "form" -> BadForm | "proto" -> BadProto
  | _ -> bad "badkind %s" s

let uref_of s =
  match s with
  | "empty" | "none" -> UEmpty | "new" -> UNew | "act" -> UActive | "inact" -> UInactive
  | _ -> bad "uref %s" s

let after pre s =
  let n = Stdlib.String.length pre in
  if Stdlib.String.length s >= n && Stdlib.String.sub s 0 n = pre then Some (Stdlib.String.sub s n (Stdlib.String.length s - n)) else None

(* "k1,k2*3,unk" *)
let hrefs_of s =
  if s = "-" then []
  else
    Stdlib.List.concat_map (fun el ->
        match split_on '*' el with
        | [h] -> [href_of h]
        | [h; n] -> Stdlib.List.init (int_of_string n) (fun _ -> href_of h)
        | _ -> bad "list element %s" el) (split_on ',' s)

let sbody_of s =
  match after "list:" s, after "bad:" s with
  | Some l, _ -> SList (hrefs_of l)
  | _, Some k -> SBad (badkind_of k)
  | _ -> if s = "null" then SNull else bad "sbody %s" s

let vbody_of s =
  match after "list:" s, after "bad:" s with
  | Some n, _ -> VList (nat_of_string n)
  | _, Some k -> VBad (badkind_of k)
  | _ -> if s = "null" then VNull else bad "vbody %s" s

let wbody_of s =
  match after "ok:" s, after "partial:" s, after "bad:" s with
  | Some u, _, _ -> WOk (uref_of u)
  | _, Some u, _ -> WPartial (uref_of u)
  | _, _, Some k -> WBad (badkind_of k)
  | _ -> bad "wbody %s" s

let mref_of s =
  if s = "none" then MNone else if s = "unk" then MUnk
  else match href_of s with HK i -> MK i | _ -> bad "mref %s" s

let auth_of s =
  match s with
  | "off" -> AuthOff | "none" -> AuthNone | "badfmt" -> AuthBadFmt | "unk" -> AuthUnk | "user" -> AuthUser | "admin" -> AuthAdmin
  | _ -> bad "auth %s" s

let kv key toks =
  let pre = key ^ "=" in
  match Stdlib.List.filter_map (after pre) toks with
  | v :: _ -> v
  | [] -> bad "missing %s" key

let call_of route toks =
  match route with
  | "hdr" -> CHeader (href_of (kv "h" toks))
  | "state" -> CState (href_of (kv "h" toks))
  | "byheight" -> CByHeight (iparam_of (kv "height" toks), iparam_of (kv "count" toks))
  | "anc" -> CAncestors (href_of (kv "h" toks), href_of (kv "a" toks))
  | "common" -> CCommon (sbody_of (kv "body" toks))
  | "tip" -> CTips | "tiplongest" -> CTipLongest | "peers" -> CPeers | "peercount" -> CPeerCount
  | "mroots" -> CMerkleRoots (iparam_of (kv "batch" toks), mref_of (kv "last" toks))
  | "verify" -> CVerify (vbody_of (kv "body" toks))
  | "whpost" -> CWhPost (wbody_of (kv "body" toks))
  | "whget" -> CWhGet (uref_of (kv "url" toks))
  | "whdel" -> CWhDel (uref_of (kv "url" toks))
  | "accget" -> CAccGet | "accpost" -> CAccPost
  | "accdel" -> CAccDel (match kv "tok" toks with "known" -> TKnown | "other" -> TOther | t -> bad "tref %s" t)
  | _ -> bad "route %s" route

let state_of s = match s with "L" -> Longest | "S" -> Stale | "O" -> Orphan | _ -> bad "state %s" s

(* "st=0:-:0:L,1:0:1:L,..." : index : parent index or - : height : state; indices must be 0,1,2.. in order *)
let env_of s =
  match after "st=" (Stdlib.String.trim s) with
  | None -> bad "env %s" s
  | Some body ->
    let rows = Stdlib.List.mapi (fun n r ->
        match split_on ':' r with
        | [i; p; h; st] ->
          if int_of_string i <> n then bad "row index %s" r;
          { rw_parent = (if p = "-" then None else Some (nat_of_string p)); rw_height = z_of_string h; rw_state = state_of st }
        | _ -> bad "row %s" r) (split_on ',' body) in
    mkenv rows

type parsed = Unrouted | ErrCode of errcode | Req of env * request * string * string list  (* route, tokens *)

let parse input =
  match after "errcode " input with
  | Some n -> (match code_of_name (Stdlib.String.trim n) with Some c -> ErrCode c | None -> bad "errcode %s" n)
  | None ->
  let left = match split_str " ## " input with l :: _ -> l | [] -> input in
  match split_str " | " left with
  | [rq; ev] ->
    (match words rq with
     | _ :: "unrouted" :: _ -> Unrouted
     | a :: route :: toks -> Req (env_of ev, { q_auth = auth_of a; q_call = call_of route toks }, route, toks)
     | _ -> bad "request %s" rq)
  | _ -> bad "no env in %s" left

let doc_name d = match d with DErr c -> "err:" ^ code_name c | DStr -> "str" | DVal -> "val"
let eff_name e = match e with EffNone -> "none" | EffTokens -> "tok" | EffWebhooks -> "wh" | EffHeaders -> "hdr"

let show (r : response) =
  Printf.sprintf "%s [%s] eff=%s" (dec_of_z r.r_status) (Stdlib.String.concat "," (Stdlib.List.map doc_name r.r_body)) (eff_name r.r_eff)

(* which call sites are repaired in the tree under test: Http.current_fixes, unless the environment variable
   VERIF_C16_FIXES overrides it (comma separated subset of byheight,common_empty,common_nil,webhook,verify,accget,
   or "all" / "none") - used to check a scratch worktree with proposed fixes applied *)
let fixes : fixes =
  match Sys.getenv_opt "VERIF_C16_FIXES" with
  | None -> current_fixes
  | Some s ->
    let l = split_on ',' (Stdlib.String.trim s) in
    let on n = Stdlib.List.mem n l || Stdlib.List.mem "all" l in
    { fx_byheight = on "byheight"; fx_common_empty = on "common_empty"; fx_common_nil = on "common_nil";
      fx_webhook = on "webhook"; fx_verify = on "verify"; fx_accget = on "accget" }

let model input =
  match parse input with
  | Unrouted -> "gin-3xx-4xx eff=none"
  | ErrCode c -> show (finish [errw c] EffNone)     (* bhserrors.ErrorResponse: status_of + the code *)
  | Req (e, q, _, _) -> show (respond_gen fixes e q)

(* observable -> response; None when it is not of the standard form *)
let parse_obs obs : (response * bool) option =
  match words obs with
  | [st; docs; eff] when Stdlib.String.length docs >= 2 && docs.[0] = '[' ->
    let inner = Stdlib.String.sub docs 1 (Stdlib.String.length docs - 2) in
    let names = if inner = "" then [] else split_on ',' inner in
    let garbage = Stdlib.List.mem "garbage" names in
    let ds = Stdlib.List.map (fun n ->
        match after "err:" n with
        | Some c -> DErr (match code_of_name c with Some x -> x | None -> ErrUnknown)
        | None -> if n = "str" then DStr else DVal) names in
    let e = match after "eff=" eff with
      | Some "none" -> EffNone | Some "tok" -> EffTokens | Some "wh" -> EffWebhooks
      | Some s -> if Stdlib.List.mem "hdr" (split_on '+' s) then EffHeaders else EffWebhooks
      | None -> EffHeaders in
    (try Some ({ r_status = z_of_string st; r_body = ds; r_eff = e }, garbage) with _ -> None)
  | _ -> None

let violation_name v =
  match v with
  | V5xx -> "5xx" | VBadStatus -> "bad-status" | VNotOneDoc -> "not-one-document" | VUnstructured -> "unstructured-4xx"
  | VHeadersChanged -> "headers-changed" | VChangedOnError -> "changed-on-error" | VChangedByReader -> "changed-by-reader"

(* route + parameter class, the narrow name under which a failure is reported *)
let class_of e q route toks =
  let site = defect_site e q in
  match route with
  | "byheight" ->
    let h = kv "height" toks in
    let h = if after "n:" h <> None then (if site = Some SByHeight then "out-of-range" else "int") else h in
    Printf.sprintf "byheight[height=%s]" h
  | "common" ->
    let b = kv "body" toks in
    let b = if b = "list:-" then "empty-list" else if after "list:" b <> None then (if site = Some SCommonNil then "list-with-height-0" else "list")
      else if after "bad:" b <> None then "bad" else b in
    Printf.sprintf "common[body=%s]" b
  | "whpost" ->
    let b = kv "body" toks in
    let b = match after "partial:" b with
      | Some u -> "bind-error-url-" ^ u
      | None -> if after "bad:" b <> None then "bind-error-url-empty" else b in
    Printf.sprintf "whpost[body=%s]" b
  | "verify" ->
    let b = kv "body" toks in
    let b = if after "bad:" b <> None then "bad" else if after "list:" b <> None then "list" else b in
    Printf.sprintf "verify[body=%s]" b
  | r -> r

let spec input obs =
  match parse input with
  | Unrouted ->
    if obs = "gin-3xx-4xx eff=none" then "OK"
    else if after "PANIC-ESCAPED" obs <> None then "FAIL unrouted.server-panicked " ^ obs   (* a panic came out of Engine.ServeHTTP *)
    else if after "CRASH" obs <> None then "FAIL unrouted.server-died " ^ obs
    else if after "NO-ANSWER" obs <> None then "FAIL unrouted.no-answer " ^ obs
    else if Stdlib.List.mem "eff=unreadable" (words obs) then "FAIL unrouted.store-unreadable-after " ^ obs
    else "FAIL unrouted.unexpected-answer " ^ obs
  | ErrCode _ -> "OK"   (* the error table is compared with the model only; the property speaks about requests *)
  | Req (e, q, route, toks) ->
    let cls = match route with
      | "accget" -> Printf.sprintf "accget[auth=%s]" (Stdlib.List.hd (words input))
      | _ -> class_of e q route toks in
    (match parse_obs obs with
     | None when after "PANIC-ESCAPED" obs <> None -> Printf.sprintf "FAIL %s.server-panicked %s" cls obs   (* a panic came out of Engine.ServeHTTP: over a socket the client gets no answer at all *)
     | None when after "NO-ANSWER" obs <> None -> Printf.sprintf "FAIL %s.no-answer %s" cls obs   (* no response within the deadline *)
     | Some _ when Stdlib.List.mem "eff=unreadable" (words obs) -> Printf.sprintf "FAIL %s.store-unreadable-after %s" cls obs   (* answered, but the store does not answer any more *)
     | None when after "CRASH" obs <> None -> Printf.sprintf "FAIL %s.server-died %s" cls obs   (* the child process serving the request died *)
     | None -> Printf.sprintf "FAIL %s.no-response %s" cls obs
     | Some (_, true) -> Printf.sprintf "FAIL %s.body-not-json %s" cls obs
     | Some (r, false) ->
       match check q r with
       | None -> "OK"
       | Some v -> Printf.sprintf "FAIL %s.%s %s" cls (violation_name v) obs)

let () = run_driver model spec
