(* C01 driver: runs the extracted model of chainService.Add on each history, and the history-level
   specification (ChainSpec) on the implementation's observed labels and tips. *)
open Vutil
open Vchain

let model input =
  let h = parse_history input in
  let s = ref (Chain.init h.gid h.gpl) in
  let n = Stdlib.List.length h.subs and sparse = is_sparse h in
  let steps = Stdlib.List.mapi (fun i sub ->
      let (s', o) = Chain.add h.forbidden !s sub in
      s := s';
      if sparse && not (sparse_sampled i n) then outcome_string o ^ "/-/-"
      else Printf.sprintf "%s/%s/%s" (outcome_string o) (tip_string s') (states_string s')) h.subs in
  Stdlib.String.concat ";" steps ^ "|" ^ rows_string !s

(* the specification applied to the IMPLEMENTATION's observable *)
let spec input obs =
  let h = parse_history input in
  match split_on '|' obs with
  | [steps_s; rows_s] ->
    let steps = if steps_s = "" then [] else split_on ';' steps_s in
    if Stdlib.List.length steps <> Stdlib.List.length h.subs then "FAIL step-count" else begin
      let s = ref (Chain.init h.gid h.gpl) in       (* label-free store of the spec; labels recomputed *)
      let verdict = ref "OK" in
      let fail c d = if !verdict = "OK" then verdict := "FAIL " ^ c ^ " " ^ d in
      Stdlib.List.iteri (fun i (sub, step) ->
          if !verdict = "OK" then begin
            let before_tip = ChainSpec.spec_tip !s in
            let (s', v) = ChainSpec.spec_step h.forbidden !s sub in
            s := s';
            let want_o = match v with
              | ChainSpec.VDuplicate -> "D" | ChainSpec.VForbidden -> "F"
              | ChainSpec.VStored ->
                let r = Stdlib.List.hd s' in "S" ^ st_letter (ChainSpec.spec_label s' r) in
            let sampled = not (is_sparse h) || sparse_sampled i (Stdlib.List.length h.subs) in
            let want = if sampled then Printf.sprintf "%s/%s/%s" want_o (dec_of_n (ChainSpec.spec_tip s')) (states_string (ChainSpec.spec_store s'))
              else want_o ^ "/-/-" in
            if step <> want then begin
              let got_o = Stdlib.List.hd (split_on '/' step) in
              let zero_child_of_tip = (work_of sub = BinNums.Z0) && (sub.Store.s_prev = before_tip) && v = ChainSpec.VStored in
              if got_o = "P" then fail "panic" (Printf.sprintf "step %d" i)
              else if Stdlib.String.length got_o > 0 && got_o.[0] = 'E' then fail "error-outcome" (Printf.sprintf "step %d %s" i got_o)
              else if zero_child_of_tip then fail "zero-work-child-of-tip" (Printf.sprintf "step %d got %s want %s" i step want)
              else fail "labels-or-tip-mismatch" (Printf.sprintf "step %d got %s want %s" i step want)
            end
          end)
        (Stdlib.List.combine h.subs steps);
      if !verdict = "OK" then begin
        let want_rows = rows_string (ChainSpec.spec_store !s) in
        if want_rows <> rows_s then fail "rows-mismatch" ("want " ^ want_rows)
      end;
      !verdict
    end
  | _ -> "FAIL malformed-observable"

let () = run_driver model spec
