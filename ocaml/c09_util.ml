(* conversions between OCaml strings and the extracted Coq strings (String0.string, Ascii.ascii);
   Coq's String module is extracted as String0 (Extraction Blacklist String, see coq/extract/C09.frag) *)
let ascii_of_char (c : char) : Ascii.ascii =
  let n = Char.code c in
  let b i = (n lsr i) land 1 = 1 in
  Ascii.Ascii (b 0, b 1, b 2, b 3, b 4, b 5, b 6, b 7)

let char_of_ascii (a : Ascii.ascii) : char =
  match a with
  | Ascii.Ascii (b0, b1, b2, b3, b4, b5, b6, b7) ->
    let v b i = if b then 1 lsl i else 0 in
    Char.chr (v b0 0 + v b1 1 + v b2 2 + v b3 3 + v b4 4 + v b5 5 + v b6 6 + v b7 7)

let coq_of_string (s : string) : String0.string =
  let r = ref String0.EmptyString in
  for i = Stdlib.String.length s - 1 downto 0 do
    r := String0.String (ascii_of_char (Stdlib.String.get s i), !r)
  done;
  !r

let string_of_coq (s : String0.string) : string =
  let b = Buffer.create 32 in
  let rec go = function
    | String0.EmptyString -> ()
    | String0.String (a, r) -> Buffer.add_char b (char_of_ascii a); go r in
  go s; Buffer.contents b
