(* C09 driver: runs the extracted Auth model (decide on the parsed header, needs_admin) and the extracted
   declarative oracle (spec_reaches: "Bearer " prefix + space-free remainder that is the admin token or an
   issued token; allow / under_api for routes outside the prefix) on the harness cases.
   Header templates are instantiated with symbolic token values: $A admin, $U issued, $R revoked (hence not
   in the table), $X never issued; the table is [$U].  The harness asserts that the real values are
   distinct 32-character alphanumerics (no space, no '$'), which makes the substitution faithful. *)
open Vutil
open C09_util

let admin_s = "ADMINTOKEN0000000000000000000000"
let user_s = "USERTOKEN00000000000000000000000"
let revoked_s = "REVOKEDTOKEN00000000000000000000"
let unknown_s = "UNKNOWNTOKEN00000000000000000000"
let table0 = [coq_of_string user_s]

let pct_decode (s : string) : string =
  let b = Buffer.create (Stdlib.String.length s) in
  let n = Stdlib.String.length s in
  let i = ref 0 in
  while !i < n do
    if s.[!i] = '%' && !i + 2 < n + 0 && !i + 2 <= n - 1 then begin
      (match int_of_string_opt ("0x" ^ Stdlib.String.sub s (!i + 1) 2) with
       | Some v -> Buffer.add_char b (Char.chr v); i := !i + 3
       | None -> Buffer.add_char b s.[!i]; incr i)
    end else begin Buffer.add_char b s.[!i]; incr i end
  done;
  Buffer.contents b

(* adm: the admin token of the case - the configured value when the case names one ("@<value>"), else symbolic *)
let subst adm t =
  (* ${fn:T}: a value derived from the credential T - symbolic: a distinct value without spaces that is neither the
     admin token nor in the table (the harness skips derivations that reproduce the credential itself) *)
  let t = Str.global_substitute (Str.regexp "\\${\\([a-z0-9]+\\):\\([AUX]\\)}")
      (fun s -> "DERIVED-" ^ Str.matched_group 1 s ^ "-OF-" ^ Str.matched_group 2 s) t in
  (* one pass: the admin literal may itself contain '$' *)
  Str.global_substitute (Str.regexp "\\$[AURX]")
    (fun s -> match Str.matched_string s with
       | "$A" -> adm | "$U" -> user_s | "$R" -> revoked_s | _ -> unknown_s) t

type case = { auth : bool; prof : bool; met : bool; fail : bool; empty : bool; over : string; admin : String0.string;
              meth : string; path : string; hdr : string }

(* "<a><p><m>[f][~T][@admin]" *)
let parse_cfg (cf : string) =
  let n = Stdlib.String.length cf in
  if n < 3 then None else
    (* "@<src>=<percent-encoded configured literal>": the model keeps the configured literal whatever the source *)
    let cf, adm = match Stdlib.String.index_opt cf '@' with
      | Some i when n - i - 1 >= 3 -> Stdlib.String.sub cf 0 i, pct_decode (Stdlib.String.sub cf (i + 3) (n - i - 3))
      | Some i -> Stdlib.String.sub cf 0 i, admin_s
      | None -> cf, admin_s in
    let flags = Stdlib.String.sub cf 0 3 and rest = Stdlib.String.sub cf 3 (Stdlib.String.length cf - 3) in
    let fail, rest = if rest <> "" && rest.[0] = 'f' then true, Stdlib.String.sub rest 1 (Stdlib.String.length rest - 1) else false, rest in
    (* 'e': no token has been issued (the tokens table is empty; $U and $R are never issued values then) *)
    let empty, rest = if rest <> "" && rest.[0] = 'e' then true, Stdlib.String.sub rest 1 (Stdlib.String.length rest - 1) else false, rest in
    (* "~T": overlap produced above the repository, "~sT": below it (slow SQL); the model does not distinguish them *)
    let over = if Stdlib.String.length rest = 2 && rest.[0] = '~' then Some (Stdlib.String.sub rest 1 1)
      else if Stdlib.String.length rest = 3 && rest.[0] = '~' && rest.[1] = 's' then Some (Stdlib.String.sub rest 2 1)
      else if rest = "" then Some "" else None in
    match over with
    | None -> None
    | Some over -> Some (flags.[0] = '1', flags.[1] = '1', flags.[2] = '1', fail, empty, over, adm)

(* "cfg=<a><p><m> <METHOD> <pattern> H-" | "... H=<template>" *)
let parse (input : string) : case option =
  let n = Stdlib.String.length input in
  let sp from = Stdlib.String.index_from_opt input from ' ' in
  match sp 0 with
  | None -> None
  | Some i1 ->
    (match sp (i1 + 1) with
     | None -> None
     | Some i2 ->
       (match sp (i2 + 1) with
        | None -> None
        | Some i3 ->
          let cfg = Stdlib.String.sub input 0 i1 in
          let meth = Stdlib.String.sub input (i1 + 1) (i2 - i1 - 1) in
          let path = Stdlib.String.sub input (i2 + 1) (i3 - i2 - 1) in
          let h = Stdlib.String.sub input (i3 + 1) (n - i3 - 1) in
          if Stdlib.String.length cfg < 7 || Stdlib.String.sub cfg 0 4 <> "cfg=" || Stdlib.String.length h < 2 || h.[0] <> 'H' then None
          else
            (match parse_cfg (Stdlib.String.sub cfg 4 (Stdlib.String.length cfg - 4)) with
             | None -> None
             | Some (auth, prof, met, fail, empty, over, adm) ->
               let hdr = if h = "H-" then Some "" (* absent: c.GetHeader returns "" *)
                 else if h.[1] = '=' then Some (subst adm (Stdlib.String.sub h 2 (Stdlib.String.length h - 2))) else None in
               (match hdr with
                | None -> None
                | Some hdr -> Some { auth; prof; met; fail; empty; over; admin = coq_of_string adm; meth; path; hdr }))))

let tbl c = if c.empty then [] else table0

(* "WSCHK": the token check of the websocket connect handler applied to the token of "Bearer <token>" *)
let ws_token c =
  let h = c.hdr in
  if Stdlib.String.length h >= 7 && Stdlib.String.sub h 0 7 = "Bearer " then Some (Stdlib.String.sub h 7 (Stdlib.String.length h - 7)) else None

let is_raw m = Stdlib.String.length m > 4 && Stdlib.String.sub m 0 4 = "RAW."
let raw_method m = match Stdlib.String.index_opt m ':' with
  | Some i -> Stdlib.String.sub m (i + 1) (Stdlib.String.length m - i - 1) | None -> m

let err_s = function
  | Auth.ErrMissingAuthHeader -> "ErrMissingAuthHeader"
  | Auth.ErrInvalidAuthHeader -> "ErrInvalidAuthHeader"
  | Auth.ErrInvalidAccessToken -> "ErrInvalidAccessToken"
  | Auth.ErrUnauthorized -> "ErrUnauthorized"
  | Auth.ErrAdminTokenNotFound -> "ErrAdminTokenNotFound"

let route c = (coq_of_string c.meth, coq_of_string c.path)

(* the held request of an overlap configuration: GET /api/v1/access with "Bearer <held token>" *)
let held_hdr c = coq_of_string (subst (string_of_coq c.admin) ("Bearer $" ^ c.over))

let model input =
  match parse input with
  | None -> "BAD-INPUT"
  | Some c when c.meth = "SETUP" -> "SETUP-OK"   (* every fixture step succeeds on a correct implementation *)
  | Some c when c.meth = "WSCHK" ->
    (match ws_token c with
     | None -> "BAD-INPUT"
     | Some t -> if not c.auth || (match Tokens.get_token c.admin (tbl c) (coq_of_string t) with Tokens.NoTok -> false | _ -> true) then "ws:ok" else "ws:no")
  | Some c when is_raw c.meth ->
    (* non-canonical spelling of the route's path: the model has no opinion on routing (404 / 301 / 307 / 400 / 401 are
       all fine); a request whose credential is not accepted never gets a 2xx and never changes a table *)
    let c = { c with meth = raw_method c.meth } in
    if Auth.spec_reaches c.auth c.admin (tbl c) (route c) (coq_of_string c.hdr) then "UNPREDICTED-accepted-credential"
    else "refused unchanged"
  | Some c ->
    let admin = c.admin in
    let r = route c in
    let fg =
      if Auth.under_api r then
        (match Auth.decide c.auth admin (Auth.visible (not c.fail) (tbl c)) (Auth.needs_admin r) (coq_of_string c.hdr) with
         | Auth.Reached -> "pass"
         | Auth.Denied e -> "401 " ^ err_s e ^ " unchanged")
      else "pass"   (* routes outside the API group carry no authentication middleware *) in
    if c.over = "" then fg
    else
      (* every verdict depends on its own credential only: the held request is decided as if it were alone *)
      fg ^ " bg=" ^ (match Auth.decide c.auth admin (Auth.visible (not c.fail) (tbl c)) false (held_hdr c) with
          | Auth.Reached -> "pass"
          | Auth.Denied e -> "401:" ^ err_s e)

let spec input obs =
  match parse input with
  | None -> "FAIL malformed-input"
  | Some c when c.meth = "SETUP" ->
    if obs = "SETUP-OK" then "OK" else "FAIL fixture-step-failed " ^ obs
  | Some c when c.meth = "WSCHK" ->
    (match ws_token c with
     | None -> "FAIL malformed-input"
     | Some t ->
       (* declaratively: accepted iff the token is the admin token or one of the issued tokens *)
       let ok = not c.auth || string_of_coq c.admin = t || Stdlib.List.exists (fun u -> string_of_coq u = t) (tbl c) in
       (match obs, ok with
        | "ws:ok", true | "ws:no", false -> "OK"
        | "ws:ok", false -> "FAIL websocket-check-accepts-non-credential"
        | "ws:no", true -> "FAIL valid-credential-rejected websocket check"
        | _ -> "FAIL malformed-observable " ^ obs))
  | Some c when is_raw c.meth ->
    let c' = { c with meth = raw_method c.meth } in
    if Auth.spec_reaches c'.auth c'.admin (tbl c') (route c') (coq_of_string c'.hdr) then "FAIL malformed-input spelling case with an accepted credential"
    else (match words obs with
        | ["refused"; "unchanged"] -> "OK"
        | [_; ch] when ch <> "unchanged" -> "FAIL state-changed-on-rejected-request " ^ ch ^ " (non-canonical path)"
        | ["2xx"; _] -> "FAIL unauthenticated-2xx-on-noncanonical-path"
        | _ -> "FAIL malformed-observable " ^ obs)
  | Some c ->
    let admin = c.admin in
    let r = route c in
    (* overlap configurations: split off and judge the answer of the held request *)
    let w0 = words obs in
    let bg_fail, obs =
      if c.over = "" then None, obs
      else match Stdlib.List.rev w0 with
        | last :: rest_rev when Stdlib.String.length last > 3 && Stdlib.String.sub last 0 3 = "bg=" ->
          let got = Stdlib.String.sub last 3 (Stdlib.String.length last - 3) in
          let must = Auth.spec_reaches c.auth admin (tbl c) (coq_of_string "GET", coq_of_string "/api/v1/access") (held_hdr c) in
          let ok = if must then got = "pass" else Stdlib.String.length got > 4 && Stdlib.String.sub got 0 4 = "401:" in
          (if ok then None else Some ("FAIL overlap-interference held request: " ^ got)),
          Stdlib.String.concat " " (Stdlib.List.rev rest_rev)
        | _ -> Some "FAIL malformed-observable no bg", obs in
    let fg_verdict =
    if not (Auth.under_api r) then
      (if Auth.allow c.prof c.met r then "OK" else "FAIL route-outside-prefix-not-allowlisted " ^ c.meth ^ " " ^ c.path)
    else begin
      (* token store failing: what must still be refused is decided with the real table (nothing may be admitted
         that a working store refuses); what must still be reached is decided with the empty table (the admin
         token); an issued token may be refused while its lookup fails (fail closed) *)
      let may_reach = Auth.spec_reaches c.auth admin (tbl c) r (coq_of_string c.hdr) in
      let must_reach = Auth.spec_reaches c.auth admin (Auth.visible (not c.fail) (tbl c)) r (coq_of_string c.hdr) in
      let w = words obs in
      if c.fail && may_reach && not must_reach then
        (match w with ["pass"] | ["401"; _; "unchanged"] -> "OK" | _ -> "FAIL malformed-observable " ^ obs)
      else
      match must_reach, w with
      | true, ["pass"] -> "OK"
      | true, _ -> if c.auth then "FAIL valid-credential-rejected " ^ obs else "FAIL auth-disabled-route-rejected " ^ obs
      | false, ["pass"] ->
        if Auth.needs_admin r && Auth.spec_reaches c.auth admin (tbl c) (coq_of_string "GET", snd r) (coq_of_string c.hdr)
        then "FAIL non-admin-reached-admin-route" else "FAIL unauthenticated-request-reached-handler"
      | false, ["401"; "UNSTRUCTURED"; "unchanged"] -> "FAIL unstructured-401"
      | false, ["401"; _; "unchanged"] -> "OK"
      | false, ["401"; _; ch] -> "FAIL state-changed-on-rejected-request " ^ ch
      | false, _ -> "FAIL malformed-observable " ^ obs
    end in
    if fg_verdict <> "OK" then fg_verdict else (match bg_fail with Some m -> m | None -> "OK")

let () = run_driver model spec
