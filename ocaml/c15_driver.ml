(* C15 driver: replays the observed trace of repository operations on the serialised model (Conc.v) and
   applies the specification: valid final table, equal to SOME sequential order, every observed tip a
   longest-chain header of a valid view. *)
open Vutil
open Vchain

let starts p s = Stdlib.String.length s >= Stdlib.String.length p && Stdlib.String.sub s 0 (Stdlib.String.length p) = p
let after p s = Stdlib.String.sub s (Stdlib.String.length p) (Stdlib.String.length s - Stdlib.String.length p)

type scen = { h : hist; conc : (int * Store.src) list; trace : (int * Conc.opk) list }

let parse_scen input =
  let h = parse_history input in
  let conc = ref [] and trace = ref [] in
  Stdlib.List.iter (fun x ->
      if starts "trace:" x then
        trace := Stdlib.List.map (fun t ->
            let tid = Stdlib.Char.code t.[0] - 48 in
            let k = match t.[1] with 'W' -> Conc.OpW | 'T' -> Conc.OpT | _ -> Conc.OpR in (tid, k))
            (Stdlib.List.filter (fun t -> t <> "") (split_on '.' (after "trace:" x)))
      else if starts "t" x && not (starts "trace" x) then begin
        match Stdlib.String.index_opt x ':' with
        | Some k ->
          let tid = int_of_string (Stdlib.String.sub x 1 (k - 1)) in
          let sub = (parse_history (Stdlib.String.sub x (k + 1) (Stdlib.String.length x - k - 1))).subs in
          conc := (tid, Stdlib.List.hd sub) :: !conc
        | None -> ()
      end) h.extras;
  { h; conc = Stdlib.List.rev !conc; trace = !trace }

let setup_store sc =
  Stdlib.List.fold_left (fun s sub -> fst (Chain.add sc.h.forbidden s sub)) (Chain.init sc.h.gid sc.h.gpl) sc.h.subs

let model input =
  let sc = parse_scen input in
  let hdr tid = Stdlib.List.assoc_opt (int_of_nat tid) sc.conc in
  let tr = Stdlib.List.map (fun (t, k) -> (nat_of_int t, k)) sc.trace in
  let st = Conc.crun sc.h.forbidden hdr (Conc.cinit (setup_store sc)) tr in
  if st.Conc.c_bad || not (Conc.quiescent st) then "NOT-SERIALISED" else begin
    let outs = Stdlib.List.map (fun (tid, _) ->
        match Stdlib.List.assoc_opt (nat_of_int tid) st.Conc.c_outs with
        | Some o -> outcome_string o | None -> "?") sc.conc in
    let tips = Stdlib.List.rev_map (function Some i -> dec_of_n i | None -> "-2") st.Conc.c_tips in
    (* one ADD event per header that some submitter's Add stored *)
    let ids = Stdlib.List.sort_uniq compare (Stdlib.List.map (fun (_, sub) -> sub.Store.s_id) sc.conc) in
    let order = Stdlib.List.fold_left (fun acc (_, sub) -> if Stdlib.List.mem sub.Store.s_id acc then acc else acc @ [sub.Store.s_id]) [] sc.conc in
    ignore ids;
    let evs = Stdlib.List.map (fun i ->
        let n = Stdlib.List.length (Stdlib.List.filter (fun (tid, sub) ->
            sub.Store.s_id = i && (match Stdlib.List.assoc_opt (nat_of_int tid) st.Conc.c_outs with Some (Chain.Stored _) -> true | _ -> false)) sc.conc) in
        Printf.sprintf "%s=%d" (dec_of_n i) n) order in
    Stdlib.String.concat "," outs ^ "|" ^ Stdlib.String.concat "," tips ^ "|" ^ rows_string st.Conc.c_store ^ "|" ^ Stdlib.String.concat "," evs
  end

let rec perms = function
  | [] -> [[]]
  | l -> Stdlib.List.concat_map (fun x -> Stdlib.List.map (fun p -> x :: p) (perms (Stdlib.List.filter (fun y -> y != x) l))) l

let spec input obs =
  let sc = parse_scen input in
  match split_on '|' obs with
  | [outs; tips; rows_s; evs] ->
    let rows = parse_rows rows_s in
    let ev_bad = Stdlib.List.filter (fun e -> match split_on '=' e with
        | [i; n] -> let present = Stdlib.List.exists (fun r -> dec_of_n r.Store.id = i) rows in
          let setup_has = Stdlib.List.exists (fun sub -> dec_of_n sub.Store.s_id = i) sc.h.subs in
          (* a header stored by this scenario announces itself exactly once; one that was not stored (or was there before) never *)
          if present && not setup_has then n <> "1" else n <> "0"
        | _ -> e <> "") (if evs = "" then [] else split_on ',' evs) in
    if ev_bad <> [] then "FAIL add-events-not-exactly-one-per-stored-header " ^ evs else
    if Stdlib.List.exists (fun o -> o = "P") (split_on ',' outs) then "FAIL panic " ^ outs
    else if not (Crash.struct_validb rows) then "FAIL two-longest-at-one-height-or-broken-chain " ^ rows_s
    else begin
      (* equals SOME sequential order of the concurrently submitted headers (spec: history-level) *)
      let base = setup_store sc in
      let seqs = perms (Stdlib.List.map snd sc.conc) in
      let ok = Stdlib.List.exists (fun order ->
          let s = Stdlib.List.fold_left (fun s sub -> fst (Chain.add sc.h.forbidden s sub)) base order in
          rows_string s = rows_s) seqs in
      if not ok then "FAIL not-a-sequential-outcome " ^ rows_s
      else begin
        (* every tip the reader saw is a stored, connected header *)
        let ids = Stdlib.List.map (fun r -> dec_of_n r.Store.id) (Stdlib.List.filter (fun r -> r.Store.st <> Store.Orphan) rows) in
        let bad = Stdlib.List.filter (fun t -> t <> "" && not (Stdlib.List.mem t ids)) (split_on ',' tips) in
        if bad <> [] then "FAIL reader-saw-invalid-tip " ^ Stdlib.String.concat "," bad else "OK"
      end
    end
  | _ -> "FAIL malformed-observable"

let () = run_driver model spec
