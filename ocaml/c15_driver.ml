(* C15 driver: replays the observed trace of repository operations on the serialised model (Conc.v) and
   applies the specification: valid final table, equal to SOME sequential order, every observed tip a
   longest-chain header of a valid view. *)
open Vutil
open Vchain

let starts p s = Stdlib.String.length s >= Stdlib.String.length p && Stdlib.String.sub s 0 (Stdlib.String.length p) = p
let after p s = Stdlib.String.sub s (Stdlib.String.length p) (Stdlib.String.length s - Stdlib.String.length p)

type scen = { h : hist; conc : (int * Store.src) list; trace : (int * Conc.opk) list; ca : BinNums.coq_N list; nreads : int }

let parse_scen input =
  let h = parse_history input in
  let conc = ref [] and trace = ref [] and ca = ref [] and nreads = ref 0 in
  Stdlib.List.iter (fun x ->
      if starts "trace:" x then
        trace := Stdlib.List.map (fun t ->
            let tid = Stdlib.Char.code t.[0] - 48 in
            let k = match t.[1] with 'W' -> Conc.OpW | 'T' -> Conc.OpT | _ -> Conc.OpR in (tid, k))
            (Stdlib.List.filter (fun t -> t <> "") (split_on '.' (after "trace:" x)))
      else if starts "ca:" x then
        ca := Stdlib.List.map (fun t -> n_of_zt (Z.of_string t)) (Stdlib.List.filter (fun t -> t <> "") (split_on '.' (after "ca:" x)))
      else if starts "readers:" x then nreads := int_of_string (after "readers:" x)
      else if starts "t" x && not (starts "trace" x) then begin
        match Stdlib.String.index_opt x ':' with
        | Some k ->
          let tid = int_of_string (Stdlib.String.sub x 1 (k - 1)) in
          let sub = (parse_history (Stdlib.String.sub x (k + 1) (Stdlib.String.length x - k - 1))).subs in
          conc := (tid, Stdlib.List.hd sub) :: !conc
        | None -> ()
      end) h.extras;
  { h; conc = Stdlib.List.rev !conc; trace = !trace; ca = !ca; nreads = !nreads }


(* ---------- "free" cases: free-running readers checked for linearizability against the model ---------- *)
type read = { kind : string; kb : int; ka : int; ans : string }

let parse_reads h =
  Stdlib.List.concat_map (fun x ->
      if starts "reads:" x then
        Stdlib.List.filter_map (fun t ->
            if t = "" then None else
              match split_on '.' t with
              | [k; kb; ka; ans] -> Some { kind = k; kb = int_of_string kb; ka = int_of_string ka; ans }
              | _ -> failwith ("bad read " ^ t)) (split_on '/' (after "reads:" x))
      else []) h.extras

let is_free h = Stdlib.List.mem "free" h.extras

(* stores after k = 0..n submissions, and the main-chain height / sub at each *)
let prefixes h =
  let n = Stdlib.List.length h.subs in
  let arr = Stdlib.Array.make (n + 1) (Chain.init h.gid h.gpl) in
  Stdlib.List.iteri (fun i sub -> arr.(i + 1) <- fst (Chain.add h.forbidden arr.(i) sub)) h.subs;
  arr

let main_heights h =
  let n = Stdlib.List.length h.subs in
  let mh = Stdlib.Array.make (n + 1) 0 in
  let at = Stdlib.Hashtbl.create 64 in
  Stdlib.List.iteri (fun i sub ->
      let is_main = Z.lt (zt_of_n sub.Store.s_id) (Z.of_int 10000) in
      mh.(i + 1) <- mh.(i) + (if is_main then 1 else 0);
      if is_main then Stdlib.Hashtbl.replace at mh.(i + 1) sub) h.subs;
  (mh, at)

let model_answer h (mh, at) (stores : Store.store array) (r : read) (k : int) : string =
  let s = stores.(k) in
  match r.kind with
  | "t" -> tip_string s
  | "v" ->
    let items = Stdlib.List.filter_map (fun d ->
        match Stdlib.Hashtbl.find_opt at (mh.(r.kb) + d) with
        | Some sub -> Some (sub.Store.s_pl.Store.p_merkle, z_of_int (mh.(r.kb) + d))
        | None -> None) [0; 1; 2] in
    (match Merkle.verify s (z_of_int 6) items with
     | Merkle.VOk (_, l) -> Stdlib.String.concat "" (Stdlib.List.map (fun ((_, _), c) ->
         match c with Merkle.Confirmed _ -> "C" | Merkle.UnableToVerify -> "U" | Merkle.Invalid -> "I") l)
     | _ -> "E400")
  | k when Stdlib.String.length k > 1 && k.[0] = 'H' ->
    (match split_on 'c' (Stdlib.String.sub k 1 (Stdlib.String.length k - 1)) with
     | [hs; cs] ->
       let rows = Query.by_height_range s (z_of_int (int_of_string hs)) (Some (z_of_int (int_of_string cs))) in
       let ids = Stdlib.List.sort Z.compare (Stdlib.List.map (fun x -> zt_of_n x.Store.id) rows) in
       "L" ^ Stdlib.String.concat "+" (Stdlib.List.map Z.to_string ids)
     | _ -> "?")
  | k when Stdlib.String.length k > 1 && k.[0] = 'M' ->
    (match split_on 'c' (Stdlib.String.sub k 1 (Stdlib.String.length k - 1)) with
     | [hs; cs] ->
       let key = (match Stdlib.Hashtbl.find_opt at (int_of_string hs) with
           | Some sub -> Some sub.Store.s_pl.Store.p_merkle | None -> None) in
       (* merkle roots are distinct in these histories: the hash order of headers sharing a root plays no part *)
       let hlt a b = Z.lt (zt_of_n a) (zt_of_n b) in
       (match Merkle.page_http hlt s (Merkle.BInt (z_of_int (int_of_string cs))) key with
        | Merkle.HPage (Merkle.POk (c, lk, _)) ->
          "P" ^ Stdlib.String.concat "+" (Stdlib.List.map (fun (r, hgt) -> dec_of_n r ^ ":" ^ Z.to_string (zt_of_z hgt)) c)
          ^ "k" ^ (match lk with None -> "-" | Some r -> dec_of_n r)
        | Merkle.HPage Merkle.PErrNotFound -> "E404" | Merkle.HPage Merkle.PErrConflict -> "E409"
        | Merkle.HPage Merkle.PErrNoTip -> "E500" | Merkle.HBadBatch -> "E400")
     | _ -> "?")
  | "h" ->
    let rows = Query.by_height_range s (z_of_int mh.(r.kb)) (Some (z_of_int 3)) in
    let ids = Stdlib.List.sort Z.compare (Stdlib.List.map (fun x -> zt_of_n x.Store.id) rows) in
    "L" ^ Stdlib.String.concat "+" (Stdlib.List.map Z.to_string ids)
  | _ -> "?"

let allowed h mhat stores r =
  let n = Stdlib.Array.length stores - 1 in
  let lo = max 0 (min r.kb n) and hi = max 0 (min r.ka n) in
  let rec go k acc = if k > hi then Stdlib.List.rev acc else
      let a = model_answer h mhat stores r k in go (k + 1) (if Stdlib.List.mem a acc then acc else a :: acc) in
  go lo []

(* tip and byHeight are one query each: the whole answer must be the model's answer on ONE store of the window.
   A verification request looks its items up one after the other (the property promises a verdict per item, not a
   snapshot across items): each item's verdict must be the model's verdict on SOME store of the window. *)
let answer_ok h mhat stores r (a : string) =
  let al = allowed h mhat stores r in
  if r.kind <> "v" then Stdlib.List.mem a al
  else
    Stdlib.List.exists (fun x -> Stdlib.String.length x = Stdlib.String.length a) al &&
    (let ok = ref true in
     Stdlib.String.iteri (fun i ch ->
         if not (Stdlib.List.exists (fun x -> Stdlib.String.length x > i && x.[i] = ch) al) then ok := false) a;
     !ok)

let free_model input =
  let h = parse_history input in
  let stores = prefixes h and mhat = main_heights h in
  let reads = parse_reads h in
  let final = stores.(Stdlib.Array.length stores - 1) in
  (* a read whose recorded answer is one of the allowed ones is echoed; otherwise the allowed set is printed *)
  let outs = Stdlib.List.map (fun r ->
      if answer_ok h mhat stores r r.ans then r.ans else "{" ^ Stdlib.String.concat "," (allowed h mhat stores r) ^ "}") reads in
  rows_string final ^ "|" ^ Stdlib.String.concat "/" outs ^ "|ev=ok"

let free_spec input obs =
  let h = parse_history input in
  match split_on '|' obs with
  | [rows_s; answers; evs] ->
    if evs <> "ev=ok" then "FAIL add-events-not-exactly-one-per-stored-header " ^ evs else
    let stores = prefixes h and mhat = main_heights h in
    let reads = parse_reads h in
    let final = stores.(Stdlib.Array.length stores - 1) in
    let got = if answers = "" then [] else split_on '/' answers in
    if not (Crash.struct_validb (parse_rows rows_s)) then "FAIL two-longest-at-one-height-or-broken-chain " ^ rows_s
    else if rows_string final <> rows_s then "FAIL not-a-sequential-outcome final table differs from the sequential ingestion of the same history"
    else if Stdlib.List.length got <> Stdlib.List.length reads then "FAIL malformed-observable"
    else begin
      let bad = Stdlib.List.filter_map (fun (r, a) ->
          let al = allowed h mhat stores r in
          if a = r.ans && answer_ok h mhat stores r a then None
          else Some (Printf.sprintf "%s@[%d,%d] answered %s, allowed {%s}" r.kind r.kb r.ka a (Stdlib.String.concat "," al)))
          (Stdlib.List.combine reads got) in
      match bad with
      | [] -> "OK"
      | b :: _ -> Printf.sprintf "FAIL reader-answer-not-linearizable %d of %d reads, first: %s" (Stdlib.List.length bad) (Stdlib.List.length reads) b
    end
  | _ -> "FAIL malformed-observable"

let setup_store sc =
  Stdlib.List.fold_left (fun s sub -> fst (Chain.add sc.h.forbidden s sub)) (Chain.init sc.h.gid sc.h.gpl) sc.h.subs

(* the common ancestor of headers of the setup follows parent links only: the same before, during and after any
   reorganisation - computed on the setup store *)
let ca_expected sc =
  if sc.ca = [] then [] else
    let a = match Query.common_ancestor (setup_store sc) sc.ca with
      | Query.COk r -> dec_of_n r.Store.id | Query.CNil -> "nil" | _ -> "E" in
    Stdlib.List.init sc.nreads (fun _ -> a)

let model input =
  if is_free (parse_history input) then free_model input else
  let sc = parse_scen input in
  let hdr tid = Stdlib.List.assoc_opt (int_of_nat tid) sc.conc in
  let tr = Stdlib.List.map (fun (t, k) -> (nat_of_int t, k)) sc.trace in
  let st = Conc.crun sc.h.forbidden hdr (Conc.cinit (setup_store sc)) tr in
  if st.Conc.c_bad || not (Conc.quiescent st) then "NOT-SERIALISED" else begin
    let is_exp = Stdlib.List.mem "exp" sc.h.extras in
    (* x=exp: the headers are delivered through experimental peers, whose handler does not expose Add's outcome *)
    let outs = Stdlib.List.map (fun (tid, _) ->
        if is_exp then "?" else
        match Stdlib.List.assoc_opt (nat_of_int tid) st.Conc.c_outs with
        | Some o -> outcome_string o | None -> "?") sc.conc in
    let tips = Stdlib.List.rev_map (function Some i -> dec_of_n i | None -> "-2") st.Conc.c_tips in
    (* one ADD event per header that some submitter's Add stored *)
    let ids = Stdlib.List.sort_uniq compare (Stdlib.List.map (fun (_, sub) -> sub.Store.s_id) sc.conc) in
    let order = Stdlib.List.fold_left (fun acc (_, sub) -> if Stdlib.List.mem sub.Store.s_id acc then acc else acc @ [sub.Store.s_id]) [] sc.conc in
    ignore ids;
    let evs = Stdlib.List.map (fun i ->
        let n = Stdlib.List.length (Stdlib.List.filter (fun (tid, sub) ->
            sub.Store.s_id = i && (match Stdlib.List.assoc_opt (nat_of_int tid) st.Conc.c_outs with Some (Chain.Stored _) -> true | _ -> false)) sc.conc) in
        Printf.sprintf "%s=%d" (dec_of_n i) n) order in
    Stdlib.String.concat "," outs ^ "|" ^ Stdlib.String.concat "," tips ^ "|" ^ rows_string st.Conc.c_store ^ "|" ^ Stdlib.String.concat "," evs
    ^ "|" ^ Stdlib.String.concat "," (ca_expected sc)
  end

let rec perms = function
  | [] -> [[]]
  | l -> Stdlib.List.concat_map (fun x -> Stdlib.List.map (fun p -> x :: p) (perms (Stdlib.List.filter (fun y -> y != x) l))) l

let spec input obs =
  if is_free (parse_history input) then free_spec input obs else
  let sc = parse_scen input in
  match (match split_on '|' obs with [a; b; c; d] -> [a; b; c; d; ""] | l -> l) with
  | [outs; tips; rows_s; evs; cas] ->
    let rows = parse_rows rows_s in
    (* the reader's views (realised observations carried in the case line): one LONGEST_CHAIN header per height
       from 0 up, each the child of the one below *)
    let bad_view = Stdlib.List.find_opt (fun v ->
        if v = "E" then true else
          let ents = Stdlib.List.filter_map (fun e -> match split_on '.' e with
              | [h; i; p] -> Some (int_of_string h, i, p) | _ -> None) (if v = "" then [] else split_on ',' v) in
          let ents = Stdlib.List.sort compare ents in
          let rec ok expect prev_id = function
            | [] -> expect > 0
            | (h, i, p) :: rest -> h = expect && (h = 0 || p = prev_id) && ok (expect + 1) i rest in
          not (ok 0 "" ents))
        (Stdlib.List.concat_map (fun x -> if starts "views:" x then split_on '/' (after "views:" x) else []) sc.h.extras) in
    if bad_view <> None then "FAIL reader-saw-invalid-chain " ^ (match bad_view with Some v -> v | None -> "") else
    (* the reader's locator builds (realised, carried in the case line): each must have completed with known hashes *)
    let bad_loc = Stdlib.List.find_opt (fun l -> l <> "ok" && l <> "")
        (Stdlib.List.concat_map (fun x -> if starts "locs:" x then split_on '/' (after "locs:" x) else []) sc.h.extras) in
    if bad_loc <> None then "FAIL reader-locator-build-failed " ^ (match bad_loc with Some v -> v | None -> "") else
    (* what GET chain/tip/longest answered to the reader (realised): a header labelled LONGEST_CHAIN *)
    let bad_api = Stdlib.List.find_opt (fun l -> l <> "ok" && l <> "")
        (Stdlib.List.concat_map (fun x -> if starts "apitips:" x then split_on '/' (after "apitips:" x) else []) sc.h.extras) in
    if bad_api <> None then "FAIL api-tip-not-labelled-longest " ^ (match bad_api with Some v -> v | None -> "") else
    let want_ca = Stdlib.String.concat "," (ca_expected sc) in
    if cas <> want_ca then Printf.sprintf "FAIL reader-common-ancestor-wrong got %s want %s" cas want_ca else
    let ev_bad = Stdlib.List.filter (fun e -> match split_on '=' e with
        | [i; n] -> let present = Stdlib.List.exists (fun r -> dec_of_n r.Store.id = i) rows in
          let setup_has = Stdlib.List.exists (fun sub -> dec_of_n sub.Store.s_id = i) sc.h.subs in
          (* a header stored by this scenario announces itself exactly once; one that was not stored (or was there before) never *)
          if present && not setup_has then n <> "1" else n <> "0"
        | _ -> e <> "") (if evs = "" then [] else split_on ',' evs) in
    if ev_bad <> [] then "FAIL add-events-not-exactly-one-per-stored-header " ^ evs else
    if Stdlib.List.exists (fun o -> o = "P") (split_on ',' outs) then "FAIL panic " ^ outs
    else if not (Crash.struct_validb rows) then "FAIL two-longest-at-one-height-or-broken-chain " ^ rows_s
    else begin
      (* equals SOME sequential order of the concurrently submitted headers (spec: history-level) *)
      let base = setup_store sc in
      let seqs = perms (Stdlib.List.map snd sc.conc) in
      let ok = Stdlib.List.exists (fun order ->
          let s = Stdlib.List.fold_left (fun s sub -> fst (Chain.add sc.h.forbidden s sub)) base order in
          rows_string s = rows_s) seqs in
      if not ok then "FAIL not-a-sequential-outcome " ^ rows_s
      else begin
        (* every tip the reader saw is a stored, connected header *)
        let ids = Stdlib.List.map (fun r -> dec_of_n r.Store.id) (Stdlib.List.filter (fun r -> r.Store.st <> Store.Orphan) rows) in
        let bad = Stdlib.List.filter (fun t -> t <> "" && not (Stdlib.List.mem t ids)) (split_on ',' tips) in
        if bad <> [] then "FAIL reader-saw-invalid-tip " ^ Stdlib.String.concat "," bad else "OK"
      end
    end
  | _ -> "FAIL malformed-observable"

let () = run_driver model spec
