(* C14 driver: runs the extracted wire model (WireBase / WireMsg / WireFrame) and the extracted
   declarative oracles (WireSpec) on the harness cases.  Glue only: text <-> extracted values. *)
open Vutil
open BinNums

(* ---------- bytes ---------- *)
let ntab : coq_N array = Array.init 256 n_of_int
let byte_of_n (n : coq_N) : int = int_of_n n
let hexval c =
  match c with
  | '0' .. '9' -> Char.code c - 48
  | 'a' .. 'f' -> Char.code c - 87
  | 'A' .. 'F' -> Char.code c - 55
  | _ -> failwith "hex"

let bytes_of_hex (s : string) : coq_N list =
  let n = String.length s / 2 in
  let rec go i acc = if i < 0 then acc else go (i - 1) (ntab.(hexval s.[2 * i] * 16 + hexval s.[2 * i + 1]) :: acc) in
  go (n - 1) []

let string_of_bytes (l : coq_N list) : string =
  let b = Buffer.create 256 in
  Stdlib.List.iter (fun x -> Buffer.add_char b (Char.chr (byte_of_n x land 255))) l;
  Buffer.contents b

let hex_of_string (s : string) : string =
  let b = Buffer.create (2 * String.length s) in
  String.iter (fun c -> Buffer.add_string b (Printf.sprintf "%02x" (Char.code c))) s;
  Buffer.contents b

let hex_of_bytes l = hex_of_string (string_of_bytes l)
let bytes_of_string (s : string) : coq_N list =
  let rec go i acc = if i < 0 then acc else go (i - 1) (ntab.(Char.code s.[i]) :: acc) in
  go (String.length s - 1) []

(* same rule as c14Bytes in the Go runner *)
let show_bytes (l : coq_N list) : string =
  let s = string_of_bytes l in
  if String.length s <= 1024 then "x" ^ hex_of_string s
  else Printf.sprintf "m%d:%s" (String.length s) (Digest.to_hex (Digest.string s))

let rec list_len l acc = match l with [] -> acc | _ :: r -> list_len r (acc + 1)
let llen l = list_len l 0

(* ---------- error classes ---------- *)
let err_name (e : WireBase.err) : string =
  match e with
  | WireBase.EEOF -> "E:eof" | WireBase.EUEOF -> "E:ueof" | WireBase.ENonCanon -> "E:noncanon"
  | WireBase.EStrTooLong -> "E:strtoolong" | WireBase.EBytesTooLong -> "E:bytestoolong" | WireBase.ETooMany -> "E:toomany" | WireBase.EHasTx -> "E:hastx" | WireBase.EDataTooLarge -> "E:toolarge"
  | WireBase.EUALong -> "E:ualong" | WireBase.EPverLow -> "E:pverlow" | WireBase.EOversize -> "E:oversize"
  | WireBase.EWrongNet -> "E:wrongnet" | WireBase.EBadCmd -> "E:badcmd" | WireBase.EUnknownCmd -> "E:unknowncmd"
  | WireBase.ETypeMax -> "E:typemax" | WireBase.EChecksum -> "E:checksum"

(* ---------- summaries ---------- *)
let cmd_string (k : WireMsg.kind) = string_of_bytes (WireMsg.cmd_bytes k)

let sum_na (a : WireBase.netaddr) =
  Printf.sprintf "%s~%s~%s~%s" (dec_of_z a.WireBase.na_ts) (dec_of_n a.WireBase.na_svc) (hex_of_bytes a.WireBase.na_ip)
    (dec_of_n a.WireBase.na_port)

let sum_iv (l : WireBase.invvect list) =
  String.concat "/" (Stdlib.List.map (fun iv -> Printf.sprintf "%s~%s" (dec_of_n iv.WireBase.iv_type) (hex_of_bytes iv.WireBase.iv_hash)) l)

let sum_loc pv locs stop =
  Printf.sprintf "%s,%s,%s" (dec_of_n pv) (hex_of_bytes stop) (String.concat "/" (Stdlib.List.map hex_of_bytes locs))

let summarize (m : WireMsg.msg) : string =
  match m with
  | WireMsg.MVersion v ->
    Printf.sprintf "version:%s,%s,%s,%s,%s,%s,%s,%s,%d" (dec_of_z v.WireMsg.v_pver) (dec_of_n v.WireMsg.v_svc)
      (dec_of_z v.WireMsg.v_ts) (sum_na v.WireMsg.v_you) (sum_na v.WireMsg.v_me) (dec_of_n v.WireMsg.v_nonce)
      (hex_of_bytes v.WireMsg.v_ua) (dec_of_z v.WireMsg.v_lastblock) (if v.WireMsg.v_disable_relay then 1 else 0)
  | WireMsg.MVerAck -> "verack:"
  | WireMsg.MGetAddr -> "getaddr:"
  | WireMsg.MAddr l -> "addr:" ^ String.concat "/" (Stdlib.List.map sum_na l)
  | WireMsg.MGetBlocks (pv, locs, stop) -> "getblocks:" ^ sum_loc pv locs stop
  | WireMsg.MGetHeaders (pv, locs, stop) -> "getheaders:" ^ sum_loc pv locs stop
  | WireMsg.MHeaders l ->
    "headers:" ^ String.concat "/" (Stdlib.List.map (fun h ->
        Printf.sprintf "%s~%s~%s~%s~%s~%s" (dec_of_z h.WireBase.bh_ver) (hex_of_bytes h.WireBase.bh_prev)
          (hex_of_bytes h.WireBase.bh_merkle) (dec_of_z h.WireBase.bh_ts) (dec_of_n h.WireBase.bh_bits)
          (dec_of_n h.WireBase.bh_nonce)) l)
  | WireMsg.MInv l -> "inv:" ^ sum_iv l
  | WireMsg.MGetData l -> "getdata:" ^ sum_iv l
  | WireMsg.MNotFound l -> "notfound:" ^ sum_iv l
  | WireMsg.MPing n -> "ping:" ^ dec_of_n n
  | WireMsg.MPong n -> "pong:" ^ dec_of_n n
  | WireMsg.MReject (cmd, code, reason, hash) ->
    Printf.sprintf "reject:%s,%s,%s,%s" (hex_of_bytes cmd) (dec_of_n code) (hex_of_bytes reason) (hex_of_bytes hash)
  | WireMsg.MSendHeaders -> "sendheaders:"
  | WireMsg.MFeeFilter f -> "feefilter:" ^ dec_of_z f
  | WireMsg.MMemPool -> "mempool:"
  | WireMsg.MProtoconf (nf, mrl) -> Printf.sprintf "protoconf:%s,%s" (dec_of_n nf) (dec_of_n mrl)
  | WireMsg.MFilterAdd d -> "filteradd:" ^ hex_of_bytes d
  | WireMsg.MFilterClear -> "filterclear:"
  | WireMsg.MFilterLoad (f, h, t, fl) ->
    Printf.sprintf "filterload:%s,%s,%s,%s" (hex_of_bytes f) (dec_of_n h) (dec_of_n t) (dec_of_n fl)
  | WireMsg.MOpaque k -> "opaque:" ^ cmd_string k

let split c s = if s = "" then [] else split_on c s

let parse_na s : WireBase.netaddr =
  match split_on '~' s with
  | [ts; svc; ip; port] ->
    { WireBase.na_ts = z_of_string ts; na_svc = n_of_string svc; na_ip = bytes_of_hex ip; na_port = n_of_string port }
  | _ -> failwith "netaddr"

let parse_iv s : WireBase.invvect list =
  Stdlib.List.map (fun e -> match split_on '~' e with
      | [t; h] -> { WireBase.iv_type = n_of_string t; iv_hash = bytes_of_hex h }
      | _ -> failwith "invvect") (split '/' s)

let parse_loc s =
  match split_on ',' s with
  | [pv; stop; locs] -> (n_of_string pv, Stdlib.List.map bytes_of_hex (split '/' locs), bytes_of_hex stop)
  | _ -> failwith "locator"

let parse_msg (s : string) : WireMsg.msg =
  let i = String.index s ':' in
  let kind = String.sub s 0 i and body = String.sub s (i + 1) (String.length s - i - 1) in
  match kind with
  | "version" ->
    (match split_on ',' body with
     | [pv; svc; ts; you; me; nonce; ua; lb; dr] ->
       WireMsg.MVersion { WireMsg.v_pver = z_of_string pv; v_svc = n_of_string svc; v_ts = z_of_string ts; v_you = parse_na you;
                          v_me = parse_na me; v_nonce = n_of_string nonce; v_ua = bytes_of_hex ua; v_lastblock = z_of_string lb;
                          v_disable_relay = (dr = "1") }
     | _ -> failwith "version")
  | "verack" -> WireMsg.MVerAck
  | "getaddr" -> WireMsg.MGetAddr
  | "addr" -> WireMsg.MAddr (Stdlib.List.map parse_na (split '/' body))
  | "getblocks" -> let (pv, l, st) = parse_loc body in WireMsg.MGetBlocks (pv, l, st)
  | "getheaders" -> let (pv, l, st) = parse_loc body in WireMsg.MGetHeaders (pv, l, st)
  | "headers" ->
    WireMsg.MHeaders (Stdlib.List.map (fun e -> match split_on '~' e with
        | [v; p; m; t; b; n] ->
          { WireBase.bh_ver = z_of_string v; bh_prev = bytes_of_hex p; bh_merkle = bytes_of_hex m; bh_ts = z_of_string t;
            bh_bits = n_of_string b; bh_nonce = n_of_string n }
        | _ -> failwith "header") (split '/' body))
  | "inv" -> WireMsg.MInv (parse_iv body)
  | "getdata" -> WireMsg.MGetData (parse_iv body)
  | "notfound" -> WireMsg.MNotFound (parse_iv body)
  | "ping" -> WireMsg.MPing (n_of_string body)
  | "pong" -> WireMsg.MPong (n_of_string body)
  | "reject" ->
    (match split_on ',' body with
     | [cmd; code; reason; hash] -> WireMsg.MReject (bytes_of_hex cmd, n_of_string code, bytes_of_hex reason, bytes_of_hex hash)
     | _ -> failwith "reject")
  | "sendheaders" -> WireMsg.MSendHeaders
  | "feefilter" -> WireMsg.MFeeFilter (z_of_string body)
  | "mempool" -> WireMsg.MMemPool
  | "protoconf" ->
    (match split_on ',' body with
     | [nf; mrl] -> WireMsg.MProtoconf (n_of_string nf, n_of_string mrl)
     | _ -> failwith "protoconf")
  | "filteradd" -> WireMsg.MFilterAdd (bytes_of_hex body)
  | "filterclear" -> WireMsg.MFilterClear
  | "filterload" ->
    (match split_on ',' body with
     | [f; h; t; fl] -> WireMsg.MFilterLoad (bytes_of_hex f, n_of_string h, n_of_string t, n_of_string fl)
     | _ -> failwith "filterload")
  | _ -> failwith ("kind " ^ kind)

let kind_of_string (cmd : string) : WireMsg.kind =
  match WireFrame.kind_of_cmd (bytes_of_string cmd) with Some k -> k | None -> failwith ("command " ^ cmd)

let rec firstn n l = if n <= 0 then [] else match l with [] -> [] | x :: r -> x :: firstn (n - 1) r
let firstn_tr n l =
  let rec go n l acc = if n <= 0 then Stdlib.List.rev acc else match l with [] -> Stdlib.List.rev acc | x :: r -> go (n - 1) r (x :: acc) in
  go n l []

let bigs b = if b then "1" else "0"

(* the <ebs> field is one value or a sequence a,b,.. of SetLimits calls: what must be in force is the
   declared limit of the LAST value *)
let ebs_of (s : string) : coq_N = n_of_string (Stdlib.List.hd (Stdlib.List.rev (split_on ',' s)))

(* verdict of one ReadMessage without the reader position *)
let verdict (r : WireFrame.frame_res) : string =
  match r with
  | WireFrame.FErr (e, _) -> err_name e
  | WireFrame.FOk (WireMsg.MOpaque k, _, _) -> "OK opaque:" ^ cmd_string k
  | WireFrame.FOk (m, _, _) -> "OK " ^ summarize m

(* ---------- the model's observable ---------- *)
let model (input : string) : string =
  match split_on ' ' input with
  | ["L"; pver; ebs; cmd] ->
    let pver = n_of_string pver and ebs = ebs_of ebs in
    Printf.sprintf "%s %s" (dec_of_n (WireMsg.max_payload (kind_of_string cmd) pver ebs)) (dec_of_n (WireMsg.max_message_payload ebs))
  | ["P"; pver; ebs; ms] ->
    let pver = n_of_string pver and ebs = ebs_of ebs in
    let mmp = WireMsg.max_message_payload ebs in
    let m = parse_msg ms in
    (match WireMsg.enc_msg pver m with
     | WireBase.Err e -> err_name e ^ "|-"
     | WireBase.Ok payload ->
       (match WireMsg.dec_payload pver mmp (WireMsg.kind_of m) payload with
        | WireBase.Err e -> show_bytes payload ^ "|" ^ err_name e
        | WireBase.Ok (m', rest) -> Printf.sprintf "%s|%s rem=%d" (show_bytes payload) (summarize m') (llen rest)))
  | ["F"; pver; ebs; net; ms] | ["C"; pver; ebs; net; ms] ->
    (* "C": the same framed round trip, executed by the harness while 15 other goroutines use the codec *)
    let pver = n_of_string pver and ebs = ebs_of ebs and net = n_of_string net in
    let m = parse_msg ms in
    (match WireFrame.write_message pver net ebs m with
     | WireBase.Err e -> err_name e ^ "|-"
     | WireBase.Ok frame ->
       (match WireFrame.read_message pver net ebs frame with
        | WireFrame.FErr (e, _) -> show_bytes frame ^ "|" ^ err_name e
        | WireFrame.FOk (m', _, rest) -> Printf.sprintf "%s|%s pos=%d" (show_bytes frame) (summarize m') (llen frame - llen rest)))
  | "D" :: pver :: ebs :: cmd :: tl ->
    let pver = n_of_string pver and ebs = ebs_of ebs in
    let mmp = WireMsg.max_message_payload ebs in
    let payload = bytes_of_hex (match tl with [h] -> h | _ -> "") in
    let k = kind_of_string cmd in
    let big = WireSpec.big_flag (WireMsg.alloc_payload pver mmp k payload) (WireMsg.max_payload k pver ebs) in
    let body =
      if WireMsg.is_opaque k then "OPAQUE"
      else match WireMsg.dec_payload pver mmp k payload with
        | WireBase.Err e -> err_name e
        | WireBase.Ok (m, rest) ->
          let rem = llen rest in
          let used = firstn_tr (llen payload - rem) payload in
          let re = match WireMsg.enc_msg pver m with
            | WireBase.Err e -> err_name e
            | WireBase.Ok b -> if b = used then "same" else show_bytes b in
          Printf.sprintf "OK %s rem=%d re=%s" (summarize m) rem re in
    body ^ " big=" ^ bigs big
  | "R" :: pver :: ebs :: net :: tl ->
    let pver = n_of_string pver and ebs = ebs_of ebs and net = n_of_string net in
    let stream = bytes_of_hex (match tl with [h] -> h | _ -> "") in
    let total = llen stream in
    let big = WireSpec.big_flag (WireFrame.alloc_frame pver net ebs stream) (WireFrame.alloc_limit pver ebs stream) in
    let body =
      match WireFrame.read_message pver net ebs stream with
      | WireFrame.FErr (e, rest) -> Printf.sprintf "%s pos=%d" (err_name e) (total - llen rest)
      | WireFrame.FOk (WireMsg.MOpaque k, _, rest) -> Printf.sprintf "OK opaque:%s pos=%d" (cmd_string k) (total - llen rest)
      | WireFrame.FOk (m, _, rest) ->
        let pos = total - llen rest in
        let re = match WireFrame.write_message pver net ebs m with
          | WireBase.Err e -> err_name e
          | WireBase.Ok b -> if b = firstn_tr pos stream then "same" else show_bytes b in
        Printf.sprintf "OK %s pos=%d re=%s" (summarize m) pos re in
    body ^ " big=" ^ bigs big
  | ["S"; pver; ebs; net; hx] ->
    let pver = n_of_string pver and ebs = ebs_of ebs and net = n_of_string net in
    let stream = bytes_of_hex (String.concat "" (split_on ';' hx)) in
    let total = llen stream in
    String.concat ";" (Stdlib.List.map (fun r -> Printf.sprintf "%s@%d" (verdict r) (total - llen (WireFrame.frame_rest r)))
                         (WireFrame.read_stream (nat_of_int 16) pver net ebs stream))
  | "T" :: _ ->
    (* in the model the stream is a list of bytes: how many of them one Read call hands out does not exist, so
       the two decodings the harness compares are the same fold of read_message *)
    "same"
  | _ -> "BAD-INPUT"

(* ---------- the spec oracle on the implementation's observable ---------- *)
let starts_with p s = String.length s >= String.length p && String.sub s 0 (String.length p) = p

let field (name : string) (obs : string) : string option =
  let key = name ^ "=" in
  Stdlib.List.fold_left (fun acc w -> if starts_with key w then Some (String.sub w (String.length key) (String.length w - String.length key)) else acc)
    None (split_on ' ' obs)

let spec (input : string) (obs : string) : string =
  if obs = "PANIC" || starts_with "PANIC" obs then "FAIL panic the implementation panicked"
  else if starts_with "HANG" obs then "FAIL hang the implementation did not return before the deadline"
  else if obs = "MISSING" then "FAIL no-observable"
  else
    match split_on ' ' input with
    | ["L"; pver; ebs; cmd] ->
      (* the overall limit in force is the declared function of the configured value (the last SetLimits
         argument), whatever was configured before; and every well-formed message must fit the
         implementation's own MaxPayloadLength of its type *)
      (match split_on ' ' obs with
       | [_; mmp] when mmp <> dec_of_n (WireMsg.max_message_payload (ebs_of ebs)) ->
         Printf.sprintf "FAIL limit-not-the-configured-one maxMessagePayload() is %s after SetLimits(%s); declared: %s" mmp ebs
           (dec_of_n (WireMsg.max_message_payload (ebs_of ebs)))
       | [limit; _] ->
         (match WireSpec.max_wf_payload_len (kind_of_string cmd) (n_of_string pver) with
          | Some n when Z.lt (Z.of_string limit) (Z.of_string (dec_of_n n)) ->
            Printf.sprintf "FAIL limit-below-wellformed-%s MaxPayloadLength %s is below the longest well-formed %s payload (%s bytes) at this protocol version" cmd limit cmd (dec_of_n n)
          | _ -> "OK")
       | _ -> "FAIL malformed-observable")
    | ["P"; pver; ebs; ms] | ["F"; pver; ebs; _; ms] | ["C"; pver; ebs; _; ms] ->
      let framed = input.[0] = 'F' || input.[0] = 'C' in
      let pver = n_of_string pver and ebs = ebs_of ebs in
      let mmp = WireMsg.max_message_payload ebs in
      let m0 = parse_msg ms in
      (* an IPv4 address may be held in Go's 4-byte form: the message it denotes is the one with the
         16-byte mapped form (WireSpec.norm_msg); both forms must give the same bytes *)
      let m = WireSpec.norm_msg m0 in
      let ms = if m = m0 then ms else summarize m in
      let kind = cmd_string (WireMsg.kind_of m) in
      if not (WireMsg.wf_msg pver mmp m) then "OK"
      else (match split_on '|' obs with
          | [e; d] ->
            if not framed && not (m = m0) && not (starts_with "E:" e) && e <> show_bytes (WireMsg.enc_payload pver m) then
              "FAIL ip-form-bytes-differ-" ^ kind ^ " the 4-byte and the 16-byte form of an IPv4 address encode differently"
            else
            if starts_with "E:" e then
              (* WriteMessage may refuse a well-formed message only because the configured global maximum is
                 below what the type allows (C14_frame_roundtrip_total); never because of the type's limit *)
              (if framed && e = "E:oversize" &&
                  (WireMsg.kind_of m = WireMsg.KReject || BinNat.N.ltb mmp (WireMsg.max_payload (WireMsg.kind_of m) pver ebs))
               then "OK"
               else "FAIL roundtrip-" ^ kind ^ " a well-formed message was refused by the encoder: " ^ e)
            else
              let want = ms ^ (if framed then "" else " rem=0") in
              if framed then
                (match split_on ' ' d with
                 | [s; _pos] when s = ms -> "OK"
                 | _ -> "FAIL roundtrip-" ^ kind ^ " decode(encode m) <> m: got " ^ (if String.length d > 300 then String.sub d 0 300 else d))
              else if d = want then "OK"
              else "FAIL roundtrip-" ^ kind ^ " decode(encode m) <> m: got " ^ (if String.length d > 300 then String.sub d 0 300 else d)
          | _ -> "FAIL malformed-observable")
    | "D" :: pver :: ebs :: cmd :: tl ->
      let payload = bytes_of_hex (match tl with [h] -> h | _ -> "") in
      let k = kind_of_string cmd in
      if field "big" obs = Some "1" then "FAIL alloc-beyond-limit-" ^ cmd ^ " decode allocated more than 32 MiB + 4 x MaxPayloadLength"
      else if WireSpec.string_over_limit k (n_of_string pver) (WireMsg.max_message_payload (ebs_of ebs)) payload && not (starts_with "E:strtoolong" obs) then
        "FAIL string-above-limit-not-refused-" ^ cmd ^ " a string count above the configured overall limit was not refused before allocation: " ^ obs
      else if WireSpec.count_over_limit k payload && not (starts_with "E:" obs) then
        "FAIL count-above-limit-accepted-" ^ cmd
      else if starts_with "OK " obs && WireSpec.canonical_kind (n_of_string pver) k && field "re" obs <> Some "same" then
        "FAIL reencode-mismatch-" ^ cmd ^ " re-encoding the decoded message does not reproduce the accepted bytes"
      else "OK"
    | "R" :: pver :: ebs :: net :: tl ->
      let pver = n_of_string pver and ebs = ebs_of ebs and net = n_of_string net in
      let stream = bytes_of_hex (match tl with [h] -> h | _ -> "") in
      let cmd = match WireSpec.known_cmd (firstn 12 (match stream with _ :: _ :: _ :: _ :: r -> r | _ -> [])) with
        | Some k -> cmd_string k | None -> "unknown" in
      if field "big" obs = Some "1" then "FAIL alloc-beyond-limit-" ^ cmd ^ " ReadMessage allocated more than 32 MiB + 4 x the declared limit"
      else if WireSpec.header_oversize ebs stream && not (starts_with "E:oversize pos=24 " obs) then
        "FAIL oversize-not-refused-on-header-" ^ cmd ^ " a length above the configured overall limit must be refused on the header alone: " ^ obs
      else if starts_with "OK " obs && WireSpec.must_reject pver net ebs stream then
        "FAIL bad-frame-accepted-" ^ cmd ^ " wrong magic / unknown command / oversize length / bad checksum was not rejected"
      else if llen stream < 24 && not (starts_with "E:" obs) then "FAIL short-header-accepted"
      else "OK"
    | ["S"; pver; ebs; net; hx] ->
      (* every fully framed frame (header, length <= global maximum, that many payload bytes) must get the
         verdict it gets alone and leave the reader exactly behind it, whatever that verdict is; a stream
         that consists of such frames only produces nothing else *)
      let pver = n_of_string pver and ebs = ebs_of ebs and net = n_of_string net in
      let stream = bytes_of_hex (String.concat "" (split_on ';' hx)) in
      let frames = WireSpec.split_frames (nat_of_int 16) ebs stream in
      let res = Stdlib.List.filter (fun w -> w <> "") (split_on ';' obs) in
      let rec go i pos frames res =
        match frames, res with
        | [], [] -> "OK"
        | [], _ :: _ ->
          if pos = llen stream && i < 16 then
            Printf.sprintf "FAIL stream-out-of-step %d frames on the stream but call %d produced another result" i (i + 1)
          else "OK"
        | _ :: _, [] ->
          if i >= 16 then "OK" else Printf.sprintf "FAIL stream-out-of-step frame %d was never read" (i + 1)
        | f :: fs, r :: rs ->
          let pos' = pos + llen f in
          let want = Printf.sprintf "%s@%d" (verdict (WireFrame.read_message pver net ebs f)) pos' in
          if r = want then go (i + 1) pos' fs rs
          else Printf.sprintf "FAIL stream-out-of-step call %d on the stream: want %s got %s" (i + 1)
              (if String.length want > 120 then String.sub want 0 120 else want) (if String.length r > 120 then String.sub r 0 120 else r) in
      go 0 0 frames res
    | "T" :: _ ->
      if obs = "same" then "OK"
      else "FAIL short-reads-change-the-decoding a reader that returns short reads must decode like an in-memory reader: " ^
           (if String.length obs > 400 then String.sub obs 0 400 else obs)
    | _ -> "FAIL malformed-input"

(* main: the cases are independent, so they are spread over worker processes (each a re-exec of this
   binary under an unlimited stack: payload lists can be megabytes deep); outputs are concatenated. *)
let read_lines file =
  let ic = open_in file in
  let acc = ref [] in
  (try while true do acc := input_line ic :: !acc done with End_of_file -> ());
  close_in ic; Stdlib.List.rev !acc

let append_file oc file =
  let ic = open_in_bin file in
  let buf = Bytes.create 65536 in
  let rec go () = let n = input ic buf 0 65536 in if n > 0 then (output oc buf 0 n; go ()) in
  go (); close_in ic

let () =
  match Sys.getenv_opt "C14_CHILD" with
  | Some _ -> run_driver model spec
  | None ->
    let cases = Sys.argv.(1) and impl = Sys.argv.(2) and mout = Sys.argv.(3) and sout = Sys.argv.(4) in
    let lines = Array.of_list (read_lines cases) in
    let n = Array.length lines in
    let workers = try int_of_string (Sys.getenv "C14_WORKERS") with _ -> 8 in
    let k = max 1 (min workers (n / 50 + 1)) in
    let chunk i = Printf.sprintf "%s.part%d" cases i in
    let ocs = Array.init k (fun i -> open_out (chunk i)) in
    Array.iteri (fun j l -> output_string ocs.(j mod k) l; output_char ocs.(j mod k) '\n') lines;
    Array.iter close_out ocs;
    Unix.putenv "C14_CHILD" "1";
    let self = Sys.executable_name in
    let pids = Array.init k (fun i ->
        let cmd = Printf.sprintf "ulimit -s unlimited 2>/dev/null || ulimit -s 1000000 2>/dev/null; exec %s %s %s %s %s"
            (Filename.quote self) (Filename.quote (chunk i)) (Filename.quote impl)
            (Filename.quote (Printf.sprintf "%s.part%d" mout i)) (Filename.quote (Printf.sprintf "%s.part%d" sout i)) in
        Unix.create_process "/bin/sh" [| "/bin/sh"; "-c"; cmd |] Unix.stdin Unix.stdout Unix.stderr) in
    let failed = ref false in
    Array.iter (fun pid -> match Unix.waitpid [] pid with
        | (_, Unix.WEXITED 0) -> ()
        | _ -> failed := true) pids;
    let mo = open_out_bin mout and so = open_out_bin sout in
    for i = 0 to k - 1 do
      (try append_file mo (Printf.sprintf "%s.part%d" mout i) with _ -> failed := true);
      (try append_file so (Printf.sprintf "%s.part%d" sout i) with _ -> failed := true);
      Stdlib.List.iter (fun f -> try Sys.remove f with _ -> ())
        [chunk i; Printf.sprintf "%s.part%d" mout i; Printf.sprintf "%s.part%d" sout i]
    done;
    close_out mo; close_out so;
    if !failed then (prerr_endline "c14_driver: a worker failed"; exit 2)
