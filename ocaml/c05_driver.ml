(* C05 driver: crash states (first k planned writes), restart, redelivery. *)
open Vutil
open Vchain

let parse_x h = match h.extras with
  | [x] -> (match split_on ':' x with [m; i; k] -> (m, int_of_string i, int_of_string k) | _ -> failwith "bad x")
  | _ -> failwith "missing x=mode:i:k"

let rec firstn n l = if n <= 0 then [] else match l with [] -> [] | x :: t -> x :: firstn (n - 1) t
let rec skipn n l = if n <= 0 then l else match l with [] -> [] | _ :: t -> skipn (n - 1) t

let run_outs f s subs =
  let s = ref s in
  let outs = Stdlib.List.map (fun sub -> let (s', o) = Chain.add f !s sub in s := s'; outcome_string o) subs in
  (outs, !s)

(* the uninterrupted run and the run up to submission i are the same for all the cases of one history: remembered
   for the last history seen (long reorganisations cost seconds each) *)
let memo_clean = ref None and memo_pre = ref None
let memo r key f = match !r with
  | Some (k, v) when k = key -> v
  | _ -> let v = f () in r := Some (key, v); v

let model input =
  let h = parse_history input in
  let (mode, i, k) = parse_x h in
  let s0 = Chain.init h.gid h.gpl in
  let key = (h.gid, h.gpl, h.forbidden, h.subs) in
  let clean = memo memo_clean key (fun () -> snd (run_outs h.forbidden s0 h.subs)) in
  let pre = memo memo_pre (key, i) (fun () -> snd (run_outs h.forbidden s0 (firstn i h.subs))) in
  if mode = "ikill" then begin
    (* killed during the first start between the migrations and the genesis transaction: the store is empty;
       the restart (database.Init) inserts genesis; delivery then equals the uninterrupted run *)
    let restarted = ChainFields.restart h.gid h.gpl [] in
    let (red, final) = run_outs h.forbidden restarted h.subs in
    Printf.sprintf "pre:|crash:X/%s|redeliver:%s/%s|clean:%s" (rows_string restarted) (Stdlib.String.concat "," red) (rows_string final) (rows_string clean)
  end else
  let hi = Stdlib.List.nth h.subs i in
  let sf_hits = mode = "sfault" && Crash.stmt_fault_hits h.forbidden pre hi (nat_of_int k) in
  let crash = if mode = "sfault" then
      (if sf_hits then Crash.stmt_fault_state h.forbidden pre hi (nat_of_int k) else fst (Chain.add h.forbidden pre hi))
    else if mode = "ckill" || mode = "cfault" then Crash.commit_crash_state h.forbidden pre hi (nat_of_int k)
    else Crash.crash_state h.forbidden pre hi (nat_of_int k) in
  let o_i = if mode = "kill" then "K" else if mode = "ckill" then "X"
    else if mode = "sfault" then
      (if sf_hits then (if k = 2 then "ES" else "EU") else outcome_string (snd (Chain.add h.forbidden pre hi)))
    else if mode = "cfault" then
      (match Crash.commit_fault_kind h.forbidden pre hi (nat_of_int k) with
       | Crash.FChainUpdateFail -> "EU" | Crash.FHeaderSaveFail -> "ES" | Crash.FNoWrite -> "NOWRITE") else
      (match Crash.fault_kind h.forbidden pre hi (nat_of_int k) with
       | Crash.FChainUpdateFail -> "EU" | Crash.FHeaderSaveFail -> "ES" | Crash.FNoWrite -> "NOWRITE") in
  let (outs, after_fault) =
    if mode = "cont" then let (o, s) = run_outs h.forbidden crash (skipn (i + 1) h.subs) in (o_i :: o, s)
    else ([o_i], crash) in
  let restarted = ChainFields.restart h.gid h.gpl after_fault in
  let (red, final) = run_outs h.forbidden restarted h.subs in
  Printf.sprintf "pre:%s|crash:%s/%s|redeliver:%s/%s|clean:%s" (rows_string pre) (Stdlib.String.concat "," outs)
    (rows_string restarted) (Stdlib.String.concat "," red) (rows_string final) (rows_string clean)

let strip p s = let l = Stdlib.String.length p in
  if Stdlib.String.length s >= l && Stdlib.String.sub s 0 l = p then Stdlib.String.sub s l (Stdlib.String.length s - l)
  else failwith ("missing prefix " ^ p)
let split2 c s = match Stdlib.String.index_opt s c with
  | Some k -> (Stdlib.String.sub s 0 k, Stdlib.String.sub s (k + 1) (Stdlib.String.length s - k - 1)) | None -> (s, "")

let spec input obs =
  let h = parse_history input in
  let (mode, _, _) = parse_x h in
  match split_on '|' obs with
  | [pre; crash; red; clean] ->
    let pre = parse_rows (strip "pre:" pre) in
    let (_, crash_rows_s) = split2 '/' (strip "crash:" crash) in
    if Stdlib.String.length crash_rows_s >= 14 && Stdlib.String.sub crash_rows_s 0 14 = "RESTART-FAILED"
    then "FAIL restart-refuses-the-crash-image " ^ crash_rows_s else
    let crash_rows = parse_rows crash_rows_s in
    let (red_outs, red_rows_s) = split2 '/' (strip "redeliver:" red) in
    let clean_s = strip "clean:" clean in
    let red_rows = parse_rows red_rows_s in
    let bad_out o = o = "P" || o = "K" || o = "X" || (Stdlib.String.length o > 0 && o.[0] = 'E') in
    if not (Crash.struct_validb crash_rows) then "FAIL store-invalid-after-restart " ^ crash_rows_s
    else if not (Crash.persistb pre crash_rows) then "FAIL acknowledged-header-lost-or-altered " ^ crash_rows_s
    else if Stdlib.List.exists bad_out (split_on ',' red_outs) then "FAIL redelivery-stuck " ^ red_outs
    else if not (Crash.struct_validb red_rows) then "FAIL store-invalid-after-redelivery " ^ red_rows_s
    else if mode <> "cont" && red_rows_s <> clean_s then "FAIL redelivery-differs-from-uninterrupted-run got " ^ red_rows_s
    else if mode = "cont" && not (Crash.same_ids (parse_rows clean_s) red_rows)
    then "FAIL redelivery-lost-headers got " ^ red_rows_s
    else "OK"
  | _ -> "FAIL malformed-observable"

let () = run_driver model spec
