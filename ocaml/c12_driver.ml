(* C12 driver: runs the extracted Webhook model (faithful or repaired variant) and the extracted stepwise spec
   oracle on the harness cases.  Glue only: parsing of the case line / of the implementation's observable and
   canonical printing.

   WHICH MODEL IS COMPARED WITH THE IMPLEMENTATION - the one-line switch:
     "model_variant" in /verif/checks/C12.json   ("faithful" = /repo as it is, "fixed" = with build/proposed-fixes/C12-*.diff
     applied; or three 0/1 digits "<maxtries><lastemit><skipempty>" for a subset of the repairs),
     overridden by the environment variable C12_MODEL. *)
open BinNums
open Vutil
open Webhook

exception Malformed of string

(* ---------- the switch ---------- *)
let read_file p = try let ic = open_in p in let n = in_channel_length ic in let s = really_input_string ic n in close_in ic; Some s with _ -> None

let variant_name =
  match Sys.getenv_opt "C12_MODEL" with
  | Some v when v <> "" -> v
  | _ ->
    let dir = match Sys.getenv_opt "VERIF_DIR" with Some d when d <> "" -> d | _ -> "/verif" in
    (match read_file (Filename.concat dir "checks/C12.json") with
     | Some s ->
       (try
          let _ = Str.search_forward (Str.regexp "\"model_variant\"[ \t\n]*:[ \t\n]*\"\\([a-z0-9]*\\)\"") s 0 in
          Str.matched_group 1 s
        with Not_found -> "faithful")
     | None -> "faithful")

let variant : fixes =
  match variant_name with
  | "faithful" -> faithful
  | "fixed" -> fixed
  | s when String.length s = 3 && String.for_all (fun c -> c = '0' || c = '1') s ->
    { fx_maxtries = s.[0] = '1'; fx_lastemit = s.[1] = '1'; fx_skipempty = s.[2] = '1' }
  | s -> failwith ("unknown C12 model variant " ^ s)

(* ---------- case input ---------- *)
let outcome_of_char = function
  | 'k' -> OStatus (z_of_int 200) | 'c' -> OStatus (z_of_int 201) | 'n' -> OStatus (z_of_int 404)
  | 's' -> OStatus (z_of_int 503) | 't' -> OTransport | 'b' -> OBody
  | '0' .. '6' | 'A' .. 'G' -> OBody   (* the body breaks after some bytes, status 200 / 503: any read error is a failed delivery *)
  | c -> raise (Malformed "outcome")

let parse_op (s : string) : op =
  let n = String.length s in
  if n = 0 then raise (Malformed "op") else
  match s.[0] with
  | 'R' ->
    (match split_on ':' (String.sub s 1 (n - 1)) with
     | [u; k; h; t] ->
       let k = (match k with "b" | "B" -> KBearer | "c" -> KCustom | "n" -> KNone | _ -> raise (Malformed "kind")) in
       OpRegister (z_of_string u, k, z_of_string h, z_of_string t)
     | _ -> raise (Malformed "op"))
  | 'D' -> OpDelete (z_of_string (String.sub s 1 (n - 1)))
  | 'N' ->
    if n <> 5 then raise (Malformed "op") else
    let outs = Array.init 4 (fun i -> outcome_of_char s.[i + 1]) in
    OpNotify (fun u -> let i = int_of_z u in if i >= 0 && i < 4 then outs.(i) else OStatus (z_of_int 200))
  | 'Z' when n = 1 -> OpRestart
  | 'Z' when n = 2 && s.[1] >= '1' && s.[1] <= '9' -> OpRestartMt (z_of_int (Char.code s.[1] - 48))
  | 'X' when n = 2 && s.[1] >= '0' && s.[1] <= '3' -> OpBad
  | _ -> raise (Malformed "op")

let parse_input (input : string) : coq_Z * bool * op list =
  match split_on ';' input with
  | [] -> raise (Malformed "input")
  | head :: ops ->
    let mt = ref 0 and prod = ref false in
    Stdlib.List.iter (fun w ->
        if String.length w > 3 && String.sub w 0 3 = "mt=" then mt := int_of_string (String.sub w 3 (String.length w - 3))
        else if w = "mode=p" then prod := true
        else if w = "mode=s" then prod := false
        else if String.length w = 4 && String.sub w 0 3 = "up=" && w.[3] >= '0' && w.[3] <= '6' then ()  (* url profile: which strings the ids stand for - harness only *)
        else raise (Malformed "head")) (words head);
    if !mt < 1 then raise (Malformed "head");
    (z_of_int !mt, !prod, Stdlib.List.map parse_op ops)

(* ---------- printing (the syntax of harness/zz_verif/c12.go) ---------- *)
(* header-name and token-value ids of a registration (harness: c12HdrName / c12TokVal), blanks as '+' *)
let hdr_names = [ (3, "Authorization"); (4, "authorization"); (5, "AUTHORIZATION") ]
let tok_vals = [ (4, "Basic+dXNlcjpwYXNz"); (5, "ApiKey+k-1"); (6, "Bearer+xyz"); (7, "") ]
let hdr_str h = match Stdlib.List.assoc_opt (int_of_z h) hdr_names with Some s -> s | None -> "X-H" ^ dec_of_z h
let tok_str t = match Stdlib.List.assoc_opt (int_of_z t) tok_vals with Some s -> s | None -> "tok" ^ dec_of_z t
let str_hname = function HEmpty -> "_" | HAuthorization -> "Authorization" | HCustom h -> hdr_str h
let str_tokv = function TEmpty -> "_" | TBearer t -> "Bearer+" ^ tok_str t | TRaw t -> (match tok_str t with "" -> "_" | s -> s)
let str_status = function
  | SNone -> "-"
  | SOut (OStatus c) -> let c = dec_of_z c in if c = "200" then "200:ok" else c ^ ":no"
  | SOut OTransport -> "TE"
  | SOut OBody -> "BE"
let str_view ((((e, a), s), t) : view) =
  Printf.sprintf "e%sa%ss%st%s" (dec_of_z e) (if a then "1" else "0") (str_status s) (dec_of_z t)
let str_resp = function
  | RespNone -> "-"
  | RespOK -> "200"
  | RespRow v -> "200:" ^ str_view v
  | RespErr ErrRefreshWebhook -> "400:ErrRefreshWebhook"
  | RespErr ErrWebhookNotFound -> "404:ErrWebhookNotFound"
  | RespRejected -> "rej"
let str_post ((u, hs) : post) =
  Printf.sprintf "u%s/POST/json/ok/%s" (dec_of_z u)
    (String.concat "&" (Stdlib.List.sort compare (Stdlib.List.map (fun (h, t) -> str_hname h ^ "=" ^ str_tokv t) hs)))
let str_get = function None -> "404" | Some v -> str_view v
let str_step (((r, ps), gs) : stepobs) =
  str_resp r ^ "|" ^ String.concat "," (Stdlib.List.sort compare (Stdlib.List.map str_post ps)) ^ "|" ^ String.concat "," (Stdlib.List.map str_get gs)
let str_dbrow (r : row) =
  Printf.sprintf "u%s/%s=%s/%s" (dec_of_z r.r_url) (str_hname r.r_hdr) (str_tokv r.r_tok)
    (str_view (((r.r_errors, r.r_active), r.r_lstatus), r.r_lts))

let model input =
  match (try Some (parse_input input) with _ -> None) with
  | None -> "BAD-INPUT"
  | Some (mt, prod, ops) ->
    let (obs, tb) = run variant mt prod ops in
    String.concat " ; " (Stdlib.List.map str_step obs @ ["DB " ^ String.concat "," (Stdlib.List.map str_dbrow tb)])

(* ---------- parsing of the implementation's observable ---------- *)
let re_view = Str.regexp "^e\\([0-9]+\\)a\\([01]\\)s\\(.*\\)t\\([0-9]+\\)$"
let re_status = Str.regexp "^\\([0-9]+\\):\\(ok\\|no\\)$"
let parse_status s =
  if s = "-" then SNone else if s = "TE" then SOut OTransport else if s = "BE" then SOut OBody
  else if Str.string_match re_status s 0 then begin
    let c = Str.matched_group 1 s and b = Str.matched_group 2 s in
    if (c = "200") <> (b = "ok") then SOut (OStatus (z_of_int (-1))) else
    SOut (OStatus (z_of_string c)) end
  else SOut (OStatus (z_of_int (-1)))   (* a status text that is none of the canonical ones: equal to nothing the model can produce -> class last-emit *)
let parse_view s : view =
  if Str.string_match re_view s 0 then begin
    let e = Str.matched_group 1 s and a = Str.matched_group 2 s and st = Str.matched_group 3 s and t = Str.matched_group 4 s in
    (((z_of_string e, a = "1"), parse_status st), z_of_string t) end
  else if s = "200:wrong-url" then raise (Malformed "wrong-url")
  else raise (Malformed "view")
let parse_resp s =
  if s = "-" then RespNone else if s = "200" then RespOK else if s = "rej" then RespRejected
  else if s = "400:ErrRefreshWebhook" then RespErr ErrRefreshWebhook
  else if s = "404:ErrWebhookNotFound" then RespErr ErrWebhookNotFound
  else if String.length s > 4 && String.sub s 0 4 = "200:" then RespRow (parse_view (String.sub s 4 (String.length s - 4)))
  else raise (Malformed "response")
let num_after pre s =
  let n = String.length pre in
  if String.length s > n && String.sub s 0 n = pre then
    (let d = String.sub s n (String.length s - n) in
     if String.for_all (fun c -> c >= '0' && c <= '9') d then Some (z_of_string d) else None)
  else None
(* a received (name, value) pair back to the model's vocabulary.  The same text is the same configuration: the name
   Authorization with a value "Bearer <token id>" is what a bearer registration stores; any other value under that name
   can only come from a custom-header registration. *)
let rev_assoc v l = Stdlib.List.find_map (fun (k, s) -> if s = v then Some k else None) l
let raw_tok_id s =
  match rev_assoc s tok_vals with Some k -> Some (z_of_int k) | None ->
  match num_after "tok" s with Some t when int_of_z t <= 3 -> Some t | _ -> None
let parse_tokv_raw s = if s = "_" then (match raw_tok_id "" with Some t -> TRaw t | None -> raise (Malformed "header-value"))
  else match raw_tok_id s with Some t -> TRaw t | None -> raise (Malformed "header-value")
let parse_bearer s =
  let pre = "Bearer+" in let n = String.length pre in
  if String.length s >= n && String.sub s 0 n = pre && raw_tok_id s = None then
    (match raw_tok_id (String.sub s n (String.length s - n)) with Some t -> Some (TBearer t) | None -> None)
  else None
let parse_header name value : hname * tokv =
  if name = "_" then (if value = "_" then (HEmpty, TEmpty) else raise (Malformed "header-name"))
  else if name = "Authorization" then
    (match parse_bearer value with Some b -> (HAuthorization, b) | None -> (HCustom (z_of_int 3), parse_tokv_raw value))
  else match rev_assoc name hdr_names with
    | Some k -> (HCustom (z_of_int k), (match parse_bearer value with Some b -> b | None -> parse_tokv_raw value))
    | None -> (match num_after "X-H" name with
        | Some h -> (HCustom h, (match parse_bearer value with Some b -> b | None -> parse_tokv_raw value))
        | None -> raise (Malformed "header-name"))
exception Post_format of string
let parse_post s : post =
  match split_on '/' s with
  | [u; m; ct; b; hs] ->
    let u = (match num_after "u" u with Some u -> u | None -> raise (Malformed "post-url")) in
    if m <> "POST" then raise (Post_format ("method=" ^ m));
    if ct <> "json" then raise (Post_format ("content-type=" ^ ct));
    if b <> "ok" then raise (Post_format "body");
    let hs = if hs = "" then [] else
        Stdlib.List.map (fun kv -> match Stdlib.String.index_opt kv '=' with
            | Some i -> parse_header (String.sub kv 0 i) (String.sub kv (i + 1) (String.length kv - i - 1))
            | None -> raise (Malformed "header")) (split_on '&' hs) in
    (u, hs)
  | _ -> raise (Malformed "post")
let parse_step s : stepobs =
  match split_on '|' s with
  | [r; ps; gs] ->
    ((parse_resp r, (if ps = "" then [] else Stdlib.List.map parse_post (split_on ',' ps))),
     Stdlib.List.map (fun g -> if g = "404" then None else Some (parse_view g)) (split_on ',' gs))
  | _ -> raise (Malformed "step")

let split_steps obs = Str.split_delim (Str.regexp_string " ; ") obs

let class_name = function
  | FResponse -> "response" | FPresence -> "row-presence" | FErrors -> "errors-count" | FActive -> "active-flag"
  | FLastEmit -> "last-emit" | FPostMissing -> "post-missing" | FPostUnexpected -> "post-unexpected"
  | FPostDuplicate -> "post-duplicate" | FAuthHeader -> "auth-header-not-as-registered"
  | FDeactivatedBeforeMax -> "deactivated-before-max-tries"
  | FLastEmitNotReported -> "last-emit-not-reported"
  | FNoauthNotPosted -> "noauth-not-posted"
  | FNoauthEmptyHeaderName -> "noauth-empty-header-name"

(* spec oracle applied to the IMPLEMENTATION's observable *)
let spec input obs =
  match (try Some (parse_input input) with _ -> None) with
  | None -> if obs = "BAD-INPUT" then "OK" else "FAIL malformed-input"
  | Some (mt, prod, ops) ->
    try
      let steps = split_steps obs in
      let steps = (match Stdlib.List.rev steps with
          | last :: rest when String.length last >= 2 && String.sub last 0 2 = "DB" -> Stdlib.List.rev rest
          | _ -> raise (Malformed "no-db-dump")) in
      if Stdlib.List.length steps <> Stdlib.List.length ops then raise (Malformed "step-count");
      (* a step the harness had to give up on (deadline) or could not perform: judge the steps before it first *)
      let has_prefix pre st = String.length st >= String.length pre && String.sub st 0 (String.length pre) = pre in
      let markers = ["OP-TIMEOUT"; "SKIPPED"; "DEAD"; "REOPEN-ERROR"; "PANIC"; "BAD-OP"] in
      let is_marker st = Stdlib.List.exists (fun m -> has_prefix m st) markers in
      let rec cutoff acc = function
        | [] -> (Stdlib.List.rev acc, None)
        | st :: rest ->
          if has_prefix "NOTIFY-BLOCKED|" st then
            (* the event never came back: what did arrive is judged as the step's outcome, then the case ends *)
            (Stdlib.List.rev (("-" ^ String.sub st 14 (String.length st - 14)) :: acc), Some "notify-blocked the delivery of one event did not come back within the deadline")
          else if is_marker st then
            (Stdlib.List.rev acc, Some ("op-blocked " ^ (match split_on '|' st with m :: _ -> m | [] -> st)))
          else cutoff (st :: acc) rest in
      let (steps, blocked) = cutoff [] steps in
      let rec take n l = if n <= 0 then [] else match l with [] -> [] | x :: r -> x :: take (n - 1) r in
      let ops = take (Stdlib.List.length steps) ops in
      let sobs = Stdlib.List.map parse_step steps in
      Stdlib.List.iter (fun ((_, _), gs) -> if Stdlib.List.length gs <> Stdlib.List.length universe then raise (Malformed "gets")) sobs;
      let fs = oracle mt prod ops sobs in
      (match verdict fs, blocked with
       | None, None -> "OK"
       | None, Some b -> "FAIL " ^ b ^ " step=" ^ string_of_int (Stdlib.List.length steps + (if has_prefix "notify" b then 0 else 1))
       | Some (n, c), _ ->
         Printf.sprintf "FAIL %s step=%s all=[%s]%s" (class_name c) (dec_of_z n)
           (String.concat "," (Stdlib.List.map (fun (n, c) -> dec_of_z n ^ ":" ^ class_name c) fs))
           (match blocked with Some b -> " then " ^ b | None -> ""))
    with
    | Malformed ("header-name" | "header-value" as w) -> "FAIL auth-header-not-as-registered a credential header the target received is one that no registration of the case can produce: " ^ w
    | Malformed "post-url" -> "FAIL post-wrong-url a POST went to an address that is none of the registered url strings"
    | Malformed "wrong-url" -> "FAIL url-not-verbatim the endpoint answered with a webhook whose url is not the string the client sent"
    | Malformed w -> "FAIL malformed-observable " ^ w
    | Post_format w -> "FAIL post-format " ^ w

let () = run_driver model spec
