R BHS.Notify
X Notify.add_f Notify.step Notify.run_sched Notify.init_sys Notify.sweep Notify.drain Notify.stored_rows
X Notify.event_of_row Notify.check_channel Notify.row_matches_src Notify.mset_eqb Notify.log_evs Notify.all_events
