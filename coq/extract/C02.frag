R BHS.Merkle
X Merkle.verify Merkle.verify_faulty Merkle.spec_verify1 Merkle.spec_answers_ok Merkle.spec_overall_ok Merkle.confirmation_eqb
X Store.set_st
X Merkle.verify1 Merkle.tip_height
