R BHS.Sha256
R BHS.WireBase
R BHS.WireMsg
R BHS.WireFrame
R BHS.WireSpec
X Sha256.sha256 Sha256.sha256d
X WireBase.enc_varint WireBase.dec_varint WireBase.le_enc WireBase.le_dec
X WireMsg.enc_msg WireMsg.dec_payload WireMsg.kind_of WireMsg.cmd_bytes WireMsg.is_opaque WireMsg.wf_msg
X WireMsg.max_message_payload WireMsg.max_payload WireMsg.alloc_payload WireMsg.all_kinds WireMsg.enc_payload
X WireFrame.read_stream WireFrame.frame_rest WireSpec.split_frames WireSpec.norm_msg WireFrame.write_message WireFrame.read_message WireFrame.alloc_frame WireFrame.alloc_limit WireFrame.kind_of_cmd
X WireSpec.header_oversize WireSpec.string_over_limit WireSpec.max_wf_payload_len WireSpec.must_reject WireSpec.count_over_limit WireSpec.canonical_kind WireSpec.big_flag WireSpec.known_cmd
