R BHS.Http
X Http.respond_gen Http.respond Http.respond_fixed Http.respond_current Http.current_fixes Http.no_fixes Http.all_fixes
X Http.check Http.defect_site Http.mkenv Http.fix_on Http.status_of
X Http.finish Http.errw
