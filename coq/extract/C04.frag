R BHS.Store
R BHS.Chain
R BHS.Query
X Query.get_by_hash Query.tip_longest Query.by_height_range Query.tips Query.ancestors_gen Query.common_ancestor Query.common_ancestor_endpoint Query.cres_status
X Query.tips_ok Query.by_height_ok Query.path_ok Query.ca_ok Query.ca_candidates Query.reach_b Query.stored Query.mem_id
X Store.min_height Store.by_hash Chain.add Chain.init
