R BHS.Peers
R BHS.ConnMgr
X Peers.step Peers.init Peers.total Peers.check_trace Peers.empty_ost Peers.mkOst Peers.mkCfg Peers.mkPeer Peers.was_disc
X ConnMgr.sinit ConnMgr.sstep ConnMgr.core ConnMgr.n_wait ConnMgr.dialing_addrs ConnMgr.cm_check ConnMgr.zlen
R BHS.AddrSearch
X AddrSearch.new_address
R BHS.AddrBook
X AddrBook.init AddrBook.step AddrBook.n_new AddrBook.n_tried AddrBook.in_tried AddrBook.in_new AddrBook.refs_of AddrBook.index
