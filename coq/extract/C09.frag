R BHS.Tokens
R BHS.Auth
R Coq.Strings.String. Extraction Blacklist String
X Auth.decide Auth.visible Auth.needs_admin Auth.spec_reaches Auth.under_api Auth.allow
