R Coq.Strings.String
R Coq.Strings.Ascii
R BHS.Config
R BHSGen.ConfigKeys
X Config.load_model Config.load_spec Config.load_sel_model Config.load_sel_spec Config.read_file Config.load_files_model Config.load_files_spec Config.viper_exts Config.db_validate_fs Config.load_refusal Config.shadowed Config.env_of_spec Config.env_of Config.stringy Config.type_of Config.db_validate Config.db_okb Config.db_of_cfg Config.env_name Config.lookup Config.table_ok Config.parse_udec Config.canon
X ConfigKeys.config_keys
