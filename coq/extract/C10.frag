R BHS.Tokens
R Coq.Strings.String. Extraction Blacklist String
X Tokens.step Tokens.outcome_of Tokens.get_token Tokens.spec_outcome Tokens.spec_role Tokens.trace Tokens.run
