R BHS.Merkle
X Merkle.page_http Merkle.page Merkle.walk_pages Merkle.spec_page Merkle.spec_walk_ok Merkle.spec_listing Merkle.page_result_eqb Merkle.roots_distinct_b Merkle.list_eqb Merkle.pair_eqb
X Store.set_st
X Merkle.cap
