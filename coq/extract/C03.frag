R BHS.Header80
R BHS.ChainFields
X Header80.block_hash_display Header80.ser80 ChainFields.restart
