R BHS.Work
X Work.compact_to_big Work.calc_work Work.fast_log2 Work.target_spec Work.work_spec_fn
X BinInt.Z.log2
