R BHS.Work
R BHS.Store
R BHS.Chain
R BHS.ChainSpec
X Work.calc_work Store.tipB Store.by_hash Chain.add Chain.init Chain.plan Chain.exec Chain.run
X ChainSpec.spec_step ChainSpec.spec_tip ChainSpec.spec_label ChainSpec.spec_store ChainSpec.best
