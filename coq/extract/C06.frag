R BHS.SyncNode
R BHS.SyncDefault
R BHS.SyncExp
R BHS.SyncSys
X SyncNode.find_next_d SyncNode.least_above SyncNode.next_e SyncNode.new_cursor SyncNode.verify_advance SyncNode.locator SyncNode.reply SyncNode.tip_height
X SyncDefault.d_init SyncDefault.d_step SyncExp.e_start SyncExp.e_step
X SyncSys.y_init SyncSys.y_run SyncSys.y_cmd SyncSys.z_init SyncSys.z_run SyncSys.z_cmd SyncSys.quiescent
R BHS.SyncSpec
X SyncSpec.rows_of SyncSpec.spec_converged SyncSpec.best_offer SyncSpec.chain_cum SyncSpec.spec_forbidden_absent SyncSpec.spec_desc_orphan SyncSpec.spec_stop SyncSpec.spec_advance
