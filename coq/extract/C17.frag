R BHS.Work
R BHS.ExportImport
X ExportImport.export_db ExportImport.export ExportImport.import ExportImport.longest_of
X ExportImport.startup ExportImport.startup_old ExportImport.run_import
X ExportImport.chain_okb ExportImport.fields_okb ExportImport.table_matches_file ExportImport.records_denote
X ExportImport.good_record ExportImport.parse_row ExportImport.print_Z ExportImport.print_hex
