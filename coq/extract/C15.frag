R BHS.Conc
R BHS.Crash
X Conc.crun Conc.cinit Conc.quiescent Conc.cstep Crash.struct_validb
