R BHS.Conc
R BHS.Crash
X Conc.crun Conc.cinit Conc.quiescent Conc.cstep Crash.struct_validb
R BHS.Merkle
R BHS.Query
X Merkle.verify Merkle.page_http Query.by_height_range Query.common_ancestor
