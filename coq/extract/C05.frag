R BHS.Crash
R BHS.ChainFields
X Crash.crash_state Crash.fault_kind Crash.struct_validb Crash.persistb Crash.crash_run ChainFields.restart
X Crash.same_ids
X Crash.commit_crash_state Crash.commit_fault_kind
X Crash.stmt_fault_state Crash.stmt_fault_hits
