R Coq.ZArith.ZArith
R Coq.NArith.NArith
R Coq.Lists.List
X Datatypes.nat BinNums.Z BinNums.N BinInt.Z.add BinNat.N.add
