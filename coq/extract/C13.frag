R BHS.Locator
X Locator.latest_locator Locator.locate Locator.answer Locator.spec_locator Locator.spec_locate Locator.main_chain Locator.max_entries Locator.cap Locator.sql_max_vars Locator.tip_chain Locator.spec_locator_mc Locator.spec_locate_mc
X ChainSpec.spec_run_from ChainSpec.spec_store Chain.run_from Chain.init
