R BHS.SyncNode
R BHS.SyncSpec
X SyncNode.least_above SyncSpec.rows_of SyncSpec.spec_forbidden_absent SyncSpec.spec_desc_orphan SyncSpec.spec_desc_orphan_all SyncSpec.spec_stop SyncSpec.spec_advance
