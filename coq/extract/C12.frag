R BHS.Webhook
X Webhook.run Webhook.oracle Webhook.verdict Webhook.faithful Webhook.fixed Webhook.narrow Webhook.universe
