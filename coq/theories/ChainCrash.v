(* C05: every prefix of the planned writes of a reorganisation leaves a structurally valid store
   (after "demote the old branch" the longest chain ends at the fork point, after "promote the new branch"
   it ends at the new header's parent), acknowledged rows persist, and re-planning the interrupted header on
   the partial state reaches exactly the uninterrupted result. *)
From Coq Require Import ZArith NArith List Lia Bool.
From BHS Require Import Work Store Chain ChainSpec Crash StoreProofs ChainInv ChainReorg ChainAdd ChainMain ChainFields.
Import ListNotations.
Open Scope Z_scope.

(* the tail of a chain from any of its members is that member's chain *)
Lemma chain_suffix s : NoDup (ids s) -> forall t l1 y l2, chain s t = l1 ++ y :: l2 -> chain s (id y) = y :: l2.
Proof.
  induction s as [|r s IH]; intros Hnd t l1 y l2 H; [destruct l1; discriminate|].
  inversion Hnd as [|? ? Hnotin Hnd']; subst. cbn [chain] in H.
  assert (Hy_in: In y (chain (r :: s) t)) by (cbn [chain]; rewrite H; apply in_or_app; right; left; reflexivity).
  destruct (N.eqb_spec (id r) t) as [E|E].
  - destruct l1 as [|a l1]; cbn in H; inversion H; subst.
    + cbn [chain]. rewrite N.eqb_refl. reflexivity.
    + assert (Hys: In y s) by (apply (chain_incl s (prev a)); rewrite H2; apply in_or_app; right; left; reflexivity).
      cbn [chain]. destruct (N.eqb_spec (id a) (id y)) as [E2|E2].
      * exfalso. apply Hnotin. rewrite E2. apply in_map. exact Hys.
      * apply (IH Hnd' (prev a) l1 y l2 H2).
  - assert (Hys: In y s) by (apply (chain_incl s t); rewrite H; apply in_or_app; right; left; reflexivity).
    cbn [chain]. destruct (N.eqb_spec (id r) (id y)) as [E2|E2].
    + exfalso. apply Hnotin. rewrite E2. apply in_map. exact Hys.
    + apply (IH Hnd' t l1 y l2 H).
Qed.

Section ReorgPrefixes.
  Variables (s : store) (tip : N) (p r0 : row).
  Hypothesis HI : Inv s tip.
  Hypothesis Hp : by_hash s (prev r0) = Some p.
  Hypothesis Hpo : orph p = false.
  Hypothesis Hok : row_ok s r0.

  Let stale := stale_back s (prev r0).
  Let lh := min_height stale (height r0).
  Let concl := longest_from s lh.
  Let s1 := update_state s (ids concl) Stale.
  Let s2 := update_state s1 (ids stale) Longest.

  (* the fork decomposition of the two chains and what the two update lists are *)
  Lemma reorg_setup : exists sa sb F c',
      chain s tip = sa ++ F :: c' /\ chain s (prev r0) = sb ++ F :: c' /\
      disjoint sa (chain s (prev r0)) /\ disjoint sb (chain s tip) /\
      stale = sb /\
      (forall x, In x s -> (memN (id x) (ids concl) = true <-> In x sa)) /\
      (forall x, In x s -> (memN (id x) (ids stale) = true <-> In x sb)) /\
      (forall x, In x sb -> st x = Stale) /\ (forall x, In x (F :: c') -> st x = Longest) /\
      (forall x, In x c' -> height x < height F) /\ height F < lh /\ (In p sb \/ p = F).
  Proof.
    pose proof HI as (Hwf & (t & Ht & Hto) & Hl).
    pose proof (wf_nodup s Hwf) as Hnd.
    destruct (fork s Hnd tip (prev r0)) as (sa & sb & c & Ea & Eb & D1 & D2).
    destruct (by_hash_chain s tip Hnd t Ht) as [restt Hct].
    destruct (by_hash_chain s (prev r0) Hnd p Hp) as [restp Hcp].
    assert (Hconn_p: forall x, In x (chain s (prev r0)) -> orph x = false)
      by (apply (chain_rows_connected s (prev r0) p Hwf Hp Hpo)).
    (* the common suffix is not empty: both chains end at genesis *)
    assert (Hc: c <> []).
    { intro E. subst c. rewrite app_nil_r in Ea, Eb.
      destruct (chain_connected_nonempty_last s Hwf tip t restt Hct Hto) as (g1 & Hl1 & _ & Hs1).
      destruct (chain_connected_nonempty_last s Hwf (prev r0) p restp Hcp Hpo) as (g2 & Hl2 & _ & Hs2).
      assert (Hsne: s <> []) by (intro E; subst s; inversion Hwf).
      assert (Hg: g1 = g2) by (rewrite <- Hs1, <- Hs2; apply last_indep_nonempty; exact Hsne).
      assert (Hi1: In g1 (chain s tip)) by (rewrite Hct, <- Hl1; apply last_in; discriminate).
      assert (Hi2: In g1 (chain s (prev r0))) by (rewrite Hg, Hcp, <- Hl2; apply last_in; discriminate).
      rewrite Ea in Hi1. exact (D1 g1 Hi1 Hi2). }
    destruct c as [|F c']; [contradiction|]. clear Hc.
    (* stale = sb *)
    assert (Hsb_S: forall x, In x sb -> st x = Stale).
    { intros x Hx. assert (Hxc: In x (chain s (prev r0))) by (rewrite Eb; apply in_or_app; left; exact Hx).
      assert (Hxs: In x s) by (apply (chain_incl s (prev r0)); exact Hxc).
      apply (st_S_iff s tip x HI Hxs). split; [apply Hconn_p; exact Hxc| apply D2; exact Hx]. }
    assert (Hc_L: forall x, In x (F :: c') -> st x = Longest).
    { intros x Hx. assert (Hxc: In x (chain s tip)) by (rewrite Ea; apply in_or_app; right; exact Hx).
      assert (Hxs: In x s) by (apply (chain_incl s tip); exact Hxc).
      apply (is_L_iff s tip HI x Hxs). exact Hxc. }
    assert (Hstale: stale = sb).
    { unfold stale, stale_back.
      rewrite (walk_chain s Hwf (length s) (prev r0) p restp Hcp Hpo) by (rewrite <- Hcp; apply chain_length).
      rewrite <- Hcp, Eb, filter_app.
      rewrite (filter_all _ sb) by (intros x Hx; apply st_eqb_eq; apply Hsb_S; exact Hx).
      rewrite (filter_none _ (F :: c')); [apply app_nil_r|].
      intros x Hx. rewrite (Hc_L x Hx). reflexivity. }
    (* heights *)
    assert (Ha_hi: forall x, In x sa -> height F < height x) by (apply (chain_sorted s Hwf sa tip F c' Ea)).
    assert (Hb_hi: forall x, In x sb -> height F < height x) by (apply (chain_sorted s Hwf sb (prev r0) F c' Eb)).
    assert (Hc_lo: forall x, In x c' -> height x < height F) by (apply (chain_sorted_tail s Hwf sa tip F c' Ea)).
    assert (Hr0h: height r0 = height p + 1) by (pose proof Hok as Hk; unfold row_ok in Hk; rewrite Hp in Hk; apply Hk).
    assert (Hp_in: In p sb \/ p = F).
    { rewrite Hcp in Eb. destruct sb as [|b sb']; cbn in Eb; inversion Eb; subst; [right; reflexivity| left; left; reflexivity]. }
    assert (Hlh_hi: height F < lh).
    { unfold lh. rewrite Hstale. apply min_height_gt; [|exact Hb_hi].
      destruct Hp_in as [Hin| ->]; [specialize (Hb_hi p Hin)|]; lia. }
    assert (Hlh_lo: lh <= height F + 1).
    { unfold lh. rewrite Hstale. destruct sb as [|b sb'].
      - cbn. destruct Hp_in as [[]| ->]. lia.
      - destruct (chain_pred s Hwf (prev r0) _ eq_refl (b :: sb') F c' Eb ltac:(discriminate)) as (y & Hy & _ & Hh).
        pose proof (min_height_le_in (b :: sb') (height r0) y Hy). lia. }
    (* which rows get demoted *)
    assert (Hconcl: forall x, In x s -> (memN (id x) (ids concl) = true <-> In x sa)).
    { intros x Hx. rewrite (memN_ids_in s concl x Hwf ltac:(unfold concl, longest_from; intros y Hy; apply filter_In in Hy; apply Hy) Hx).
      unfold concl, longest_from. rewrite filter_In. split.
      - intros [_ Hpx]. apply andb_prop in Hpx. destruct Hpx as [H1 H2]. apply st_eqb_eq in H1. apply Z.leb_le in H2.
        apply (is_L_iff s tip HI x Hx) in H1. rewrite Ea in H1. apply in_app_or in H1.
        destruct H1 as [H1|[<-|H1]]; [exact H1| lia| specialize (Hc_lo x H1); lia].
      - intros Hin. split; [exact Hx|]. apply andb_true_intro. split.
        + apply st_eqb_eq. apply (is_L_iff s tip HI x Hx). rewrite Ea. apply in_or_app. left. exact Hin.
        + apply Z.leb_le. specialize (Ha_hi x Hin). lia. }
    assert (Hstale_mem: forall x, In x s -> (memN (id x) (ids stale) = true <-> In x sb)).
    { intros x Hx. rewrite Hstale. apply (memN_ids_in s sb x Hwf); [|exact Hx].
      intros y Hy. apply (chain_incl s (prev r0)). rewrite Eb. apply in_or_app. left. exact Hy. }
    exists sa, sb, F, c'. split; [exact Ea|]. split; [exact Eb|]. split; [exact D1|]. split; [exact D2|].
    split; [exact Hstale|]. split; [exact Hconcl|]. split; [exact Hstale_mem|]. split; [exact Hsb_S|]. split; [exact Hc_L|].
    split; [exact Hc_lo|]. split; [exact Hlh_hi| exact Hp_in].
  Qed.

  Lemma app_disjoint_nodup (l1 l2 : list row) x : NoDup (l1 ++ l2) -> In x l1 -> ~ In x l2.
  Proof.
    induction l1 as [|a l1 IH]; intros Hnd Hx Hin; [inversion Hx|].
    cbn in Hnd. inversion Hnd as [|? ? Hna Hnd']; subst.
    destruct Hx as [<-|Hx]; [apply Hna; apply in_or_app; right; exact Hin| exact (IH Hnd' Hx Hin)].
  Qed.

  (* after write 1 (demote the old branch) the longest chain is the path to the fork point *)
  Lemma demote_inv_at sa F c' : chain s tip = sa ++ F :: c' ->
    (forall x, In x s -> (memN (id x) (ids concl) = true <-> In x sa)) ->
    (forall x, In x (F :: c') -> st x = Longest) -> Inv s1 (id F) /\ In F s.
  Proof.
    intros Ea Hconcl HcL.
    pose proof HI as (Hwf & (t & Ht & Hto) & Hl).
    pose proof (wf_nodup s Hwf) as Hnd.
    set (f1 := fun r => if memN (id r) (ids concl) then set_st Stale r else r).
    assert (Hf1: same_struct f1) by apply same_struct_upd.
    assert (Es1: s1 = map f1 s) by reflexivity.
    assert (HcF: chain s (id F) = F :: c') by (apply (chain_suffix s Hnd tip sa F c' Ea)).
    assert (HFs: In F s) by (apply (chain_incl s tip); rewrite Ea; apply in_or_app; right; left; reflexivity).
    assert (HFo: orph F = false).
    { apply (chain_rows_connected s tip t Hwf Ht Hto). rewrite Ea. apply in_or_app. right. left. reflexivity. }
    assert (Hnd_tip: NoDup (chain s tip)) by (apply chain_nodup; exact Hnd).
    split; [|exact HFs]. split; [|split].
    - rewrite Es1. apply wf_map; assumption.
    - exists (f1 F). split.
      + rewrite Es1, (by_hash_map f1 _ _ Hf1), (chain_by_hash s (id F) F c' Hnd HcF). reflexivity.
      + destruct (Hf1 F) as (_ & _ & _ & _ & _ & E6 & _). rewrite E6. exact HFo.
    - intros x' Hx'. rewrite Es1 in Hx'. apply in_map_iff in Hx'. destruct Hx' as (x & <- & Hx).
      unfold derived, inchain. rewrite Es1, (chain_map f1 _ _ Hf1), (ids_map f1 _ Hf1), HcF.
      destruct (Hf1 x) as (A1 & _ & _ & _ & _ & A6 & _). rewrite A1, A6.
      assert (Hst': st (f1 x) = if memN (id x) (ids concl) then Stale else st x).
      { unfold f1. destruct (memN (id x) (ids concl)); reflexivity. }
      rewrite Hst'.
      assert (Hin_c: memN (id x) (ids (F :: c')) = true <-> In x (F :: c')).
      { apply (memN_ids_in s (F :: c') x Hwf); [|exact Hx]. intros y Hy. apply (chain_incl s tip). rewrite Ea. apply in_or_app. right. exact Hy. }
      destruct (orph x) eqn:Eo.
      + assert (Hn: memN (id x) (ids concl) = false).
        { destruct (memN (id x) (ids concl)) eqn:E; [|reflexivity]. apply (Hconcl x Hx) in E.
          assert (Hc: In x (chain s tip)) by (rewrite Ea; apply in_or_app; left; exact E).
          rewrite (chain_rows_connected s tip t Hwf Ht Hto x Hc) in Eo. discriminate. }
        rewrite Hn. apply (st_O_iff s tip x HI Hx). exact Eo.
      + destruct (memN (id x) (ids (F :: c'))) eqn:Ei.
        * assert (Ei': In x (F :: c')) by (apply Hin_c; reflexivity). clear Ei. rename Ei' into Ei.
          assert (Hn: memN (id x) (ids concl) = false).
          { destruct (memN (id x) (ids concl)) eqn:E; [|reflexivity]. apply (Hconcl x Hx) in E.
            exfalso. rewrite Ea in Hnd_tip. exact (app_disjoint_nodup sa (F :: c') x Hnd_tip E Ei). }
          rewrite Hn. apply HcL. exact Ei.
        * destruct (memN (id x) (ids concl)) eqn:E; [reflexivity|].
          apply (st_S_iff s tip x HI Hx). split; [exact Eo|].
          intro Hin. rewrite Ea in Hin. apply in_app_or in Hin. destruct Hin as [Hin|Hin].
          -- apply (Hconcl x Hx) in Hin. congruence.
          -- apply Hin_c in Hin. discriminate.
  Qed.

  Lemma demote_inv : exists F, Inv s1 (id F) /\ In F s.
  Proof.
    destruct reorg_setup as (sa & sb & F & c' & Ea & Eb & D1 & D2 & Hstale & Hconcl & Hstale_mem & HsbS & HcL & _).
    exists F. exact (demote_inv_at sa F c' Ea Hconcl HcL).
  Qed.

  (* after write 2 (promote the new branch) the longest chain is the path to the new header's parent *)
  Lemma promote_inv : Inv s2 (prev r0).
  Proof.
    destruct reorg_setup as (sa & sb & F & c' & Ea & Eb & D1 & D2 & Hstale & Hconcl & Hstale_mem & HsbS & HcL & _).
    pose proof HI as (Hwf & (t & Ht & Hto) & Hl).
    pose proof (wf_nodup s Hwf) as Hnd.
    set (f1 := fun r => if memN (id r) (ids concl) then set_st Stale r else r).
    set (f2 := fun r => if memN (id r) (ids stale) then set_st Longest r else r).
    assert (Hf1: same_struct f1) by apply same_struct_upd.
    assert (Hf2: same_struct f2) by apply same_struct_upd.
    assert (Es2: s2 = map f2 (map f1 s)) by reflexivity.
    assert (Hconn_p: forall x, In x (chain s (prev r0)) -> orph x = false)
      by (apply (chain_rows_connected s (prev r0) p Hwf Hp Hpo)).
    split; [|split].
    - rewrite Es2. apply wf_map; [exact Hf2| apply wf_map; assumption].
    - exists (f2 (f1 p)). split.
      + rewrite Es2, (by_hash_map f2 _ _ Hf2), (by_hash_map f1 _ _ Hf1), Hp. reflexivity.
      + destruct (Hf1 p) as (_ & _ & _ & _ & _ & A6 & _). destruct (Hf2 (f1 p)) as (_ & _ & _ & _ & _ & B6 & _).
        rewrite B6, A6. exact Hpo.
    - intros x' Hx'. rewrite Es2 in Hx'. apply in_map_iff in Hx'. destruct Hx' as (x1 & <- & Hx1).
      apply in_map_iff in Hx1. destruct Hx1 as (x & <- & Hx).
      unfold derived, inchain.
      rewrite Es2, (chain_map f2 _ _ Hf2), (chain_map f1 _ _ Hf1), (ids_map f2 _ Hf2), (ids_map f1 _ Hf1).
      destruct (Hf1 x) as (A1 & _ & _ & _ & _ & A6 & _). destruct (Hf2 (f1 x)) as (B1 & _ & _ & _ & _ & B6 & _).
      rewrite B1, A1, B6, A6.
      change (memN (id x) (ids (chain s (prev r0)))) with (inchain s (prev r0) x).
      assert (Hst': st (f2 (f1 x)) = if memN (id x) (ids stale) then Longest else if memN (id x) (ids concl) then Stale else st x).
      { unfold f2, f1. destruct (memN (id x) (ids concl)) eqn:E1; cbn [id set_st];
        destruct (memN (id x) (ids stale)) eqn:E2; reflexivity. }
      rewrite Hst'.
      destruct (orph x) eqn:Eo.
      + assert (H1: memN (id x) (ids stale) = false).
        { destruct (memN (id x) (ids stale)) eqn:E; [|reflexivity]. apply (Hstale_mem x Hx) in E.
          assert (Hc: In x (chain s (prev r0))) by (rewrite Eb; apply in_or_app; left; exact E).
          rewrite (Hconn_p x Hc) in Eo. discriminate. }
        assert (H2: memN (id x) (ids concl) = false).
        { destruct (memN (id x) (ids concl)) eqn:E; [|reflexivity]. apply (Hconcl x Hx) in E.
          assert (Hc: In x (chain s tip)) by (rewrite Ea; apply in_or_app; left; exact E).
          rewrite (chain_rows_connected s tip t Hwf Ht Hto x Hc) in Eo. discriminate. }
        rewrite H1, H2. apply (st_O_iff s tip x HI Hx). exact Eo.
      + destruct (inchain s (prev r0) x) eqn:Ei.
        * apply (inchain_in s (prev r0) x Hwf Hx) in Ei. rewrite Eb in Ei. apply in_app_or in Ei.
          destruct Ei as [Ei|Ei].
          -- apply (Hstale_mem x Hx) in Ei. rewrite Ei. reflexivity.
          -- assert (H1: memN (id x) (ids stale) = false).
             { destruct (memN (id x) (ids stale)) eqn:E; [|reflexivity]. apply (Hstale_mem x Hx) in E.
               exfalso. apply (D2 x E). rewrite Ea. apply in_or_app. right. exact Ei. }
             assert (H2: memN (id x) (ids concl) = false).
             { destruct (memN (id x) (ids concl)) eqn:E; [|reflexivity]. apply (Hconcl x Hx) in E.
               exfalso. apply (D1 x E). rewrite Eb. apply in_or_app. right. exact Ei. }
             rewrite H1, H2. apply HcL. exact Ei.
        * assert (Hnot: ~ In x (chain s (prev r0))).
          { intro Hin. apply (inchain_in s (prev r0) x Hwf Hx) in Hin. congruence. }
          assert (H1: memN (id x) (ids stale) = false).
          { destruct (memN (id x) (ids stale)) eqn:E; [|reflexivity]. apply (Hstale_mem x Hx) in E.
            exfalso. apply Hnot. rewrite Eb. apply in_or_app. left. exact E. }
          rewrite H1. destruct (memN (id x) (ids concl)) eqn:E; [reflexivity|].
          apply (st_S_iff s tip x HI Hx). split; [exact Eo|].
          intro Hin. rewrite Ea in Hin. apply in_app_or in Hin. destruct Hin as [Hin|Hin].
          -- apply (Hconcl x Hx) in Hin. congruence.
          -- apply Hnot. rewrite Eb. apply in_or_app. right. exact Hin.
  Qed.
End ReorgPrefixes.

(* ---- the shape of the planned writes ---- *)
Lemma row_ok_create s tip h : Inv s tip -> row_ok s (create_header s h).
Proof.
  intros HI. unfold row_ok, create_header. cbn [prev height cum work orph].
  destruct (by_hash s (s_prev h)) as [p0|] eqn:Ep; [|cbn; auto].
  destruct (by_hash_in _ _ _ Ep) as [Hp0in _]. repeat split.
  destruct (st p0) eqn:E; cbn; symmetry.
  - destruct (orph p0) eqn:Eo; [|reflexivity]. apply (st_O_iff s tip p0 HI Hp0in) in Eo. congruence.
  - destruct (orph p0) eqn:Eo; [|reflexivity]. apply (st_O_iff s tip p0 HI Hp0in) in Eo. congruence.
  - apply (st_O_iff s tip p0 HI Hp0in). exact E.
Qed.

Inductive plan_shape (s : store) (h : src) : list write -> Prop :=
| ps_none : plan_shape s h []
| ps_insert x : plan_shape s h [WInsert (set_st x (create_header s h))]
| ps_reorg p t : by_hash s (s_prev h) = Some p -> orph p = false ->
    tipB s = Some t -> (cum t <? cum (create_header s h)) = true ->
    plan_shape s h [WUpdate (ids (longest_from s (min_height (stale_back s (s_prev h)) (height (create_header s h))))) Stale;
                    WUpdate (ids (stale_back s (s_prev h))) Longest;
                    WInsert (set_st Longest (create_header s h))].

Lemma plan_has_shape f s tip h : Inv s tip -> plan_shape s h (snd (plan f s h)).
Proof.
  intros HI. unfold plan.
  destruct (by_hash s (s_id h)); [constructor|].
  destruct (memN (s_id h) f); [constructor|].
  set (r0 := create_header s h).
  assert (Hst: forall x, x = st r0 -> r0 = set_st x r0) by (intros x ->; destruct r0; reflexivity).
  destruct (negb match st r0 with Orphan => false | Longest => has_L_at s (height r0) | Stale => true end) eqn:Ec.
  - cbn [snd]. rewrite (Hst (st r0) eq_refl) at 1. apply ps_insert.
  - destruct (tipB s) as [t|] eqn:Et; [|constructor].
    destruct (cum t <? cum r0) eqn:Ecmp; cbn [snd]; [|apply ps_insert].
    (* the header is connected: its parent is stored and not an orphan *)
    unfold r0, create_header in Ec. cbn [st] in Ec. rewrite st_match in Ec.
    destruct (by_hash s (s_prev h)) as [p|] eqn:Ep; [|discriminate].
    apply (ps_reorg s h p t); [exact Ep| |exact Et|exact Ecmp].
    destruct (by_hash_in _ _ _ Ep) as [Hpin _].
    destruct (orph p) eqn:Eo; [|reflexivity].
    apply (st_O_iff s tip p HI Hpin) in Eo. rewrite Eo in Ec. discriminate.
Qed.

Lemma exec_ge s ws k : (length ws <= k)%nat -> exec s ws k = exec s ws (length ws).
Proof. intros H. unfold exec. rewrite firstn_all, (firstn_all2 ws H). reflexivity. Qed.

Lemma add_fst_exec f s h : fst (add f s h) = exec s (snd (plan f s h)) (length (snd (plan f s h))).
Proof. unfold add. destruct (plan f s h) as [o ws]. reflexivity. Qed.

(* ---- C05: every crash state is structurally valid ---- *)
Theorem crash_inv f s tip h k : Inv s tip -> s_id h <> 0%N -> exists tip', Inv (crash_state f s h k) tip'.
Proof.
  intros HI Hz. unfold crash_state.
  destruct (Nat.le_gt_cases (length (snd (plan f s h))) k) as [Hge|Hlt].
  - (* all planned writes happened: the state after Add *)
    rewrite (exec_ge _ _ _ Hge), <- add_fst_exec.
    destruct (step_related_gen f s tip h HI Hz) as (tip' & HI' & _). exists tip'. exact HI'.
  - pose proof (plan_has_shape f s tip h HI) as Hs.
    inversion Hs as [E | x E | p t Hp Hpo Ht Hcmp E]; rewrite <- E in *; cbn [length] in Hlt.
    + lia.
    + assert (k = 0%nat) by lia. subst k. exists tip. exact HI.
    + pose proof (row_ok_create s tip h HI) as Hok.
      destruct k as [|[|[|k]]]; [| | |lia]; unfold exec; cbn [firstn fold_left apply_write].
      * exists tip. exact HI.
      * destruct (demote_inv s tip p (create_header s h) HI Hp Hpo Hok) as (F & HF & _). exists (id F). exact HF.
      * exists (s_prev h). exact (promote_inv s tip p (create_header s h) HI Hp Hpo Hok).
Qed.

(* ... and keeps every acknowledged row, unaltered except for its label *)
Theorem crash_persist f s tip h k : Inv s tip ->
  map dummy (crash_state f s h k) = map dummy s \/
  exists x, map dummy (crash_state f s h k) = dummy x :: map dummy s.
Proof.
  intros HI. unfold crash_state. pose proof (plan_has_shape f s tip h HI) as Hs.
  inversion Hs as [E | x E | p t Hp Hpo Ht Hcmp E]; rewrite <- E in *; unfold exec.
  - destruct k; cbn; left; reflexivity.
  - destruct k as [|k]; cbn [firstn fold_left apply_write]; rewrite ?firstn_nil; cbn [fold_left]; [left; reflexivity|].
    destruct (by_hash s (id (set_st x (create_header s h)))); [left; reflexivity|].
    right. eexists. reflexivity.
  - destruct k as [|[|[|k]]]; cbn [firstn fold_left apply_write]; rewrite ?firstn_nil; cbn [fold_left]; rewrite ?dummy_update; try (left; reflexivity).
    match goal with |- context [match ?b with Some _ => _ | None => _ end] => destruct b end;
      [left; rewrite !dummy_update; reflexivity|].
    right. eexists. cbn [map]. rewrite !dummy_update. reflexivity.
Qed.

(* ---- recovery: re-planning the interrupted header on a crash state gives the uninterrupted result ---- *)
Definition nonneg_work (s : store) := forall r, In r s -> 0 <= work r.

Lemma chain_cum_le s : wf s -> nonneg_work s -> forall t y rest, chain s t = y :: rest -> forall x, In x rest -> cum x <= cum y.
Proof.
  intros Hwf Hnn t y rest. revert s Hwf Hnn t y.
  induction rest as [|b c IH]; intros s Hwf Hnn t y H x Hx; [inversion Hx|].
  destruct (chain_step s Hwf t y b c H) as (_ & _ & Hc & _).
  assert (Hy: In y s) by (apply (chain_incl s t); rewrite H; left; reflexivity).
  pose proof (Hnn y Hy) as Hwy.
  destruct Hx as [<-|Hx]; [lia|].
  destruct (chain_tail_is_chain _ _ _ _ H) as (s' & [pre Hpre] & Hr).
  assert (Hwf': wf s').
  { subst s. apply (wf_suffix (pre ++ [y]) s'); [rewrite <- app_assoc; exact Hwf|].
    intro E. subst s'. cbn in Hr. discriminate. }
  assert (Hnn': nonneg_work s').
  { intros r Hr'. apply Hnn. subst s. apply in_or_app. right. right. exact Hr'. }
  pose proof (IH s' Hwf' Hnn' (prev y) b (eq_sym Hr) x Hx). lia.
Qed.

Lemma walk_map f fuel s t : same_struct f -> walk fuel (map f s) t = map f (walk fuel s t).
Proof.
  intros Hf. revert t. induction fuel as [|n IH]; intros t; [reflexivity|]. cbn [walk].
  rewrite (by_hash_map f s t Hf). destruct (by_hash s t) as [x|]; [|reflexivity]. cbn [option_map map].
  destruct (Hf x) as (_ & E2 & _). rewrite E2, IH. reflexivity.
Qed.

Lemma st_create s h p : by_hash s (s_prev h) = Some p -> st (create_header s h) = st p.
Proof. intros Hp. unfold create_header. cbn [st]. rewrite Hp. apply st_match. Qed.

Lemma create_header_relabel g s h p : same_struct g -> by_hash s (s_prev h) = Some p ->
  st_eqb (st (g p)) Orphan = st_eqb (st p) Orphan ->
  create_header (map g s) h = set_st (st (g p)) (create_header s h).
Proof.
  intros Hg Hp Ho. unfold create_header. rewrite (by_hash_map g s _ Hg), Hp. cbn [option_map].
  destruct (Hg p) as (_ & _ & E3 & _ & E5 & _). rewrite E3, E5, Ho, st_match. reflexivity.
Qed.

Lemma no_L_above_tip s tip t : Inv s tip -> by_hash s tip = Some t -> has_L_at s (height t + 1) = false.
Proof.
  intros HI Ht. unfold has_L_at. destruct (existsb _ s) eqn:E; [|reflexivity]. exfalso.
  apply existsb_exists in E. destruct E as (y & Hy & Hpy). apply andb_prop in Hpy. destruct Hpy as [H1 H2].
  apply st_eqb_eq in H1. apply Z.eqb_eq in H2.
  destruct (tip_height_max s tip t HI Ht y Hy H1) as [->|Hlt]; lia.
Qed.

Lemma by_hash_fresh_map g s i : same_struct g -> by_hash s i = None -> by_hash (map g s) i = None.
Proof. intros Hg H. rewrite (by_hash_map g s i Hg), H. reflexivity. Qed.

Section Recover.
  Variables (f : list N) (s : store) (tip : N) (h : src) (p t : row).
  Hypothesis HI : Inv s tip.
  Hypothesis Hnn : nonneg_work s.
  Hypothesis Hnew : by_hash s (s_id h) = None.
  Hypothesis Hnf : memN (s_id h) f = false.
  Hypothesis Hp : by_hash s (s_prev h) = Some p.
  Hypothesis Hpo : orph p = false.
  Hypothesis Htip : tipB s = Some t.
  Hypothesis Hcmp : (cum t <? cum (create_header s h)) = true.

  Let r0 := create_header s h.
  Let stale := stale_back s (s_prev h).
  Let lh := min_height stale (height r0).
  Let concl := longest_from s lh.
  Let s1 := update_state s (ids concl) Stale.
  Let s2 := update_state s1 (ids stale) Longest.

  Lemma prev_r0 : prev r0 = s_prev h. Proof. reflexivity. Qed.

  (* re-planning after "demote, promote" happened: the parent is now the tip, the header simply extends it *)
  Lemma recover_after_promote : fst (add f s2 h) = set_st Longest r0 :: s2.
  Proof.
    pose proof (row_ok_create s tip h HI) as Hok.
    pose proof (promote_inv s tip p r0 HI Hp Hpo Hok) as HI2. fold stale lh concl s1 s2 in HI2. rewrite prev_r0 in HI2.
    set (g := fun r => (fun r1 => if memN (id r1) (ids stale) then set_st Longest r1 else r1)
                         ((fun r1 => if memN (id r1) (ids concl) then set_st Stale r1 else r1) r)).
    assert (Hg: same_struct g).
    { intros r. unfold g. destruct (same_struct_upd (ids concl) Stale r) as (A1 & A2 & A3 & A4 & A5 & A6 & A7).
      destruct (same_struct_upd (ids stale) Longest ((fun r1 => if memN (id r1) (ids concl) then set_st Stale r1 else r1) r)) as (B1 & B2 & B3 & B4 & B5 & B6 & B7).
      cbv beta in *. rewrite B1, B2, B3, B4, B5, B6, B7. repeat split; assumption. }
    assert (Es2: s2 = map g s) by (unfold s2, s1, update_state; rewrite map_map; reflexivity).
    assert (Hbp: by_hash s2 (s_prev h) = Some (g p)) by (rewrite Es2, (by_hash_map g s _ Hg), Hp; reflexivity).
    destruct (tip_is_L s2 (s_prev h) (g p) HI2 Hbp) as [_ HgL].
    assert (Hch: create_header s2 h = set_st Longest r0).
    { rewrite Es2, (create_header_relabel g s h p Hg Hp); [rewrite HgL; reflexivity|].
      rewrite HgL. cbn.
      destruct (st p) eqn:Es; try reflexivity. destruct (by_hash_in _ _ _ Hp) as [Hpin _].
      apply (st_O_iff s tip p HI Hpin) in Es. congruence. }
    rewrite add_is_explicit. unfold add_explicit.
    rewrite Es2, (by_hash_fresh_map g s _ Hg Hnew), Hnf, <- Es2, Hch. cbn [st set_st height].
    assert (Hh: height r0 = height (g p) + 1).
    { unfold r0, create_header. cbn [height]. rewrite Hp. destruct (Hg p) as (_ & _ & E3 & _). rewrite E3. reflexivity. }
    rewrite Hh, (no_L_above_tip s2 (s_prev h) (g p) HI2 Hbp). reflexivity.
  Qed.

  (* re-planning after only "demote" happened: the tip is the fork point *)
  Lemma recover_after_demote : by_hash s tip = Some t -> fst (add f s1 h) = set_st Longest r0 :: s2.
  Proof.
    intros Ht.
    pose proof (row_ok_create s tip h HI) as Hok.
    pose proof HI as (Hwf & _ & Hl). pose proof (wf_nodup s Hwf) as Hnd.
    destruct (reorg_setup s tip p r0 HI Hp Hpo Hok) as (sa & sb & F & c' & Ea & Eb & D1 & D2 & Hstale & Hconcl & Hstale_mem & HsbS & HcL & Hclo & Hlh & Hpin).
    fold stale lh concl in Hstale, Hconcl, Hstale_mem, Hlh. rewrite prev_r0 in *.
    destruct (demote_inv_at s tip r0 HI sa F c' Ea Hconcl HcL) as (HI1 & HFs). fold stale lh concl s1 in HI1.
    set (f1 := fun r => if memN (id r) (ids concl) then set_st Stale r else r).
    assert (Hf1: same_struct f1) by apply same_struct_upd.
    assert (Es1: s1 = map f1 s) by reflexivity.
    (* rows of the new branch's chain are untouched by the demotion *)
    assert (Hid: forall x, In x (chain s (s_prev h)) -> f1 x = x).
    { intros x Hx. unfold f1. destruct (memN (id x) (ids concl)) eqn:E; [|reflexivity]. exfalso.
      assert (Hxs: In x s) by (apply (chain_incl s (s_prev h)); exact Hx).
      apply (Hconcl x Hxs) in E. exact (D1 x E Hx). }
    destruct (by_hash_chain s (s_prev h) Hnd p Hp) as [restp Hcp].
    assert (Hpc: In p (chain s (s_prev h))) by (rewrite Hcp; left; reflexivity).
    assert (Hch: create_header s1 h = r0).
    { rewrite Es1, (create_header_relabel f1 s h p Hf1 Hp); rewrite (Hid p Hpc); [|reflexivity].
      unfold r0. rewrite <- (st_create s h p Hp). destruct (create_header s h); reflexivity. }
    assert (HFc: In F (chain s (s_prev h))) by (rewrite Eb; apply in_or_app; right; left; reflexivity).
    assert (HcF: chain s (id F) = F :: c') by (apply (chain_suffix s Hnd tip sa F c' Ea)).
    assert (HbF: by_hash s1 (id F) = Some F).
    { rewrite Es1, (by_hash_map f1 s _ Hf1), (chain_by_hash s (id F) F c' Hnd HcF). cbn. rewrite (Hid F HFc). reflexivity. }
    assert (Hh: height r0 = height p + 1) by (unfold r0, create_header; cbn [height]; rewrite Hp; reflexivity).
    rewrite add_is_explicit. unfold add_explicit.
    rewrite Es1, (by_hash_fresh_map f1 s _ Hf1 Hnew), Hnf, <- Es1, Hch.
    assert (Hst0: st r0 = st p) by (apply (st_create s h p Hp)).
    destruct Hpin as [Hpsb | HpF].
    - (* the parent is on the (still stale) new branch: the reorganisation is planned again *)
      rewrite Hst0, (HsbS p Hpsb). cbn [negb].
      rewrite (tipB_is_tip s1 (id F) HI1), HbF.
      assert (HcumF: cum F <= cum t).
      { destruct (by_hash_chain s tip Hnd t Ht) as [restt Hct]. rewrite Hct in Ea.
        destruct sa as [|a sa']; cbn in Ea; inversion Ea; subst.
        - lia.
        - apply (chain_cum_le s Hwf Hnn tip a (sa' ++ F :: c')); [rewrite Hct; reflexivity|].
          apply in_or_app. right. left. reflexivity. }
      assert (Hc2: (cum F <? cum r0) = true).
      { apply Z.ltb_lt. apply Z.ltb_lt in Hcmp. fold r0 in Hcmp. lia. }
      rewrite Hc2. cbn [fst]. f_equal.
      (* the stale part is unchanged, nothing is left to demote *)
      assert (Hsb': stale_back s1 (s_prev h) = stale).
      { unfold stale, stale_back. rewrite Es1, map_length, (walk_map f1 _ s _ Hf1).
        rewrite (walk_chain s Hwf (length s) (s_prev h) p restp Hcp Hpo) by (rewrite <- Hcp; apply chain_length).
        rewrite <- Hcp. replace (map f1 (chain s (s_prev h))) with (chain s (s_prev h)); [reflexivity|].
        rewrite <- (map_id (chain s (s_prev h))) at 1. apply map_ext_in. intros x Hx. symmetry. apply Hid. exact Hx. }
      rewrite Hsb'. fold lh.
      assert (Hconcl': longest_from s1 lh = []).
      { unfold longest_from. apply filter_none. intros x' Hx'.
        destruct (st_eqb (st x') Longest) eqn:EL; [|reflexivity]. cbn [andb]. apply st_eqb_eq in EL.
        apply (is_L_iff s1 (id F) HI1 x' Hx') in EL.
        rewrite Es1, (chain_map f1 s _ Hf1), HcF in EL. apply in_map_iff in EL. destruct EL as (x & <- & Hx).
        destruct (Hf1 x) as (_ & _ & E3 & _). rewrite E3.
        apply Z.leb_gt. unfold lh, stale. destruct Hx as [<-|Hx]; [exact Hlh| specialize (Hclo x Hx); lia]. }
      rewrite Hconcl'. cbn [ids map]. rewrite update_nil. reflexivity.
    - (* the parent IS the fork point: nothing competes above it any more, the header extends the tip *)
      subst p. rewrite Hst0, (HcL F (or_introl eq_refl)). rewrite Hh.
      rewrite (no_L_above_tip s1 (id F) F HI1 HbF). cbn [negb fst].
      assert (Hsb0: sb = []).
      { destruct sb as [|b sb']; [reflexivity|]. exfalso.
        rewrite Hcp in Eb. cbn in Eb. inversion Eb; subst b.
        pose proof (chain_nodup s (s_prev h) Hnd) as Hndc. rewrite Hcp in Hndc.
        rewrite H1 in Hndc. inversion Hndc as [|? ? Hni _]; subst. apply Hni. apply in_or_app. right. left. reflexivity. }
      unfold s2, stale. rewrite Hstale, Hsb0. cbn [ids map]. rewrite update_nil.
      f_equal. rewrite <- (set_st_self r0) at 1. rewrite Hst0, (HcL F (or_introl eq_refl)). reflexivity.
  Qed.
End Recover.

Lemma calc_work_nonneg c : 0 <= calc_work c.
Proof.
  unfold calc_work. cbv zeta. destruct (Z.leb_spec (compact_to_big c) 0) as [_|Hpos]; [lia|].
  apply Z.div_pos; [|lia]. rewrite Z.shiftl_mul_pow2 by lia. lia.
Qed.

Lemma id_create s h : id (create_header s h) = s_id h.
Proof. reflexivity. Qed.

(* one interrupted submission: whatever prefix of its writes happened, submitting it again yields the
   store an uninterrupted submission yields *)
Theorem recover_step f s tip h k : Inv s tip -> nonneg_work s -> s_id h <> 0%N ->
  fst (add f (crash_state f s h k) h) = fst (add f s h).
Proof.
  intros HI Hnn Hz. unfold crash_state.
  destruct (Nat.le_gt_cases (length (snd (plan f s h))) k) as [Hge|Hlt].
  - rewrite (exec_ge _ _ _ Hge), <- add_fst_exec.
    destruct (by_hash s (s_id h)) as [x|] eqn:Hnew.
    + rewrite (add_duplicate f s h x Hnew). cbn [fst]. rewrite (add_duplicate f s h x Hnew). reflexivity.
    + destruct (memN (s_id h) f) eqn:Hf.
      * rewrite (add_forbidden f s h Hnew Hf). cbn [fst]. rewrite (add_forbidden f s h Hnew Hf). reflexivity.
      * destruct (add_inv f s tip h HI Hz Hnew Hf) as (s2 & x & tip' & E & _ & _). rewrite E. cbn [fst].
        assert (Hd: by_hash (set_st x (create_header s h) :: s2) (s_id h) = Some (set_st x (create_header s h))).
        { unfold by_hash. cbn [find id set_st]. rewrite id_create, N.eqb_refl. reflexivity. }
        rewrite (add_duplicate f _ h _ Hd). reflexivity.
  - pose proof (plan_has_shape f s tip h HI) as Hs.
    remember (snd (plan f s h)) as ws eqn:Ews.
    inversion Hs as [E | x E | p t Hp Hpo Ht Hcmp E]; rewrite <- E in *; cbn [length] in Hlt.
    + lia.
    + assert (k = 0%nat) by lia. subst k. reflexivity.
    + assert (Hnew: by_hash s (s_id h) = None).
      { destruct (by_hash s (s_id h)) eqn:Eh; [|reflexivity]. unfold plan in Ews. rewrite Eh in Ews. discriminate. }
      assert (Hnf: memN (s_id h) f = false).
      { destruct (memN (s_id h) f) eqn:Ef; [|reflexivity]. unfold plan in Ews. rewrite Hnew, Ef in Ews. discriminate. }
      assert (Hfull: fst (add f s h) = set_st Longest (create_header s h) ::
                update_state (update_state s (ids (longest_from s (min_height (stale_back s (s_prev h)) (height (create_header s h))))) Stale)
                             (ids (stale_back s (s_prev h))) Longest).
      { rewrite add_fst_exec, <- Ews. unfold exec. cbn [length firstn fold_left apply_write id set_st].
        rewrite !by_hash_update, id_create, Hnew. reflexivity. }
      rewrite Hfull.
      assert (Htt: by_hash s tip = Some t) by (rewrite <- (tipB_is_tip s tip HI); exact Ht).
      destruct k as [|[|[|k]]]; [| | |lia]; unfold exec; cbn [firstn fold_left apply_write].
      * exact Hfull.
      * exact (recover_after_demote f s tip h p t HI Hnn Hnew Hnf Hp Hpo Ht Hcmp Htt).
      * exact (recover_after_promote f s tip h p t HI Hnew Hnf Hp Hpo Hcmp).
Qed.

(* ---- redelivery of the whole history after a crash ---- *)
Lemma by_hash_cons_keep r s i : by_hash s i <> None -> by_hash (r :: s) i <> None.
Proof. intros H. unfold by_hash. cbn [find]. destruct (N.eqb (id r) i); [discriminate| exact H]. Qed.

Lemma by_hash_update_keep s l x i : by_hash s i <> None -> by_hash (update_state s l x) i <> None.
Proof. intros H. rewrite by_hash_update. destruct (by_hash s i); [discriminate| contradiction]. Qed.

Lemma add_keeps_ids f s h i : by_hash s i <> None -> by_hash (fst (add f s h)) i <> None.
Proof.
  intros H. rewrite add_is_explicit. unfold add_explicit.
  destruct (by_hash s (s_id h)); [exact H|].
  destruct (memN (s_id h) f); [exact H|].
  destruct (negb _); [apply by_hash_cons_keep; exact H|].
  destruct (tipB s) as [t|]; [|exact H].
  destruct (cum t <? _); cbn [fst]; apply by_hash_cons_keep; [|exact H].
  apply by_hash_update_keep, by_hash_update_keep. exact H.
Qed.

Lemma add_stores_or_forbidden f s h : by_hash s (s_id h) <> None \/ memN (s_id h) f = true \/
  (tipB s = None /\ fst (add f s h) = s) \/ by_hash (fst (add f s h)) (s_id h) <> None.
Proof.
  rewrite add_is_explicit. unfold add_explicit.
  destruct (by_hash s (s_id h)) eqn:E; [left; discriminate|].
  destruct (memN (s_id h) f); [right; left; reflexivity|].
  assert (Hc: forall r s', id r = s_id h -> by_hash (r :: s') (s_id h) <> None).
  { intros r s' Hr. unfold by_hash. cbn [find]. rewrite Hr, N.eqb_refl. discriminate. }
  destruct (negb _); [right; right; right; apply Hc; reflexivity|].
  destruct (tipB s) as [t|]; [|right; right; left; auto].
  destruct (cum t <? _); right; right; right; apply Hc; reflexivity.
Qed.

Lemma add_noop f c h : by_hash c (s_id h) <> None \/ memN (s_id h) f = true -> fst (add f c h) = c.
Proof.
  intros [H|H]; unfold add, plan.
  - destruct (by_hash c (s_id h)); [reflexivity| contradiction].
  - destruct (by_hash c (s_id h)); [reflexivity|]. rewrite H. reflexivity.
Qed.

Lemma replay_noop f pre : forall c, (forall h', In h' pre -> by_hash c (s_id h') <> None \/ memN (s_id h') f = true) ->
  run_from f c pre = c.
Proof.
  induction pre as [|a pre IH]; intros c H; [reflexivity|].
  unfold run_from in *. cbn [fold_left]. rewrite (add_noop f c a (H a (or_introl eq_refl))).
  apply IH. intros h' Hh'. apply H. right. exact Hh'.
Qed.

(* every header of an ingested history is stored or forbidden (the store always has a tip) *)
Lemma ingested f pre : forall s tip, Inv s tip -> nonzero_ids pre ->
  forall h', In h' pre -> by_hash (run_from f s pre) (s_id h') <> None \/ memN (s_id h') f = true.
Proof.
  induction pre as [|a pre IH]; intros s tip HI Hn h' Hh'; [inversion Hh'|].
  unfold run_from in *. cbn [fold_left].
  destruct (step_related_gen f s tip a HI (Hn a (or_introl eq_refl))) as (tip1 & HI1 & _).
  destruct Hh' as [<-|Hh'].
  - assert (Hk: forall s0 tip0, Inv s0 tip0 -> nonzero_ids pre -> by_hash s0 (s_id a) <> None ->
                 by_hash (fold_left (fun s1 h => fst (add f s1 h)) pre s0) (s_id a) <> None).
    { clear. induction pre as [|b pre IHp]; intros s0 tip0 HI0 Hn0 H0; [exact H0|]. cbn [fold_left].
      destruct (step_related_gen f s0 tip0 b HI0 (Hn0 b (or_introl eq_refl))) as (tipb & HIb & _).
      apply (IHp _ tipb HIb (fun x Hx => Hn0 x (or_intror Hx))). apply add_keeps_ids. exact H0. }
    destruct (add_stores_or_forbidden f s a) as [H|[H|[[Hnt _]|H]]].
    + left. apply (Hk _ tip1 HI1 (fun x Hx => Hn x (or_intror Hx))). apply add_keeps_ids. exact H.
    + right. exact H.
    + exfalso. rewrite (tipB_is_tip s tip HI) in Hnt. destruct HI as (_ & (t & Ht & _) & _). congruence.
    + left. apply (Hk _ tip1 HI1 (fun x Hx => Hn x (or_intror Hx))). exact H.
  - apply (IH _ tip1 HI1 (fun x Hx => Hn x (or_intror Hx)) h' Hh').
Qed.

Lemma crash_keeps_ids f s tip h k i : Inv s tip -> by_hash s i <> None -> by_hash (crash_state f s h k) i <> None.
Proof.
  intros HI H.
  assert (Hd: by_hash (map dummy s) i <> None) by (rewrite by_hash_dummy; destruct (by_hash s i); [discriminate| contradiction]).
  assert (Hc: by_hash (map dummy (crash_state f s h k)) i <> None).
  { destruct (crash_persist f s tip h k HI) as [E|[x E]]; rewrite E; [exact Hd| apply by_hash_cons_keep; exact Hd]. }
  rewrite by_hash_dummy in Hc. destruct (by_hash (crash_state f s h k) i); [discriminate| contradiction].
Qed.

Lemma nonneg_add f s tip h : Inv s tip -> nonneg_work s -> s_id h <> 0%N -> nonneg_work (fst (add f s h)).
Proof.
  intros HI Hnn Hz.
  destruct (by_hash s (s_id h)) as [x|] eqn:Hnew; [rewrite (add_duplicate f s h x Hnew); exact Hnn|].
  destruct (memN (s_id h) f) eqn:Hf; [rewrite (add_forbidden f s h Hnew Hf); exact Hnn|].
  destruct (add_inv f s tip h HI Hz Hnew Hf) as (s2 & x & tip' & E & _ & Hd). rewrite E. cbn [fst].
  intros r [<-|Hr].
  - cbn [work set_st create_header]. apply calc_work_nonneg.
  - assert (Hdr: In (dummy r) (map dummy s)) by (rewrite <- Hd; apply in_map; exact Hr).
    apply in_map_iff in Hdr. destruct Hdr as (r' & Er & Hr').
    replace (work r) with (work (dummy r)) by reflexivity. rewrite <- Er. cbn. apply Hnn. exact Hr'.
Qed.

Lemma nonneg_run f pre : forall s tip, Inv s tip -> nonneg_work s -> nonzero_ids pre ->
  exists tip', Inv (run_from f s pre) tip' /\ nonneg_work (run_from f s pre).
Proof.
  induction pre as [|a pre IH]; intros s tip HI Hnn Hn; [exists tip; auto|].
  unfold run_from in *. cbn [fold_left].
  destruct (step_related_gen f s tip a HI (Hn a (or_introl eq_refl))) as (tip1 & HI1 & _).
  apply (IH _ tip1 HI1 (nonneg_add f s tip a HI Hnn (Hn a (or_introl eq_refl))) (fun x Hx => Hn x (or_intror Hx))).
Qed.

Lemma nth_error_split_firstn {A} (l : list A) i x : nth_error l i = Some x -> l = firstn i l ++ x :: skipn (S i) l.
Proof.
  revert i. induction l as [|a l IH]; intros [|i] H; cbn in *; try discriminate.
  - inversion H. reflexivity.
  - f_equal. apply IH. exact H.
Qed.

(* C05: kill the process after ANY number k of the writes of ANY header i of ANY history; after restart,
   re-delivering the whole history yields exactly the store of the uninterrupted run *)
Theorem crash_redelivery_recovers f gid gpl hs i k : gid <> 0%N -> nonzero_ids hs ->
  run_from f (restart gid gpl (crash_run f (init gid gpl) hs i k)) hs = run f gid gpl hs.
Proof.
  intros Hg Hn. unfold crash_run, run.
  set (s0 := init gid gpl).
  assert (HI0: Inv s0 gid) by (apply (init_inv2 gid gpl Hg)).
  assert (Hnn0: nonneg_work s0).
  { intros r [<-|[]]. cbn. apply calc_work_nonneg. }
  assert (Hgen: by_hash s0 gid <> None).
  { unfold s0, init, by_hash. cbn. rewrite N.eqb_refl. discriminate. }
  assert (Hrestart: forall c, by_hash c gid <> None -> restart gid gpl c = c).
  { intros c Hc. unfold restart, apply_write. cbn [id genesis_row]. destruct (by_hash c gid); [reflexivity| contradiction]. }
  assert (Hkeep: forall l s tip, Inv s tip -> nonzero_ids l -> by_hash s gid <> None -> by_hash (run_from f s l) gid <> None).
  { induction l as [|b l IHl]; intros s tip HI Hnl H0; [exact H0|]. unfold run_from in *. cbn [fold_left].
    destruct (step_related_gen f s tip b HI (Hnl b (or_introl eq_refl))) as (tipb & HIb & _).
    apply (IHl _ tipb HIb (fun x Hx => Hnl x (or_intror Hx))). apply add_keeps_ids. exact H0. }
  destruct (nth_error hs i) as [h|] eqn:Eh.
  2:{ (* no such header: nothing was interrupted; everything is a duplicate or forbidden on redelivery *)
    assert (Hf: firstn i hs = hs).
    { apply firstn_all2. apply nth_error_None. exact Eh. }
    rewrite Hf. rewrite (Hrestart _ (Hkeep hs s0 gid HI0 Hn Hgen)).
    apply replay_noop. intros h' Hh'. apply (ingested f hs s0 gid HI0 Hn h' Hh'). }
  pose proof (nth_error_split_firstn hs i h Eh) as Esplit.
  set (pre := firstn i hs) in *. set (post := skipn (S i) hs) in *.
  assert (Hnpre: nonzero_ids pre) by (intros x Hx; apply Hn; rewrite Esplit; apply in_or_app; left; exact Hx).
  assert (Hzh: s_id h <> 0%N) by (apply Hn; rewrite Esplit; apply in_or_app; right; left; reflexivity).
  destruct (nonneg_run f pre s0 gid HI0 Hnn0 Hnpre) as (tip & HI & Hnn).
  set (s := run_from f s0 pre) in *.
  set (c := crash_state f s h k).
  assert (Hcg: by_hash c gid <> None).
  { apply (crash_keeps_ids f s tip h k gid HI). apply (Hkeep pre s0 gid HI0 Hnpre Hgen). }
  rewrite (Hrestart c Hcg). rewrite Esplit at 1 2.
  rewrite !run_from_app. fold s.
  rewrite (replay_noop f pre c).
  - unfold run_from. cbn [fold_left]. unfold c. rewrite (recover_step f s tip h k HI Hnn Hzh). reflexivity.
  - intros h' Hh'. destruct (ingested f pre s0 gid HI0 Hnpre h' Hh') as [H|H]; [left|right; exact H].
    apply (crash_keeps_ids f s tip h k _ HI). exact H.
Qed.

(* ---- what "structurally valid" means, in the words of the statement ---- *)
Definition struct_valid (s : store) (t : row) : Prop :=
  In t s /\ st t = Longest /\
  (* exactly one longest-chain header at every height from genesis to the tip, none above *)
  (forall r1 r2, In r1 s -> In r2 s -> st r1 = Longest -> st r2 = Longest -> height r1 = height r2 -> r1 = r2) /\
  (forall r, In r s -> st r = Longest -> 0 <= height r <= height t) /\
  (forall hgt, 0 <= hgt <= height t -> exists r, In r s /\ st r = Longest /\ height r = hgt) /\
  (* parent-linked *)
  (forall r, In r s -> st r = Longest -> 0 < height r ->
     exists q, In q s /\ st q = Longest /\ prev r = id q /\ height r = height q + 1).

Lemma chain_unique_height s : wf s -> forall t r1 r2, In r1 (chain s t) -> In r2 (chain s t) -> height r1 = height r2 -> r1 = r2.
Proof.
  intros Hwf t r1 r2 H1 H2 Hh.
  destruct (in_split _ _ H1) as (l1 & l2 & E). rewrite E in H2. apply in_app_or in H2.
  destruct H2 as [H2|[H2|H2]]; [| exact H2 |].
  - pose proof (chain_sorted s Hwf l1 t r1 l2 E r2 H2). lia.
  - pose proof (chain_sorted_tail s Hwf l1 t r1 l2 E r2 H2). lia.
Qed.

Lemma chain_covers_heights s : wf s -> forall rest t y, chain s t = y :: rest -> orph y = false ->
  forall hgt, 0 <= hgt <= height y -> exists r, In r (y :: rest) /\ height r = hgt.
Proof.
  intros Hwf rest. revert s Hwf. induction rest as [|b c IH]; intros s Hwf t y H Hy hgt Hh.
  - destruct (chain_connected_nonempty_last s Hwf t y [] H Hy) as (g & Hl & Hg0 & _). cbn in Hl. subst g.
    exists y. split; [left; reflexivity| lia].
  - destruct (chain_step s Hwf t y b c H) as (_ & Hhb & _ & Ho).
    destruct (Z.eq_dec hgt (height y)) as [->|Hne]; [exists y; split; [left; reflexivity| reflexivity]|].
    destruct (chain_tail_is_chain _ _ _ _ H) as (s' & [pre Hpre] & Hr).
    assert (Hwf': wf s').
    { subst s. apply (wf_suffix (pre ++ [y]) s'); [rewrite <- app_assoc; exact Hwf|].
      intro E. subst s'. cbn in Hr. discriminate. }
    destruct (IH s' Hwf' (prev y) b (eq_sym Hr) ltac:(congruence) hgt ltac:(lia)) as (r & Hr' & Hrh).
    exists r. split; [right; exact Hr'| exact Hrh].
Qed.

Theorem inv_struct_valid s tip : Inv s tip -> exists t, by_hash s tip = Some t /\ struct_valid s t.
Proof.
  intros HI. pose proof HI as (Hwf & (t & Ht & Hto) & Hl). exists t. split; [exact Ht|].
  pose proof (wf_nodup s Hwf) as Hnd.
  destruct (tip_is_L s tip t HI Ht) as [Htin HtL].
  destruct (by_hash_chain s tip Hnd t Ht) as [rest Hc].
  split; [exact Htin|]. split; [exact HtL|]. split; [|split; [|split]].
  - intros r1 r2 H1 H2 L1 L2 Hh. apply (chain_unique_height s Hwf tip); [apply (is_L_iff s tip HI r1 H1); exact L1| apply (is_L_iff s tip HI r2 H2); exact L2| exact Hh].
  - intros r Hr HL. split; [apply (wf_height_nonneg s Hwf r Hr)|].
    destruct (tip_height_max s tip t HI Ht r Hr HL) as [->|Hlt]; lia.
  - intros hgt Hh. destruct (chain_covers_heights s Hwf rest tip t Hc Hto hgt Hh) as (r & Hr & Hrh).
    assert (Hrc: In r (chain s tip)) by (rewrite Hc; exact Hr).
    assert (Hrs: In r s) by (apply (chain_incl s tip); exact Hrc).
    exists r. split; [exact Hrs|]. split; [apply (is_L_iff s tip HI r Hrs); exact Hrc| exact Hrh].
  - intros r Hr HL Hpos. apply (is_L_iff s tip HI r Hr) in HL.
    destruct (in_split _ _ HL) as (l1 & l2 & E).
    pose proof (chain_suffix s Hnd tip l1 r l2 E) as Hcr.
    destruct l2 as [|q l2'].
    + exfalso. assert (Hro: orph r = false) by (apply (chain_rows_connected s tip t Hwf Ht Hto r HL)).
      destruct (chain_connected_nonempty_last s Hwf (id r) r [] Hcr Hro) as (g & Hlg & Hg0 & _). cbn in Hlg. subst g. lia.
    + destruct (chain_step s Hwf (id r) r q l2' Hcr) as (Hp & Hh & _ & _).
      assert (Hqc: In q (chain s tip)) by (rewrite E; apply in_or_app; right; right; left; reflexivity).
      assert (Hqs: In q s) by (apply (chain_incl s tip); exact Hqc).
      exists q. split; [exact Hqs|]. split; [apply (is_L_iff s tip HI q Hqs); exact Hqc|]. split; assumption.
Qed.

(* ---- crashes at commit granularity are crash states too ---- *)
Lemma exec_commits_is_exec ws : forall s k, exists k', exec_commits s ws k = exec s ws k'.
Proof.
  induction ws as [|w ws IH]; intros s k; [exists 0%nat; reflexivity|]. cbn [exec_commits].
  assert (Hstep: forall k0, exists k', exec_commits (apply_write s w) ws k0 = exec s (w :: ws) k').
  { intros k0. destruct (IH (apply_write s w) k0) as [k'' E]. exists (S k''). rewrite E. reflexivity. }
  destruct (costs_commit w); [|apply Hstep].
  destruct k as [|k0]; [exists 0%nat; reflexivity| apply Hstep].
Qed.

Theorem commit_crash_inv f s tip h k : Inv s tip -> s_id h <> 0%N -> exists tip', Inv (commit_crash_state f s h k) tip'.
Proof.
  intros HI Hz. unfold commit_crash_state. destruct (exec_commits_is_exec (snd (plan f s h)) s k) as [k' E].
  rewrite E. exact (crash_inv f s tip h k' HI Hz).
Qed.

Theorem commit_recover_step f s tip h k : Inv s tip -> nonneg_work s -> s_id h <> 0%N ->
  fst (add f (commit_crash_state f s h k) h) = fst (add f s h).
Proof.
  intros HI Hnn Hz. unfold commit_crash_state. destruct (exec_commits_is_exec (snd (plan f s h)) s k) as [k' E].
  rewrite E. exact (recover_step f s tip h k' HI Hnn Hz).
Qed.

Lemma exec_until_kind_is_exec ws : forall s k, exists k', exec_until_kind s ws k = exec s ws k'.
Proof.
  induction ws as [|w ws IH]; intros s k; [exists 0%nat; reflexivity|]. cbn [exec_until_kind].
  destruct (costs_commit w && Nat.eqb (write_kind w) k); [exists 0%nat; reflexivity|].
  destruct (IH (apply_write s w) k) as [k'' E]. exists (S k''). rewrite E. reflexivity.
Qed.

Theorem stmt_fault_inv f s tip h k : Inv s tip -> s_id h <> 0%N -> exists tip', Inv (stmt_fault_state f s h k) tip'.
Proof.
  intros HI Hz. unfold stmt_fault_state. destruct (exec_until_kind_is_exec (snd (plan f s h)) s k) as [k' E].
  rewrite E. exact (crash_inv f s tip h k' HI Hz).
Qed.

Theorem stmt_fault_recover_step f s tip h k : Inv s tip -> nonneg_work s -> s_id h <> 0%N ->
  fst (add f (stmt_fault_state f s h k) h) = fst (add f s h).
Proof.
  intros HI Hnn Hz. unfold stmt_fault_state. destruct (exec_until_kind_is_exec (snd (plan f s h)) s k) as [k' E].
  rewrite E. exact (recover_step f s tip h k' HI Hnn Hz).
Qed.
