(* The closed systems: an engine + scripted protocol-conformant nodes + the messages in flight, driven by a
   script of commands (the schedule).  Definitions only.  The Go rig (harness/zz_verif/c06_rig.go) interprets
   the same commands against the real engines; observables are compared command by command.

   A node owns its best chain (grows from a reserve when it announces), a reply cap, and an outbox (FIFO) of
   messages it has not yet written to the connection.  Requests from the service are answered at once
   (appended to the outbox).  A node whose connection is closed loses its outbox; the engine learns of it
   through the done event (pending in y_done until the script delivers it). *)
From Coq Require Import ZArith NArith List Bool.
From BHS Require Import Work Store Chain SyncNode SyncDefault SyncExp.
Import ListNotations.
Open Scope Z_scope.

Record node := { n_chain : list src; n_reserve : list src; n_cap : nat;
                 n_open : bool;          (* handshake done and the connection not closed by either side *)
                 n_used : bool;          (* has connected once (nodes never reconnect) *)
                 n_stalled : bool;       (* stops answering and announcing *)
                 n_out : list msg }.

Definition n_with (n : node) (chain reserve : list src) (open used stalled : bool) (out : list msg) : node :=
  {| n_chain := chain; n_reserve := reserve; n_cap := n_cap n; n_open := open; n_used := used; n_stalled := stalled; n_out := out |}.

Definition node_request (gid : N) (n : node) (loc : list N) (stop : N) : node :=
  if n_open n && negb (n_stalled n)
  then n_with n (n_chain n) (n_reserve n) true (n_used n) (n_stalled n) (n_out n ++ [MHeaders (reply gid (n_chain n) loc stop (n_cap n))])
  else n.
Definition node_closed (n : node) : node := n_with n (n_chain n) (n_reserve n) false (n_used n) (n_stalled n) [].
Definition node_announce (n : node) (k : nat) (byinv : bool) : node :=
  let new := firstn k (n_reserve n) in
  let out := match new with
             | [] => n_out n
             | _ => if n_open n && negb (n_stalled n)
                    then n_out n ++ [if byinv then MInv (map (fun h => (true, s_id h)) new) else MHeaders new]
                    else n_out n
             end in
  n_with n (n_chain n ++ new) (skipn k (n_reserve n)) (n_open n) (n_used n) (n_stalled n) out.

Inductive cmd :=
| CConnect (p : N)
| CDeliver (p : N)
| CDone (p : N)
| CClose (p : N)
| CStall (p : N)
| CAnnounce (p : N) (k : nat) (byinv : bool)
| CTick (aged : bool)
| CGetHeaders (p : N)           (* the node asks the service for headers (experimental engine only) *)
| CConnectDrop (p : N) (stage : nat)   (* the node drops during the handshake: stage 0 before its version, 1 after version before verack *)
| CRun (fuel : nat).

(* ------------------------------ default engine ------------------------------ *)
Record sys := { y_cfg : dcfg; y_gid : N; y_eng : dstate; y_nodes : list (N * node); y_done : list N; y_hints : list N }.
Definition y_with (y : sys) (eng : dstate) (nodes : list (N * node)) (done : list N) (hints : list N) : sys :=
  {| y_cfg := y_cfg y; y_gid := y_gid y; y_eng := eng; y_nodes := nodes; y_done := done; y_hints := hints |}.

Definition upd_node (p : N) (f : node -> node) (nodes : list (N * node)) : list (N * node) :=
  map (fun qn => if N.eqb (fst qn) p then (fst qn, f (snd qn)) else qn) nodes.

(* what the effects of one engine step do to the nodes *)
Fixpoint apply_effs (gid : N) (nodes : list (N * node)) (done : list N) (es : list eff) : list (N * node) * list N :=
  match es with
  | [] => (nodes, done)
  | GetHeaders p loc stop :: r => apply_effs gid (upd_node p (fun n => node_request gid n loc stop) nodes) done r
  | Disconnect p :: r => apply_effs gid (upd_node p node_closed nodes) (done ++ [p]) r
  | _ :: r => apply_effs gid nodes done r
  end.

Definition trace := list (devent * list eff * dstate).     (* event, its effects, the engine state after it *)

Definition eng_event (y : sys) (e : devent) : sys * trace :=
  let hint := hd 0%N (y_hints y) in
  let '(eng', es) := d_step (y_cfg y) hint (y_eng y) e in
  let '(nodes', done') := apply_effs (y_gid y) (y_nodes y) (y_done y) es in
  (y_with y eng' nodes' done' (tl (y_hints y)), [(e, es, eng')]).

(* the remote side closed: the Peer object notices (Connected() becomes false) *)
Definition env_close (st : dstate) (p : N) : dstate := fst (disc st p).

Definition deliver (y : sys) (p : N) : sys * trace :=
  match aget p (y_nodes y) with
  | None => (y, [])
  | Some n =>
    if negb (n_open n) then (y, []) else
    match n_out n with
    | [] => (y, [])
    | m :: rest =>
      let y1 := y_with y (y_eng y) (upd_node p (fun n => n_with n (n_chain n) (n_reserve n) (n_open n) (n_used n) (n_stalled n) rest) (y_nodes y)) (y_done y) (y_hints y) in
      eng_event y1 (match m with MHeaders hs => EHeaders p hs | MInv l => EInv p l end)
    end
  end.

Definition deliver_done (y : sys) (p : N) : sys * trace :=
  if memN p (y_done y)
  then eng_event (y_with y (y_eng y) (y_nodes y) (filter (fun q => negb (N.eqb q p)) (y_done y)) (y_hints y)) (EDone p)
  else (y, []).

(* the fixed policy of CRun: the first node (in declaration order) with a message to deliver, else the oldest pending done *)
Definition next_ready (y : sys) : option (bool * N) :=
  match find (fun qn => n_open (snd qn) && match n_out (snd qn) with [] => false | _ => true end) (y_nodes y) with
  | Some (p, _) => Some (false, p)
  | None => match y_done y with p :: _ => Some (true, p) | [] => None end
  end.
Fixpoint run_q (fuel : nat) (y : sys) : sys * trace :=
  match fuel with
  | O => (y, [])
  | S f => match next_ready y with
           | None => (y, [])
           | Some (isdone, p) =>
             let '(y1, t1) := if isdone then deliver_done y p else deliver y p in
             let '(y2, t2) := run_q f y1 in (y2, t1 ++ t2)
           end
  end.
Definition quiescent (y : sys) : bool := match next_ready y with None => true | Some _ => false end.

Definition y_cmd (y : sys) (c : cmd) : sys * trace :=
  match c with
  | CConnect p =>
    match aget p (y_nodes y) with
    | None => (y, [])
    | Some n =>
      if n_used n then (y, []) else
      let y1 := y_with y (y_eng y) (upd_node p (fun n => n_with n (n_chain n) (n_reserve n) true true (n_stalled n) []) (y_nodes y)) (y_done y) (y_hints y) in
      eng_event y1 (ENew p true (Z.of_nat (length (n_chain n))))
    end
  | CConnectDrop p stage =>
    match aget p (y_nodes y) with
    | None => (y, [])
    | Some n =>
      if n_used n then (y, []) else
      let y1 := y_with y (y_eng y) (upd_node p (fun n => n_with n (n_chain n) (n_reserve n) false true (n_stalled n) []) (y_nodes y)) (y_done y) (y_hints y) in
      match stage with
      | O => (y1, [])                    (* nothing was ever registered: VersionKnown() is false, no DonePeer either *)
      | S _ =>
        let '(y2, t) := eng_event y1 (ENewGone p true (Z.of_nat (length (n_chain n)))) in
        (y_with y2 (y_eng y2) (y_nodes y2) (y_done y2 ++ [p]) (y_hints y2), t)
      end
    end
  | CDeliver p => deliver y p
  | CDone p => deliver_done y p
  | CClose p =>
    match aget p (y_nodes y) with
    | None => (y, [])
    | Some n => if n_open n
                then (y_with y (env_close (y_eng y) p) (upd_node p node_closed (y_nodes y)) (y_done y ++ [p]) (y_hints y), [])
                else (y, [])
    end
  | CStall p => (y_with y (y_eng y) (upd_node p (fun n => n_with n (n_chain n) (n_reserve n) (n_open n) (n_used n) true (n_out n)) (y_nodes y)) (y_done y) (y_hints y), [])
  | CAnnounce p k byinv => (y_with y (y_eng y) (upd_node p (fun n => node_announce n k byinv) (y_nodes y)) (y_done y) (y_hints y), [])
  | CTick aged => eng_event y (ETick aged)
  | CGetHeaders _ => (y, [])
  | CRun fuel => run_q fuel y
  end.

Fixpoint y_run (y : sys) (cs : list cmd) : sys * list trace :=
  match cs with
  | [] => (y, [])
  | c :: r => let '(y1, t1) := y_cmd y c in let '(y2, ts) := y_run y1 r in (y2, t1 :: ts)
  end.

Definition y_init (cfg : dcfg) (gid : N) (s : store) (nodes : list (N * node)) (hints : list N) : sys :=
  {| y_cfg := cfg; y_gid := gid; y_eng := d_init cfg s; y_nodes := nodes; y_done := []; y_hints := hints |}.

(* ------------------------------ experimental engine (one peer) ------------------------------ *)
Record xsys := { z_cfg : ecfg; z_gid : N; z_p : N; z_eng : estate; z_node : node }.
Definition z_with (z : xsys) (eng : estate) (n : node) : xsys :=
  {| z_cfg := z_cfg z; z_gid := z_gid z; z_p := z_p z; z_eng := eng; z_node := n |}.
Definition xtrace := list (option xevent * list eff * estate).     (* None = the start of the sync *)

Fixpoint xapply_effs (gid : N) (n : node) (es : list eff) : node :=
  match es with
  | [] => n
  | GetHeaders _ loc stop :: r => xapply_effs gid (node_request gid n loc stop) r
  | Disconnect _ :: r => xapply_effs gid (node_closed n) r
  | _ :: r => xapply_effs gid n r
  end.

Definition z_event (z : xsys) (e : xevent) : xsys * xtrace :=
  let '(eng', es) := e_step (z_cfg z) (z_p z) (z_eng z) e in
  (z_with z eng' (xapply_effs (z_gid z) (z_node z) es), [(Some e, es, eng')]).

Definition z_deliver (z : xsys) : xsys * xtrace :=
  let n := z_node z in
  if negb (n_open n) then (z, []) else
  match n_out n with
  | [] => (z, [])
  | m :: rest =>
    let z1 := z_with z (z_eng z) (n_with n (n_chain n) (n_reserve n) (n_open n) (n_used n) (n_stalled n) rest) in
    z_event z1 (match m with MHeaders hs => XHeaders hs | MInv l => XInv l end)
  end.

Fixpoint z_run_q (fuel : nat) (z : xsys) : xsys * xtrace :=
  match fuel with
  | O => (z, [])
  | S f => if n_open (z_node z) && match n_out (z_node z) with [] => false | _ => true end
           then let '(z1, t1) := z_deliver z in let '(z2, t2) := z_run_q f z1 in (z2, t1 ++ t2)
           else (z, [])
  end.

Definition z_cmd (z : xsys) (c : cmd) : xsys * xtrace :=
  match c with
  | CConnect _ =>
    let n := z_node z in
    if n_used n then (z, []) else
    let n1 := n_with n (n_chain n) (n_reserve n) true true (n_stalled n) [] in
    let '(eng', es) := e_start (z_cfg z) (z_p z) (Z.of_nat (length (n_chain n))) (e_store (z_eng z)) in
    (z_with z eng' (xapply_effs (z_gid z) n1 es), [(None, es, eng')])
  | CDeliver _ => z_deliver z
  | CDone _ => (z, [])
  | CClose _ =>
    if n_open (z_node z)
    then (z_with z (e_with (z_eng z) (e_cur (z_eng z)) (e_shm (z_eng z)) (e_latest (z_eng z)) false (e_store (z_eng z))) (node_closed (z_node z)), [])
    else (z, [])
  | CStall _ => let n := z_node z in (z_with z (z_eng z) (n_with n (n_chain n) (n_reserve n) (n_open n) (n_used n) true (n_out n)), [])
  | CAnnounce _ k byinv => (z_with z (z_eng z) (node_announce (z_node z) k byinv), [])
  | CTick _ => (z, [])
  | CGetHeaders _ => if n_open (z_node z) then z_event z XGetHeaders else (z, [])
  | CConnectDrop _ _ => (z, [])
  | CRun fuel => z_run_q fuel z
  end.

Fixpoint z_run (z : xsys) (cs : list cmd) : xsys * list xtrace :=
  match cs with
  | [] => (z, [])
  | c :: r => let '(z1, t1) := z_cmd z c in let '(z2, ts) := z_run z1 r in (z2, t1 :: ts)
  end.

Definition z_init (cfg : ecfg) (gid p : N) (s : store) (n : node) : xsys :=
  {| z_cfg := cfg; z_gid := gid; z_p := p;
     z_eng := {| e_cur := None; e_shm := false; e_sc := false; e_latest := 0; e_conn := false; e_store := s |};
     z_node := n |}.
