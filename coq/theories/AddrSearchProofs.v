(* Proofs about theories/AddrSearch.v (the outbound address selection). *)
From Coq Require Import List Arith Bool NArith Lia.
From BHS Require Import AddrSearch.
Import ListNotations.

(* ---------------------------------------------------------------- proofs *)

Lemma acceptable_mono used i j c : i <= j -> acceptable used i c = true -> acceptable used j c = true.
Proof.
  unfold acceptable. intros Hij H.
  apply andb_prop in H as [H H3]. apply andb_prop in H as [H1 H2].
  rewrite H1. cbn [andb].
  apply andb_true_intro; split.
  - apply orb_prop in H2 as [H2|H2]; [|rewrite H2; apply orb_true_r].
    apply negb_true_iff, Nat.ltb_ge in H2.
    replace (j <? 30) with false by (symmetry; apply Nat.ltb_ge; lia). reflexivity.
  - apply orb_prop in H3 as [H3|H3]; [|rewrite H3; apply orb_true_r].
    apply negb_true_iff, Nat.ltb_ge in H3.
    replace (j <? 50) with false by (symmetry; apply Nat.ltb_ge; lia). reflexivity.
Qed.

(* what is returned was drawn, at the position reported, passed the filters there, and every earlier draw was a
   candidate that did not *)
Lemma search_sound picks used t0 i c :
  search picks used t0 = Some (i, c) ->
  t0 <= i /\ nth_error picks (i - t0) = Some (Some c) /\ acceptable used i c = true /\
  forall j, j < i - t0 -> exists d, nth_error picks j = Some (Some d) /\ acceptable used (t0 + j) d = false.
Proof.
  revert t0. induction picks as [|p rest IH]; intros t0 H; cbn [search] in H; [discriminate|].
  destruct p as [d|]; [|discriminate].
  destruct (acceptable used t0 d) eqn:Ha.
  - inversion H; subst i c. replace (t0 - t0) with 0 by lia.
    refine (conj _ (conj _ (conj _ _))); [lia|reflexivity|exact Ha|]. intros j Hj; lia.
  - apply IH in H as (Hle & Hn & Hacc & Hbefore).
    refine (conj _ (conj _ (conj _ _))); [lia| |exact Hacc|].
    + replace (i - t0) with (S (i - S t0)) by lia. exact Hn.
    + intros j Hj. destruct j as [|j].
      * exists d. rewrite Nat.add_0_r. split; [reflexivity|exact Ha].
      * destruct (Hbefore j) as (e & He & Hf); [lia|].
        exists e. split; [exact He|]. replace (t0 + S j) with (S t0 + j) by lia. exact Hf.
Qed.

(* completeness: when the draws up to position k are all candidates and the one at k passes the filters there,
   the search returns a candidate (the first that passes, at a position <= k) *)
Lemma search_complete picks used t0 k c :
  nth_error picks k = Some (Some c) ->
  (forall j, j < k -> exists d, nth_error picks j = Some (Some d)) ->
  acceptable used (t0 + k) c = true ->
  exists i d, search picks used t0 = Some (i, d) /\ i <= t0 + k.
Proof.
  revert t0 k. induction picks as [|p rest IH]; intros t0 k Hn Hall Ha.
  - destruct k; discriminate.
  - destruct k as [|k].
    + cbn in Hn. inversion Hn; subst p. cbn [search]. rewrite Nat.add_0_r in Ha. rewrite Ha.
      exists t0, c. split; [reflexivity|lia].
    + destruct (Hall 0) as (d & Hd); [lia|]. cbn in Hd. inversion Hd; subst p.
      cbn [search]. destruct (acceptable used t0 d) eqn:Hd0.
      * exists t0, d. split; [reflexivity|lia].
      * destruct (IH (S t0) k) as (i & e & Hs & Hle).
        -- exact Hn.
        -- intros j Hj. apply (Hall (S j)). lia.
        -- replace (S t0 + k) with (t0 + S k) by lia. exact Ha.
        -- exists i, e. split; [exact Hs|lia].
Qed.

Lemma nth_error_firstn {A} (l : list A) n k : k < n -> nth_error (firstn n l) k = nth_error l k.
Proof.
  revert n k. induction l as [|x l IH]; intros n k Hk.
  - rewrite firstn_nil. reflexivity.
  - destruct n; [lia|]. destruct k; [reflexivity|]. cbn. apply IH. lia.
Qed.

Theorem new_address_sound picks used i c :
  new_address picks used = Some (i, c) ->
  i < max_tries /\ nth_error picks i = Some (Some c) /\ used (c_group c) = false /\
  (c_recent c = true -> 30 <= i) /\ (c_default_port c = false -> 50 <= i).
Proof.
  unfold new_address. intros H. apply search_sound in H as (_ & Hn & Ha & _).
  rewrite Nat.sub_0_r in Hn.
  assert (Hi : i < max_tries).
  { assert (Hlen : i < length (firstn max_tries picks)) by (apply nth_error_Some; rewrite Hn; discriminate).
    rewrite firstn_length in Hlen. lia. }
  rewrite nth_error_firstn in Hn by exact Hi.
  unfold acceptable in Ha. apply andb_prop in Ha as [Ha H3]. apply andb_prop in Ha as [H1 H2].
  refine (conj _ (conj _ (conj _ (conj _ _)))); [exact Hi|exact Hn|apply negb_true_iff; exact H1| |].
  - intros Hr. apply orb_prop in H2 as [H2|H2]; [|rewrite Hr in H2; discriminate].
    apply negb_true_iff, Nat.ltb_ge in H2. exact H2.
  - intros Hp. apply orb_prop in H3 as [H3|H3]; [|rewrite Hp in H3; discriminate].
    apply negb_true_iff, Nat.ltb_ge in H3. exact H3.
Qed.

(* The filters RELAX: a candidate of a free group that is drawn at a position from 50 on (30 on when it listens on
   the default port; anywhere when it is also not recently attempted) ends the search with an address, provided the
   address manager kept offering candidates until then.  In particular a book whose addresses are all on
   non-default ports, or were all attempted a moment ago, still yields an address as long as the address manager
   offers 100 candidates and one of the last 50 is of a free group. *)
Theorem new_address_relaxes picks used k c :
  k < max_tries ->
  nth_error picks k = Some (Some c) ->
  (forall j, j < k -> exists d, nth_error picks j = Some (Some d)) ->
  used (c_group c) = false ->
  (c_recent c = true -> 30 <= k) ->
  (c_default_port c = false -> 50 <= k) ->
  exists i d, new_address picks used = Some (i, d) /\ i <= k.
Proof.
  intros Hk Hn Hall Hu Hr Hp. unfold new_address.
  destruct (search_complete (firstn max_tries picks) used 0 k c) as (i & d & Hs & Hle).
  - rewrite nth_error_firstn by exact Hk. exact Hn.
  - intros j Hj. rewrite nth_error_firstn by lia. apply Hall. exact Hj.
  - unfold acceptable. rewrite Hu. cbn [negb andb].
    apply andb_true_intro; split.
    + destruct (c_recent c); [|apply orb_true_r].
      replace (0 + k <? 30) with false by (symmetry; apply Nat.ltb_ge; specialize (Hr eq_refl); lia). reflexivity.
    + destruct (c_default_port c); [apply orb_true_r|].
      replace (0 + k <? 50) with false by (symmetry; apply Nat.ltb_ge; specialize (Hp eq_refl); lia). reflexivity.
  - exists i, d. split; [exact Hs|lia].
Qed.

(* a verdict on a candidate depends on the position and the candidate only - not on what was turned down before *)
Theorem search_memoryless picks1 picks2 used t0 :
  length picks1 = length picks2 ->
  (forall j, option_map (acceptable used (t0 + j)) (nth j picks1 None) = option_map (acceptable used (t0 + j)) (nth j picks2 None)) ->
  option_map fst (search picks1 used t0) = option_map fst (search picks2 used t0).
Proof.
  revert picks2 t0. induction picks1 as [|p1 r1 IH]; intros [|p2 r2] t0 Hlen Hsame; try discriminate; [reflexivity|].
  cbn [search]. pose proof (Hsame 0) as H0. cbn in H0. rewrite Nat.add_0_r in H0.
  destruct p1 as [c1|], p2 as [c2|]; cbn in H0; try discriminate; [|reflexivity].
  inversion H0 as [Heq]. rewrite Heq.
  destruct (acceptable used t0 c2); [reflexivity|].
  apply IH; [cbn in Hlen; lia|].
  intros j. specialize (Hsame (S j)). cbn in Hsame. replace (S t0 + j) with (t0 + S j) by lia. exact Hsame.
Qed.

(* nothing is returned when every group on offer is in use: the group filter never relaxes (by design) *)
Theorem new_address_group_never_relaxes picks used :
  (forall c, In (Some c) picks -> used (c_group c) = true) -> new_address picks used = None.
Proof.
  intros H. unfold new_address.
  assert (H' : forall c, In (Some c) (firstn max_tries picks) -> used (c_group c) = true).
  { intros c Hc. apply H. revert Hc. generalize max_tries. induction picks as [|x l IHl]; intros n Hc.
    - rewrite firstn_nil in Hc. destruct Hc.
    - destruct n; [destruct Hc|]. cbn in Hc. destruct Hc as [Hc|Hc]; [left; exact Hc|right; eapply IHl; [|exact Hc]].
      intros c0 Hc0. apply H. right. exact Hc0. }
  clear H. generalize 0. induction (firstn max_tries picks) as [|p l IH]; intros t; [reflexivity|].
  cbn [search]. destruct p as [c|]; [|reflexivity].
  unfold acceptable at 1. rewrite (H' c (or_introl eq_refl)). cbn [negb andb].
  apply IH. intros c0 Hc0. apply H'. right. exact Hc0.
Qed.

(* non-vacuity: 60 candidates on non-default ports of a free group: the 51st draw is returned *)
Example relaxes_somewhere :
  new_address (repeat (Some (mkCand 7 false false)) 60) (fun _ => false) = Some (50, mkCand 7 false false).
Proof. vm_compute. reflexivity. Qed.
Example recent_relaxes_somewhere :
  new_address (repeat (Some (mkCand 7 true true)) 40) (fun _ => false) = Some (30, mkCand 7 true true).
Proof. vm_compute. reflexivity. Qed.
