(* C14: the declarative side of the statement as boolean oracles (definitions only).  They are
   written against the raw bytes / the message, not against the control flow of the decoder, are
   extracted, and are applied by the driver to the IMPLEMENTATION's observable on every case.
   WireFrameProofs / props/C14.v prove that the model satisfies them for all inputs. *)
From Coq Require Import NArith ZArith List Bool.
From BHS Require Import Sha256 WireBase WireMsg WireFrame.
Import ListNotations.
Open Scope N_scope.

(* ---- fields of a raw 24-byte header ---- *)
Definition hdr_magic (bs : bytes) : N := le_dec (firstn 4 bs).
Definition hdr_cmd (bs : bytes) : bytes := firstn 12 (skipn 4 bs).
Definition hdr_len (bs : bytes) : N := le_dec (firstn 4 (skipn 16 bs)).
Definition hdr_ck (bs : bytes) : bytes := firstn 4 (skipn 20 bs).

(* a command is known iff the 12 raw bytes are exactly a table entry padded with zeros *)
Definition known_cmd (raw : bytes) : option kind :=
  find (fun k => list_eqb raw (pad_cmd (cmd_bytes k))) all_kinds.

(* "frames with the wrong network magic, a bad checksum, an unknown command or an oversize length
   are rejected" (oversize: above the global maximum or above the limit of the command's type;
   a frame whose payload is not completely there cannot be accepted either) *)
Definition must_reject (pver net ebs : N) (bs : bytes) : bool :=
  (24 <=? len bs) &&
  (negb (hdr_magic bs =? net) ||
   (max_message_payload ebs <? hdr_len bs) ||
   match known_cmd (hdr_cmd bs) with
   | None => true
   | Some k =>
     (max_payload k pver ebs <? hdr_len bs) ||
     (len bs - 24 <? hdr_len bs) ||
     negb (list_eqb (checksum (firstn (N.to_nat (hdr_len bs)) (skipn 24 bs))) (hdr_ck bs))
   end).

(* "counts above limit are rejected": the element count that opens the list of the message *)
Definition count_limit (k : kind) : option (nat * N) :=     (* offset of the count, limit *)
  match k with
  | KAddr => Some (0%nat, MaxAddrPerMsg)
  | KHeaders => Some (0%nat, MaxBlockHeadersPerMsg)
  | KInv | KGetData | KNotFound => Some (0%nat, MaxInvPerMsg)
  | KGetBlocks | KGetHeaders => Some (4%nat, MaxBlockLocatorsPerMsg)
  | _ => None
  end.

Definition count_over_limit (k : kind) (payload : bytes) : bool :=
  match count_limit k with
  | None => false
  | Some (off, lim) =>
    (N.of_nat off <=? len payload) &&
    match dec_varint (skipn off payload) with
    | Ok (c, _) => lim <? c
    | Err _ => false
    end
  end.

(* kinds whose accepted payload bytes are reproduced exactly by re-encoding the decoded message *)
Definition canonical_kind (pver : N) (k : kind) : bool :=
  match k with
  | KAddr => MultipleAddressVersion <=? pver    (* below it BsvEncode refuses more than one address *)
  | KVerAck | KGetAddr | KGetBlocks | KGetHeaders | KHeaders | KInv | KGetData | KNotFound
  | KPing | KPong | KReject | KSendHeaders | KFeeFilter | KMemPool
  | KFilterAdd | KFilterClear | KFilterLoad => true
  | _ => false
  end.

(* allocation: flagged when a decode asks for more than 32 MiB + 4 x the declared limit
   (the factor covers Go's in-memory element size versus the wire size) *)
Definition BigBase : N := 33554432.
Definition big_flag (alloc limit : N) : bool := BigBase + 4 * limit <? alloc.

(* the longest payload a WELL-FORMED message of the kind can have at this protocol version (None: no
   well-formed message of the kind exists there, or the kind is outside the model / has the global
   limit).  "Every well-formed message fits the MaxPayloadLength of its type" is checked against the
   implementation's own table with this function (L cases). *)
Definition max_wf_payload_len (k : kind) (pver : N) : option N :=
  match k with
  | KVersion => Some (4 + 8 + 8 + 26 + 26 + 8 + 3 + MaxUserAgentLen + 4 + (if BIP0037Version <=? pver then 1 else 0))
  | KVerAck | KGetAddr => Some 0
  | KAddr =>
    Some (if pver <? MultipleAddressVersion then 1 + netaddr_size pver true
          else 3 + MaxAddrPerMsg * netaddr_size pver true)
  | KGetBlocks | KGetHeaders => Some (4 + 3 + 32 * MaxBlockLocatorsPerMsg + 32)
  | KHeaders => Some (3 + 81 * MaxBlockHeadersPerMsg)
  | KInv | KGetData | KNotFound => Some (3 + 36 * MaxInvPerMsg)
  | KPing => Some (if BIP0031Version <? pver then 8 else 0)
  | KPong => if BIP0031Version <? pver then Some 8 else None
  | KSendHeaders => if SendHeadersVersion <=? pver then Some 0 else None
  | KFeeFilter => if FeeFilterVersion <=? pver then Some 8 else None
  | KMemPool => if BIP0035Version <=? pver then Some 0 else None
  | KFilterAdd => if BIP0037Version <=? pver then Some (3 + MaxFilterAddDataSize) else None
  | KFilterClear => if BIP0037Version <=? pver then Some 0 else None
  | KFilterLoad => if BIP0037Version <=? pver then Some (3 + MaxFilterLoadFilterSize + 9) else None
  | _ => None
  end.

(* ---------- the two in-memory forms of an IPv4 address ----------
   Go holds an IPv4 address either as 4 bytes or as the 16-byte IPv4-mapped form; on the wire there is
   only the 16-byte form.  norm_msg rewrites every 4-byte address of a message into the mapped form:
   both forms must encode to the same bytes and decode(encode m) must be norm_msg m. *)
Definition norm_ip (ip : bytes) : bytes := if Nat.eqb (length ip) 4 then v4_prefix ++ ip else ip.
Definition norm_na (a : netaddr) : netaddr := mk_na (na_ts a) (na_svc a) (norm_ip (na_ip a)) (na_port a).
Definition norm_msg (m : msg) : msg :=
  match m with
  | MVersion v =>
    MVersion (mk_ver (v_pver v) (v_svc v) (v_ts v) (norm_na (v_you v)) (norm_na (v_me v)) (v_nonce v)
                     (v_ua v) (v_lastblock v) (v_disable_relay v))
  | MAddr l => MAddr (map norm_na l)
  | _ => m
  end.

(* ---------- a stream of frames ----------
   A frame is "fully framed" when its 24-byte header is there, the announced length does not exceed the
   global maximum and that many payload bytes follow.  Whatever the verdict on such a frame (accepted,
   wrong magic, unknown command, above the type's limit, bad checksum, payload refused by the decoder),
   the reader must afterwards stand exactly behind it: split_frames cuts a stream into its leading fully
   framed frames, and the i-th ReadMessage on the stream must give the verdict of the i-th frame alone. *)
Definition fully_framed_len (ebs : N) (bs : bytes) : option nat :=
  if (24 <=? len bs) && (hdr_len bs <=? max_message_payload ebs) && (hdr_len bs <=? len bs - 24)
  then Some (24 + N.to_nat (hdr_len bs))%nat else None.

Fixpoint split_frames (fuel : nat) (ebs : N) (bs : bytes) : list bytes :=
  match fuel with
  | O => []
  | S f =>
    match fully_framed_len ebs bs with
    | Some n => firstn n bs :: split_frames f ebs (skipn n bs)
    | None => []
    end
  end.

(* ---------- the overall limit ----------
   The limit in force after SetLimits(e) is max_message_payload e whatever was configured before.
   A header announcing more than that must be refused on the header alone (nothing read, nothing
   allocated); a string count above it inside a reject payload (the one kind whose type limit IS the
   overall limit) must be refused before the string is allocated. *)
Definition header_oversize (ebs : N) (bs : bytes) : bool :=
  (24 <=? len bs) && (max_message_payload ebs <? hdr_len bs).

Definition varstring_count_over (mmp : N) (bs : bytes) : bool :=
  match dec_varint bs with Ok (c, _) => mmp <? c | Err _ => false end.

Definition string_over_limit (k : kind) (pver mmp : N) (payload : bytes) : bool :=
  match k with
  | KReject =>
    (RejectVersion <=? pver) &&
    (varstring_count_over mmp payload ||
     match dec_varstring mmp payload with
     | Ok (_, r) => match read_le 1 r with Ok (_, r') => varstring_count_over mmp r' | Err _ => false end
     | Err _ => false
     end)
  | _ => false
  end.

