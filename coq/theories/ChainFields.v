(* C03: stored rows are exactly the arrival records (derived fields exact, payload as received),
   for EVERY history (no assumption on the work), never change except for the label, never disappear. *)
From Coq Require Import ZArith NArith List Lia Bool.
From BHS Require Import Work Sha256 Header80 Store Chain ChainSpec StoreProofs ChainInv ChainReorg ChainAdd ChainMain.
Import ListNotations.
Open Scope Z_scope.

Lemma step_related_gen f s tip h :
  Inv s tip -> s_id h <> 0%N ->
  exists tip', Inv (fst (add f s h)) tip' /\
               map dummy (fst (add f s h)) = fst (spec_step f (map dummy s) h).
Proof.
  intros HI Hz. unfold spec_step. rewrite by_hash_dummy.
  destruct (by_hash s (s_id h)) as [x|] eqn:Hnew; cbn [option_map].
  - rewrite (add_duplicate f s h x Hnew). exists tip. cbn. auto.
  - destruct (memN (s_id h) f) eqn:Hf.
    + rewrite (add_forbidden f s h Hnew Hf). exists tip. cbn. auto.
    + destruct (add_inv f s tip h HI Hz Hnew Hf) as (s2 & x & tip' & Eadd & HI' & Hd).
      rewrite Eadd. exists tip'. cbn [fst snd map]. split; [exact HI'|].
      rewrite Hd. f_equal. symmetry. apply (accept_dummy s tip h x). exact HI.
Qed.

Theorem run_related_gen f hs : forall s tip, Inv s tip -> nonzero_ids hs ->
  exists tip', Inv (run_from f s hs) tip' /\ map dummy (run_from f s hs) = spec_run_from f (map dummy s) hs.
Proof.
  induction hs as [|h hs IH]; intros s tip HI Hn.
  - exists tip. split; [exact HI| reflexivity].
  - destruct (step_related_gen f s tip h HI (Hn h (or_introl eq_refl))) as (tip1 & HI1 & Hd1).
    destruct (IH (fst (add f s h)) tip1 HI1 (fun x Hx => Hn x (or_intror Hx))) as (tip' & HI' & Hd').
    exists tip'. unfold run_from in *. cbn [fold_left]. split; [exact HI'|].
    rewrite Hd'. unfold spec_run_from. cbn [fold_left]. rewrite Hd1. reflexivity.
Qed.

(* structural validity of every reachable store, any work values *)
Theorem reachable_inv f gid gpl hs : gid <> 0%N -> nonzero_ids hs -> exists tip, Inv (run f gid gpl hs) tip.
Proof.
  intros Hg Hn. destruct (run_related_gen f hs (init gid gpl) gid (proj1 (init_inv2 gid gpl Hg)) Hn) as (tip & HI & _).
  exists tip. exact HI.
Qed.

(* every stored row, label aside, is the arrival record `accept` of its submission:
   height = parent's + 1 (1 if the parent is unknown), work = calc_work bits, cumulative work = parent's + own
   (own if unknown), version / previous hash / merkle root / timestamp / bits / nonce exactly as received *)
Theorem rows_are_arrival_records f gid gpl hs : gid <> 0%N -> nonzero_ids hs ->
  map dummy (run f gid gpl hs) = spec_run_from f (map dummy (init gid gpl)) hs.
Proof.
  intros Hg Hn. destruct (run_related_gen f hs (init gid gpl) gid (proj1 (init_inv2 gid gpl Hg)) Hn) as (tip & _ & Hd).
  exact Hd.
Qed.

(* the arrival-record store only ever grows at the front *)
Lemma spec_run_extends f hs : forall a, exists new, spec_run_from f a hs = new ++ a.
Proof.
  induction hs as [|h hs IH]; intros a; [exists []; reflexivity|].
  unfold spec_run_from in *. cbn [fold_left]. unfold spec_step at 2.
  destruct (by_hash a (s_id h)); cbn [fst]; [apply IH|].
  destruct (memN (s_id h) f); cbn [fst]; [apply IH|].
  destruct (IH (accept a h :: a)) as [new E]. exists (new ++ [accept a h]). rewrite E, <- app_assoc. reflexivity.
Qed.

Lemma run_from_app f s hs hs' : run_from f s (hs ++ hs') = run_from f (run_from f s hs) hs'.
Proof. unfold run_from. apply fold_left_app. Qed.

Lemma by_hash_app_old (new a : store) i r : NoDup (ids (new ++ a)) -> by_hash a i = Some r -> by_hash (new ++ a) i = Some r.
Proof.
  induction new as [|x new IH]; intros Hnd Hr; [exact Hr|].
  cbn [app ids map] in Hnd. inversion Hnd as [|? ? Hnotin Hnd']; subst.
  unfold by_hash. cbn [app find]. destruct (N.eqb_spec (id x) i) as [E|E].
  - exfalso. apply Hnotin. destruct (by_hash_in _ _ _ Hr) as [Hin Hid]. rewrite E, <- Hid.
    change (In (id r) (ids (new ++ a))). unfold ids. rewrite map_app. apply in_or_app. right. apply in_map. exact Hin.
  - apply IH; assumption.
Qed.

(* once stored, no field of a header except its label ever changes and no header ever disappears *)
Theorem stored_immutable f gid gpl hs hs' i r : gid <> 0%N -> nonzero_ids (hs ++ hs') ->
  by_hash (run f gid gpl hs) i = Some r ->
  exists r', by_hash (run f gid gpl (hs ++ hs')) i = Some r' /\ dummy r' = dummy r.
Proof.
  intros Hg Hn Hr.
  assert (Hn1: nonzero_ids hs) by (intros x Hx; apply Hn; apply in_or_app; left; exact Hx).
  assert (Hn2: nonzero_ids hs') by (intros x Hx; apply Hn; apply in_or_app; right; exact Hx).
  destruct (run_related_gen f hs (init gid gpl) gid (proj1 (init_inv2 gid gpl Hg)) Hn1) as (tip1 & HI1 & Hd1).
  unfold run in *. rewrite run_from_app.
  set (s1 := run_from f (init gid gpl) hs) in *.
  destruct (run_related_gen f hs' s1 tip1 HI1 Hn2) as (tip2 & HI2 & Hd2).
  destruct (spec_run_extends f hs' (map dummy s1)) as [new Enew].
  assert (Hbd: by_hash (map dummy (run_from f s1 hs')) i = Some (dummy r)).
  { rewrite Hd2, Enew. apply by_hash_app_old.
    - rewrite <- Enew, <- Hd2, (ids_map dummy _ same_struct_dummy). apply wf_nodup. apply HI2.
    - rewrite by_hash_dummy, Hr. reflexivity. }
  rewrite by_hash_dummy in Hbd. destruct (by_hash (run_from f s1 hs') i) as [r'|]; [|discriminate].
  exists r'. split; [reflexivity|]. cbn in Hbd. congruence.
Qed.

(* restart: database.Init re-inserts genesis with ON CONFLICT DO NOTHING *)
Definition restart (gid : N) (gpl : payload) (s : store) : store := apply_write s (WInsert (genesis_row gid gpl)).

Theorem restart_noop f gid gpl hs : gid <> 0%N -> nonzero_ids hs -> restart gid gpl (run f gid gpl hs) = run f gid gpl hs.
Proof.
  intros Hg Hn. unfold restart, apply_write. cbn [id genesis_row].
  assert (Hgen: exists g, by_hash (init gid gpl) gid = Some g).
  { eexists. unfold by_hash, init. cbn. rewrite N.eqb_refl. reflexivity. }
  destruct Hgen as [g Hgen].
  assert (Hnn: nonzero_ids ([] ++ hs)) by exact Hn.
  destruct (stored_immutable f gid gpl [] hs gid g Hg Hnn Hgen) as (r' & Hr' & _).
  cbn [app] in Hr'. rewrite Hr'. reflexivity.
Qed.

(* ---- serialisation ---- *)
Lemma byte_of_range v k : (byte_of v k < 256)%N.
Proof.
  unfold byte_of. assert (H: 0 <= (v / 256 ^ k) mod 256 < 256) by (apply Z.mod_pos_bound; lia).
  change 256%N with (Z.to_N 256). apply Z2N.inj_lt; lia.
Qed.

Lemma le32_length v : length (le32 v) = 4%nat.
Proof. reflexivity. Qed.

Theorem ser80_length ver prev merkle ts bits nonce :
  length prev = 32%nat -> length merkle = 32%nat -> length (ser80 ver prev merkle ts bits nonce) = 80%nat.
Proof. intros Hp Hm. unfold ser80. rewrite !app_length, !le32_length, Hp, Hm. reflexivity. Qed.

Lemma le32_inj a b : 0 <= a < 2^32 -> 0 <= b < 2^32 -> le32 a = le32 b -> a = b.
Proof.
  intros Ha Hb E. unfold le32, byte_of in E.
  injection E as E0 E1 E2 E3.
  apply Z2N.inj in E0; [|apply Z.mod_pos_bound; lia|apply Z.mod_pos_bound; lia].
  apply Z2N.inj in E1; [|apply Z.mod_pos_bound; lia|apply Z.mod_pos_bound; lia].
  apply Z2N.inj in E2; [|apply Z.mod_pos_bound; lia|apply Z.mod_pos_bound; lia].
  apply Z2N.inj in E3; [|apply Z.mod_pos_bound; lia|apply Z.mod_pos_bound; lia].
  change (256 ^ 0) with 1 in *. change (256 ^ 1) with 256 in *. change (256 ^ 2) with 65536 in *. change (256 ^ 3) with 16777216 in *.
  change (2 ^ 32) with 4294967296 in *.
  rewrite !Z.div_1_r in *.
  Ltac Zify.zify_post_hook ::= Z.div_mod_to_equations.
  lia.
Qed.

Lemma app_inj_len {A} (a b c d : list A) : length a = length c -> a ++ b = c ++ d -> a = c /\ b = d.
Proof.
  revert c. induction a as [|x a IH]; intros [|y c] Hl E; cbn in *; try discriminate; [auto|].
  injection E as -> E. destruct (IH c ltac:(lia) E) as [-> ->]. auto.
Qed.

(* distinct in-range field tuples have distinct serialisations *)
Theorem ser80_inj v1 p1 m1 t1 b1 n1 v2 p2 m2 t2 b2 n2 :
  - 2^31 <= v1 < 2^31 -> - 2^31 <= v2 < 2^31 ->
  length p1 = 32%nat -> length p2 = 32%nat -> length m1 = 32%nat -> length m2 = 32%nat ->
  0 <= t1 < 2^32 -> 0 <= t2 < 2^32 -> 0 <= b1 < 2^32 -> 0 <= b2 < 2^32 -> 0 <= n1 < 2^32 -> 0 <= n2 < 2^32 ->
  ser80 v1 p1 m1 t1 b1 n1 = ser80 v2 p2 m2 t2 b2 n2 ->
  v1 = v2 /\ p1 = p2 /\ m1 = m2 /\ t1 = t2 /\ b1 = b2 /\ n1 = n2.
Proof.
  intros Hv1 Hv2 Hp1 Hp2 Hm1 Hm2 Ht1 Ht2 Hb1 Hb2 Hn1 Hn2 E. unfold ser80 in E.
  apply app_inj_len in E; [|reflexivity]. destruct E as [Ev E].
  apply app_inj_len in E; [|congruence]. destruct E as [Ep E].
  apply app_inj_len in E; [|congruence]. destruct E as [Em E].
  apply app_inj_len in E; [|reflexivity]. destruct E as [Et E].
  apply app_inj_len in E; [|reflexivity]. destruct E as [Eb En].
  apply le32_inj in Et; [|assumption|assumption]. apply le32_inj in Eb; [|assumption|assumption].
  apply le32_inj in En; [|assumption|assumption].
  apply le32_inj in Ev; [|unfold u32_of_i32; apply Z.mod_pos_bound; lia|unfold u32_of_i32; apply Z.mod_pos_bound; lia].
  repeat split; auto.
  unfold u32_of_i32 in Ev. change (2 ^ 32) with 4294967296 in *. change (2 ^ 31) with 2147483648 in *.
  Ltac Zify.zify_post_hook ::= Z.div_mod_to_equations.
  lia.
Qed.

(* FIPS 180-4 test vectors and the genesis block hash, by computation *)
Definition bytes_of_hex_pairs (l : list N) := l.
Example sha256_abc : sha256 [97; 98; 99]%N =
  [0xba;0x78;0x16;0xbf;0x8f;0x01;0xcf;0xea;0x41;0x41;0x40;0xde;0x5d;0xae;0x22;0x23;0xb0;0x03;0x61;0xa3;0x96;0x17;0x7a;0x9c;0xb4;0x10;0xff;0x61;0xf2;0x00;0x15;0xad]%N.
Proof. vm_compute. reflexivity. Qed.
Example sha256_empty : sha256 [] =
  [0xe3;0xb0;0xc4;0x42;0x98;0xfc;0x1c;0x14;0x9a;0xfb;0xf4;0xc8;0x99;0x6f;0xb9;0x24;0x27;0xae;0x41;0xe4;0x64;0x9b;0x93;0x4c;0xa4;0x95;0x99;0x1b;0x78;0x52;0xb8;0x55]%N.
Proof. vm_compute. reflexivity. Qed.

Definition zero32 : list N := repeat 0%N 32.
Definition genesis_merkle : list N :=   (* internal byte order *)
  [0x3b;0xa3;0xed;0xfd;0x7a;0x7b;0x12;0xb2;0x7a;0xc7;0x2c;0x3e;0x67;0x76;0x8f;0x61;0x7f;0xc8;0x1b;0xc3;0x88;0x8a;0x51;0x32;0x3a;0x9f;0xb8;0xaa;0x4b;0x1e;0x5e;0x4a]%N.
Example genesis_hash : block_hash_display 1 zero32 genesis_merkle 1231006505 486604799 2083236893 =
  [0x00;0x00;0x00;0x00;0x00;0x19;0xd6;0x68;0x9c;0x08;0x5a;0xe1;0x65;0x83;0x1e;0x93;0x4f;0xf7;0x63;0xae;0x46;0xa2;0xa6;0xc1;0x72;0xb3;0xf1;0xb6;0x0a;0x8c;0xe2;0x6f]%N.
Proof. vm_compute. reflexivity. Qed.

(* first start interrupted between the schema migrations and the genesis transaction: the store is empty; the next
   start (restart) inserts genesis, i.e. produces exactly the initial store of an uninterrupted first start *)
Lemma restart_empty gid gpl : restart gid gpl [] = init gid gpl.
Proof. reflexivity. Qed.
Lemma first_start_interrupted f gid gpl hs : run_from f (restart gid gpl []) hs = run f gid gpl hs.
Proof. reflexivity. Qed.
