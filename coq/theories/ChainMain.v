(* C01 over histories: for every sequence of submissions the store computed by the model of
   chainService.Add is exactly the labelled store that the history-level specification prescribes. *)
From Coq Require Import ZArith NArith List Lia Bool.
From BHS Require Import Work Store Chain ChainSpec StoreProofs ChainInv ChainReorg ChainAdd.
Import ListNotations.
Open Scope Z_scope.

Definition positive_work (hs : list src) := forall h, In h hs -> 0 < calc_work (p_bits (s_pl h)).
Definition nonzero_ids (hs : list src) := forall h, In h hs -> s_id h <> 0%N.

Lemma init_inv2 gid gpl : gid <> 0%N -> Inv2 (init gid gpl) gid.
Proof.
  intros Hg. unfold init, genesis_row. split; [split; [|split]|].
  - apply wf_gen. unfold is_genesis. cbn. repeat split; auto.
  - eexists. unfold by_hash. cbn. rewrite N.eqb_refl. split; reflexivity.
  - intros r [<-|[]]. unfold derived, inchain. cbn. rewrite N.eqb_refl. cbn. rewrite N.eqb_refl. reflexivity.
  - unfold by_hash. cbn. rewrite N.eqb_refl. reflexivity.
Qed.

Lemma set_st_self r : set_st (st r) r = r.
Proof. destruct r; reflexivity. Qed.

Lemma by_hash_dummy s i : by_hash (map dummy s) i = option_map dummy (by_hash s i).
Proof. apply by_hash_map, same_struct_dummy. Qed.

(* the arrival record of the specification is the created header with its label erased *)
Lemma accept_dummy s tip h x : Inv s tip ->
  accept (map dummy s) h = dummy (set_st x (create_header s h)).
Proof.
  intros HI. unfold accept, create_header, dummy. rewrite by_hash_dummy.
  destruct (by_hash s (s_prev h)) as [p|] eqn:Hp; cbn [option_map set_st orph st id prev height work cum pl dummy].
  - destruct (by_hash_in _ _ _ Hp) as [Hpin _].
    assert (Ho: orph p = st_eqb (st p) Orphan).
    { destruct (orph p) eqn:Eo.
      - apply (st_O_iff s tip p HI Hpin) in Eo. rewrite Eo. reflexivity.
      - destruct (st p) eqn:Es; try reflexivity. apply (st_O_iff s tip p HI Hpin) in Es. congruence. }
    rewrite <- Ho. reflexivity.
  - reflexivity.
Qed.

Lemma spec_tip_inv2 s tip : Inv2 s tip -> spec_tip s = tip.
Proof.
  intros [(Hwf & (t & Ht & Hto) & Hl) Hb]. unfold spec_tip. rewrite Hb, Ht.
  apply by_hash_in in Ht. apply Ht.
Qed.

(* under the invariant the stored labels and tip ARE the specification's *)
Lemma spec_store_inv2 s tip : Inv2 s tip -> spec_store s = s.
Proof.
  intros HI2. pose proof (spec_tip_inv2 s tip HI2) as Ht. destruct HI2 as [(Hwf & _ & Hl) _].
  unfold spec_store. rewrite <- (map_id s) at 2. apply map_ext_in. intros r Hr.
  unfold spec_label. rewrite Ht, <- (Hl r Hr). apply set_st_self.
Qed.

Lemma spec_tip_dummy s : spec_tip (map dummy s) = spec_tip s.
Proof. unfold spec_tip. rewrite (best_map dummy s same_struct_dummy). destruct (best s); reflexivity. Qed.

Lemma spec_store_dummy s : spec_store (map dummy s) = spec_store s.
Proof.
  unfold spec_store. rewrite map_map. apply map_ext. intros r.
  unfold spec_label, derived, inchain. rewrite spec_tip_dummy.
  rewrite (chain_map dummy s _ same_struct_dummy), (ids_map dummy _ same_struct_dummy).
  reflexivity.
Qed.

Lemma add_duplicate f s h x : by_hash s (s_id h) = Some x -> add f s h = (s, Duplicate).
Proof. intros H. unfold add, plan. rewrite H. reflexivity. Qed.

Lemma add_forbidden f s h : by_hash s (s_id h) = None -> memN (s_id h) f = true -> add f s h = (s, Forbidden).
Proof. intros H Hf. unfold add, plan. rewrite H, Hf. reflexivity. Qed.

(* one step: model and specification move together *)
Lemma step_related f s tip h :
  Inv2 s tip -> 0 < calc_work (p_bits (s_pl h)) -> s_id h <> 0%N ->
  exists tip', Inv2 (fst (add f s h)) tip' /\
               map dummy (fst (add f s h)) = fst (spec_step f (map dummy s) h) /\
               snd (add f s h) = match snd (spec_step f (map dummy s) h) with
                                 | VDuplicate => Duplicate
                                 | VForbidden => Forbidden
                                 | VStored => match fst (add f s h) with r :: _ => Stored (st r) | [] => ErrNoTip end
                                 end.
Proof.
  intros HI2 Hw Hz. unfold spec_step. rewrite by_hash_dummy.
  destruct (by_hash s (s_id h)) as [x|] eqn:Hnew; cbn [option_map].
  - rewrite (add_duplicate f s h x Hnew). exists tip. cbn. auto.
  - destruct (memN (s_id h) f) eqn:Hf.
    + rewrite (add_forbidden f s h Hnew Hf). exists tip. cbn. auto.
    + destruct (add_inv2 f s tip h HI2 Hw Hz Hnew Hf) as (s2 & x & tip' & Eadd & HI' & Hd).
      rewrite Eadd. exists tip'. cbn [fst snd map]. split; [exact HI'|]. split; [|reflexivity].
      rewrite Hd. f_equal. symmetry. apply (accept_dummy s tip h x). apply HI2.
Qed.

Theorem run_related f hs : forall s tip, Inv2 s tip -> positive_work hs -> nonzero_ids hs ->
  exists tip', Inv2 (run_from f s hs) tip' /\ map dummy (run_from f s hs) = spec_run_from f (map dummy s) hs.
Proof.
  induction hs as [|h hs IH]; intros s tip HI2 Hp Hn.
  - exists tip. split; [exact HI2| reflexivity].
  - destruct (step_related f s tip h HI2 (Hp h (or_introl eq_refl)) (Hn h (or_introl eq_refl))) as (tip1 & HI1 & Hd1 & _).
    destruct (IH (fst (add f s h)) tip1 HI1 (fun x Hx => Hp x (or_intror Hx)) (fun x Hx => Hn x (or_intror Hx))) as (tip' & HI' & Hd').
    exists tip'. unfold run_from in *. cbn [fold_left]. split; [exact HI'|].
    rewrite Hd'. unfold spec_run_from. cbn [fold_left]. rewrite Hd1. reflexivity.
Qed.

(* the specification never reads labels: erasing them first changes nothing *)
Lemma accept_dummy_indep s h : accept (map dummy s) h = accept s h.
Proof. unfold accept. rewrite by_hash_dummy. destruct (by_hash s (s_prev h)); reflexivity. Qed.

Lemma spec_step_dummy f s h : fst (spec_step f (map dummy s) h) = map dummy (fst (spec_step f s h)).
Proof.
  unfold spec_step. rewrite by_hash_dummy. destruct (by_hash s (s_id h)); cbn [option_map]; [reflexivity|].
  destruct (memN (s_id h) f); [reflexivity|]. cbn [fst map]. rewrite accept_dummy_indep. reflexivity.
Qed.

Lemma spec_run_dummy f hs : forall s, spec_run_from f (map dummy s) hs = map dummy (spec_run_from f s hs).
Proof.
  induction hs as [|h hs IH]; intros s; [reflexivity|].
  unfold spec_run_from in *. cbn [fold_left]. rewrite spec_step_dummy. apply IH.
Qed.

(* ---- the headline theorem ---- *)
Theorem C01_store_is_spec f gid gpl hs : gid <> 0%N -> positive_work hs -> nonzero_ids hs ->
  run f gid gpl hs = spec_store (spec_run_from f (init gid gpl) hs).
Proof.
  intros Hg Hp Hn.
  destruct (run_related f hs (init gid gpl) gid (init_inv2 gid gpl Hg) Hp Hn) as (tip' & HI' & Hd).
  unfold run. rewrite <- (spec_store_inv2 _ tip' HI') at 1.
  rewrite <- spec_store_dummy, Hd, spec_run_dummy, spec_store_dummy. reflexivity.
Qed.

(* the tip the repository reports is the specification's best header *)
Theorem C01_tip_is_best f gid gpl hs : gid <> 0%N -> positive_work hs -> nonzero_ids hs ->
  option_map id (tipB (run f gid gpl hs)) = Some (spec_tip (spec_run_from f (init gid gpl) hs)).
Proof.
  intros Hg Hp Hn.
  destruct (run_related f hs (init gid gpl) gid (init_inv2 gid gpl Hg) Hp Hn) as (tip' & HI' & Hd).
  unfold run. rewrite (tipB_is_tip _ tip' (proj1 HI')).
  rewrite <- (spec_tip_dummy (spec_run_from _ _ _)), <- spec_run_dummy, <- Hd, spec_tip_dummy, (spec_tip_inv2 _ tip' HI').
  destruct HI' as [(_ & (t & Ht & _) & _) _]. rewrite Ht. cbn. f_equal. apply by_hash_in in Ht. apply Ht.
Qed.

(* every submission is answered: stored (with its label) / duplicate / forbidden - never an error *)
Theorem C01_outcomes f hs : forall s tip, Inv2 s tip -> positive_work hs -> nonzero_ids hs ->
  Forall (fun o => o <> ErrNoTip) (outcomes f s hs).
Proof.
  induction hs as [|h hs IH]; intros s tip HI2 Hp Hn; cbn [outcomes]; [constructor|].
  destruct (step_related f s tip h HI2 (Hp h (or_introl eq_refl)) (Hn h (or_introl eq_refl))) as (tip1 & HI1 & _ & Ho).
  destruct (add f s h) as [s' o] eqn:Ea. cbn [fst snd] in *. constructor.
  - rewrite Ho. destruct (snd (spec_step f (map dummy s) h)); try discriminate.
    destruct s' as [|r s'']; [|discriminate].
    destruct HI1 as [(Hwf & _) _]. inversion Hwf.
  - apply (IH s' tip1 HI1 (fun x Hx => Hp x (or_intror Hx)) (fun x Hx => Hn x (or_intror Hx))).
Qed.

(* re-submitting a known header changes nothing *)
Theorem resubmit_noop f s h x : by_hash s (s_id h) = Some x -> add f s h = (s, Duplicate).
Proof. exact (add_duplicate f s h x). Qed.

(* ---- what "best" means: greatest cumulative work among non-orphans, earliest stored among equals ---- *)
Theorem best_spec s b : best s = Some b ->
  orph b = false /\
  exists newer older, s = newer ++ b :: older /\
    (forall r, In r newer -> orph r = false -> cum r <= cum b) /\
    (forall r, In r older -> orph r = false -> cum r < cum b).
Proof.
  revert b. induction s as [|r s IH]; intros b Hb; [discriminate|]. cbn [best] in Hb.
  destruct (best s) as [b0|] eqn:Eb.
  - destruct (IH b0 eq_refl) as (Ho0 & newer & older & Es & Hn & Hol).
    destruct (orph r) eqn:Eo.
    + inversion Hb; subst b0. split; [exact Ho0|]. exists (r :: newer), older. split; [rewrite Es; reflexivity|]. split; [|exact Hol].
      intros x [<-|Hx] Hxo; [congruence| apply Hn; assumption].
    + destruct (Z.ltb_spec (cum b0) (cum r)) as [Hlt|Hge]; inversion Hb; subst b.
      * split; [exact Eo|]. exists [], s. split; [reflexivity|]. split; [intros x []|].
        intros x Hx Hxo. rewrite Es in Hx. apply in_app_or in Hx. destruct Hx as [Hx|[<-|Hx]].
        -- specialize (Hn x Hx Hxo). lia.
        -- exact Hlt.
        -- specialize (Hol x Hx Hxo). lia.
      * split; [exact Ho0|]. exists (r :: newer), older. split; [rewrite Es; reflexivity|]. split; [|exact Hol].
        intros x [<-|Hx] Hxo; [lia| apply Hn; assumption].
  - destruct (orph r) eqn:Eo; [discriminate|]. inversion Hb; subst b. split; [exact Eo|].
    exists [], s. split; [reflexivity|]. split; [intros x []|].
    intros x Hx Hxo. exfalso. clear IH Hb.
    induction s as [|a s IHs]; [inversion Hx|]. cbn [best] in Eb.
    destruct (best s) as [b1|]; [destruct (orph a); [discriminate| destruct (cum b1 <? cum a); discriminate]|].
    destruct (orph a) eqn:Ea; [|discriminate]. destruct Hx as [<-|Hx]; [congruence| apply IHs; auto].
Qed.

(* a concrete history that meets the hypotheses and exercises every branch of Add:
   G; A,B children of G (tie: A first wins); C on B (reorg to B-C); D orphan (unknown parent); E on D (orphan);
   A2 on A with more work (reorg back); duplicate of C; forbidden F. *)
Definition ex_pl (bits : Z) : payload := {| p_bits := bits; p_ver := 1; p_merkle := 7%N; p_ts := 0; p_nonce := 0 |}.
Definition ex_sub (i p : N) (bits : Z) : src := {| s_id := i; s_prev := p; s_pl := ex_pl bits |}.
Definition ex_hist : list src :=
  [ex_sub 2 1 545259519; ex_sub 3 1 545259519; ex_sub 4 3 545259519; ex_sub 5 99 545259519;
   ex_sub 6 5 545259519; ex_sub 7 2 541065215; ex_sub 4 3 545259519; ex_sub 8 7 545259519].

Example ex_hist_hyps : positive_work ex_hist /\ nonzero_ids ex_hist.
Proof.
  split; intros h Hh; repeat (destruct Hh as [<-|Hh]; [vm_compute; try reflexivity; try discriminate|]); destruct Hh.
Qed.

Example ex_hist_result :
  map (fun r => (id r, st r, height r, cum r)) (run [8%N] 1 (ex_pl 486604799) ex_hist) =
  [(7%N, Longest, 2, 4295032839); (6%N, Orphan, 2, 4); (5%N, Orphan, 1, 2); (4%N, Stale, 2, 4295032837);
   (3%N, Stale, 1, 4295032835); (2%N, Longest, 1, 4295032835); (1%N, Longest, 0, 4295032833)]
  /\ outcomes [8%N] (init 1 (ex_pl 486604799)) ex_hist =
     [Stored Longest; Stored Stale; Stored Longest; Stored Orphan; Stored Orphan; Stored Longest; Duplicate; Forbidden].
Proof. vm_compute. split; reflexivity. Qed.

(* The statement WITHOUT the positive-work hypothesis is false: a zero-work header on the tip becomes the tip. *)
Definition zw_hist : list src := [ex_sub 2 1 545259519; ex_sub 3 2 494927873].
Theorem C01_zero_work_refuted :
  nonzero_ids zw_hist /\ run [] 1 (ex_pl 486604799) zw_hist <> spec_store (spec_run_from [] (init 1 (ex_pl 486604799)) zw_hist).
Proof.
  split.
  - intros h Hh; repeat (destruct Hh as [<-|Hh]; [vm_compute; discriminate|]); destruct Hh.
  - vm_compute. discriminate.
Qed.

(* ---- "Valid": the invariant every read-side property (C02, C04, C08, C13, C17) assumes ---- *)
Definition Valid (s : store) := exists tip, Inv2 s tip.

Theorem reachable_valid f gid gpl hs : gid <> 0%N -> positive_work hs -> nonzero_ids hs -> Valid (run f gid gpl hs).
Proof.
  intros Hg Hp Hn.
  destruct (run_related f hs (init gid gpl) gid (init_inv2 gid gpl Hg) Hp Hn) as (tip' & HI' & _).
  exists tip'. exact HI'.
Qed.

Lemma valid_tip s : Valid s -> exists t, tipB s = Some t /\ st t = Longest /\ orph t = false /\ In t s /\ best s = Some t.
Proof.
  intros (tip & HI & Hb). pose proof HI as (Hwf & (t & Ht & Hto) & Hl).
  exists t. rewrite (tipB_is_tip s tip HI). split; [exact Ht|].
  destruct (tip_is_L s tip t HI Ht) as [Hin HL]. repeat split; auto. rewrite Hb. exact Ht.
Qed.
