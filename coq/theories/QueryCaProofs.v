(* C04 - GetCommonAncestor: lift every header to (minimal height - 1), then walk parents in lock-step. *)
From Coq Require Import ZArith NArith List Lia Bool.
From BHS Require Import Work Store Chain ChainSpec StoreProofs ChainInv ChainAdd ChainMain Query QueryProofs QueryAncProofs.
Import ListNotations.
Open Scope Z_scope.

(* ---------------- all_some ---------------- *)
Lemma all_some_Some {A B} (f : A -> option B) l l' : all_some (map f l) = Some l' -> Forall2 (fun a b => f a = Some b) l l'.
Proof.
  revert l'. induction l as [|a l IH]; intros l' H; cbn in H.
  - inversion H. constructor.
  - destruct (f a) as [b|] eqn:E; [|discriminate]. destruct (all_some (map f l)) as [r|]; [|discriminate].
    inversion H; subst. constructor; [exact E| apply IH; reflexivity].
Qed.

Lemma all_some_None {A B} (f : A -> option B) l : all_some (map f l) = None -> exists a, In a l /\ f a = None.
Proof.
  induction l as [|a l IH]; intros H; cbn in H; [discriminate|].
  destruct (f a) as [b|] eqn:E; [|exists a; split; [left; reflexivity| exact E]].
  destruct (all_some (map f l)) as [r|]; [discriminate|].
  destruct (IH eq_refl) as (x & Hx & Ex). exists x. split; [right; exact Hx| exact Ex].
Qed.

Lemma Forall2_compose {A B C} (P : A -> B -> Prop) (Q : B -> C -> Prop) (R : A -> C -> Prop) l1 l2 l3 :
  Forall2 P l1 l2 -> Forall2 Q l2 l3 -> (forall a b c, P a b -> Q b c -> R a c) -> Forall2 R l1 l3.
Proof.
  intros H1. revert l3. induction H1 as [|a b l1 l2 Hab _ IH]; intros l3 H2 HR; inversion H2; subst; constructor.
  - eapply HR; eassumption.
  - apply IH; assumption.
Qed.

Lemma Forall2_in_l {A B} (P : A -> B -> Prop) l1 l2 a : Forall2 P l1 l2 -> In a l1 -> exists b, In b l2 /\ P a b.
Proof.
  induction 1 as [|x y l1 l2 Hxy _ IH]; intros Hin; [inversion Hin|].
  destruct Hin as [<-|Hin]; [exists y; split; [left; reflexivity| exact Hxy]|].
  destruct (IH Hin) as (b & Hb & HP). exists b. split; [right; exact Hb| exact HP].
Qed.

Lemma Forall2_in_r {A B} (P : A -> B -> Prop) l1 l2 b : Forall2 P l1 l2 -> In b l2 -> exists a, In a l1 /\ P a b.
Proof.
  induction 1 as [|x y l1 l2 Hxy _ IH]; intros Hin; [inversion Hin|].
  destruct Hin as [<-|Hin]; [exists x; split; [left; reflexivity| exact Hxy]|].
  destruct (IH Hin) as (a & Ha & HP). exists a. split; [right; exact Ha| exact HP].
Qed.

Lemma Forall2_with_in {A B} (P : A -> B -> Prop) l1 l2 : Forall2 P l1 l2 -> Forall2 (fun a b => In a l1 /\ P a b) l1 l2.
Proof.
  intros H. assert (G: forall l0, incl l1 l0 -> Forall2 (fun a b => In a l0 /\ P a b) l1 l2).
  { induction H as [|a b l1 l2 Hab _ IH]; intros l0 Hi; constructor.
    - split; [apply Hi; left; reflexivity| exact Hab].
    - apply IH. intros x Hx. apply Hi. right. exact Hx. }
  apply G, incl_refl.
Qed.

(* ---------------- the ancestor of a given height ---------------- *)
Definition anc_at (s : store) (k : Z) (t : N) (c : row) : Prop := regular s t /\ reach s t c /\ height c = k.
Definition common (s : store) (l : list N) (r : row) : Prop := forall t, In t l -> reach s t r.

(* a row strictly below c on the same regular walk: c has a stored parent, which is on the walk too *)
Lemma reach_below s t c r : regular s t -> reach s t c -> reach s t r -> height r < height c ->
  exists p, by_hash s (prev c) = Some p /\ reach s t p /\ height p = height c - 1.
Proof.
  intros HR Hc Hr Hlt.
  pose proof (proj1 (reach_iff_walk s t c HR) Hc) as Hcin. pose proof (proj1 (reach_iff_walk s t r HR) Hr) as Hrin.
  destruct (In_nth_error _ _ Hcin) as [i Hi]. destruct (In_nth_error _ _ Hrin) as [j Hj].
  destruct (by_hash s t) as [x|] eqn:E; [|unfold fuel_of in Hi; rewrite walk_S, E in Hi; destruct i; discriminate].
  pose proof (walk_nth_height s _ t x i c HR E Hi) as Hhc. pose proof (walk_nth_height s _ t x j r HR E Hj) as Hhr.
  assert (Hij: (Datatypes.S i <= j)%nat) by lia.
  assert (Hlen: (j < length (walk (fuel_of s) s t))%nat) by (apply nth_error_Some; congruence).
  destruct (nth_error (walk (fuel_of s) s t) (Datatypes.S i)) as [p|] eqn:Ep; [|apply nth_error_None in Ep; lia].
  exists p. split; [apply (walk_nth_succ s _ t i c p Hi Ep)|]. split.
  - apply (walk_reach s (fuel_of s)). apply (nth_error_In _ _ Ep).
  - rewrite (walk_nth_height s _ t x _ p HR E Ep), Hhc. lia.
Qed.

(* discrete intermediate value: between a header and one of its ancestors every height is met *)
Lemma reach_level s t x r k : regular s t -> by_hash s t = Some x -> reach s t r -> height r <= k <= height x ->
  exists c, reach s t c /\ height c = k.
Proof.
  intros HR E Hr Hk.
  pose proof (proj1 (reach_iff_walk s t r HR) Hr) as Hrin. destruct (In_nth_error _ _ Hrin) as [j Hj].
  pose proof (walk_nth_height s _ t x j r HR E Hj) as Hhr.
  set (i := Z.to_nat (height x - k)).
  assert (Hij: (i <= j)%nat) by (unfold i; lia).
  assert (Hlen: (j < length (walk (fuel_of s) s t))%nat) by (apply nth_error_Some; congruence).
  destruct (nth_error (walk (fuel_of s) s t) i) as [c|] eqn:Ec; [|apply nth_error_None in Ec; lia].
  exists c. split; [apply (walk_reach s (fuel_of s)); apply (nth_error_In _ _ Ec)|].
  rewrite (walk_nth_height s _ t x i c HR E Ec). unfold i. lia.
Qed.

(* ---------------- the lock-step loop ---------------- *)
Lemma all_eq_true x rest : all_eq (x :: rest) = true -> forall c, In c (x :: rest) -> id c = id x.
Proof.
  intros H c [<-|Hc]; [reflexivity|]. cbn in H. rewrite forallb_forall in H. apply N.eqb_eq. apply H. exact Hc.
Qed.

Lemma all_eq_intro l x : (forall c, In c l -> c = x) -> all_eq l = true.
Proof.
  intros H. destruct l as [|y rest]; [reflexivity|]. cbn. apply forallb_forall. intros c Hc.
  rewrite (H c (or_intror Hc)), (H y (or_introl eq_refl)). apply N.eqb_refl.
Qed.

Definition no_common_in (s : store) (l : list N) (lo hi : Z) : Prop :=
  ~ exists r, common s l r /\ lo <= height r <= hi.

Definition lockstep_ok (s : store) (l : list N) (k : Z) (res : cres) : Prop :=
  match res with
  | COk r => common s l r /\ height r <= k /\ (forall r', common s l r' -> height r' <= k -> height r' <= height r)
  | CPanic | CBind => False
  | _ => no_common_in s l 0 k
  end.

Lemma lockstep_spec s l : NoDup (ids s) -> l <> [] ->
  forall n k cur, Z.of_nat n = k + 1 -> Forall2 (anc_at s k) l cur -> lockstep_ok s l k (lockstep n s cur).
Proof.
  intros Hnd Hne. induction n as [|n IH]; intros k cur Hk HF.
  - cbn. intros (r & _ & Hh). lia.
  - cbn [lockstep].
    destruct cur as [|c0 cur0]; [inversion HF; subst; contradiction|].
    destruct l as [|t0 l0]; [contradiction|].
    assert (Hc0: anc_at s k t0 c0) by (inversion HF; assumption).
    (* a common ancestor of height k is every current row *)
    assert (Hlevel: forall r, common s (t0 :: l0) r -> height r = k -> forall c, In c (c0 :: cur0) -> c = r).
    { intros r Hr Hh c Hc. destruct (Forall2_in_r _ _ _ c HF Hc) as (t & Ht & HRt & Hrc & Hch).
      apply (reach_height_inj s t c r HRt Hrc (Hr t Ht)). lia. }
    destruct (all_eq (c0 :: cur0)) eqn:Eall.
    + (* all equal: c0 is the answer *)
      assert (Hsame: forall c, In c (c0 :: cur0) -> c = c0).
      { intros c Hc. pose proof (all_eq_true c0 cur0 Eall c Hc) as Hid.
        destruct (Forall2_in_r _ _ _ c HF Hc) as (t & Ht & _ & Hrc & _).
        apply (nodup_ids_in s Hnd); [apply (reach_in s t); exact Hrc| apply (reach_in s t0); apply Hc0| exact Hid]. }
      cbn. split; [|split].
      * intros t Ht. destruct (Forall2_in_l _ _ _ t HF Ht) as (c & Hc & _ & Hrc & _). rewrite <- (Hsame c Hc). exact Hrc.
      * destruct Hc0 as (_ & _ & Hh). lia.
      * intros r' _ Hle. destruct Hc0 as (_ & _ & Hh). lia.
    + assert (Hnok: forall r, common s (t0 :: l0) r -> height r <> k).
      { intros r Hr Hh. assert (all_eq (c0 :: cur0) = true); [|congruence].
        apply (all_eq_intro (c0 :: cur0) r). apply (Hlevel r Hr Hh). }
      destruct (all_some (map (fun r => prev_header s (id r)) (c0 :: cur0))) as [nxt|] eqn:Enxt.
      * (* one level down *)
        assert (HF': Forall2 (anc_at s (k - 1)) (t0 :: l0) nxt).
        { apply (Forall2_compose _ _ _ _ _ _ HF (all_some_Some _ _ _ Enxt)).
          intros t c p (HRt & Hrc & Hch) Hp. unfold prev_header in Hp.
          rewrite (by_hash_self s c Hnd (reach_in s t c Hrc)) in Hp.
          split; [exact HRt|]. split; [apply (reach_snoc s t c p Hrc Hp)|].
          pose proof (HRt c p Hrc Hp). lia. }
        pose proof (IH (k - 1) nxt ltac:(lia) HF') as Hres.
        destruct (lockstep n s nxt) as [r| | | | |]; cbn in Hres |- *.
        -- destruct Hres as (H1 & H2 & H3). split; [exact H1|]. split; [lia|].
           intros r' Hr' Hle. apply H3; [exact Hr'|]. pose proof (Hnok r' Hr'). lia.
        -- intros (r & Hr & Hh). apply Hres. exists r. split; [exact Hr|]. pose proof (Hnok r Hr). lia.
        -- intros (r & Hr & Hh). apply Hres. exists r. split; [exact Hr|]. pose proof (Hnok r Hr). lia.
        -- intros (r & Hr & Hh). apply Hres. exists r. split; [exact Hr|]. pose proof (Hnok r Hr). lia.
        -- exact Hres.
        -- exact Hres.
      * (* some current row has no stored parent: nothing common below either *)
        cbn. intros (r & Hr & Hh).
        destruct (all_some_None _ _ Enxt) as (c & Hc & Hp).
        destruct (Forall2_in_r _ _ _ c HF Hc) as (t & Ht & HRt & Hrc & Hch).
        pose proof (Hnok r Hr) as Hne'.
        destruct (reach_below s t c r HRt Hrc (Hr t Ht) ltac:(lia)) as (p & Ep & _).
        unfold prev_header in Hp. rewrite (by_hash_self s c Hnd (reach_in s t c Hrc)) in Hp. congruence.
Qed.

(* ================================================================== the common-ancestor theorem *)
(* for a non-empty list of stored, height-consistent headers with minimal height mh:
   - [COk r]: r is an ancestor of all of them, lies strictly below mh, and no higher such header exists;
   - any other answer (nil -> 500, ErrHeaderNotFound, ErrAncestorNotFound): NO header below mh is an ancestor of all. *)
Definition common_answer_ok (s : store) (l : list N) (mh : Z) (res : cres) : Prop :=
  match res with
  | COk r => common s l r /\ height r < mh /\ (forall r', common s l r' -> height r' < mh -> height r' <= height r)
  | CPanic | CBind => False
  | _ => ~ exists r, common s l r /\ height r < mh
  end.

Lemma min_height_le_all hs d : forall r, In r hs -> min_height hs d <= height r.
Proof. intros r Hr. apply min_height_le_in. exact Hr. Qed.

Theorem common_ancestor_spec_wf s l hs : wf s -> l <> [] -> (forall t, In t l -> regular s t) ->
  Forall2 (fun t r => by_hash s t = Some r) l hs ->
  common_answer_ok s l (min_height hs max_int32) (common_ancestor s l).
Proof.
  intros Hwf Hne HR Hhs. pose proof (wf_nodup s Hwf) as Hnd.
  assert (Hall: all_some (map (by_hash s) l) = Some hs).
  { clear - Hhs. induction Hhs as [|t r l hs E _ IH]; [reflexivity|]. cbn. rewrite E, IH. reflexivity. }
  unfold common_ancestor. destruct l as [|t0 l0]; [contradiction|]. rewrite Hall.
  set (l := t0 :: l0) in *. set (mh := min_height hs max_int32).
  assert (Hnonneg: forall r, common s l r -> 0 <= height r).
  { intros r Hr. apply (wf_height_nonneg s Hwf). apply (reach_in s t0). apply Hr. left. reflexivity. }
  destruct (Z.ltb_spec mh 1) as [Hlow|Hlow].
  - cbn. intros (r & Hr & Hh). pose proof (Hnonneg r Hr). lia.
  - destruct (all_some (map (fun r => ancestor_on_height s (id r) (mh - 1)) hs)) as [cur|] eqn:Ecur.
    + assert (HF: Forall2 (anc_at s (mh - 1)) l cur).
      { pose proof (Forall2_with_in _ _ _ Hhs) as HF0. cbv beta in HF0.
        apply (Forall2_compose _ _ _ _ _ _ HF0 (all_some_Some _ _ _ Ecur)).
        intros t r c (Ht & E) Hc. destruct (by_hash_in _ _ _ E) as [_ Hid]. rewrite Hid in Hc.
        destruct (aoh_sound s t _ c Hc) as [H1 H2]. split; [apply HR; exact Ht| split; assumption]. }
      pose proof (lockstep_spec s l Hnd Hne (Z.to_nat (mh - 1 + 1)) (mh - 1) cur ltac:(lia) HF) as Hres.
      destruct (lockstep (Z.to_nat (mh - 1 + 1)) s cur) as [r| | | | |]; cbn in Hres |- *.
      * destruct Hres as (H1 & H2 & H3). split; [exact H1|]. split; [lia|]. intros r' Hr' Hlt. apply H3; [exact Hr'| lia].
      * intros (r & Hr & Hh). apply Hres. exists r. split; [exact Hr|]. pose proof (Hnonneg r Hr). lia.
      * intros (r & Hr & Hh). apply Hres. exists r. split; [exact Hr|]. pose proof (Hnonneg r Hr). lia.
      * intros (r & Hr & Hh). apply Hres. exists r. split; [exact Hr|]. pose proof (Hnonneg r Hr). lia.
      * exact Hres.
      * exact Hres.
    + (* some header has no ancestor of height mh-1: nothing common below mh *)
      cbn. intros (r & Hr & Hh).
      destruct (all_some_None _ _ Ecur) as (x & Hx & Hnone).
      destruct (Forall2_in_r _ _ _ x Hhs Hx) as (t & Ht & E).
      destruct (by_hash_in _ _ _ E) as [_ Hid]. rewrite Hid in Hnone.
      pose proof (min_height_le_all hs max_int32 x Hx) as Hmin. fold mh in Hmin.
      destruct (reach_level s t x r (mh - 1) (HR t Ht) E (Hr t Ht) ltac:(lia)) as (c & Hc1 & Hc2).
      rewrite (aoh_complete s t (mh - 1) c (HR t Ht) Hc1 Hc2) in Hnone. discriminate.
Qed.

Theorem common_ancestor_spec s l hs : Valid s -> l <> [] -> (forall t, In t l -> regular s t) ->
  Forall2 (fun t r => by_hash s t = Some r) l hs ->
  common_answer_ok s l (min_height hs max_int32) (common_ancestor s l).
Proof. intros HV. apply common_ancestor_spec_wf, valid_wf, HV. Qed.

(* a hash that is not stored: ErrHeaderNotFound *)
Lemma common_ancestor_unknown s l t : In t l -> by_hash s t = None -> common_ancestor s l = CErrNotFound.
Proof.
  intros Hin E. unfold common_ancestor. destruct l as [|t0 l0]; [inversion Hin|].
  assert (H: all_some (map (by_hash s) (t0 :: l0)) = None).
  { clear - Hin E. induction (t0 :: l0) as [|a l IH]; [inversion Hin|]. cbn.
    destruct Hin as [->|Hin]; [rewrite E; reflexivity|].
    destruct (by_hash s a); [rewrite (IH Hin); reflexivity| reflexivity]. }
  rewrite H. reflexivity.
Qed.

(* ---------------- connected headers always have a common ancestor below them ---------------- *)
Lemma connected_reach_genesis s : wf s -> forall n t x, Z.to_nat (height x) = n -> by_hash s t = Some x -> orph x = false ->
  exists g, reach s t g /\ height g = 0 /\ last s g = g.
Proof.
  intros Hwf. induction n as [|n IH]; intros t x Hn E Ho;
    pose proof (wf_height_nonneg s Hwf x (proj1 (by_hash_in _ _ _ E))) as Hge;
    destruct (nonorphan_parent s Hwf x (proj1 (by_hash_in _ _ _ E)) Ho) as [(_ & Hh & Hl)|(p & Ep & Hh & Hpo)].
  - exists x. split; [apply reach_here; exact E| split; assumption].
  - pose proof (wf_height_nonneg s Hwf p (proj1 (by_hash_in _ _ _ Ep))). lia.
  - exists x. split; [apply reach_here; exact E| split; assumption].
  - destruct (IH (prev x) p ltac:(lia) Ep Hpo) as (g & Hg & Hg0 & Hgl).
    exists g. split; [eapply reach_next; eassumption| split; assumption].
Qed.

Theorem common_ancestor_connected_wf s l hs : wf s -> l <> [] ->
  Forall2 (fun t r => by_hash s t = Some r /\ orph r = false) l hs -> 1 <= min_height hs max_int32 ->
  exists r, common_ancestor s l = COk r.
Proof.
  intros Hwf Hne Hhs Hmh.
  assert (Hhs': Forall2 (fun t r => by_hash s t = Some r) l hs).
  { clear - Hhs. induction Hhs as [|t r l hs [E _] _ IH]; constructor; assumption. }
  assert (HR: forall t, In t l -> regular s t).
  { intros t Ht. destruct (Forall2_in_l _ _ _ t Hhs Ht) as (r & _ & E & Ho). apply (connected_regular s t r Hwf E Ho). }
  pose proof (common_ancestor_spec_wf s l hs Hwf Hne HR Hhs') as Hspec.
  destruct (common_ancestor s l) as [r| | | | |]; [exists r; reflexivity| exfalso ..]; cbn in Hspec; try exact Hspec.
  all: apply Hspec.
  all: destruct s as [|r0 s0]; [inversion Hwf|].
  all: assert (Hg: forall t, In t l -> exists g, reach (r0 :: s0) t g /\ height g = 0 /\ g = last (r0 :: s0) r0).
  all: try (intros t Ht; destruct (Forall2_in_l _ _ _ t Hhs Ht) as (r & _ & E & Ho);
            destruct (connected_reach_genesis (r0 :: s0) Hwf _ t r eq_refl E Ho) as (g & H1 & H2 & H3);
            exists g; split; [exact H1| split; [exact H2|]]; rewrite <- H3 at 1; apply last_indep_nonempty; discriminate).
  all: destruct l as [|t0 l0]; [contradiction|].
  all: destruct (Hg t0 (or_introl eq_refl)) as (g & Hg1 & Hg2 & Hg3).
  all: exists g; split; [|lia].
  all: intros t Ht; destruct (Hg t Ht) as (g' & Hg1' & _ & Hg3'); rewrite Hg3, <- Hg3'; exact Hg1'.
Qed.

Theorem common_ancestor_connected s l hs : Valid s -> l <> [] ->
  Forall2 (fun t r => by_hash s t = Some r /\ orph r = false) l hs -> 1 <= min_height hs max_int32 ->
  exists r, common_ancestor s l = COk r.
Proof. intros HV. apply common_ancestor_connected_wf, valid_wf, HV. Qed.

(* ---------------- the endpoint never answers 500 (after the fixes 5ab472d / 5c09f8d) ---------------- *)
Lemma all_some_map_nonempty {A B} (f : A -> option B) a l r : all_some (map f (a :: l)) = Some r -> r <> [].
Proof. cbn. destruct (f a); [|discriminate]. destruct (all_some (map f l)); [|discriminate]. intros H. inversion H. discriminate. Qed.

Lemma lockstep_panic n s : forall cur, lockstep n s cur = CPanic -> cur = [].
Proof.
  induction n as [|n IH]; intros cur H; cbn in H; [discriminate|].
  destruct cur as [|x rest]; [reflexivity|]. exfalso.
  destruct (all_eq (x :: rest)); [discriminate|].
  destruct (all_some (map (fun r => prev_header s (id r)) (x :: rest))) as [nxt|] eqn:E; [|discriminate].
  apply (all_some_map_nonempty _ _ _ _ E). apply IH. exact H.
Qed.

Lemma lockstep_not_bind n s : forall cur, lockstep n s cur <> CBind.
Proof.
  induction n as [|n IH]; intros cur; cbn; [discriminate|].
  destruct cur as [|x rest]; [discriminate|]. destruct (all_eq (x :: rest)); [discriminate|].
  destruct (all_some (map (fun r => prev_header s (id r)) (x :: rest))) as [nxt|]; [apply IH| discriminate].
Qed.

Theorem common_ancestor_endpoint_status s l : In (cres_status (common_ancestor_endpoint s l)) [200; 400; 404].
Proof.
  unfold common_ancestor_endpoint. destruct l as [|t l0]; [cbn; auto|].
  unfold common_ancestor.
  destruct (all_some (map (by_hash s) (t :: l0))) as [hs|] eqn:Ehs; [|cbn; auto].
  destruct (min_height hs max_int32 <? 1); [cbn; auto|].
  destruct (all_some (map (fun r => ancestor_on_height s (id r) (min_height hs max_int32 - 1)) hs)) as [cur|] eqn:Ecur; [|cbn; auto].
  destruct (lockstep (Z.to_nat (min_height hs max_int32 - 1 + 1)) s cur) eqn:El; cbn; auto.
  - exfalso. apply lockstep_panic in El. subst cur.
    pose proof (all_some_map_nonempty _ _ _ _ Ehs) as Hne. destruct hs as [|h hs']; [contradiction|].
    apply (all_some_map_nonempty _ _ _ _ Ecur). reflexivity.
Qed.
