(* C10 model: the tokens table and the token check.
   Definitions only (no proofs) so that extraction still works when a proof breaks.

   Mirrors
     /repo/service/token_service.go      GenerateToken / GetToken / DeleteToken
     /repo/database/sql/tokens.go        INSERT .. ON CONFLICT DO NOTHING ; SELECT .. WHERE token = ? ;
                                         DELETE .. WHERE token = :token   (token is the PRIMARY KEY)
     /repo/transports/http/auth/*.go     ApplyToAPI (401 when GetToken errs), RequireAdmin (401 unless IsAdmin)
     /repo/transports/http/endpoints/api/access/endpoints.go   GET / POST /access, DELETE /access/:token
     /repo/transports/websocket/websocket_server.go            OnConnecting: GetToken(event.Token) err -> refuse

   State  = the rows of the tokens table, in insertion order.  The admin token is a constant of
   the configuration (never stored).  The value that GenerateToken draws (uniuri.NewLen(32)) is an
   INPUT of the model: [Create c t] = "POST /access with credential c, the service drew t". *)
From Coq Require Import String List Bool.
Import ListNotations.

Definition token := string.

Inductive role := Admin | User | NoTok.

Inductive op :=
| Create (c t : token)      (* POST /access, credential c, generated value t *)
| Revoke (c t : token)      (* DELETE /access/t, credential c *)
| AuthHttp (t : token)      (* any route under /api/v1 with "Bearer t" *)
| AuthWs (t : token)        (* centrifuge connect with token t *)
| Restart                   (* process restart: the table is on disk, everything else is rebuilt *)
| CreateFail (c t : token)  (* POST /access while the COMMIT of the INSERT fails (turned into a ROLLBACK) *)
| RevokeFail (c t : token)  (* DELETE /access/t while the COMMIT of the DELETE fails *)
| Race (t : token).         (* an authenticate(t) over HTTP is in flight - its repository lookup has returned -
                               while DELETE /access/t (admin) runs to completion; then the authenticate answers *)

Definition mem (t : token) (st : list token) : bool := existsb (String.eqb t) st.

(* TokenService.GetToken: the admin token is compared first, then the table is searched *)
Definition get_token (admin : token) (st : list token) (t : token) : role :=
  if String.eqb t admin then Admin else if mem t st then User else NoTok.

Definition is_admin (r : role) : bool := match r with Admin => true | _ => false end.
Definition authenticated (r : role) : bool := match r with NoTok => false | _ => true end.

(* INSERT ... ON CONFLICT DO NOTHING *)
Definition insert (t : token) (st : list token) : list token := if mem t st then st else st ++ [t].
(* DELETE FROM tokens WHERE token = t *)
Definition delete (t : token) (st : list token) : list token :=
  filter (fun x => negb (String.eqb x t)) st.

(* ApplyToAPI then RequireAdmin then the handler *)
Definition step (admin : token) (st : list token) (o : op) : list token :=
  match o with
  | Create c t => if is_admin (get_token admin st c) then insert t st else st
  | Revoke c t => if is_admin (get_token admin st c) then delete t st else st
  | AuthHttp _ | AuthWs _ | Restart => st
  | CreateFail _ _ | RevokeFail _ _ => st           (* tokens.go returns the COMMIT error; nothing was stored/deleted *)
  | Race t => delete t st
  end.

Definition run (admin : token) (st : list token) (ops : list op) : list token :=
  fold_left (step admin) ops st.

Inductive outcome :=
| OCreated | ORevoked | ODenied        (* 200 / 200 / 401 *)
| ORole (r : role)                     (* GET /access: 200 + isAdmin, or 401 *)
| OWs (ok : bool)                      (* connect accepted / DisconnectInvalidToken *)
| ORestarted
| OFailed                              (* the storage error is reported (400 ErrCreateToken / ErrDeleteToken) *)
| ORace (r : role).                    (* answer of the in-flight authenticate (the revoke itself answers 200) *)

Definition outcome_of (admin : token) (st : list token) (o : op) : outcome :=
  match o with
  | Create c _ => if is_admin (get_token admin st c) then OCreated else ODenied
  | Revoke c _ => if is_admin (get_token admin st c) then ORevoked else ODenied
  | AuthHttp t => ORole (get_token admin st t)
  | AuthWs t => OWs (authenticated (get_token admin st t))
  | Restart => ORestarted
  | CreateFail c _ | RevokeFail c _ => if is_admin (get_token admin st c) then OFailed else ODenied
  | Race t => ORace (get_token admin st t)   (* GetToken has one shared-state access, the lookup: it saw the old table *)
  end.

(* outcome of every operation of a sequence, with the state after it *)
Fixpoint trace (admin : token) (st : list token) (ops : list op) : list (outcome * list token) :=
  match ops with
  | [] => []
  | o :: r => let st' := step admin st o in (outcome_of admin st o, st') :: trace admin st' r
  end.

(* ---------------- declarative specification (the statement of C10) ---------------- *)

(* "there is an earlier creation of t (by the admin) with no revocation of t (by the admin) after it" *)
Definition revokes (admin : token) (o : op) (t : token) : Prop := o = Revoke admin t \/ o = Race t.
Definition issued (admin : token) (ops : list op) (t : token) : Prop :=
  exists pre post, ops = pre ++ Create admin t :: post /\ forall o, In o post -> ~ revokes admin o t.

(* executable form: the last admin Create/Revoke that names t decides *)
Definition mark (admin t : token) (acc : bool) (o : op) : bool :=
  match o with
  | Create c t' => if String.eqb c admin && String.eqb t' t then true else acc
  | Revoke c t' => if String.eqb c admin && String.eqb t' t then false else acc
  | Race t' => if String.eqb t' t then false else acc
  | _ => acc
  end.
Definition issuedb (admin : token) (ops : list op) (t : token) : bool :=
  fold_left (mark admin t) ops false.

Definition spec_role (admin : token) (ops : list op) (t : token) : role :=
  if String.eqb t admin then Admin else if issuedb admin ops t then User else NoTok.

(* what operation o must answer after the history pre *)
Definition spec_outcome (admin : token) (pre : list op) (o : op) : outcome :=
  match o with
  | Create c _ => if String.eqb c admin then OCreated else ODenied
  | Revoke c _ => if String.eqb c admin then ORevoked else ODenied
  | AuthHttp t => ORole (spec_role admin pre t)
  | AuthWs t => OWs (authenticated (spec_role admin pre t))
  | Restart => ORestarted
  | CreateFail c _ | RevokeFail c _ => if String.eqb c admin then OFailed else ODenied
  | Race t => ORace (spec_role admin pre t)
  end.

(* the answers the statement allows to the in-flight authenticate of [Race t]: it overlaps the revoke, so it may be
   linearised before it (the validity before) or after it (refused, unless t is the admin token) *)
Definition race_allowed (admin : token) (pre : list op) (t : token) (r : role) : Prop :=
  r = spec_role admin pre t \/ r = spec_role admin (pre ++ [Revoke admin t]) t.

Fixpoint spec_trace (admin : token) (pre rest : list op) : list outcome :=
  match rest with
  | [] => []
  | o :: r => spec_outcome admin pre o :: spec_trace admin (pre ++ [o]) r
  end.

(* ---- the set specification created \ revoked (for histories whose generated values are fresh) ---- *)
Fixpoint created (admin : token) (ops : list op) : list token :=
  match ops with
  | [] => []
  | Create c t :: r => if String.eqb c admin then t :: created admin r else created admin r
  | _ :: r => created admin r
  end.
Fixpoint revoked (admin : token) (ops : list op) : list token :=
  match ops with
  | [] => []
  | Revoke c t :: r => if String.eqb c admin then t :: revoked admin r else revoked admin r
  | Race t :: r => t :: revoked admin r
  | _ :: r => revoked admin r
  end.

(* tokens an operation mentions *)
Definition mentions (o : op) (t : token) : Prop :=
  match o with
  | Create c t' | Revoke c t' | CreateFail c t' | RevokeFail c t' => c = t \/ t' = t
  | AuthHttp t' | AuthWs t' | Race t' => t' = t
  | Restart => False
  end.

(* the generated values are fresh: a value drawn by a successful Create is not the admin token and is
   mentioned by no earlier operation (property of uniuri.NewLen(32), asserted by the harness) *)
Fixpoint fresh_from (admin : token) (pre rest : list op) : Prop :=
  match rest with
  | [] => True
  | o :: r =>
    (match o with
     | Create c t => c = admin -> t <> admin /\ forall o', In o' pre -> ~ mentions o' t
     | _ => True
     end) /\ fresh_from admin (pre ++ [o]) r
  end.
Definition fresh (admin : token) (ops : list op) : Prop := fresh_from admin [] ops.

(* abstract machine over sets of tokens, for the refinement statement *)
Definition spec_step (admin : token) (S : token -> Prop) (o : op) : token -> Prop :=
  match o with
  | Create c t => if String.eqb c admin then (fun x => x = t \/ S x) else S
  | Revoke c t => if String.eqb c admin then (fun x => x <> t /\ S x) else S
  | Race t => (fun x => x <> t /\ S x)
  | _ => S
  end.
Definition spec_run (admin : token) (S : token -> Prop) (ops : list op) : token -> Prop :=
  fold_left (spec_step admin) ops S.
Definition abs (st : list token) : token -> Prop := fun t => In t st.

(* operations that report a storage failure *)
Definition is_failed (o : op) : bool := match o with CreateFail _ _ | RevokeFail _ _ => true | _ => false end.
(* the token an operation can affect *)
Definition target (o : op) : option token :=
  match o with Create _ t | Revoke _ t | Race t => Some t | _ => None end.

(* authentications (either transport) *)
Definition is_auth (o : op) : bool := match o with AuthHttp _ | AuthWs _ => true | _ => false end.
