From Coq Require Import ZArith Lia Bool.
From BHS Require Import Work.
Open Scope Z_scope.

Lemma mant_mod c : 0 <= c -> mant c = c mod 2^23.
Proof. intros H. unfold mant. change 8388607 with (Z.ones 23). apply Z.land_ones. lia. Qed.

Lemma expo_div c : expo c = c / 2^24.
Proof. unfold expo. apply Z.shiftr_div_pow2. lia. Qed.

Lemma isneg_bit c : 0 <= c -> isneg c = Z.testbit c 23.
Proof.
  intros H. unfold isneg.
  change 8388608 with (2^23).
  destruct (Z.testbit c 23) eqn:E.
  - assert (H0: Z.land c (2^23) = 2^23).
    { apply Z.bits_inj'. intros n Hn. rewrite Z.land_spec, Z.pow2_bits_eqb by lia.
      destruct (Z.eqb_spec 23 n); subst; rewrite ?E; [reflexivity| apply andb_false_r]. }
    rewrite H0. reflexivity.
  - assert (H0: Z.land c (2^23) = 0).
    { apply Z.bits_inj'. intros n Hn. rewrite Z.land_spec, Z.pow2_bits_eqb, Z.bits_0 by lia.
      destruct (Z.eqb_spec 23 n); subst; rewrite ?E; [reflexivity| apply andb_false_r]. }
    rewrite H0. reflexivity.
Qed.

Theorem compact_spec c : 0 <= c < 2^32 -> compact_to_big c = target_spec c.
Proof.
  intros [H0 H1]. unfold compact_to_big, target_spec.
  rewrite isneg_bit, mant_mod, expo_div by lia.
  set (m := c mod 2^23). set (e := c / 2^24).
  assert (He: 0 <= e < 256) by (unfold e; split; [apply Z.div_pos; lia| apply Z.div_lt_upper_bound; lia]).
  assert (mag: (if e <=? 3 then Z.shiftr m (8 * (3 - e)) else Z.shiftl m (8 * (e - 3)))
             = (if e <? 3 then m / 256 ^ (3 - e) else m * 256 ^ (e - 3))).
  { destruct (Z.leb_spec e 3) as [Hle|Hgt], (Z.ltb_spec e 3) as [Hlt|Hge]; try lia.
    - rewrite Z.shiftr_div_pow2 by lia. f_equal. rewrite Z.pow_mul_r by lia. reflexivity.
    - assert (He3: e = 3) by lia. rewrite He3. cbn. rewrite Z.mul_1_r. reflexivity.
    - rewrite Z.shiftl_mul_pow2 by lia. f_equal. rewrite Z.pow_mul_r by lia. reflexivity. }
  rewrite mag. reflexivity.
Qed.

Theorem work_spec c : 0 <= c < 2^32 -> calc_work c = work_spec_fn c.
Proof.
  intros Hc. unfold calc_work, work_spec_fn, work_of_target. rewrite compact_spec by exact Hc.
  cbv zeta. destruct (_ <=? 0); [reflexivity|].
  rewrite Z.shiftl_mul_pow2 by lia. rewrite Z.mul_1_l. reflexivity.
Qed.

Lemma work_nonneg t : 0 <= work_of_target t.
Proof.
  unfold work_of_target. destruct (Z.leb_spec t 0) as [Hle|Hgt]; [lia|].
  apply Z.div_pos; lia.
Qed.

(* work is non-increasing in the target, over ALL integer targets (non-positive ones give 0) *)
Theorem work_antitone t1 t2 : t1 <= t2 -> 0 < t1 -> work_of_target t2 <= work_of_target t1.
Proof.
  intros Hle Hpos. unfold work_of_target.
  destruct (Z.leb_spec t1 0) as [?|_]; [lia|]. destruct (Z.leb_spec t2 0) as [?|_]; [lia|].
  apply Z.div_le_compat_l; lia.
Qed.

Theorem work_zero_iff_nonpos_or_huge t : t <= 0 -> work_of_target t = 0.
Proof. intros H. unfold work_of_target. destruct (Z.leb_spec t 0); [reflexivity|lia]. Qed.

Lemma testbit_small n i : 0 <= n < 2^i -> 0 <= i -> Z.testbit n i = false.
Proof.
  intros [Hn0 Hn1] Hi. destruct (Z.eq_dec n 0) as [->|Hnz]; [apply Z.bits_0|].
  apply Z.bits_above_log2; [lia|]. apply Z.log2_lt_pow2; lia.
Qed.

Lemma testbit_small' n i j : 0 <= n < 2^j -> 0 <= j <= i -> Z.testbit n i = false.
Proof.
  intros Hn Hji. apply testbit_small; [|lia]. split; [lia|].
  apply Z.lt_le_trans with (2^j); [lia|]. apply Z.pow_le_mono_r; lia.
Qed.

Lemma land_high_mask n k : 0 <= k -> 0 <= n < 2^(2*k) ->
  (Z.land n (Z.shiftl (Z.ones k) k) =? 0) = (n <? 2^k).
Proof.
  intros Hk [Hn0 Hn1].
  destruct (Z.ltb_spec n (2^k)) as [Hlt|Hge].
  - apply Z.eqb_eq. apply Z.bits_inj'. intros i Hi. rewrite Z.land_spec, Z.bits_0.
    destruct (Z.ltb_spec i k) as [Hik|Hik].
    + rewrite Z.shiftl_spec_low by lia. apply andb_false_r.
    + rewrite (testbit_small' n i k) by lia. reflexivity.
  - apply Z.eqb_neq. intro E.
    assert (Hbits: forall i, k <= i -> Z.testbit n i = false).
    { intros i Hik. destruct (Z.ltb_spec i (2*k)) as [Hi2|Hi2].
      - assert (Hb: Z.testbit (Z.land n (Z.shiftl (Z.ones k) k)) i = false) by (rewrite E; apply Z.bits_0).
        rewrite Z.land_spec, Z.shiftl_spec, Z.ones_spec_low in Hb by lia.
        rewrite andb_true_r in Hb. exact Hb.
      - apply (testbit_small' n i (2*k)); lia. }
    assert (Hlog: n < 2^k).
    { destruct (Z.eq_dec n 0) as [->|Hnz]; [lia|].
      apply Z.log2_lt_pow2; [lia|].
      destruct (Z.lt_ge_cases (Z.log2 n) k) as [?|Hc]; [assumption|].
      pose proof (Z.bit_log2 n ltac:(lia)) as Hb. rewrite Hbits in Hb by lia. discriminate. }
    lia.
Qed.

Lemma log2_shift n k : 0 <= k -> 2^k <= n -> Z.log2 n = Z.log2 (Z.shiftr n k) + k.
Proof.
  intros Hk Hn. rewrite Z.shiftr_div_pow2 by lia.
  assert (Hkp: 0 < 2^k) by (apply Z.pow_pos_nonneg; lia).
  assert (Hq: 1 <= n / 2^k) by (apply Z.div_le_lower_bound; lia).
  set (q := n / 2^k) in *. set (l := Z.log2 q).
  assert (Hl0: 0 <= l) by apply Z.log2_nonneg.
  pose proof (Z.log2_spec q ltac:(lia)) as [Hl Hu]. fold l in Hl, Hu.
  pose proof (Z.div_mod n (2^k) ltac:(lia)) as Hdm. fold q in Hdm.
  pose proof (Z.mod_pos_bound n (2^k) ltac:(lia)) as Hm.
  apply Z.log2_unique; [lia|].
  replace (Z.succ (l + k)) with (Z.succ l + k) by lia.
  rewrite !Z.pow_add_r by lia.
  split; nia.
Qed.

Lemma lstep_ok n rv k : 0 < k -> 1 <= n < 2^(2*k) ->
  let '(n', rv') := lstep (Z.shiftl (Z.ones k) k) k (n, rv) in
  1 <= n' < 2^k /\ Z.log2 n + rv = Z.log2 n' + rv'.
Proof.
  intros Hk [Hn0 Hn1]. unfold lstep.
  rewrite land_high_mask by lia.
  destruct (Z.ltb_spec n (2^k)) as [Hlt|Hge]; cbn [negb].
  - split; lia.
  - split.
    + rewrite Z.shiftr_div_pow2 by lia. split.
      * apply Z.div_le_lower_bound; lia.
      * apply Z.div_lt_upper_bound; [lia|]. rewrite <- Z.pow_add_r by lia. replace (k+k) with (2*k) by lia. lia.
    + rewrite (log2_shift n k) by lia. lia.
Qed.

Theorem log2_spec n : 1 <= n < 2^32 -> fast_log2 n = Z.log2 n.
Proof.
  intros Hn. unfold fast_log2.
  change 4294901760 with (Z.shiftl (Z.ones 16) 16).
  change 65280 with (Z.shiftl (Z.ones 8) 8).
  change 240 with (Z.shiftl (Z.ones 4) 4).
  change 12 with (Z.shiftl (Z.ones 2) 2).
  change 2 with (Z.shiftl (Z.ones 1) 1) at 1.
  pose proof (lstep_ok n 0 16 ltac:(lia) ltac:(change (2*16) with 32; lia)) as H1.
  destruct (lstep (Z.shiftl (Z.ones 16) 16) 16 (n, 0)) as [n1 r1]. destruct H1 as [B1 E1].
  pose proof (lstep_ok n1 r1 8 ltac:(lia) ltac:(change (2*8) with 16; lia)) as H2.
  destruct (lstep (Z.shiftl (Z.ones 8) 8) 8 (n1, r1)) as [n2 r2]. destruct H2 as [B2 E2].
  pose proof (lstep_ok n2 r2 4 ltac:(lia) ltac:(change (2*4) with 8; lia)) as H3.
  destruct (lstep (Z.shiftl (Z.ones 4) 4) 4 (n2, r2)) as [n3 r3]. destruct H3 as [B3 E3].
  pose proof (lstep_ok n3 r3 2 ltac:(lia) ltac:(change (2*2) with 4; lia)) as H4.
  destruct (lstep (Z.shiftl (Z.ones 2) 2) 2 (n3, r3)) as [n4 r4]. destruct H4 as [B4 E4].
  pose proof (lstep_ok n4 r4 1 ltac:(lia) ltac:(change (2*1) with 2; lia)) as H5.
  destruct (lstep (Z.shiftl (Z.ones 1) 1) 1 (n4, r4)) as [n5 r5]. destruct H5 as [B5 E5].
  cbn [snd]. assert (Hn5: n5 = 1) by lia. subst n5. change (Z.log2 1) with 0 in E5. lia.
Qed.

Lemma log2_range n : 1 <= n < 2^32 -> 0 <= fast_log2 n < 32.
Proof.
  intros Hn. rewrite log2_spec by exact Hn. split; [apply Z.log2_nonneg|].
  apply Z.log2_lt_pow2; lia.
Qed.

(* non-vacuity / transcription cross-check: literals of domains/chainwork_test.go *)
Example work_genesis : calc_work 486604799 = 4295032833.
Proof. vm_compute. reflexivity. Qed.
Example work_100000 : calc_work 453281356 = 62209952899966.
Proof. vm_compute. reflexivity. Qed.
Example work_700000 : calc_work 403985107 = 232359535664858305416.
Proof. vm_compute. reflexivity. Qed.
Example neg_target : compact_to_big 0x1d800001 = -411376139330301510538742295639337626245683966408394965837152256 /\ calc_work 0x1d800001 = 0.
Proof. vm_compute. split; reflexivity. Qed.
Example log2_ex : fast_log2 2000 = 10 /\ fast_log2 1 = 0 /\ fast_log2 4294967295 = 31.
Proof. vm_compute. repeat split. Qed.
