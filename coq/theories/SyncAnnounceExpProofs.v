(* C06: a headers announcement to the EXPERIMENTAL engine after its initial sync (it asks for headers-announcements with
   sendheaders; inv is ignored by that engine - its syncedCheckpoints flag is never set).  From the idle state (everything of
   C stored, nothing in flight) the peer's chain grows by the headers [new] and the peer announces them by one headers
   message: one delivery stores them all, the engine is in sendheaders mode afterwards, longest chain = C ++ new. *)
From Coq Require Import ZArith NArith List Lia Bool.
From BHS Require Import Work Store Chain ChainSpec StoreProofs ChainInv ChainReorg ChainAdd ChainMain
     SyncNode SyncDefault SyncExp SyncSys SyncSpec SyncC07Proofs SyncC06Proofs SyncC06ExpProofs SyncAnnounceProofs.
Import ListNotations.
Open Scope Z_scope.

Section AnnounceExp.
Variables (cfg : ecfg) (gid : N) (C new : list src) (p : N) (cap : nat) (rest : list src).
Notation C' := (C ++ new).
Notation cps := (x_cps cfg).
Hypothesis HC' : good_chain (x_forb cfg) gid C'.
Hypothesis Hcps : cps_ok gid C cps.
Hypothesis Hcap : (1 <= cap)%nat.
Hypothesis Hnew1 : new <> [].
Hypothesis Hnewcap : (length new <= cap)%nat.

Definition xidle_ok (z : xsys) : Prop :=
  z_cfg z = cfg /\ z_gid z = gid /\ z_p z = p /\
  e_conn (z_eng z) = true /\ e_latest (z_eng z) = Z.of_nat (length C) /\
  cur_nx (e_cur (z_eng z)) = least_above cps (Z.of_nat (length C)) /\ Good gid C (length C) (e_store (z_eng z)) /\
  n_chain (z_node z) = C /\ n_reserve (z_node z) = new ++ rest /\ n_open (z_node z) = true /\ n_stalled (z_node z) = false /\
  n_out (z_node z) = [].

Lemma cps_ok_app' : cps_ok gid C' cps.
Proof.
  intros c Hc. destruct (Hcps c Hc) as (i & Ei & Hn). exists i. split; [exact Ei|].
  unfold cids in *. rewrite map_app, app_comm_cons. rewrite nth_error_app1; [exact Hn|]. apply nth_error_Some. congruence.
Qed.

Lemma xno_checkpoint_above : least_above cps (Z.of_nat (length C)) = None.
Proof.
  destruct (least_above cps (Z.of_nat (length C))) as [[H cid]|] eqn:El; [|reflexivity]. exfalso.
  destruct (xnext_on_chain cfg gid C cap Hcps Hcap (length C) H cid El) as (Hn & _ & Hlt & _ & Hle). lia.
Qed.

Theorem announce_headers_exp z fuel : xidle_ok z ->
  (forall h, In h new -> by_hash (e_store (z_eng z)) (s_id h) = None) ->
  exists z1 z2 es st,
    z_cmd z (CAnnounce p (length new) false) = (z1, []) /\
    z_cmd z1 (CRun (S fuel)) = (z2, [(Some (XHeaders new), es, st)]) /\
    (es = [] \/ es = [SendHdrs p]) /\ xquiet z2 = true /\ e_shm (z_eng z2) = true /\
    Good gid C' (length C') (e_store (z_eng z2)).
Proof.
  intros (Ecfg & Egid & Ep & Hconn & Hlat & Hnx & HG & Hch & Hrs & Hop & Hns & Hout) Hf.
  set (n := z_node z) in *. set (st := z_eng z) in *.
  set (n' := node_announce n (length new) false).
  assert (Hfirst: firstn (length new) (n_reserve n) = new) by (rewrite Hrs, firstn_app, Nat.sub_diag, firstn_all; cbn; apply app_nil_r).
  assert (Hskip: skipn (length new) (n_reserve n) = rest) by (rewrite Hrs, skipn_app, skipn_all, Nat.sub_diag; reflexivity).
  assert (Hn': n_open n' = true /\ n_out n' = [MHeaders new]).
  { unfold n', node_announce, n_with. rewrite Hfirst, Hskip, Hop, Hns, Hout. cbn [n_open n_out negb andb app].
    destruct new as [|h0 t0]; [contradiction|]. split; reflexivity. }
  destruct Hn' as (A4 & A6).
  set (z1 := z_with z st n').
  assert (HG': Good gid C' (length C) (e_store st)) by (apply (good_ext gid C new cap Hcap Hnewcap); assumption).
  assert (Hkm: (length C + length new <= length C')%nat) by (rewrite new_len; lia).
  assert (Hnxok: nx_ok gid C' (cur_nx (e_cur st)) (length C) (length new)) by (rewrite Hnx, xno_checkpoint_above; exact I).
  destruct (eloop_linear cfg gid C' cap HC' cps_ok_app' Hcap (length new) (length C) (e_store st) (e_cur st) O 0 Hkm HG' Hnxok) as (s' & HGs & Eloop).
  rewrite skipn_ext, firstn_all in Eloop.
  assert (Ereach: reached (cur_nx (e_cur st)) (length C) (length new) = false) by (rewrite Hnx, xno_checkpoint_above; reflexivity).
  rewrite Ereach in Eloop. cbn [Nat.add] in Eloop.
  assert (Hlen: exists m', length new = S m') by (destruct new; [contradiction| eexists; reflexivity]). destruct Hlen as (m' & Elen).
  rewrite Elen in Eloop. rewrite <- Elen in Eloop.
  pose proof (good_tip_height gid C' (length C + length new) s' Hkm HGs) as Eth.
  exists z1.
  assert (Erun: exists es stx, z_cmd z1 (CRun (S fuel)) = (z_with z1 stx (n_with n' (n_chain n') (n_reserve n') (n_open n') (n_used n') (n_stalled n') []), [(Some (XHeaders new), es, stx)]) /\
                 (es = [] \/ es = [SendHdrs p]) /\ e_shm stx = true /\ e_store stx = s').
  { cbn [z_cmd z_run_q]. unfold z1. cbn [z_node z_with]. rewrite A4, A6. cbn [andb].
    unfold z_deliver. cbn [z_node z_with]. rewrite A4, A6. cbn [negb].
    unfold z_event. cbn [z_cfg z_eng z_with z_p z_gid z_node e_step]. rewrite Ecfg, Ep.
    unfold e_on_headers. fold st. rewrite Eloop, Elen. rewrite <- Elen. rewrite Hlat, Eth.
    replace (Z.max (Z.of_nat (length C)) (Z.of_nat (length C + length new))) with (Z.of_nat (length C + length new)) by lia.
    rewrite Z.eqb_refl.
    destruct (e_shm st) eqn:Eshm.
    - cbn [xapply_effs].
      rewrite (xquiet_run fuel); [|unfold xquiet; cbn [z_node z_with n_with n_out]; rewrite andb_false_r; reflexivity].
      eexists _, _. split; [reflexivity|]. split; [left; reflexivity|]. split; reflexivity.
    - cbn [xapply_effs].
      rewrite (xquiet_run fuel); [|unfold xquiet; cbn [z_node z_with n_with n_out]; rewrite andb_false_r; reflexivity].
      eexists _, _. split; [reflexivity|]. split; [right; reflexivity|]. split; reflexivity. }
  destruct Erun as (es & stx & Er & Hes & Hshm & Hsto).
  eexists _, es, stx. split.
  - unfold z_cmd. reflexivity.
  - split; [exact Er|]. split; [exact Hes|]. split; [|split; [exact Hshm|]].
    + unfold xquiet. cbn [z_node z_with n_with n_out]. rewrite andb_false_r. reflexivity.
    + cbn [z_eng z_with]. rewrite Hsto. rewrite new_len. exact HGs.
Qed.
End AnnounceExp.

(* (a concrete instance of xidle_ok - the state reached by ex_catchup_exp_run of SyncC06ExpProofs - was checked once; its
   proof by computation takes 14 minutes and is not kept in the build) *)
