(* C11 - model of the notification path of ingestion.  Definitions only.

   Code modelled (as it is):
   * /repo/service/chain_service.go  chainService.Add: every early return (duplicate, forbidden, GetTip error,
     switchChainsStates error, insert error) precedes line 109 `cs.notification.Notify(domains.HeaderAdded(h))`;
     that line is reached exactly when all planned writes succeeded, with h = the header handed to insert.
   * /repo/domains/header_events.go  HeaderAdded: operation ADD + height, hash, version, merkle root, timestamp,
     nonce, state, cumulated work, previous block of h (no bits, no own work).
   * /repo/notification/notification.go  Notifier.Notify: `for _, ch := range n.channels { go ch.Notify(event) }` -
     one delivery task per registered channel (in registration order; a channel registered twice gets two),
     Notify returns after spawning.
   A failing write is an explicit fault input of a submission: the k-th planned write (0-based, in the order
   Chain.plan lists them: UpdateState, UpdateState, insert) returns an error, either without having happened
   (FailBefore: the store is Chain.exec s ws k) or after it happened (FailAfter: Chain.exec s ws (S k)).

   Goroutines are modelled as a pool of pending tasks; a schedule is any list of actions
   Ingest | Complete i | Release c  (i = position in the pool); a slow channel's tasks cannot complete
   until the channel is released. *)
From Coq Require Import ZArith NArith List Bool Arith.
From BHS Require Import Work Store Chain.
Import ListNotations.
Open Scope Z_scope.

(* ---------- events ---------- *)
Inductive opkind := OpAdd.                       (* domains.EventHeaderAdded = "ADD" is the only operation *)

Record event := { e_op : opkind; e_id : N; e_prev : N; e_height : Z; e_cum : Z; e_st : hstate;
                  e_ver : Z; e_merkle : N; e_nonce : Z; e_ts : Z }.

(* domains.HeaderAdded *)
Definition event_of_row (r : row) : event :=
  {| e_op := OpAdd; e_id := id r; e_prev := prev r; e_height := height r; e_cum := cum r; e_st := st r;
     e_ver := p_ver (pl r); e_merkle := p_merkle (pl r); e_nonce := p_nonce (pl r); e_ts := p_ts (pl r) |}.

(* what Add emits for an outcome, r = the header handed to insert *)
Definition events_of (o : outcome) (r : row) : list event :=
  match o with Stored _ => [event_of_row r] | _ => [] end.

(* ---------- Add with a failing write ---------- *)
Inductive fault := NoFault | FailBefore (k : nat) | FailAfter (k : nat).
Inductive result := Done (o : outcome) | WriteFailed (w : write).

(* the header handed to cs.insert *)
Fixpoint insert_of (ws : list write) : option row :=
  match ws with
  | [] => None
  | WInsert r :: _ => Some r
  | WUpdate _ _ :: t => insert_of t
  end.

(* Some (the failing write, number of writes that happened) when the fault hits one of the planned writes *)
Definition fault_point (x : fault) (ws : list write) : option (write * nat) :=
  match x with
  | NoFault => None
  | FailBefore k => match nth_error ws k with Some w => Some (w, k) | None => None end
  | FailAfter k => match nth_error ws k with Some w => Some (w, S k) | None => None end
  end.

(* WriteFailed (WUpdate ..) = ChainUpdateFail, WriteFailed (WInsert ..) = HeaderSaveFail *)
Definition add_f (f : list N) (s : store) (h : src) (x : fault) : store * result * list event :=
  let '(o, ws) := plan f s h in
  match fault_point x ws with
  | Some (w, done) => (exec s ws done, WriteFailed w, [])
  | None => (exec s ws (length ws), Done o,
             match insert_of ws with Some r => events_of o r | None => [] end)
  end.

Definition hist := list (src * fault).

Fixpoint run_f (f : list N) (s : store) (hs : hist) : store :=
  match hs with
  | [] => s
  | (h, x) :: t => run_f f (fst (fst (add_f f s h x))) t
  end.

Fixpoint results_f (f : list N) (s : store) (hs : hist) : list result :=
  match hs with
  | [] => []
  | (h, x) :: t => let '(s', r, _) := add_f f s h x in r :: results_f f s' t
  end.

(* everything Add hands to the notifier over a history *)
Fixpoint all_events (f : list N) (s : store) (hs : hist) : list event :=
  match hs with
  | [] => []
  | (h, x) :: t => let '(s', _, evs) := add_f f s h x in evs ++ all_events f s' t
  end.

(* SPEC side: the rows of the submissions that ingestion reported as stored, each read back from the
   store by its hash right after its Add returned (independent of what Add handed to the notifier) *)
Definition is_stored (r : result) : bool := match r with Done (Stored _) => true | _ => false end.

Fixpoint stored_rows (f : list N) (s : store) (hs : hist) : list row :=
  match hs with
  | [] => []
  | (h, x) :: t =>
    let '(s', r, _) := add_f f s h x in
    (if is_stored r then match by_hash s' (s_id h) with Some w => [w] | None => [] end else [])
      ++ stored_rows f s' t
  end.

(* ---------- the notifier and the pool of delivery goroutines ---------- *)
Definition chan := nat.
Inductive beh := BOk | BErr | BSlow.
Record task := { t_ch : chan; t_ev : event }.
Record delivery := { d_ch : chan; d_ev : event; d_ok : bool }.

(* Notifier.Notify *)
Definition notifier (chs : list chan) (ev : event) : list task :=
  map (fun c => {| t_ch := c; t_ev := ev |}) chs.

Record cfg := { c_forbidden : list N; c_chans : list chan; c_beh : chan -> beh }.

Record sys := { sy_store : store; sy_todo : hist; sy_results : list result (* newest first *);
                sy_pool : list task; sy_released : list chan; sy_log : list delivery (* newest first *) }.

Inductive action := Ingest | Complete (i : nat) | Release (c : chan).

Definition blocked (b : chan -> beh) (rel : list chan) (c : chan) : bool :=
  match b c with BSlow => negb (existsb (Nat.eqb c) rel) | _ => false end.

Definition is_err (b : beh) : bool := match b with BErr => true | _ => false end.

Fixpoint remove_nth {A : Type} (i : nat) (l : list A) : list A :=
  match l with
  | [] => []
  | a :: t => match i with O => t | S j => a :: remove_nth j t end
  end.

Definition step (c : cfg) (y : sys) (a : action) : sys :=
  match a with
  | Ingest =>
    match sy_todo y with
    | [] => y
    | (h, x) :: t =>
      let '(s', r, evs) := add_f (c_forbidden c) (sy_store y) h x in
      {| sy_store := s'; sy_todo := t; sy_results := r :: sy_results y;
         sy_pool := sy_pool y ++ flat_map (notifier (c_chans c)) evs;
         sy_released := sy_released y; sy_log := sy_log y |}
    end
  | Complete i =>
    match nth_error (sy_pool y) i with
    | None => y
    | Some t =>
      if blocked (c_beh c) (sy_released y) (t_ch t) then y else
      {| sy_store := sy_store y; sy_todo := sy_todo y; sy_results := sy_results y;
         sy_pool := remove_nth i (sy_pool y); sy_released := sy_released y;
         sy_log := {| d_ch := t_ch t; d_ev := t_ev t; d_ok := negb (is_err (c_beh c (t_ch t))) |} :: sy_log y |}
    end
  | Release ch =>
    {| sy_store := sy_store y; sy_todo := sy_todo y; sy_results := sy_results y;
       sy_pool := sy_pool y; sy_released := ch :: sy_released y; sy_log := sy_log y |}
  end.

Definition run_sched (c : cfg) (y : sys) (sch : list action) : sys := fold_left (step c) sch y.

Definition init_sys (s : store) (hs : hist) : sys :=
  {| sy_store := s; sy_todo := hs; sy_results := []; sy_pool := []; sy_released := []; sy_log := [] |}.

(* what channel c was handed / what is still in flight for it *)
Definition log_evs (c : chan) (y : sys) : list event :=
  map d_ev (filter (fun d => Nat.eqb (d_ch d) c) (sy_log y)).
Definition pool_evs (c : chan) (p : list task) : list event :=
  map t_ev (filter (fun t => Nat.eqb (t_ch t) c) p).

Definition ingests (sch : list action) : nat :=
  length (filter (fun a => match a with Ingest => true | _ => false end) sch).

(* a schedule that tries every pending task once, last first (so that positions stay valid) *)
Definition sweep (n : nat) : list action := map Complete (rev (seq 0 n)).
(* release every channel that has a pending task, then sweep *)
Definition drain (y : sys) : list action :=
  map Release (map t_ch (sy_pool y)) ++ sweep (length (sy_pool y)).

(* ---------- executable spec oracle (applied to the implementation's observations) ---------- *)
Definition op_eqb (a b : opkind) : bool := match a, b with OpAdd, OpAdd => true end.

Definition event_eqb (a b : event) : bool :=
  op_eqb (e_op a) (e_op b) && N.eqb (e_id a) (e_id b) && N.eqb (e_prev a) (e_prev b) &&
  Z.eqb (e_height a) (e_height b) && Z.eqb (e_cum a) (e_cum b) && st_eqb (e_st a) (e_st b) &&
  Z.eqb (e_ver a) (e_ver b) && N.eqb (e_merkle a) (e_merkle b) && Z.eqb (e_nonce a) (e_nonce b) &&
  Z.eqb (e_ts a) (e_ts b).

(* remove one occurrence *)
Fixpoint remove1 (e : event) (l : list event) : option (list event) :=
  match l with
  | [] => None
  | a :: t => if event_eqb e a then Some t
              else match remove1 e t with Some t' => Some (a :: t') | None => None end
  end.

(* (elements of a without partner in b, elements of b left over) *)
Fixpoint mdiff (a b : list event) : list event * list event :=
  match a with
  | [] => ([], b)
  | e :: t => match remove1 e b with
              | Some b' => mdiff t b'
              | None => let '(m, x) := mdiff t b in (e :: m, x)
              end
  end.

Definition mset_eqb (a b : list event) : bool :=
  match mdiff a b with ([], []) => true | _ => false end.

Inductive verdict :=
| VOk
| VMissing (e : event)            (* a stored header without its event *)
| VExtra (e : event)              (* an event whose hash is not a stored header's, or a second event *)
| VField (want got : event).      (* an event for a stored header with different fields *)

(* rows = stored rows at insertion time (as observed), got = the events one channel received *)
Definition check_channel (rows : list row) (got : list event) : verdict :=
  match mdiff (map event_of_row rows) got with
  | ([], []) => VOk
  | (m :: _, x) =>
    match find (fun e => N.eqb (e_id e) (e_id m)) x with
    | Some e => VField m e
    | None => VMissing m
    end
  | ([], e :: _) => VExtra e
  end.

(* the stored row belongs to the submission (fields returned exactly as received) *)
Definition row_matches_src (r : row) (h : src) : bool :=
  N.eqb (id r) (s_id h) && N.eqb (prev r) (s_prev h) && Z.eqb (p_ver (pl r)) (p_ver (s_pl h)) &&
  N.eqb (p_merkle (pl r)) (p_merkle (s_pl h)) && Z.eqb (p_nonce (pl r)) (p_nonce (s_pl h)) &&
  Z.eqb (p_ts (pl r)) (p_ts (s_pl h)).
