(* The declarative specification of C01, computed from the HISTORY ALONE (no labels are ever
   updated, no tip query, no reorganisation):
     - a submission is ignored if its hash is already stored (duplicate) or forbidden;
     - on arrival a header is an orphan iff its parent is not stored or is itself an orphan;
       height / cumulative work are computed from the parent at arrival (1 / own work if unknown);
     - best = the non-orphan header with the greatest cumulative work, the EARLIEST stored among equals;
     - label: ORPHAN if orphan, LONGEST_CHAIN if ancestor-or-self of best, else STALE; tip = best.
   Definitions only. *)
From Coq Require Import ZArith NArith List Bool.
From BHS Require Import Work Store.
Import ListNotations.
Open Scope Z_scope.

(* label-free arrival record: st is a dummy (Orphan for orphans, Stale otherwise) and is never read *)
Definition accept (s : store) (h : src) : row :=
  let p := by_hash s (s_prev h) in
  let w := calc_work (p_bits (s_pl h)) in
  let o := match p with Some p => orph p | None => true end in
  {| id := s_id h; prev := s_prev h;
     height := match p with Some p => height p + 1 | None => 1 end;
     work := w;
     cum := match p with Some p => cum p + w | None => w end;
     orph := o; st := if o then Orphan else Stale; pl := s_pl h |}.

Inductive verdict := VStored | VDuplicate | VForbidden.

Definition spec_step (f : list N) (s : store) (h : src) : store * verdict :=
  match by_hash s (s_id h) with
  | Some _ => (s, VDuplicate)
  | None => if memN (s_id h) f then (s, VForbidden) else (accept s h :: s, VStored)
  end.

Definition spec_run_from (f : list N) (s : store) (hs : list src) : store :=
  fold_left (fun s h => fst (spec_step f s h)) hs s.

(* greatest cumulative work among non-orphans; replaced only on a strict increase, scanning from the
   OLDEST row (the store is newest first, so the recursion reaches older rows first) *)
Fixpoint best (s : store) : option row :=
  match s with
  | [] => None
  | r :: s' =>
    match best s' with
    | None => if orph r then None else Some r
    | Some b => if orph r then Some b else if cum b <? cum r then Some r else Some b
    end
  end.

Definition inchain (s : store) (tip : N) (r : row) : bool := memN (id r) (ids (chain s tip)).
Definition derived (s : store) (tip : N) (r : row) : hstate :=
  if orph r then Orphan else if inchain s tip r then Longest else Stale.

Definition spec_tip (s : store) : N := match best s with Some b => id b | None => 0%N end.
Definition spec_label (s : store) (r : row) : hstate := derived s (spec_tip s) r.
(* the labelled store the specification prescribes *)
Definition spec_store (s : store) : store := map (fun r => set_st (spec_label s r) r) s.

(* boolean oracle used on OBSERVED states: same rows (label aside), prescribed labels, prescribed tip *)
Definition hstate_eqb := st_eqb.
Definition payload_eqb (a b : payload) : bool :=
  (p_bits a =? p_bits b) && (p_ver a =? p_ver b) && (N.eqb (p_merkle a) (p_merkle b)) && (p_ts a =? p_ts b) && (p_nonce a =? p_nonce b).
Definition row_eqb (a b : row) : bool :=
  N.eqb (id a) (id b) && N.eqb (prev a) (prev b) && (height a =? height b) && (work a =? work b) &&
  (cum a =? cum b) && st_eqb (st a) (st b) && payload_eqb (pl a) (pl b).
