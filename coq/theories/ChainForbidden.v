(* C07 (chain core part): the descendants - children, grandchildren, ... at any depth - of a forbidden header
   can only ever be orphans, for EVERY history (any work values, any arrival order, the forbidden header itself
   submitted any number of times anywhere in the history).

   [desc_forb f s r]: r is stored and linked by previous-hash links through stored rows to a row whose
   previous hash is on the forbidden list. *)
From Coq Require Import ZArith NArith List Lia Bool.
From BHS Require Import Work Store Chain ChainSpec StoreProofs ChainInv ChainReorg ChainAdd ChainMain ChainFields
     SyncC07Proofs.
Import ListNotations.
Open Scope Z_scope.

Inductive desc_forb (f : list N) (s : store) : row -> Prop :=
| df_child r : In r s -> memN (prev r) f = true -> desc_forb f s r
| df_step r p : In r s -> In p s -> id p = prev r -> desc_forb f s p -> desc_forb f s r.

Lemma wf_ids_unique s : wf s -> forall a b, In a s -> In b s -> id a = id b -> a = b.
Proof.
  induction 1 as [g Hg | r s Hwf IH Hn Hz Hok]; intros a b Ha Hb E.
  - destruct Ha as [<-|[]]. destruct Hb as [<-|[]]. reflexivity.
  - destruct Ha as [<-|Ha], Hb as [<-|Hb].
    + reflexivity.
    + exfalso. apply Hn. rewrite E. apply in_map. exact Hb.
    + exfalso. apply Hn. rewrite <- E. apply in_map. exact Ha.
    + apply IH; assumption.
Qed.

Lemma by_hash_some_of_in s : wf s -> forall p, In p s -> by_hash s (id p) = Some p.
Proof.
  intros Hwf p Hp. destruct (by_hash s (id p)) as [q|] eqn:E.
  - destruct (by_hash_in _ _ _ E) as [Hq Hid]. f_equal. apply (wf_ids_unique s Hwf); assumption.
  - exfalso. apply (by_hash_none _ _ E). apply in_map. exact Hp.
Qed.

Lemma wf_suffix pre : forall s, wf (pre ++ s) -> s <> [] -> wf s.
Proof.
  induction pre as [|a pre IH]; intros s H Hne; [exact H|].
  cbn in H. inversion H as [g Hg E | r s' Hwf Hn Hz Hok E]; subst.
  - destruct pre; [destruct s; [contradiction Hne; reflexivity| discriminate]| discriminate].
  - apply IH; assumption.
Qed.

Lemma nodup_ids_unique s : NoDup (ids s) -> forall a b, In a s -> In b s -> id a = id b -> a = b.
Proof.
  induction s as [|r s IH]; intros Hnd a b Ha Hb E; [destruct Ha|].
  cbn [ids map] in Hnd. inversion Hnd as [|? ? Hn Hnd']; subst.
  destruct Ha as [<-|Ha], Hb as [<-|Hb].
  - reflexivity.
  - exfalso. apply Hn. rewrite E. apply in_map. exact Hb.
  - exfalso. apply Hn. rewrite <- E. apply in_map. exact Ha.
  - apply IH; assumption.
Qed.

(* one link: the child of a row flagged "orphan on arrival" is flagged too, whichever of the two arrived first *)
Lemma desc_forb_orph_gen s : wf s -> forall r p, In r s -> In p s -> id p = prev r -> orph p = true -> orph r = true.
Proof.
  intros Hwf r p Hr Hp Hid IH.
  destruct (wf_row_ok s Hwf r Hr) as [Hg|(pre & older & E & Hok)].
  - exfalso. destruct Hg as (Hp0 & _). rewrite Hp0 in Hid.
    destruct (wf_row_ok s Hwf p Hp) as [Hgp|(pre' & older' & E' & _)].
    + destruct Hgp as (_ & Hnz & _). congruence.
    + assert (Hwf': wf (p :: older')) by (apply (wf_suffix pre'); [rewrite <- E'; exact Hwf| discriminate]).
      inversion Hwf' as [g Hg E0 | r0 s0 _ _ Hnz _ E0]; subst; [destruct Hg as (_ & Hnz & _)|]; congruence.
  - unfold row_ok in Hok. destruct (by_hash older (prev r)) as [q|] eqn:Eq.
    + destruct (by_hash_in _ _ _ Eq) as [Hq Hqid].
      assert (q = p).
      { apply (wf_ids_unique s Hwf); [rewrite E; apply in_or_app; right; right; exact Hq| exact Hp| congruence]. }
      subst q. destruct Hok as (Ho & _). rewrite Ho. exact IH.
    + apply Hok.
Qed.

(* the ghost flag: every descendant of a forbidden id "was an orphan when it arrived" *)
Lemma desc_forb_orph f s : wf s -> no_forb f s -> memN 0%N f = false ->
  forall r, desc_forb f s r -> orph r = true.
Proof.
  intros Hwf Hs Hz r Hd. induction Hd as [r Hr Hp | r p Hr Hp Hid Hd IH].
  - exact (forbidden_parent_orph f s r Hwf Hs Hz Hr Hp).
  - exact (desc_forb_orph_gen s Hwf r p Hr Hp Hid IH).
Qed.

(* every reachable store, ANY work values *)
Theorem descendants_of_forbidden_orphan_all f gid gpl hs :
  gid <> 0%N -> nonzero_ids hs -> memN gid f = false -> memN 0%N f = false ->
  forall r, desc_forb f (run f gid gpl hs) r -> st r = Orphan.
Proof.
  intros Hg Hn Hgf Hzf r Hd.
  destruct (reachable_inv f gid gpl hs Hg Hn) as (tip & HI).
  assert (Hr: In r (run f gid gpl hs)) by (destruct Hd; assumption).
  apply (st_O_iff _ tip r HI Hr).
  apply (desc_forb_orph f (run f gid gpl hs)); auto.
  - apply HI.
  - apply run_from_no_forb, init_no_forb, Hgf.
Qed.

(* and they are served by no chain: an orphan is on nobody's longest chain and is never the tip *)
Theorem descendants_of_forbidden_not_longest f gid gpl hs :
  gid <> 0%N -> nonzero_ids hs -> memN gid f = false -> memN 0%N f = false ->
  forall r, desc_forb f (run f gid gpl hs) r -> st r <> Longest.
Proof.
  intros Hg Hn Hgf Hzf r Hd. rewrite (descendants_of_forbidden_orphan_all f gid gpl hs Hg Hn Hgf Hzf r Hd). discriminate.
Qed.

(* non-vacuity: a grandchild of a forbidden id, whose parent arrived AFTER it *)
Example desc_forb_example :
  let pl0 := {| p_bits := 545259519; p_ver := 1; p_merkle := 1%N; p_ts := 1; p_nonce := 1 |} in
  let h i p := {| s_id := i; s_prev := p; s_pl := pl0 |} in
  let s := run [9%N] 1%N pl0 [h 2%N 1%N; h 9%N 1%N; h 11%N 10%N; h 10%N 9%N] in
  exists r, In r s /\ id r = 11%N /\ desc_forb [9%N] s r /\ st r = Orphan.
Proof.
  cbv zeta.
  match goal with |- exists r, In r ?S /\ _ => set (s := S) end.
  assert (E: exists r10 r11 rest, s = r10 :: r11 :: rest /\ id r10 = 10%N /\ prev r10 = 9%N /\
                                  id r11 = 11%N /\ prev r11 = 10%N /\ st r11 = Orphan).
  { vm_compute. do 3 eexists. repeat split. }
  destruct E as (r10 & r11 & rest & E & I10 & P10 & I11 & P11 & S11).
  exists r11. rewrite E. split; [right; left; reflexivity|]. split; [exact I11|]. split; [|exact S11].
  apply df_step with (p := r10); [right; left; reflexivity| left; reflexivity| congruence|].
  apply df_child; [left; reflexivity| rewrite P10; reflexivity].
Qed.

(* ---- an orphan stays an orphan, for every continuation of every history (any work values) ---- *)
Theorem orphans_stay_orphans_all f gid gpl hs hs' i r : gid <> 0%N -> nonzero_ids (hs ++ hs') ->
  by_hash (run f gid gpl hs) i = Some r -> st r = Orphan ->
  exists r', by_hash (run f gid gpl (hs ++ hs')) i = Some r' /\ st r' = Orphan /\ dummy r' = dummy r.
Proof.
  intros Hg Hn Hr Hst.
  assert (Hn1: nonzero_ids hs) by (intros x Hx; apply Hn; apply in_or_app; left; exact Hx).
  destruct (stored_immutable f gid gpl hs hs' i r Hg Hn Hr) as (r' & Hr' & Hd).
  exists r'. split; [exact Hr'|]. split; [|exact Hd].
  destruct (reachable_inv f gid gpl hs Hg Hn1) as (tip & HI).
  destruct (reachable_inv f gid gpl (hs ++ hs') Hg Hn) as (tip' & HI').
  destruct (by_hash_in _ _ _ Hr) as [Hin _]. destruct (by_hash_in _ _ _ Hr') as [Hin' _].
  apply (st_O_iff _ tip' r' HI' Hin').
  assert (Eo: orph r' = orph r) by (apply (f_equal orph) in Hd; exact Hd).
  rewrite Eo. apply (st_O_iff _ tip r HI Hin). exact Hst.
Qed.

(* hence: a descendant of a forbidden header, once stored, is an orphan in every later store as well, whatever
   arrives afterwards (including its missing ancestors' siblings, heavier branches, the forbidden header again) *)
Theorem descendants_of_forbidden_orphan_forever f gid gpl hs hs' r :
  gid <> 0%N -> nonzero_ids (hs ++ hs') -> memN gid f = false -> memN 0%N f = false ->
  desc_forb f (run f gid gpl hs) r ->
  exists r', by_hash (run f gid gpl (hs ++ hs')) (id r) = Some r' /\ st r' = Orphan.
Proof.
  intros Hg Hn Hgf Hzf Hd.
  assert (Hn1: nonzero_ids hs) by (intros x Hx; apply Hn; apply in_or_app; left; exact Hx).
  pose proof (descendants_of_forbidden_orphan_all f gid gpl hs Hg Hn1 Hgf Hzf r Hd) as Hst.
  assert (Hr: In r (run f gid gpl hs)) by (destruct Hd; assumption).
  destruct (reachable_inv f gid gpl hs Hg Hn1) as (tip & HI).
  assert (Hb: by_hash (run f gid gpl hs) (id r) = Some r) by (apply by_hash_some_of_in; [apply HI| exact Hr]).
  destruct (orphans_stay_orphans_all f gid gpl hs hs' (id r) r Hg Hn Hb Hst) as (r' & Hr' & Hs' & _).
  exists r'. split; assumption.
Qed.

(* ---- executable oracle for observed tables (SyncSpec.spec_desc_orphan_all): sound and complete ---- *)
From BHS Require Import SyncSpec.

Lemma o_by_id_rows_of s i : o_by_id (rows_of s) i =
  match by_hash s i with Some p => Some {| o_id := id p; o_prev := prev p; o_st := st p; o_cum := cum p |} | None => None end.
Proof.
  unfold o_by_id, rows_of, by_hash. induction s as [|r s IH]; [reflexivity|].
  cbn [map find o_id]. destruct (N.eqb (id r) i); [reflexivity| exact IH].
Qed.

Lemma st_eqb_Orphan x : st_eqb x Orphan = true <-> x = Orphan.
Proof. destruct x; cbn; split; intros; congruence. Qed.

(* accepted on every store satisfying the structural invariant: no false alarm *)
Theorem desc_orphan_all_inv f s tip : Inv s tip -> no_forb f s -> memN 0%N f = false ->
  spec_desc_orphan_all f (rows_of s) = true.
Proof.
  intros HI Hs Hz. pose proof HI as (Hwf & _). unfold spec_desc_orphan_all. apply forallb_forall. intros o Ho.
  unfold rows_of in Ho. apply in_map_iff in Ho. destruct Ho as (r & <- & Hr). cbn [o_prev o_st].
  fold (rows_of s). rewrite o_by_id_rows_of.
  destruct (memN (prev r) f || _) eqn:Hc; [|reflexivity].
  apply st_eqb_Orphan. apply (st_O_iff _ tip r HI Hr).
  apply orb_true_iff in Hc. destruct Hc as [Hc|Hc].
  - exact (forbidden_parent_orph f s r Hwf Hs Hz Hr Hc).
  - destruct (by_hash s (prev r)) as [p|] eqn:Ep; [|discriminate]. cbn [o_st] in Hc. apply st_eqb_Orphan in Hc.
    destruct (by_hash_in _ _ _ Ep) as [Hp Hid].
    apply (desc_forb_orph_gen s Hwf r p); try assumption.
    apply (st_O_iff _ tip p HI Hp). exact Hc.
Qed.

(* accepted only if every descendant at any depth is an ORPHAN (ids pairwise distinct, as the primary key ensures) *)
Theorem desc_orphan_all_complete f s : NoDup (ids s) ->
  spec_desc_orphan_all f (rows_of s) = true -> forall r, desc_forb f s r -> st r = Orphan.
Proof.
  intros Hnd Hspec r Hd. unfold spec_desc_orphan_all in Hspec. rewrite forallb_forall in Hspec.
  assert (Hrow: forall r, In r s ->
     (memN (prev r) f || match o_by_id (rows_of s) (prev r) with Some p => st_eqb (o_st p) Orphan | None => false end) = true ->
     st r = Orphan).
  { intros x Hx Hc. specialize (Hspec _ (in_map _ s x Hx)). cbn [o_prev o_st] in Hspec. rewrite Hc in Hspec.
    apply st_eqb_Orphan. exact Hspec. }
  induction Hd as [r Hr Hp | r p Hr Hp Hid Hd IH].
  - apply Hrow; [exact Hr|]. rewrite Hp. reflexivity.
  - apply Hrow; [exact Hr|]. rewrite o_by_id_rows_of.
    assert (E: by_hash s (prev r) = Some p).
    { rewrite <- Hid. destruct (by_hash s (id p)) as [q|] eqn:Eq.
      - destruct (by_hash_in _ _ _ Eq) as [Hq Hqid]. f_equal. apply (nodup_ids_unique s Hnd); assumption.
      - exfalso. apply (by_hash_none _ _ Eq). apply in_map. exact Hp. }
    rewrite E. cbn [o_st]. rewrite IH. cbn. apply orb_true_r.
Qed.
