(* C13 model: block locator and getheaders answers.  Definitions only.
   Mirrors /repo/service/header_service.go (LatestHeaderLocator, locateHeadersGetHeaders, LocateHeaders)
   over the SQL statements of /repo/database/sql/headers.go it uses (sqlSelectTip = Store.tipB,
   sqlHeaderByHeight with LONGEST_CHAIN, sqlGetHeadersHeight, sqlHeaderHeightFromHashAndState,
   sqlHeaderByHeightRangeLongestChain), on the newest-first store model of Store.v.
   The cap wire.MaxCFHeadersPerMsg is regenerated from the compiled tree into BHSGen.Params on every run. *)
From Coq Require Import ZArith NArith List Bool.
From BHS Require Import Work Store ChainSpec.
From BHSGen Require Import Params.
Import ListNotations.
Open Scope Z_scope.

Definition cap : Z := max_headers_per_msg.

Definition isL (r : row) : bool := st_eqb (st r) Longest.

(* rowid order (oldest first); rev_append is the linear-time reversal (= rev, List.rev_alt) *)
Definition orev (l : list row) : list row := rev_append l [].

(* sqlHeaderByHeight (height = ? AND header_state = 'LONGEST_CHAIN'), db.Get = first row; the index
   (height, header_state) delivers equal keys in rowid order, i.e. the OLDEST such row *)
Definition by_height_L (s : store) (h : Z) : option row :=
  find (fun r => isL r && (height r =? h)) (orev s).

(* ---------------- LatestHeaderLocator ---------------- *)

(* var maxEntries uint8: uint8(tip.Height)+1, or 12 + FastLog2Floor(uint32(tip.Height) - 10); only the
   capacity of the slice that is allocated, so it cannot influence the result (the model of the loop below
   does not read it); max_entries_exact shows it is the exact final length, max_entries_no_wrap that the
   uint8 arithmetic never wraps for int32 heights *)
Definition max_entries (tipH : Z) : Z :=
  if tipH <=? 12 then (tipH mod 256 + 1) mod 256
  else (12 + fast_log2 ((tipH mod 2^32 - 10) mod 2^32)) mod 256.

(* one pass of the for loop per unit of fuel.  [cur] is `tip`, [n] is len(locator) before the append.
   None = fuel exhausted (never happens with the fuel latest_locator supplies: fuel_suffices). *)
Fixpoint loc_loop (fuel : nat) (s : store) (cur : row) (step : Z) (n : nat) : option (list N) :=
  match fuel with
  | Datatypes.O => None
  | Datatypes.S f =>
    if height cur =? 0 then Some [id cur]                       (* genesis added: break *)
    else
      let h := height cur - step in
      let h := if h <? 0 then 0 else h in
      match by_height_L s h with
      | None => Some [id cur]                                   (* v == nil: return locator *)
      | Some v =>
        let n' := Datatypes.S n in                              (* len(locator) after the append *)
        let step' := if 10 <? Z.of_nat n' then step * 2 else step in
        option_map (cons (id cur)) (loc_loop f s v step' n')
      end
  end.

(* tip == nil -> nil locator *)
Definition latest_locator (s : store) : option (list N) :=
  match tipB s with
  | None => Some []
  | Some t => loc_loop (Datatypes.S (Z.to_nat (height t))) s t 1 Datatypes.O
  end.

(* ---------------- locateHeadersGetHeaders ---------------- *)

Inductive lerr := EStopLow | ELocatorLookup.
Inductive lres := LOk (l : list row) | LErr (e : lerr).

(* sqlGetHeadersHeight: COALESCE(MAX(height), 0) over LONGEST_CHAIN rows whose hash is IN the locator *)
Definition max_opt (m : option Z) (x : Z) : option Z :=
  match m with None => Some x | Some y => Some (Z.max x y) end.
Definition start_height (s : store) (locs : list N) : Z :=
  match fold_right (fun r m => if isL r && memN (id r) locs then max_opt m (height r) else m) None s with
  | None => 0
  | Some x => x
  end.

(* sqlHeaderHeightFromHashAndState: hash = ? AND header_state = 'LONGEST_CHAIN'; sql.ErrNoRows -> 0 *)
Definition stop_height (s : store) (stop : N) : Z :=
  match find (fun r => N.eqb (id r) stop && isL r) (orev s) with
  | Some r => height r
  | None => 0
  end.

(* sqlHeaderByHeightRangeLongestChain: height BETWEEN ? AND ? AND header_state = 'LONGEST_CHAIN', NO ORDER BY.
   SQLite answers it by a range scan of idx_height_state_hash (height, header_state): rows come in
   (height, rowid) order.  That order is modelled here as a stable insertion sort by height of the matching
   rows taken oldest first; the correspondence check validates it on every run (it is not proved about SQLite). *)
Fixpoint insert_h (x : row) (l : list row) : list row :=
  match l with
  | [] => [x]
  | y :: l' => if height x <=? height y then x :: y :: l' else y :: insert_h x l'
  end.
Definition sort_h (l : list row) : list row := fold_right insert_h [] l.
Definition range_L (s : store) (lo hi : Z) : list row :=
  sort_h (filter (fun r => isL r && ((lo <=? height r) && (height r <=? hi))) (orev s)).

(* stop = 0%N is the all-zero hash (hashstop.IsEqual(&chainhash.Hash{})).
   Code as of /repo fix: commits 1ef8815 and 744966c:
   - an empty locator skips the IN (?) query and starts at height 0 (there is no "no locators" error any more);
   - when the stop height is 0 the LONGEST_CHAIN header at height 0 is looked up (GetHeaderByHeight(0)); if the
     stop hash is that header's hash the request is refused like any stop at or below the start. *)
Definition locate_core (s : store) (locs : list N) (stop : N) : lres :=
  let start := match locs with [] => 0 | _ :: _ => start_height s locs end in
  let stopH := if N.eqb stop 0 then start + cap else stop_height s stop in
  if (stopH =? 0) && (match by_height_L s 0 with Some g => N.eqb (id g) stop | None => false end)
  then LErr EStopLow
  else
    let stopH := if stopH =? 0 then start + cap else stopH in
    if stopH <=? start then LErr EStopLow
    else
      let stopH := if cap <? stopH - start then start + cap else stopH in
      LOk (range_L s (start + 1) stopH).

(* sqlGetHeadersHeight binds one SQL variable per locator hash (sqlx.In).  SQLite refuses a statement with more than
   SQLITE_MAX_VARIABLE_NUMBER variables ("too many SQL variables"); the documented default since SQLite 3.32 - and
   the value of the bundled mattn/go-sqlite3 amalgamation - is 32766.  GetHeadersStartHeight then fails and
   locateHeadersGetHeaders returns "error getting headers of locators": the request is refused.  This limit is a
   parameter of the tie (the correspondence check runs locators of 32765..32768 and 40001 hashes); it is far above
   wire.MaxBlockLocatorsPerMsg = 500, the most a getheaders message can carry. *)
Definition sql_max_vars : Z := 32766.
Definition locate (s : store) (locs : list N) (stop : N) : lres :=
  if sql_max_vars <? Z.of_nat (length locs) then LErr ELocatorLookup else locate_core s locs stop.

(* what a peer receives: LocateHeaders logs the error and returns nil; handleGetHeadersMsg sends nothing *)
Definition answer (r : lres) : list row := match r with LOk l => l | LErr _ => [] end.

(* ================= declarative specification (the statement of C13) =================
   Computed from the STRUCTURE of the stored tree only - parent links and cumulative work - never from the
   header_state labels: the longest chain is the list of ancestors-or-self of the best header (ChainSpec.best:
   greatest cumulative work among non-orphans, earliest stored among equals), genesis first. *)
Definition main_chain (s : store) : list row := orev (chain s (spec_tip s)).
Definition tip_height (s : store) : Z := Z.of_nat (length (main_chain s)) - 1.

(* The specification functions take the longest chain as a list [mc] (genesis first) so that they can be
   instantiated both with main_chain (ancestors of the greatest-cumulative-work header: what the statement means,
   coincides with the labels for positive-work histories) and with tip_chain below (ancestors of the header the
   repository reports as tip = the rows labelled LONGEST_CHAIN, for every history incl. zero-work headers). *)

(* --- locator: heights H, H-1, .. one block at a time while at most 10 hashes precede, then the gap doubles
   each time (2, 4, 8, ..); the walk is clamped at height 0 and ends there. --- *)
Definition gap (i : nat) : Z := if Z.of_nat i <=? 10 then 1 else 2 ^ (Z.of_nat i - 10).
Fixpoint spec_heights (fuel : nat) (i : nat) (h : Z) : list Z :=
  match fuel with
  | Datatypes.O => []
  | Datatypes.S f => if h <=? 0 then [0] else h :: spec_heights f (Datatypes.S i) (h - gap i)
  end.
(* the chain header at height h (mc is genesis first and has consecutive heights) *)
Definition at_height_mc (mc : list row) (h : Z) : N :=
  match nth_error mc (Z.to_nat h) with Some r => id r | None => 0%N end.
Definition spec_locator_mc (mc : list row) : list N :=
  map (at_height_mc mc) (spec_heights (length mc) Datatypes.O (Z.of_nat (length mc) - 1)).

(* --- getheaders answer --- *)
(* the genesis block: the first row of the table *)
Definition genesis_id (s : store) : N := match orev s with g :: _ => id g | [] => 0%N end.
(* height of the highest locator entry that is on the chain; 0 (genesis) if none is *)
Definition anchor_mc (mc : list row) (locs : list N) : Z :=
  fold_left (fun a r => if memN (id r) locs then height r else a) mc 0.
Definition spec_locate_mc (mc : list row) (locs : list N) (stop : N) : list row :=
  let a := anchor_mc mc locs in
  let following := filter (fun r => a <? height r) mc in         (* ascending, parent-linked *)
  match find (fun r => N.eqb (id r) stop) mc with
  | Some x =>                                                      (* the stop hash is on the chain *)
    if height x <=? a then []                                      (* at or below the start: nothing *)
    else firstn (Z.to_nat cap) (filter (fun r => height r <=? height x) following)
  | None => firstn (Z.to_nat cap) following
  end.

(* instantiated with the greatest-cumulative-work chain *)
Definition at_height (s : store) : Z -> N := at_height_mc (main_chain s).
Definition spec_locator (s : store) : list N := spec_locator_mc (main_chain s).
Definition anchor (s : store) : list N -> Z := anchor_mc (main_chain s).
Definition spec_locate (s : store) : list N -> N -> list row := spec_locate_mc (main_chain s).

(* the chain of the header the repository reports as tip (sqlSelectTip): label based, any history *)
Definition tip_chain (s : store) : list row :=
  match tipB s with Some t => orev (chain s (id t)) | None => [] end.
