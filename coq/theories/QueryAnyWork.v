(* C04 - the read-side theorems under the any-work invariant  InvSome s := exists tip, Inv s tip
   (ChainFields.reachable_inv: every store reachable by ingestion, zero-work headers included). *)
From Coq Require Import ZArith NArith List Lia Bool.
From BHS Require Import Work Store Chain ChainSpec StoreProofs ChainInv ChainAdd ChainMain ChainFields
  Query QueryProofs QueryAncProofs QueryCaProofs.
Import ListNotations.
Open Scope Z_scope.

Theorem reachable_invsome f gid gpl hs : gid <> 0%N -> nonzero_ids hs -> InvSome (run f gid gpl hs).
Proof. exact (reachable_inv f gid gpl hs). Qed.

Theorem lookup_any_work s t : InvSome s ->
  (forall r, get_by_hash s t = Some r <-> In r s /\ id r = t) /\ (get_by_hash s t = None <-> ~ In t (ids s)).
Proof. intros H. apply lookup_spec_wf, inv_wf, H. Qed.

Theorem by_height_any_work s h c : InvSome s ->
  (forall r, In r (by_height_range s h c) -> In r s /\ h <= height r <= h + count_of c - 1) /\
  (forall r, In r s -> height r < two63 -> st r = Longest -> h <= height r <= h + count_of c - 1 -> In r (by_height_range s h c)).
Proof. intros _. apply by_height_spec. Qed.

Theorem ancestors_any_work s a b : InvSome s -> regular s a -> ancestors_answer_ok s a b (ancestors s a b).
Proof. intros H. apply ancestors_spec_wf, inv_wf, H. Qed.

Theorem ancestors_iff_any_work s a b : InvSome s -> regular s a ->
  ((exists p, ancestors s a b = AOk p) <-> exists rb, by_hash s b = Some rb /\ reach s a rb).
Proof. intros H. apply ancestors_iff_wf, inv_wf, H. Qed.

Theorem common_ancestor_any_work s l hs : InvSome s -> l <> [] -> (forall t, In t l -> regular s t) ->
  Forall2 (fun t r => by_hash s t = Some r) l hs ->
  common_answer_ok s l (min_height hs max_int32) (common_ancestor s l).
Proof. intros H. apply common_ancestor_spec_wf, inv_wf, H. Qed.

Theorem common_ancestor_connected_any_work s l hs : InvSome s -> l <> [] ->
  Forall2 (fun t r => by_hash s t = Some r /\ orph r = false) l hs -> 1 <= min_height hs max_int32 ->
  exists r, common_ancestor s l = COk r.
Proof. intros H. apply common_ancestor_connected_wf, inv_wf, H. Qed.

Theorem connected_regular_any_work s t x : InvSome s -> by_hash s t = Some x -> orph x = false -> regular s t.
Proof. intros H. apply connected_regular, inv_wf, H. Qed.
