(* C18 proofs, part 2: the connection-manager model [ConnMgr]. *)
From Coq Require Import ZArith Lia Bool List.
From BHS Require Import ConnMgr.
Import ListNotations.
Open Scope Z_scope.

Arguments zlen : simpl never.

Lemma zlen_nil {A} : zlen (@nil A) = 0.
Proof. reflexivity. Qed.
Lemma zlen_app {A} (l1 l2 : list A) : zlen (l1 ++ l2) = zlen l1 + zlen l2.
Proof. unfold zlen. rewrite app_length. lia. Qed.
Lemma zlen_cons {A} (x : A) l : zlen (x :: l) = zlen l + 1.
Proof. unfold zlen. simpl length. lia. Qed.
Lemma zlen_nonneg {A} (l : list A) : 0 <= zlen l.
Proof. unfold zlen. lia. Qed.

Lemma task_set_len l id s' : zlen (task_set l id s') = zlen l.
Proof.
  induction l as [|[i s] t IH]; cbn [task_set]; [reflexivity|].
  destruct (i =? id); rewrite !zlen_cons; [reflexivity|rewrite IH; reflexivity].
Qed.

Lemma task_del_len l id st : task_stage l id = Some st -> zlen (task_del l id) = zlen l - 1.
Proof.
  induction l as [|[i s] t IH]; cbn [task_stage task_del]; [discriminate|].
  destruct (i =? id); intros H; rewrite !zlen_cons; [lia|rewrite (IH H); lia].
Qed.

Lemma conn_del_len l id a : conn_addr l id = Some a -> zlen (conn_del l id) = zlen l - 1.
Proof.
  induction l as [|[i b] t IH]; cbn [conn_addr conn_del]; [discriminate|].
  destruct (i =? id); intros H; rewrite !zlen_cons; [lia|rewrite (IH H); lia].
Qed.

(* the slot measure: every one of the TargetOutbound slots is a connection, a request in flight,
   an armed retry timer, or a request that was canceled while in flight *)
Definition slots (s : cst) : Z := zlen (conns s) + zlen (tasks s) + timers s + canceled s.

Record J (s : cst) : Prop := {
  j_slots : slots s = tgt s;
  j_timers : 0 <= timers s;
  j_bans : 0 <= bans s;
  j_canceled : 0 <= canceled s
}.

Ltac cs := cbn [tgt maxf hasban next pend conns tasks timers failed gfailed bans canceled dials
                with_tasks with_pend spawn drop_canceled] in *.

Lemma spawn_slots s : slots (spawn s) = slots s + 1.
Proof. unfold slots. cs. rewrite zlen_app, zlen_cons, zlen_nil. lia. Qed.

Lemma failed_to_slots s a : slots (failed_to s a) = slots s + 1.
Proof. unfold failed_to. rewrite spawn_slots. unfold slots. cs. lia. Qed.

Lemma failed_global_slots s : slots (failed_global s) = slots s + 1.
Proof.
  unfold failed_global. destruct (_ >=? _).
  - unfold slots. cs. lia.
  - rewrite spawn_slots. unfold slots. cs. lia.
Qed.

Lemma failed_to_fields s a :
  tgt (failed_to s a) = tgt s /\ maxf (failed_to s a) = maxf s /\ timers (failed_to s a) = timers s /\
  canceled (failed_to s a) = canceled s /\ conns (failed_to s a) = conns s /\
  (bans (failed_to s a) = bans s \/ bans (failed_to s a) = bans s + 1) /\
  tasks (failed_to s a) = tasks s ++ [(next s + 1, Created)] /\ next (failed_to s a) = next s + 1 /\
  pend (failed_to s a) = pend s.
Proof. unfold failed_to. cs. destruct (_ >=? _); repeat split; auto. Qed.

Lemma failed_global_fields s :
  tgt (failed_global s) = tgt s /\ maxf (failed_global s) = maxf s /\ bans (failed_global s) = bans s /\
  canceled (failed_global s) = canceled s /\ conns (failed_global s) = conns s /\
  (timers (failed_global s) = timers s \/ timers (failed_global s) = timers s + 1).
Proof. unfold failed_global. destruct (_ >=? _); cs; repeat split; auto. Qed.

Lemma J_failed_to s a : slots s + 1 = tgt s -> 0 <= timers s -> 0 <= bans s -> 0 <= canceled s -> J (failed_to s a).
Proof.
  intros H1 H2 H3 H4. destruct (failed_to_fields s a) as [F1 [F2 [F3 [F4 [F5 [F6 _]]]]]].
  constructor; rewrite ?failed_to_slots, ?F1, ?F3, ?F4; lia.
Qed.

Lemma J_failed_global s : slots s + 1 = tgt s -> 0 <= timers s -> 0 <= bans s -> 0 <= canceled s -> J (failed_global s).
Proof.
  intros H1 H2 H3 H4. destruct (failed_global_fields s) as [F1 [F2 [F3 [F4 [F5 F6]]]]].
  constructor; rewrite ?failed_global_slots, ?F1, ?F3, ?F4; lia.
Qed.

Lemma J_failed_conn s a : slots s + 1 = tgt s -> 0 <= timers s -> 0 <= bans s -> 0 <= canceled s -> J (failed_conn s a).
Proof. intros. unfold failed_conn. destruct (hasban s); [apply J_failed_to|apply J_failed_global]; assumption. Qed.

Lemma J_step s e : J s -> J (cstep s e).
Proof.
  intros [H1 H2 H3 H4]. pose proof (zlen_nonneg (conns s)) as Nc. pose proof (zlen_nonneg (tasks s)) as Nt.
  destruct e as [id|id a|id|id|id|id|id|]; cbn [cstep].
  - destruct (task_stage (tasks s) id) as [[| |a]|] eqn:T; try (constructor; assumption).
    constructor; unfold slots in *; cs; rewrite ?task_set_len; assumption.
  - destruct (task_stage (tasks s) id) as [[| |b]|] eqn:T; try (constructor; assumption).
    destruct (zmem id (pend s)).
    + constructor; unfold slots in *; cs; rewrite ?task_set_len; assumption.
    + pose proof (task_del_len _ _ _ T) as L. constructor; unfold slots in *; cs; lia.
  - destruct (task_stage (tasks s) id) as [[| |b]|] eqn:T; try (constructor; assumption).
    pose proof (task_del_len _ _ _ T) as L.
    destruct (zmem id (pend s)).
    + apply J_failed_global; unfold slots in *; cs; lia.
    + constructor; unfold slots in *; cs; lia.
  - destruct (task_stage (tasks s) id) as [[| |b]|] eqn:T; try (constructor; assumption).
    pose proof (task_del_len _ _ _ T) as L.
    destruct (zmem id (pend s)).
    + constructor; unfold slots in *; cs; rewrite ?zlen_app, ?zlen_cons, ?zlen_nil; lia.
    + constructor; unfold slots in *; cs; lia.
  - destruct (task_stage (tasks s) id) as [[| |b]|] eqn:T; try (constructor; assumption).
    pose proof (task_del_len _ _ _ T) as L.
    destruct (zmem id (pend s)).
    + apply J_failed_conn; unfold slots in *; cs; lia.
    + constructor; unfold slots in *; cs; lia.
  - destruct (conn_addr (conns s) id) as [a|] eqn:C.
    + pose proof (conn_del_len _ _ _ C) as L.
      assert (X : (zlen (conn_del (conns s) id) <? tgt s) = true) by (unfold slots in *; lia).
      rewrite X. apply J_failed_conn; unfold slots in *; cs; lia.
    + destruct (zmem id (pend s)); constructor; unfold slots in *; cs; assumption.
  - destruct (conn_addr (conns s) id) as [a|] eqn:C.
    + pose proof (conn_del_len _ _ _ C) as L. constructor; unfold slots in *; cs; lia.
    + destruct (zmem id (pend s)); constructor; unfold slots in *; cs; assumption.
  - destruct (timers s >? 0) eqn:E; [|constructor; assumption].
    constructor; rewrite ?spawn_slots; unfold slots in *; cs; lia.
Qed.

Lemma crun_app s l1 l2 : crun s (l1 ++ l2) = crun (crun s l1) l2.
Proof. unfold crun. apply fold_left_app. Qed.
Lemma crun_snoc s l e : crun s (l ++ [e]) = cstep (crun s l) e.
Proof. rewrite crun_app. reflexivity. Qed.

Lemma J_run s evs : J s -> J (crun s evs).
Proof.
  intros H. induction evs as [|e l IH] using rev_ind; [exact H|]. rewrite crun_snoc. apply J_step. exact IH.
Qed.

Lemma spawn_n_J n : forall s, slots s + Z.of_nat n = tgt s -> 0 <= timers s -> 0 <= bans s -> 0 <= canceled s ->
  J (spawn_n n s).
Proof.
  induction n as [|k IH]; intros s H1 H2 H3 H4.
  - simpl. constructor; try assumption. lia.
  - cbn [spawn_n]. apply IH; rewrite ?spawn_slots; cs; try assumption. lia.
Qed.

Lemma J_init T mf hb : 0 <= T -> J (cinit T mf hb).
Proof.
  intros HT. unfold cinit. apply spawn_n_J; cs; try lia.
  unfold slots, zlen. cs. cbn [length]. lia.
Qed.

Lemma tgt_step s e : tgt (cstep s e) = tgt s /\ maxf (cstep s e) = maxf s.
Proof.
  destruct e as [id|id a|id|id|id|id|id|]; cbn [cstep];
    repeat match goal with
           | |- context [match ?x with _ => _ end] => destruct x eqn:?
           end; cs; auto;
    try (destruct (failed_to_fields (with_tasks s (task_del (tasks s) id)) a) as [F1 [F2 _]]; cs; rewrite F1, F2; auto);
    try (destruct (failed_global_fields (with_tasks s (task_del (tasks s) id))) as [F1 [F2 _]]; cs; rewrite F1, F2; auto).
  all: unfold failed_conn in *.
  all: try (match goal with |- context [hasban ?x] => destruct (hasban x) end).
  all: try (match goal with |- context [failed_to ?x ?y] => destruct (failed_to_fields x y) as [F1 [F2 _]]; cs; rewrite F1, F2; auto end).
  all: try (match goal with |- context [failed_global ?x] => destruct (failed_global_fields x) as [F1 [F2 _]]; cs; rewrite F1, F2; auto end).
Qed.

Lemma tgt_run s evs : tgt (crun s evs) = tgt s /\ maxf (crun s evs) = maxf s.
Proof.
  induction evs as [|e l IH] using rev_ind; [auto|]. rewrite crun_snoc.
  destruct (tgt_step (crun s l) e) as [A B]. destruct IH as [C D]. split; congruence.
Qed.

Lemma spawn_n_tgt n : forall s, tgt (spawn_n n s) = tgt s /\ maxf (spawn_n n s) = maxf s.
Proof. induction n as [|k IH]; intros s; [auto|]. cbn [spawn_n]. destruct (IH (spawn s)) as [A B]. cs. auto. Qed.

Lemma tgt_init T mf hb : tgt (cinit T mf hb) = T /\ maxf (cinit T mf hb) = mf.
Proof. unfold cinit. destruct (spawn_n_tgt (Z.to_nat T) (mkC T mf hb 0 [] [] [] 0 [] 0 0 0 0)) as [A B]. cs. auto. Qed.

(* ------------------------------------------------------------------ the theorems *)
(* every slot is accounted for, after any sequence of events (an address ban no longer costs one) *)
Theorem slot_conservation T mf hb evs :
  0 <= T ->
  let s := crun (cinit T mf hb) evs in
  zlen (conns s) + zlen (tasks s) + timers s + canceled s = T.
Proof.
  intros HT s. pose proof (J_run _ evs (J_init T mf hb HT)) as [H _ _ _].
  destruct (tgt_run (cinit T mf hb) evs) as [A _]. destruct (tgt_init T mf hb) as [B _].
  unfold slots in H. subst s. rewrite H, A, B. reflexivity.
Qed.

(* never more than the target *)
Theorem conns_le_target T mf hb evs : 0 <= T -> zlen (conns (crun (cinit T mf hb) evs)) <= T.
Proof.
  intros HT. pose proof (slot_conservation T mf hb evs HT) as H. cbv zeta in H.
  pose proof (J_run _ evs (J_init T mf hb HT)) as [_ H2 H3 H4].
  pose proof (zlen_nonneg (tasks (crun (cinit T mf hb) evs))). lia.
Qed.

Lemma task_stage_set l id st st' : task_stage l id = Some st -> task_stage (task_set l id st') id = Some st'.
Proof.
  induction l as [|[i x] t IH]; cbn [task_stage task_set]; [discriminate|].
  destruct (i =? id) eqn:E; intros H; cbn [task_stage]; rewrite E; [reflexivity|exact (IH H)].
Qed.

Theorem dial_ok_connects s id a :
  task_stage (tasks s) id = Some (Dialing a) -> zmem id (pend s) = true ->
  conns (cstep s (DialOk id)) = conns s ++ [(id, a)].
Proof. intros H1 H2. cbn [cstep]. rewrite H1, H2. reflexivity. Qed.

(* a request that was not canceled moves on under the event of its stage: Created -> WaitAddr ->
   Dialing a -> connection *)
Theorem request_progress s id :
  (task_stage (tasks s) id = Some Created ->
     task_stage (tasks (cstep s (Registered id))) id = Some WaitAddr /\ zmem id (pend (cstep s (Registered id))) = true) /\
  (forall a, task_stage (tasks s) id = Some WaitAddr -> zmem id (pend s) = true ->
     task_stage (tasks (cstep s (AddrOk id a))) id = Some (Dialing a)) /\
  (forall a, task_stage (tasks s) id = Some (Dialing a) -> zmem id (pend s) = true ->
     conns (cstep s (DialOk id)) = conns s ++ [(id, a)]).
Proof.
  split; [|split].
  - intros H. cbn [cstep]. rewrite H. cs. split; [apply (task_stage_set _ _ _ _ H)|].
    unfold zadd. destruct (zmem id (pend s)) eqn:E; [exact E|]. cbn [zmem existsb]. rewrite Z.eqb_refl. reflexivity.
  - intros a H1 H2. cbn [cstep]. rewrite H1, H2. cs. apply (task_stage_set _ _ _ _ H1).
  - intros a H1 H2. apply dial_ok_connects; assumption.
Qed.

(* an outbound connection that closes is replaced by a new request - always, also when the failure
   counter of its address reaches the ban threshold *)
Theorem replaces_closed T mf hb evs id a :
  0 <= T ->
  let s := crun (cinit T mf hb) evs in
  hasban s = true ->
  conn_addr (conns s) id = Some a ->
  let s' := cstep s (Disconnect id) in
  zlen (conns s') = zlen (conns s) - 1 /\ tasks s' = tasks s ++ [(next s + 1, Created)].
Proof.
  intros HT s Hb C s'. subst s'. cbn [cstep]. rewrite C.
  pose proof (J_run _ evs (J_init T mf hb HT)) as [H1 H2 H3 H4]. fold s in H1, H2, H3, H4.
  pose proof (conn_del_len _ _ _ C) as L. pose proof (zlen_nonneg (tasks s)) as Nt.
  assert (X : (zlen (conn_del (conns s) id) <? tgt s) = true) by (unfold slots in H1; lia).
  rewrite X. unfold failed_conn. cs. rewrite Hb.
  match goal with |- context [failed_to ?x ?y] => destruct (failed_to_fields x y) as [_ [_ [_ [_ [F5 [_ [F7 _]]]]]]] end.
  rewrite F5, F7. cs. split; [exact L|reflexivity].
Qed.

(* whatever the configuration: the closed connection is replaced by a new request or, when the
   global failure counter is at its threshold (no BanAddress configured), by an armed retry timer *)
Theorem replaces_closed_any T mf hb evs id a :
  0 <= T ->
  let s := crun (cinit T mf hb) evs in
  conn_addr (conns s) id = Some a ->
  let s' := cstep s (Disconnect id) in
  zlen (conns s') = zlen (conns s) - 1 /\
  zlen (tasks s') + timers s' = zlen (tasks s) + timers s + 1.
Proof.
  intros HT s C s'.
  pose proof (J_run _ evs (J_init T mf hb HT)) as HJ. fold s in HJ.
  pose proof (J_step s (Disconnect id) HJ) as HJ'. fold s' in HJ'.
  destruct HJ as [H1 H2 H3 H4]. destruct HJ' as [H1' _ _ _].
  destruct (tgt_step s (Disconnect id)) as [Ht _]. fold s' in Ht.
  pose proof (conn_del_len _ _ _ C) as L. pose proof (zlen_nonneg (tasks s)) as Nt.
  assert (X : (zlen (conn_del (conns s) id) <? tgt s) = true) by (unfold slots in H1; lia).
  assert (Hc : conns s' = conn_del (conns s) id /\ canceled s' = canceled s).
  { subst s'. cbn [cstep]. rewrite C, X. unfold failed_conn. cs. destruct (hasban s).
    - match goal with |- context [failed_to ?x ?y] => destruct (failed_to_fields x y) as [_ [_ [_ [F4 [F5 _]]]]] end.
      rewrite F4, F5. cs. split; reflexivity.
    - match goal with |- context [failed_global ?x] => destruct (failed_global_fields x) as [_ [_ [_ [F4 [F5 _]]]]] end.
      rewrite F4, F5. cs. split; reflexivity. }
  destruct Hc as [Hc1 Hc2]. unfold slots in H1, H1'. rewrite Hc1, Hc2 in H1'. rewrite Hc1. split; [exact L|lia].
Qed.

(* ------------------------------------------------------------------ no cancellation on the server's alphabet *)
Lemma zmem_cons k x l : zmem k (x :: l) = (k =? x) || zmem k l.
Proof. reflexivity. Qed.
Lemma zmem_zadd_same k l : zmem k (zadd k l) = true.
Proof. unfold zadd. destruct (zmem k l) eqn:E; [exact E|]. rewrite zmem_cons, Z.eqb_refl. reflexivity. Qed.
Lemma zmem_zadd_mono i k l : zmem i l = true -> zmem i (zadd k l) = true.
Proof. intros H. unfold zadd. destruct (zmem k l); [exact H|]. rewrite zmem_cons, H. apply orb_true_r. Qed.
Lemma zmem_zrem_other i k l : i <> k -> zmem i (zrem k l) = zmem i l.
Proof.
  intros Hne. induction l as [|x t IH]; [reflexivity|]. cbn [zrem filter].
  destruct (x =? k) eqn:E; cbn [negb].
  - apply Z.eqb_eq in E. subst x. rewrite zmem_cons. destruct (i =? k) eqn:E2; [apply Z.eqb_eq in E2; congruence|]. exact IH.
  - rewrite !zmem_cons. unfold zrem in IH. rewrite IH. reflexivity.
Qed.

Lemma task_stage_In l id st : task_stage l id = Some st -> In (id, st) l.
Proof.
  induction l as [|[i x] t IH]; cbn [task_stage]; [discriminate|].
  destruct (i =? id) eqn:E; intros H.
  - apply Z.eqb_eq in E. inversion H. subst. left. reflexivity.
  - right. exact (IH H).
Qed.
Lemma In_task_stage l i st : In (i, st) l -> task_stage l i <> None.
Proof.
  induction l as [|[j x] t IH]; cbn [task_stage]; [intros []|].
  intros [H|H].
  - inversion H. subst. rewrite Z.eqb_refl. discriminate.
  - destruct (j =? i); [discriminate|exact (IH H)].
Qed.
Lemma task_set_fst l id s' : map fst (task_set l id s') = map fst l.
Proof.
  induction l as [|[i x] t IH]; cbn [task_set]; [reflexivity|].
  destruct (i =? id); cbn [map fst]; [reflexivity|rewrite IH; reflexivity].
Qed.
Lemma task_set_In l id s' i st : In (i, st) (task_set l id s') -> (i = id /\ st = s') \/ In (i, st) l.
Proof.
  induction l as [|[j x] t IH]; cbn [task_set]; [intros []|].
  destruct (j =? id) eqn:E.
  - apply Z.eqb_eq in E. subst j. intros [H|H]; [inversion H; left; auto|right; right; exact H].
  - intros [H|H]; [right; left; exact H|]. destruct (IH H) as [X|X]; [left; exact X|right; right; exact X].
Qed.
Lemma task_del_In l id i st : NoDup (map fst l) -> In (i, st) (task_del l id) -> In (i, st) l /\ i <> id.
Proof.
  induction l as [|[j x] t IH]; cbn [task_del]; [intros _ []|].
  intros Hnd Hin. inversion Hnd as [|y l0 Hn Hd]. subst.
  destruct (j =? id) eqn:E.
  - apply Z.eqb_eq in E. subst j. split; [right; exact Hin|].
    intros X. subst i. apply Hn. apply in_map_iff. exists (id, st). split; [reflexivity|exact Hin].
  - destruct Hin as [H|H].
    + inversion H. subst. split; [left; reflexivity|]. apply Z.eqb_neq in E. exact E.
    + destruct (IH Hd H) as [X1 X2]. split; [right; exact X1|exact X2].
Qed.
Lemma task_del_nodup l id : NoDup (map fst l) -> NoDup (map fst (task_del l id)).
Proof.
  induction l as [|[j x] t IH]; cbn [task_del]; intros Hnd; [constructor|].
  inversion Hnd as [|y l0 Hn Hd]. subst.
  destruct (j =? id); [exact Hd|]. cbn [map fst]. constructor; [|exact (IH Hd)].
  intros Hin. apply Hn. apply in_map_iff in Hin. destruct Hin as [[i st] [X1 X2]]. cbn in X1. subst i.
  destruct (task_del_In _ _ _ _ Hd X2) as [X3 _]. apply in_map_iff. exists (j, st). split; [reflexivity|exact X3].
Qed.

(* task ids are fresh and distinct, every registered request is pending, nothing was canceled *)
Record P (s : cst) : Prop := {
  p_le : forall i st, In (i, st) (tasks s) -> i <= next s;
  p_nd : NoDup (map fst (tasks s));
  p_pend : forall i st, In (i, st) (tasks s) -> st <> Created -> zmem i (pend s) = true;
  p_canc : canceled s = 0
}.

Lemma P_ext s s' : tasks s' = tasks s -> next s' = next s -> pend s' = pend s -> canceled s' = canceled s -> P s -> P s'.
Proof. intros E1 E2 E3 E4 [A B C D]. constructor; rewrite ?E1, ?E2, ?E3, ?E4; assumption. Qed.

Lemma P_spawn s : P s -> P (spawn s).
Proof.
  intros [A B C D]. constructor; cs.
  - intros i st Hin. apply in_app_or in Hin. destruct Hin as [H|[H|[]]]; [specialize (A _ _ H); lia|inversion H; lia].
  - rewrite map_app. cbn [map fst].
    assert (Hn : ~ In (next s + 1) (map fst (tasks s))).
    { intros Hin. apply in_map_iff in Hin. destruct Hin as [[i st] [X1 X2]]. cbn in X1. subst i. specialize (A _ _ X2). lia. }
    clear A C. induction (tasks s) as [|[j x] t IH]; cbn [map fst app]; [constructor; [intros []|constructor]|].
    inversion B as [|y l0 Hn0 Hd]. subst. constructor.
    + intros Hin. apply in_app_or in Hin. destruct Hin as [H|[H|[]]]; [exact (Hn0 H)|]. apply Hn. left. cbn. congruence.
    + apply IH; [exact Hd|]. intros H. apply Hn. right. exact H.
  - intros i st Hin Hst. apply in_app_or in Hin. destruct Hin as [H|[H|[]]]; [exact (C _ _ H Hst)|]. inversion H. congruence.
  - exact D.
Qed.

Lemma P_failed_to s a : P s -> P (failed_to s a).
Proof. intros H. unfold failed_to. apply P_spawn. revert H. apply P_ext; reflexivity. Qed.

Lemma P_failed_global s : P s -> P (failed_global s).
Proof.
  intros H. unfold failed_global. destruct (_ >=? _); [|apply P_spawn]; revert H; apply P_ext; reflexivity.
Qed.

Lemma P_failed_conn s a : P s -> P (failed_conn s a).
Proof. intros H. unfold failed_conn. destruct (hasban s); [apply P_failed_to|apply P_failed_global]; exact H. Qed.

Lemma P_del s id : P s -> P (with_tasks s (task_del (tasks s) id)).
Proof.
  intros [A B C D]. constructor; cs.
  - intros i st Hin. destruct (task_del_In _ _ _ _ B Hin) as [X _]. exact (A _ _ X).
  - apply task_del_nodup. exact B.
  - intros i st Hin Hst. destruct (task_del_In _ _ _ _ B Hin) as [X _]. exact (C _ _ X Hst).
  - exact D.
Qed.

Lemma P_step s e :
  P s -> match e with Disconnect id => task_stage (tasks s) id = None | Remove _ => False | _ => True end -> P (cstep s e).
Proof.
  intros HP Hal. pose proof HP as [A B C D].
  destruct e as [id|id a|id|id|id|id|id|]; cbn [cstep].
  - destruct (task_stage (tasks s) id) as [[| |a]|] eqn:T; try exact HP.
    constructor; cs.
    + intros i st Hin. destruct (task_set_In _ _ _ _ _ Hin) as [[X1 X2]|X]; [subst; exact (A _ _ (task_stage_In _ _ _ T))|exact (A _ _ X)].
    + rewrite task_set_fst. exact B.
    + intros i st Hin Hst. destruct (task_set_In _ _ _ _ _ Hin) as [[X1 X2]|X]; [subst; apply zmem_zadd_same|].
      apply zmem_zadd_mono. exact (C _ _ X Hst).
    + exact D.
  - destruct (task_stage (tasks s) id) as [[| |b]|] eqn:T; try exact HP.
    rewrite (C _ _ (task_stage_In _ _ _ T)) by discriminate.
    constructor; cs.
    + intros i st Hin. destruct (task_set_In _ _ _ _ _ Hin) as [[X1 X2]|X]; [subst; exact (A _ _ (task_stage_In _ _ _ T))|exact (A _ _ X)].
    + rewrite task_set_fst. exact B.
    + intros i st Hin Hst. destruct (task_set_In _ _ _ _ _ Hin) as [[X1 X2]|X]; [subst; exact (C _ _ (task_stage_In _ _ _ T) ltac:(discriminate))|exact (C _ _ X Hst)].
    + exact D.
  - destruct (task_stage (tasks s) id) as [[| |b]|] eqn:T; try exact HP.
    rewrite (C _ _ (task_stage_In _ _ _ T)) by discriminate.
    apply P_failed_global. apply P_del. exact HP.
  - destruct (task_stage (tasks s) id) as [[| |b]|] eqn:T; try exact HP.
    rewrite (C _ _ (task_stage_In _ _ _ T)) by discriminate.
    constructor; cs.
    + intros i st Hin. destruct (task_del_In _ _ _ _ B Hin) as [X _]. exact (A _ _ X).
    + apply task_del_nodup. exact B.
    + intros i st Hin Hst. destruct (task_del_In _ _ _ _ B Hin) as [X Y].
      rewrite zmem_zrem_other by exact Y. exact (C _ _ X Hst).
    + exact D.
  - destruct (task_stage (tasks s) id) as [[| |b]|] eqn:T; try exact HP.
    rewrite (C _ _ (task_stage_In _ _ _ T)) by discriminate.
    apply P_failed_conn. apply P_del. exact HP.
  - destruct (conn_addr (conns s) id) as [a|] eqn:Cn.
    + destruct (_ <? _).
      * apply P_failed_conn. constructor; cs; try assumption.
        intros i st Hin Hst. apply zmem_zadd_mono. exact (C _ _ Hin Hst).
      * revert HP. apply P_ext; reflexivity.
    + destruct (zmem id (pend s)); [|exact HP].
      constructor; cs; try assumption.
      intros i st Hin Hst. rewrite zmem_zrem_other; [exact (C _ _ Hin Hst)|].
      intros X. subst i. exact (In_task_stage _ _ _ Hin Hal).
  - destruct Hal.
  - destruct (timers s >? 0); [|exact HP]. apply P_spawn. revert HP. apply P_ext; reflexivity.
Qed.

Lemma P_run evs : forall s, P s -> server_alphabet s evs -> P (crun s evs).
Proof.
  induction evs as [|e t IH]; intros s HP Hal; [exact HP|].
  cbn [server_alphabet] in Hal. destruct Hal as [H1 H2].
  change (crun s (e :: t)) with (crun (cstep s e) t). apply IH; [|exact H2].
  apply P_step; [exact HP|]. destruct e; auto.
Qed.

Lemma P_spawn_n n : forall s, P s -> P (spawn_n n s).
Proof. induction n as [|k IH]; intros s H; [exact H|]. cbn [spawn_n]. apply IH. apply P_spawn. exact H. Qed.

Lemma P_init T mf hb : P (cinit T mf hb).
Proof.
  unfold cinit. apply P_spawn_n. constructor; cs; try reflexivity; try (intros i st []). constructor.
Qed.

(* on the server's alphabet no request is ever canceled ... *)
Theorem no_cancel T mf hb evs :
  server_alphabet (cinit T mf hb) evs -> canceled (crun (cinit T mf hb) evs) = 0.
Proof. intros H. exact (p_canc _ (P_run evs _ (P_init T mf hb) H)). Qed.

(* ... hence: when nothing is in flight any more, the target is established *)
Theorem quiescent_full T mf hb evs :
  0 <= T -> server_alphabet (cinit T mf hb) evs ->
  let s := crun (cinit T mf hb) evs in
  quiescent s -> zlen (conns s) = T.
Proof.
  intros HT Hal s [Q1 Q2]. pose proof (slot_conservation T mf hb evs HT) as H. cbv zeta in H.
  fold s in H. pose proof (no_cancel T mf hb evs Hal) as C. fold s in C.
  rewrite Q1, Q2, C in H. change (zlen (@nil (Z * stage))) with 0 in H. lia.
Qed.

(* ... and as long as the target is not established the manager is still working on it: a request is
   in flight or a retry timer is armed ("keeps asking for addresses and dialling") *)
Theorem still_trying T mf hb evs :
  0 <= T -> server_alphabet (cinit T mf hb) evs ->
  let s := crun (cinit T mf hb) evs in
  zlen (conns s) < T -> tasks s <> [] \/ 0 < timers s.
Proof.
  intros HT Hal s Hlt. pose proof (slot_conservation T mf hb evs HT) as H. cbv zeta in H. fold s in H.
  pose proof (no_cancel T mf hb evs Hal) as C. fold s in C.
  destruct (tasks s) as [|t l] eqn:E; [right|left; discriminate].
  change (zlen (@nil (Z * stage))) with 0 in H. lia.
Qed.

(* for arbitrary callers of the public Disconnect / Remove: the same with the given-up slots counted *)
Theorem quiescent_full_any T mf hb evs :
  0 <= T ->
  let s := crun (cinit T mf hb) evs in
  quiescent s -> zlen (conns s) = T - canceled s.
Proof.
  intros HT s [Q1 Q2]. pose proof (slot_conservation T mf hb evs HT) as H. cbv zeta in H.
  fold s in H. rewrite Q1, Q2 in H. change (zlen (@nil (Z * stage))) with 0 in H. lia.
Qed.

(* ------------------------------------------------------------------ examples *)
(* History: before fix 7026b86 the script below ended quiescent with ONE connection for target 2
   (the 25th refusal of address 0 banned it and returned without a successor request); with the
   repaired code the ban happens and the second connection is established. *)
Definition refusal_ids : list Z := 1 :: map Z.of_nat (seq 3 24).
Definition witness : list cev :=
  flat_map (fun id => [Registered id; AddrOk id 0; DialFail id]) refusal_ids
  ++ [Registered 2; AddrOk 2 1; DialOk 2; Registered 27; AddrOk 27 1; DialOk 27].

Lemma quiescentb_ok s : quiescentb s = true -> quiescent s.
Proof.
  unfold quiescentb, quiescent. destruct (tasks s); [|discriminate].
  intros H. apply Z.eqb_eq in H. auto.
Qed.

Example witness_facts :
  let s := crun (cinit 2 25 true) witness in
  quiescentb s = true /\ zlen (conns s) = 2 /\ bans s = 1 /\ canceled s = 0 /\ dials s = 27.
Proof. vm_compute. repeat split. Qed.

Example witness_alphabet : server_alphabet (cinit 2 25 true) (witness ++ [Disconnect 2; Registered 28]).
Proof. vm_compute. repeat split. Qed.

Example witness_script :
  let s := sfinal (sinit 2 25 true) (flat_map (fun _ => [SG 0; SF 0]) (seq 0 25) ++ [SG 1; SK 1; SG 1; SK 1]) in
  quiescentb s = true /\ zlen (conns s) = 2 /\ dials s = 27 /\ bans s = 1.
Proof. vm_compute. repeat split. Qed.

(* a canceled request: target 1, the request is disconnected while it dials, its success is ignored *)
Example remove_example :
  let s := crun (cinit 2 25 true) [Registered 1; Registered 2; AddrOk 1 0; DialOk 1; Remove 1; AddrOk 2 0; DialOk 2] in
  quiescentb s = true /\ zlen (conns s) = 1 /\ canceled s = 1.
Proof. vm_compute. repeat split. Qed.

Example cancel_example :
  let s := crun (cinit 1 25 true) [Registered 1; AddrOk 1 0; Disconnect 1; DialOk 1] in
  quiescentb s = true /\ zlen (conns s) = 0 /\ canceled s = 1.
Proof. vm_compute. repeat split. Qed.

(* ------------------------------------------------------------------ the script layer stays inside the model *)
Lemma fire_all_run k : forall s, exists evs, fire_all k s = crun s evs.
Proof.
  induction k as [|k IH]; intros s; [exists []; reflexivity|].
  cbn [fire_all]. destruct (timers s >? 0); [|exists []; reflexivity].
  destruct (IH (cstep s TimerFire)) as [evs E]. exists (TimerFire :: evs). rewrite E. reflexivity.
Qed.

Lemma register_all_run k : forall s, exists evs, register_all k s = crun s evs.
Proof.
  induction k as [|k IH]; intros s; [exists []; reflexivity|].
  cbn [register_all]. destruct (first_stage (tasks s) is_created) as [id|]; [|exists []; reflexivity].
  destruct (IH (cstep s (Registered id))) as [evs E]. exists (Registered id :: evs). rewrite E. reflexivity.
Qed.

Lemma burst_run k sel f : forall s n, exists evs, fst (burst k sel f s n) = crun s evs.
Proof.
  induction k as [|k IH]; intros s n; [exists []; reflexivity|].
  cbn [burst]. destruct (first_stage (tasks s) sel) as [id|]; [|exists []; reflexivity].
  destruct (IH (cstep s (f s id n)) (n + 1)) as [evs E]. exists (f s id n :: evs). rewrite E. reflexivity.
Qed.

Lemma settle_run s : exists evs, settle s = crun s evs.
Proof.
  unfold settle. destruct (fire_all_run (Z.to_nat (timers s)) s) as [e1 E1]. rewrite E1.
  destruct (register_all_run (length (tasks (crun s e1))) (crun s e1)) as [e2 E2]. rewrite E2.
  exists (e1 ++ e2). rewrite crun_app. reflexivity.
Qed.

Lemma sstep_run x e : exists evs, core (fst (sstep x e)) = crun (core x) evs.
Proof.
  assert (G : forall ev, exists evs, settle (cstep (core x) ev) = crun (core x) evs).
  { intros ev. destruct (settle_run (cstep (core x) ev)) as [l E]. exists (ev :: l). rewrite E. reflexivity. }
  assert (GB : forall k sel f, exists evs, settle (fst (burst k sel f (core x) 0)) = crun (core x) evs).
  { intros k sel f. destruct (burst_run k sel f (core x) 0) as [l1 E1]. rewrite E1.
    destruct (settle_run (crun (core x) l1)) as [l2 E2]. exists (l1 ++ l2). rewrite crun_app. exact E2. }
  destruct e as [a| |a|a|k| | |k|n| |a]; cbn [sstep].
  - destruct (first_stage _ _); [apply G|exists []; reflexivity].
  - destruct (first_stage _ _); [apply G|exists []; reflexivity].
  - destruct (first_stage _ _); [apply G|exists []; reflexivity].
  - destruct (first_stage _ _); [apply G|exists []; reflexivity].
  - destruct (conns (core x)) as [|c l]; [exists []; reflexivity|].
    destruct (nth_error _ _) as [[id b]|]; [apply G|exists []; reflexivity].
  - destruct (lastdisc x); [apply G|exists []; reflexivity].
  - destruct (tgt (core x) =? 1); [|exists []; reflexivity].
    destruct (tasks (core x)) as [|[id st] [|t2 l]]; [exists []; reflexivity|apply G|exists []; reflexivity].
  - destruct (conns (core x)) as [|c l]; [exists []; reflexivity|].
    destruct (nth_error _ _) as [[id b]|]; [apply G|exists []; reflexivity].
  - destruct (_ =? 0); [exists []; reflexivity|apply GB].
  - destruct (_ =? 0); [exists []; reflexivity|apply GB].
  - destruct (_ =? 0); [exists []; reflexivity|apply GB].
Qed.

(* every state the correspondence check visits is a state of the model the theorems speak about *)
Theorem script_states_reachable T mf hb sevs :
  exists evs, core (fold_left (fun x e => fst (sstep x e)) sevs (sinit T mf hb)) = crun (cinit T mf hb) evs.
Proof.
  induction sevs as [|e l IH] using rev_ind.
  - simpl. destruct (settle_run (cinit T mf hb)) as [evs E]. exists evs. exact E.
  - rewrite fold_left_app. cbn [fold_left]. destruct IH as [evs E].
    destruct (sstep_run (fold_left (fun x e => fst (sstep x e)) l (sinit T mf hb)) e) as [e2 E2].
    exists (evs ++ e2). rewrite crun_app, <- E. exact E2.
Qed.
