(* C18 proofs, part 2: the connection-manager model [ConnMgr]. *)
From Coq Require Import ZArith Lia Bool List.
From BHS Require Import ConnMgr.
Import ListNotations.
Open Scope Z_scope.

Arguments zlen : simpl never.

Lemma zlen_nil {A} : zlen (@nil A) = 0.
Proof. reflexivity. Qed.
Lemma zlen_app {A} (l1 l2 : list A) : zlen (l1 ++ l2) = zlen l1 + zlen l2.
Proof. unfold zlen. rewrite app_length. lia. Qed.
Lemma zlen_cons {A} (x : A) l : zlen (x :: l) = zlen l + 1.
Proof. unfold zlen. simpl length. lia. Qed.
Lemma zlen_nonneg {A} (l : list A) : 0 <= zlen l.
Proof. unfold zlen. lia. Qed.

Lemma task_set_len l id s' : zlen (task_set l id s') = zlen l.
Proof.
  induction l as [|[i s] t IH]; cbn [task_set]; [reflexivity|].
  destruct (i =? id); rewrite !zlen_cons; [reflexivity|rewrite IH; reflexivity].
Qed.

Lemma task_del_len l id st : task_stage l id = Some st -> zlen (task_del l id) = zlen l - 1.
Proof.
  induction l as [|[i s] t IH]; cbn [task_stage task_del]; [discriminate|].
  destruct (i =? id); intros H; rewrite !zlen_cons; [lia|rewrite (IH H); lia].
Qed.

Lemma conn_del_len l id a : conn_addr l id = Some a -> zlen (conn_del l id) = zlen l - 1.
Proof.
  induction l as [|[i b] t IH]; cbn [conn_addr conn_del]; [discriminate|].
  destruct (i =? id); intros H; rewrite !zlen_cons; [lia|rewrite (IH H); lia].
Qed.

(* the slot measure: every one of the TargetOutbound slots is a connection, a request in flight,
   an armed retry timer, or was given up (address ban / canceled request) *)
Definition slots (s : cst) : Z := zlen (conns s) + zlen (tasks s) + timers s + bans s + canceled s.

Record J (s : cst) : Prop := {
  j_slots : slots s = tgt s;
  j_timers : 0 <= timers s;
  j_bans : 0 <= bans s;
  j_canceled : 0 <= canceled s
}.

Ltac cs := cbn [tgt maxf next pend conns tasks timers failed gfailed bans canceled dials
                with_tasks with_pend spawn drop_canceled] in *.

Lemma spawn_slots s : slots (spawn s) = slots s + 1.
Proof. unfold slots. cs. rewrite zlen_app, zlen_cons, zlen_nil. lia. Qed.

Lemma failed_to_slots s a : slots (failed_to s a) = slots s + 1.
Proof.
  unfold failed_to. destruct (_ >=? _).
  - unfold slots. cs. lia.
  - rewrite spawn_slots. unfold slots. cs. lia.
Qed.

Lemma failed_global_slots s : slots (failed_global s) = slots s + 1.
Proof.
  unfold failed_global. destruct (_ >=? _).
  - unfold slots. cs. lia.
  - rewrite spawn_slots. unfold slots. cs. lia.
Qed.

Lemma failed_to_fields s a :
  tgt (failed_to s a) = tgt s /\ maxf (failed_to s a) = maxf s /\ timers (failed_to s a) = timers s /\
  canceled (failed_to s a) = canceled s /\ conns (failed_to s a) = conns s /\
  (bans (failed_to s a) = bans s \/ bans (failed_to s a) = bans s + 1).
Proof. unfold failed_to. destruct (_ >=? _); cs; repeat split; auto. Qed.

Lemma failed_global_fields s :
  tgt (failed_global s) = tgt s /\ maxf (failed_global s) = maxf s /\ bans (failed_global s) = bans s /\
  canceled (failed_global s) = canceled s /\ conns (failed_global s) = conns s /\
  (timers (failed_global s) = timers s \/ timers (failed_global s) = timers s + 1).
Proof. unfold failed_global. destruct (_ >=? _); cs; repeat split; auto. Qed.

Lemma J_failed_to s a : slots s + 1 = tgt s -> 0 <= timers s -> 0 <= bans s -> 0 <= canceled s -> J (failed_to s a).
Proof.
  intros H1 H2 H3 H4. destruct (failed_to_fields s a) as [F1 [F2 [F3 [F4 [F5 F6]]]]].
  constructor; rewrite ?failed_to_slots, ?F1, ?F3, ?F4; lia.
Qed.

Lemma J_failed_global s : slots s + 1 = tgt s -> 0 <= timers s -> 0 <= bans s -> 0 <= canceled s -> J (failed_global s).
Proof.
  intros H1 H2 H3 H4. destruct (failed_global_fields s) as [F1 [F2 [F3 [F4 [F5 F6]]]]].
  constructor; rewrite ?failed_global_slots, ?F1, ?F3, ?F4; lia.
Qed.

Lemma J_step s e : J s -> J (cstep s e).
Proof.
  intros [H1 H2 H3 H4]. pose proof (zlen_nonneg (conns s)) as Nc. pose proof (zlen_nonneg (tasks s)) as Nt.
  destruct e as [id|id a|id|id|id|id|]; cbn [cstep].
  - destruct (task_stage (tasks s) id) as [[| |a]|] eqn:T; try (constructor; assumption).
    constructor; unfold slots in *; cs; rewrite ?task_set_len; assumption.
  - destruct (task_stage (tasks s) id) as [[| |b]|] eqn:T; try (constructor; assumption).
    destruct (zmem id (pend s)).
    + constructor; unfold slots in *; cs; rewrite ?task_set_len; assumption.
    + pose proof (task_del_len _ _ _ T) as L. constructor; unfold slots in *; cs; lia.
  - destruct (task_stage (tasks s) id) as [[| |b]|] eqn:T; try (constructor; assumption).
    pose proof (task_del_len _ _ _ T) as L.
    destruct (zmem id (pend s)).
    + apply J_failed_global; unfold slots in *; cs; lia.
    + constructor; unfold slots in *; cs; lia.
  - destruct (task_stage (tasks s) id) as [[| |b]|] eqn:T; try (constructor; assumption).
    pose proof (task_del_len _ _ _ T) as L.
    destruct (zmem id (pend s)).
    + constructor; unfold slots in *; cs; rewrite ?zlen_app, ?zlen_cons, ?zlen_nil; lia.
    + constructor; unfold slots in *; cs; lia.
  - destruct (task_stage (tasks s) id) as [[| |b]|] eqn:T; try (constructor; assumption).
    pose proof (task_del_len _ _ _ T) as L.
    destruct (zmem id (pend s)).
    + apply J_failed_to; unfold slots in *; cs; lia.
    + constructor; unfold slots in *; cs; lia.
  - destruct (conn_addr (conns s) id) as [a|] eqn:C.
    + pose proof (conn_del_len _ _ _ C) as L.
      assert (X : (zlen (conn_del (conns s) id) <? tgt s) = true) by (unfold slots in *; lia).
      rewrite X. apply J_failed_to; unfold slots in *; cs; lia.
    + destruct (zmem id (pend s)); constructor; unfold slots in *; cs; assumption.
  - destruct (timers s >? 0) eqn:E; [|constructor; assumption].
    constructor; rewrite ?spawn_slots; unfold slots in *; cs; lia.
Qed.

Lemma crun_app s l1 l2 : crun s (l1 ++ l2) = crun (crun s l1) l2.
Proof. unfold crun. apply fold_left_app. Qed.
Lemma crun_snoc s l e : crun s (l ++ [e]) = cstep (crun s l) e.
Proof. rewrite crun_app. reflexivity. Qed.

Lemma J_run s evs : J s -> J (crun s evs).
Proof.
  intros H. induction evs as [|e l IH] using rev_ind; [exact H|]. rewrite crun_snoc. apply J_step. exact IH.
Qed.

Lemma spawn_n_J n : forall s, slots s + Z.of_nat n = tgt s -> 0 <= timers s -> 0 <= bans s -> 0 <= canceled s ->
  J (spawn_n n s).
Proof.
  induction n as [|k IH]; intros s H1 H2 H3 H4.
  - simpl. constructor; try assumption. lia.
  - cbn [spawn_n]. apply IH; rewrite ?spawn_slots; cs; try assumption. lia.
Qed.

Lemma J_init T mf : 0 <= T -> J (cinit T mf).
Proof.
  intros HT. unfold cinit. apply spawn_n_J; cs; try lia.
  unfold slots, zlen. cs. cbn [length]. lia.
Qed.

Lemma tgt_step s e : tgt (cstep s e) = tgt s /\ maxf (cstep s e) = maxf s.
Proof.
  destruct e as [id|id a|id|id|id|id|]; cbn [cstep];
    repeat match goal with
           | |- context [match ?x with _ => _ end] => destruct x eqn:?
           end; cs; auto;
    try (destruct (failed_to_fields (with_tasks s (task_del (tasks s) id)) a) as [F1 [F2 _]]; cs; rewrite F1, F2; auto);
    try (destruct (failed_global_fields (with_tasks s (task_del (tasks s) id))) as [F1 [F2 _]]; cs; rewrite F1, F2; auto).
  all: try (match goal with |- context [failed_to ?x ?y] => destruct (failed_to_fields x y) as [F1 [F2 _]]; cs; rewrite F1, F2; auto end).
Qed.

Lemma tgt_run s evs : tgt (crun s evs) = tgt s /\ maxf (crun s evs) = maxf s.
Proof.
  induction evs as [|e l IH] using rev_ind; [auto|]. rewrite crun_snoc.
  destruct (tgt_step (crun s l) e) as [A B]. destruct IH as [C D]. split; congruence.
Qed.

Lemma spawn_n_tgt n : forall s, tgt (spawn_n n s) = tgt s /\ maxf (spawn_n n s) = maxf s.
Proof. induction n as [|k IH]; intros s; [auto|]. cbn [spawn_n]. destruct (IH (spawn s)) as [A B]. cs. auto. Qed.

Lemma tgt_init T mf : tgt (cinit T mf) = T /\ maxf (cinit T mf) = mf.
Proof. unfold cinit. destruct (spawn_n_tgt (Z.to_nat T) (mkC T mf 0 [] [] [] 0 [] 0 0 0 0)) as [A B]. cs. auto. Qed.

(* ------------------------------------------------------------------ the theorems *)
(* every slot is accounted for, after any sequence of events *)
Theorem slot_conservation T mf evs :
  0 <= T ->
  let s := crun (cinit T mf) evs in
  zlen (conns s) + zlen (tasks s) + timers s + bans s + canceled s = T.
Proof.
  intros HT s. pose proof (J_run _ evs (J_init T mf HT)) as [H _ _ _].
  destruct (tgt_run (cinit T mf) evs) as [A _]. destruct (tgt_init T mf) as [B _].
  unfold slots in H. subst s. rewrite H, A, B. reflexivity.
Qed.

(* never more than the target *)
Theorem conns_le_target T mf evs : 0 <= T -> zlen (conns (crun (cinit T mf) evs)) <= T.
Proof.
  intros HT. pose proof (slot_conservation T mf evs HT) as H. cbv zeta in H.
  pose proof (J_run _ evs (J_init T mf HT)) as [_ H2 H3 H4].
  pose proof (zlen_nonneg (tasks (crun (cinit T mf) evs))). lia.
Qed.

(* when nothing is in flight any more and no slot was given up, the target is established *)
Theorem quiescent_full T mf evs :
  0 <= T ->
  let s := crun (cinit T mf) evs in
  quiescent s -> bans s = 0 -> canceled s = 0 -> zlen (conns s) = T.
Proof.
  intros HT s [Q1 Q2] B C. pose proof (slot_conservation T mf evs HT) as H. cbv zeta in H.
  fold s in H. rewrite Q1, Q2, B, C, zlen_nil in H. lia.
Qed.

(* as long as the target is not established and no slot was given up, the manager is still working
   on it: a request is in flight or a retry timer is armed *)
Theorem still_trying T mf evs :
  0 <= T ->
  let s := crun (cinit T mf) evs in
  zlen (conns s) < T -> bans s = 0 -> canceled s = 0 -> tasks s <> [] \/ 0 < timers s.
Proof.
  intros HT s Hlt B C. pose proof (slot_conservation T mf evs HT) as H. cbv zeta in H. fold s in H.
  destruct (tasks s) as [|t l] eqn:E; [right|left; discriminate].
  rewrite zlen_nil in H. lia.
Qed.

(* a request in flight is never stuck: in each stage some event applies to it, and a successful
   dial of a request that was not canceled adds a connection *)
Theorem dial_ok_connects s id a :
  task_stage (tasks s) id = Some (Dialing a) -> zmem id (pend s) = true ->
  conns (cstep s (DialOk id)) = conns s ++ [(id, a)].
Proof. intros H1 H2. cbn [cstep]. rewrite H1, H2. reflexivity. Qed.

Lemma task_stage_set l id st st' : task_stage l id = Some st -> task_stage (task_set l id st') id = Some st'.
Proof.
  induction l as [|[i x] t IH]; cbn [task_stage task_set]; [discriminate|].
  destruct (i =? id) eqn:E; intros H; cbn [task_stage]; rewrite E; [reflexivity|exact (IH H)].
Qed.

(* a request that was not canceled moves on under the event of its stage: Created -> WaitAddr ->
   Dialing a -> connection *)
Theorem request_progress s id :
  (task_stage (tasks s) id = Some Created ->
     task_stage (tasks (cstep s (Registered id))) id = Some WaitAddr /\ zmem id (pend (cstep s (Registered id))) = true) /\
  (forall a, task_stage (tasks s) id = Some WaitAddr -> zmem id (pend s) = true ->
     task_stage (tasks (cstep s (AddrOk id a))) id = Some (Dialing a)) /\
  (forall a, task_stage (tasks s) id = Some (Dialing a) -> zmem id (pend s) = true ->
     conns (cstep s (DialOk id)) = conns s ++ [(id, a)]).
Proof.
  split; [|split].
  - intros H. cbn [cstep]. rewrite H. cs. split; [apply (task_stage_set _ _ _ _ H)|].
    unfold zadd. destruct (zmem id (pend s)) eqn:E; [exact E|]. cbn [zmem existsb]. rewrite Z.eqb_refl. reflexivity.
  - intros a H1 H2. cbn [cstep]. rewrite H1, H2. cs. apply (task_stage_set _ _ _ _ H1).
  - intros a H1 H2. apply dial_ok_connects; assumption.
Qed.

(* an outbound connection that closes is replaced by a new request - unless the failure counter of
   its address reaches the threshold, in which case the address is banned and NOTHING replaces it *)
Theorem replaces_closed T mf evs id a :
  0 <= T ->
  let s := crun (cinit T mf) evs in
  conn_addr (conns s) id = Some a ->
  (fget (failed s) a + 1) mod 65536 < mf ->
  let s' := cstep s (Disconnect id) in
  zlen (conns s') = zlen (conns s) - 1 /\ tasks s' = tasks s ++ [(next s + 1, Created)] /\ bans s' = bans s.
Proof.
  intros HT s C F s'. subst s'. cbn [cstep]. rewrite C.
  pose proof (J_run _ evs (J_init T mf HT)) as [H1 H2 H3 H4]. fold s in H1, H2, H3, H4.
  pose proof (conn_del_len _ _ _ C) as L. pose proof (zlen_nonneg (tasks s)) as Nt.
  assert (X : (zlen (conn_del (conns s) id) <? tgt s) = true) by (unfold slots in H1; lia).
  rewrite X. unfold failed_to. cs.
  destruct (tgt_run (cinit T mf) evs) as [_ M]. destruct (tgt_init T mf) as [_ M2]. fold s in M.
  assert (Y : ((fget (failed s) a + 1) mod 65536 >=? maxf s) = false) by (rewrite M, M2; lia).
  rewrite Y. cs. repeat split; try reflexivity; exact L.
Qed.

Theorem closed_not_replaced_at_threshold T mf evs id a :
  0 <= T ->
  let s := crun (cinit T mf) evs in
  conn_addr (conns s) id = Some a ->
  mf <= (fget (failed s) a + 1) mod 65536 ->
  let s' := cstep s (Disconnect id) in
  zlen (conns s') = zlen (conns s) - 1 /\ tasks s' = tasks s /\ timers s' = timers s /\ bans s' = bans s + 1.
Proof.
  intros HT s C F s'. subst s'. cbn [cstep]. rewrite C.
  pose proof (J_run _ evs (J_init T mf HT)) as [H1 H2 H3 H4]. fold s in H1, H2, H3, H4.
  pose proof (conn_del_len _ _ _ C) as L. pose proof (zlen_nonneg (tasks s)) as Nt.
  assert (X : (zlen (conn_del (conns s) id) <? tgt s) = true) by (unfold slots in H1; lia).
  rewrite X. unfold failed_to. cs.
  destruct (tgt_run (cinit T mf) evs) as [_ M]. destruct (tgt_init T mf) as [_ M2]. fold s in M.
  assert (Y : ((fget (failed s) a + 1) mod 65536 >=? maxf s) = true) by (rewrite M, M2; lia).
  rewrite Y. cs. repeat split; try reflexivity; exact L.
Qed.

(* ------------------------------------------------------------------ the defect *)
(* 25 refusals of address 0 (each by the successor of the previous request), then the other
   request connects to address 1: nothing in flight, no timer, ONE connection for target 2. *)
Definition refusal_ids : list Z := 1 :: map Z.of_nat (seq 3 24).
Definition witness : list cev :=
  flat_map (fun id => [Registered id; AddrOk id 0; DialFail id]) refusal_ids
  ++ [Registered 2; AddrOk 2 1; DialOk 2].

Example witness_facts :
  let s := crun (cinit 2 25) witness in
  quiescentb s = true /\ zlen (conns s) = 1 /\ bans s = 1 /\ canceled s = 0 /\ dials s = 26.
Proof. vm_compute. repeat split. Qed.

Lemma quiescentb_ok s : quiescentb s = true -> quiescent s.
Proof.
  unfold quiescentb, quiescent. destruct (tasks s); [|discriminate].
  intros H. apply Z.eqb_eq in H. auto.
Qed.

(* The property statement "keeps dialling until the target number of outbound connections is
   established" fails: a quiescent state below the target is reachable without any request having
   been canceled. *)
Theorem ban_loses_slot_refuted :
  ~ (forall T mf evs, 0 <= T ->
       let s := crun (cinit T mf) evs in quiescent s -> canceled s = 0 -> zlen (conns s) = T).
Proof.
  intros H. specialize (H 2 25 witness). cbv zeta in H.
  assert (Q : quiescent (crun (cinit 2 25) witness)) by (apply quiescentb_ok; vm_compute; reflexivity).
  assert (C : canceled (crun (cinit 2 25) witness) = 0) by (vm_compute; reflexivity).
  specialize (H ltac:(lia) Q C). vm_compute in H. discriminate H.
Qed.

(* the same through the script layer that the correspondence check drives *)
Example witness_script :
  let s := sfinal (sinit 2 25) (flat_map (fun _ => [SG 0; SF 0]) (seq 0 25) ++ [SG 1; SK 1; SG 1; SK 1]) in
  quiescentb s = true /\ zlen (conns s) = 1 /\ dials s = 26 /\ cm_check 2 (zlen (conns s)) (n_wait s) 0 (bans s) = 2%nat.
Proof. vm_compute. repeat split. Qed.

(* ------------------------------------------------------------------ the script layer stays inside the model *)
Lemma fire_all_run k : forall s, exists evs, fire_all k s = crun s evs.
Proof.
  induction k as [|k IH]; intros s; [exists []; reflexivity|].
  cbn [fire_all]. destruct (timers s >? 0); [|exists []; reflexivity].
  destruct (IH (cstep s TimerFire)) as [evs E]. exists (TimerFire :: evs). rewrite E. reflexivity.
Qed.

Lemma register_all_run k : forall s, exists evs, register_all k s = crun s evs.
Proof.
  induction k as [|k IH]; intros s; [exists []; reflexivity|].
  cbn [register_all]. destruct (first_stage (tasks s) is_created) as [id|]; [|exists []; reflexivity].
  destruct (IH (cstep s (Registered id))) as [evs E]. exists (Registered id :: evs). rewrite E. reflexivity.
Qed.

Lemma settle_run s : exists evs, settle s = crun s evs.
Proof.
  unfold settle. destruct (fire_all_run (Z.to_nat (timers s)) s) as [e1 E1]. rewrite E1.
  destruct (register_all_run (length (tasks (crun s e1))) (crun s e1)) as [e2 E2]. rewrite E2.
  exists (e1 ++ e2). rewrite crun_app. reflexivity.
Qed.

Lemma sstep_run x e : exists evs, core (fst (sstep x e)) = crun (core x) evs.
Proof.
  assert (G : forall ev, exists evs, settle (cstep (core x) ev) = crun (core x) evs).
  { intros ev. destruct (settle_run (cstep (core x) ev)) as [l E]. exists (ev :: l). rewrite E. reflexivity. }
  destruct e as [a| |a|a|k|]; cbn [sstep].
  - destruct (first_stage _ _); [apply G|exists []; reflexivity].
  - destruct (first_stage _ _); [apply G|exists []; reflexivity].
  - destruct (first_stage _ _); [apply G|exists []; reflexivity].
  - destruct (first_stage _ _); [apply G|exists []; reflexivity].
  - destruct (conns (core x)) as [|c l]; [exists []; reflexivity|].
    destruct (nth_error _ _) as [[id b]|]; [apply G|exists []; reflexivity].
  - destruct (lastdisc x); [apply G|exists []; reflexivity].
Qed.

(* every state the correspondence check visits is a state of the model the theorems speak about *)
Theorem script_states_reachable T mf sevs :
  exists evs, core (fold_left (fun x e => fst (sstep x e)) sevs (sinit T mf)) = crun (cinit T mf) evs.
Proof.
  induction sevs as [|e l IH] using rev_ind.
  - simpl. destruct (settle_run (cinit T mf)) as [evs E]. exists evs. exact E.
  - rewrite fold_left_app. cbn [fold_left]. destruct IH as [evs E].
    destruct (sstep_run (fold_left (fun x e => fst (sstep x e)) l (sinit T mf)) e) as [e2 E2].
    exists (evs ++ e2). rewrite crun_app, <- E. exact E2.
Qed.
