(* Model of the merkle-root read paths (C02: POST /chain/merkleroot/verify, C08: GET /chain/merkleroot)
   on the shared store model.  Definitions only.

   A merkle root is the abstract id [p_merkle (pl r)] (the harness maps ids to 32 bytes / their hex text
   injectively; a request string that is not the canonical text of any id is an id no row carries).

   Code modelled (one definition per statement / function):
     database/sql/headers.go      sqlTipOfChainHeight, sqlVerifyHash, GetMerkleRootsConfirmations,
                                  getMerkleRootConfirmation, sqlGetSingleMerkleroot,
                                  getLastEvaluatedMerklerootHeight, sqlMerkleRootsFromHeight, GetMerkleRoots
     repository/dto/headers.go    ToMerkleRootConfirmation (int64 comparison since fix 54e9bff)
     database/repository/header_repository.go   GetMerkleRootsConfirmations, GetMerkleRoots (end-of-data rule)
     transports/http/endpoints/api/merkleroots  verify / merkleroots handlers, convertState, batchSize parsing *)
From Coq Require Import ZArith NArith List Bool.
From BHS Require Import Store.
Import ListNotations.
Open Scope Z_scope.

Definition root (r : row) : N := p_merkle (pl r).
Definition is_L (r : row) : bool := st_eqb (st r) Longest.
Definition rh (r : row) : N * Z := (root r, height r).

(* ------------------------------------------------------------------------------------------ *)
(* C02                                                                                        *)
(* ------------------------------------------------------------------------------------------ *)

(* History: before fix 54e9bff ToMerkleRootConfirmation subtracted in int32 and compared with
   int32(maxBlockHeightExcess); the model carried an explicit wrap32 and the statement was refuted for a configured
   excess >= 2^31 (finding C02-excess-int32-wrap, now "fixed"; its witnesses stay in corpus/C02). *)

(* sqlTipOfChainHeight: SELECT MAX(height) FROM headers WHERE header_state = 'LONGEST_CHAIN'
   (NULL - a scan error, answered 400 ErrGetChainTipHeight - when there is no such row) *)
Fixpoint tip_height (s : store) : option Z :=
  match s with
  | [] => None
  | r :: s' => if is_L r
               then Some (match tip_height s' with Some m => Z.max (height r) m | None => height r end)
               else tip_height s'
  end.

(* sqlVerifyHash: SELECT hash FROM headers WHERE merkleroot = $1 AND height = $2 AND header_state = 'LONGEST_CHAIN'
   read with db.Get = the first row (rowid order here; under the ingestion invariant at most one row matches) *)
Definition verify_hash (s : store) (rt : N) (h : Z) : option row :=
  find (fun r => N.eqb (root r) rt && (height r =? h) && is_L r) (rev s).

Inductive confirmation := Confirmed (hash : N) | UnableToVerify | Invalid.

(* getMerkleRootConfirmation + dto.ToMerkleRootConfirmation (as repaired by 54e9bff):
     Hash.Valid                                                                   -> CONFIRMED
     BlockHeight > TipHeight && int64(BlockHeight)-int64(TipHeight) <= int64(excess) -> UNABLE_TO_VERIFY
     else                                                                         -> INVALID
   Ranges assumed: BlockHeight is an int32 (JSON binding of the request; other values are refused with 400 before
   this code runs) and TipHeight is an int32 (MAX(height) scanned into int32), so the int64 subtraction cannot
   overflow and is the subtraction of Z; maxBlockHeightExcess is a Go int (64 bit) and int64(.) of it is the
   identity, so ANY configured value - negative ones included - is compared exactly. *)
Definition verify1 (s : store) (tipH : Z) (excess : Z) (it : N * Z) : confirmation :=
  match verify_hash s (fst it) (snd it) with
  | Some r => Confirmed (id r)
  | None => if (tipH <? snd it) && (snd it - tipH <=? excess) then UnableToVerify else Invalid
  end.

(* one answer item: the request's root and height echoed, and the verdict *)
Definition answer := (N * Z * confirmation)%type.

(* convertState *)
Definition severity (c : confirmation) : Z :=
  match c with Confirmed _ => 0 | UnableToVerify => 1 | Invalid => 2 end.
Inductive overall_state := OConfirmed | OUnable | OInvalid.
Definition overall_sev (o : overall_state) : Z := match o with OConfirmed => 0 | OUnable => 1 | OInvalid => 2 end.
Definition overall_of (c : confirmation) : overall_state :=
  match c with Confirmed _ => OConfirmed | UnableToVerify => OUnable | Invalid => OInvalid end.
(* mapToMerkleRootsConfirmationsResponses: starts at CONFIRMED, replaced on a strictly greater severity *)
Definition overall (l : list answer) : overall_state :=
  fold_left (fun o a => if overall_sev o <? severity (snd a) then overall_of (snd a) else o) l OConfirmed.

Inductive verify_result :=
| VErrEmptyBody                    (* 400 ErrVerifyMerklerootsBadBody: len(body) == 0 *)
| VErrTipHeight                    (* 400 ErrGetChainTipHeight: no LONGEST_CHAIN row *)
| VOk (o : overall_state) (l : list answer).

(* GetMerkleRootsConfirmations with per-item database failures made explicit: the code `continue`s over an item
   whose lookup returned an error other than "no rows", i.e. silently DROPS it.  On a healthy store no lookup
   fails; [verify] below is the behaviour with no failing lookup and is what the theorems and the tie are about. *)
Definition verify_faulty (s : store) (excess : Z) (items : list ((N * Z) * bool)) : verify_result :=
  match items with
  | [] => VErrEmptyBody
  | _ => match tip_height s with
         | None => VErrTipHeight
         | Some tipH =>
           let l := map (fun ib => (fst (fst ib), snd (fst ib), verify1 s tipH excess (fst ib)))
                        (filter (fun ib => negb (snd ib)) items) in
           VOk (overall l) l
         end
  end.

Definition verify (s : store) (excess : Z) (items : list (N * Z)) : verify_result :=
  verify_faulty s excess (map (fun it => (it, false)) items).

(* ---- declarative specification of C02 (on a store whose longest chain is [chain s tip]) ---- *)
Definition best_at (s : store) (tip : N) (h : Z) : option row := find (fun r => height r =? h) (chain s tip).

Definition spec_verify1 (s : store) (tip : N) (excess : Z) (it : N * Z) : confirmation :=
  let above := match by_hash s tip with
               | Some t => (height t <? snd it) && (snd it - height t <=? excess)
               | None => false
               end in
  match best_at s tip (snd it) with
  | Some r => if N.eqb (root r) (fst it) then Confirmed (id r) else if above then UnableToVerify else Invalid
  | None => if above then UnableToVerify else Invalid
  end.

Definition confirmation_eqb (a b : confirmation) : bool :=
  match a, b with
  | Confirmed x, Confirmed y => N.eqb x y
  | UnableToVerify, UnableToVerify | Invalid, Invalid => true
  | _, _ => false
  end.

Definition overall_eqb (a b : overall_state) : bool := overall_sev a =? overall_sev b.

(* worst individual verdict, declaratively: the maximum severity *)
Definition spec_overall_ok (o : overall_state) (l : list answer) : bool :=
  forallb (fun a => severity (snd a) <=? overall_sev o) l &&
  ((overall_sev o =? 0) || existsb (fun a => severity (snd a) =? overall_sev o) l).

(* oracle for ONE observed response: one answer per item in request order, each verdict the specified one,
   overall = the worst *)
Fixpoint spec_answers_ok (s : store) (tip : N) (excess : Z) (items : list (N * Z)) (l : list answer) : bool :=
  match items, l with
  | [], [] => true
  | it :: items', a :: l' =>
    N.eqb (fst (fst a)) (fst it) && (snd (fst a) =? snd it) &&
    confirmation_eqb (snd a) (spec_verify1 s tip excess it) && spec_answers_ok s tip excess items' l'
  | _, _ => false
  end.

(* ------------------------------------------------------------------------------------------ *)
(* C08                                                                                        *)
(* ------------------------------------------------------------------------------------------ *)

(* index order of idx_merkle_root_hash (merkleroot, header_state, hash): 'LONGEST_CHAIN' < 'ORPHAN' < 'STALE',
   then the hash text; [hlt a b] = "hash text of id a sorts before that of id b" (supplied by the harness; it
   matters only when several rows carry the same root) *)
Definition state_rank (x : hstate) : Z := match x with Longest => 0 | Orphan => 1 | Stale => 2 end.
Definition idx_before (hlt : N -> N -> bool) (a b : row) : bool :=
  (state_rank (st a) <? state_rank (st b)) || ((state_rank (st a) =? state_rank (st b)) && hlt (id a) (id b)).

(* sqlGetSingleMerkleroot: SELECT merkleroot, height, header_state FROM headers WHERE merkleroot = ?
   (no ORDER BY, no state filter) read with db.Get = the first row in index order *)
Fixpoint single_merkleroot (hlt : N -> N -> bool) (s : store) (k : N) : option row :=
  match s with
  | [] => None
  | r :: s' =>
    if N.eqb (root r) k then
      match single_merkleroot hlt s' k with
      | None => Some r
      | Some b => if idx_before hlt b r then Some b else Some r
      end
    else single_merkleroot hlt s' k
  end.

Inductive key_res := KHeight (h : Z) | KNotFound | KConflict.

(* getLastEvaluatedMerklerootHeight; the key "" is [None] *)
Definition last_eval_height (hlt : N -> N -> bool) (s : store) (key : option N) : key_res :=
  match key with
  | None => KHeight (-1)
  | Some k => match single_merkleroot hlt s k with
              | None => KNotFound
              | Some r => if is_L r then KHeight (height r) else KConflict
              end
  end.

(* ORDER BY height ASC: stable insertion sort of the rowid-ordered candidates *)
Fixpoint insert_h (r : row) (l : list row) : list row :=
  match l with
  | [] => [r]
  | x :: l' => if height r <=? height x then r :: l else x :: insert_h r l'
  end.
Definition sort_h (l : list row) : list row := fold_right insert_h [] l.

(* sqlMerkleRootsFromHeight: WHERE height > ? AND header_state = 'LONGEST_CHAIN' ORDER BY height ASC LIMIT ? *)
Definition merkle_from_height (s : store) (h : Z) (batch : nat) : list row :=
  firstn batch (sort_h (filter (fun r => is_L r && (h <? height r)) (rev s))).

Inductive page_result :=
| PErrNotFound                                   (* 404 ErrMerkleRootNotFound *)
| PErrConflict                                   (* 409 ErrMerkleRootNotInLongestChain *)
| PErrNoTip                                      (* GetTip failed *)
| POk (content : list (N * Z)) (last_key : option N) (total : Z).

Definition last_opt {A} (l : list A) : option A := match rev l with [] => None | x :: _ => Some x end.

(* sqlSelectTip, as Store.tipB but with the inner MAX(height) evaluated once (convertible to tipB:
   MerklePageProofs.tip_row_is_tipB is proved by reflexivity) - the extracted tipB recomputes it for every row, which
   makes pages on a 2000-block store needlessly quadratic *)
Definition tip_row (s : store) : option row :=
  let m := maxLh s in find (fun r => st_eqb (st r) Longest && (height r =? m)) (rev s).

(* HeaderRepository.GetMerkleRoots: rows, then the tip (sqlSelectTip = Store.tipB), then the end-of-data rule:
   lastEvaluatedKey stays "" iff the page is empty or its last root equals the tip's root;
   totalElements = tip height *)
Definition page (hlt : N -> N -> bool) (s : store) (batch : nat) (key : option N) : page_result :=
  match last_eval_height hlt s key with
  | KNotFound => PErrNotFound
  | KConflict => PErrConflict
  | KHeight h =>
    let rows := merkle_from_height s h batch in
    match tip_row s with
    | None => PErrNoTip
    | Some t =>
      POk (map rh rows)
          (match last_opt rows with
           | None => None
           | Some l => if N.eqb (root t) (root l) then None else Some (root l)
           end)
          (height t)
    end
  end.

(* the handler: batchSize absent -> "2000"; strconv.Atoi failure or a negative value -> 400 ErrInvalidBatchSize.
   Batch sizes beyond int32: Go's int is 64 bit, so strconv.Atoi accepts every decimal up to 2^63-1 (4294967295, 2^31,
   2^31+1, 9223372036854775807 are ordinary values) and fails with a range error - answered 400 like any malformed text -
   from 2^63 on; the value is bound as an int64 to "LIMIT ?", and SQLite's LIMIT with a count larger than the number
   of rows returns all rows.  No arithmetic is done on the batch size anywhere, so nothing wraps.
   [cap]: firstn with a count above the number of stored rows is firstn with (rows + 1) - the model evaluates the page
   with the capped count so that it stays executable for counts like 2^63-1 (page_http_cap proves it is the same page). *)
Inductive batch_arg := BAbsent | BInt (z : Z) | BJunk.
Inductive http_page := HBadBatch | HPage (p : page_result).
Definition cap (s : store) (z : Z) : nat := Z.to_nat (Z.min z (Z.of_nat (S (length s)))).
Definition page_http (hlt : N -> N -> bool) (s : store) (b : batch_arg) (key : option N) : http_page :=
  match b with
  | BAbsent => HPage (page hlt s (cap s 2000) key)
  | BInt z => if (z <? 0) || (9223372036854775807 <? z) then HBadBatch else HPage (page hlt s (cap s z) key)
  | BJunk => HBadBatch
  end.

(* the client's walk: start at "", pass each page's last key on, stop when it comes back empty (or on an error) *)
Fixpoint walk_from (fuel : nat) (hlt : N -> N -> bool) (s : store) (batch : nat) (key : option N) : list page_result :=
  match fuel with
  | O => []
  | S f => let p := page hlt s batch key in
           p :: match p with
                | POk _ (Some k) _ => walk_from f hlt s batch (Some k)
                | _ => []
                end
  end.
Definition walk_pages (fuel : nat) hlt s batch := walk_from fuel hlt s batch None.

Definition content_of (p : page_result) : list (N * Z) := match p with POk c _ _ => c | _ => [] end.
Definition contents (l : list page_result) : list (N * Z) := concat (map content_of l).
Definition is_ok (p : page_result) : bool := match p with POk _ _ _ => true | _ => false end.
Definition key_of (p : page_result) : option N := match p with POk _ k _ => k | _ => None end.

(* ---- declarative specification of C08 ---- *)
(* the longest chain in ascending height order, as (root, height) *)
Definition asc_chain (s : store) (tip : N) : list row := rev (chain s tip).
Definition spec_listing (s : store) (tip : N) : list (N * Z) := map rh (asc_chain s tip).

(* every LONGEST_CHAIN row's root is carried by no other row ("merkle roots pairwise distinct") *)
Definition roots_unique (s : store) : Prop :=
  forall r x, In r s -> In x s -> st r = Longest -> root x = root r -> x = r.
Fixpoint nodupN (l : list N) : bool := match l with [] => true | a :: l' => negb (existsb (N.eqb a) l') && nodupN l' end.
Definition roots_distinct_b (s : store) : bool := nodupN (map root s).

Definition pair_eqb (a b : N * Z) : bool := N.eqb (fst a) (fst b) && (snd a =? snd b).
Fixpoint list_eqb {A} (e : A -> A -> bool) (a b : list A) : bool :=
  match a, b with [] , [] => true | x :: a', y :: b' => e x y && list_eqb e a' b' | _, _ => false end.
Definition optN_eqb (a b : option N) : bool :=
  match a, b with None, None => true | Some x, Some y => N.eqb x y | _, _ => false end.

(* what ONE page must be for a given key, declaratively (roots distinct):
   unknown key -> not found; key of a block off the longest chain -> conflict; otherwise the next [batch]
   longest-chain entries above the key's height, and an empty last key iff nothing is left after the page *)
Definition spec_page (s : store) (tip : N) (batch : nat) (key : option N) : page_result :=
  let listing := asc_chain s tip in
  let total := match by_hash s tip with Some t => height t | None => -1 end in
  let from (n : nat) :=
      let pg := firstn batch (skipn n listing) in
      POk (map rh pg)
          (if (length (skipn n listing) <=? batch)%nat then None
           else match last_opt pg with Some l => Some (root l) | None => None end)
          total in
  match key with
  | None => from 0%nat
  | Some k =>
    match find (fun r => N.eqb (root r) k) s with
    | None => PErrNotFound
    | Some r => if existsb (fun x => N.eqb (id x) (id r)) listing then from (S (Z.to_nat (height r))) else PErrConflict
    end
  end.

Definition page_result_eqb (a b : page_result) : bool :=
  match a, b with
  | PErrNotFound, PErrNotFound | PErrConflict, PErrConflict | PErrNoTip, PErrNoTip => true
  | POk c k t, POk c' k' t' => list_eqb pair_eqb c c' && optN_eqb k k' && (t =? t')
  | _, _ => false
  end.

(* oracle for a complete observed walk (list of page contents in order, page size [batch] >= 1) *)
Definition spec_walk_ok (s : store) (tip : N) (batch : nat) (pages : list (list (N * Z))) : bool :=
  list_eqb pair_eqb (concat pages) (spec_listing s tip) &&
  forallb (fun p => (length p <=? batch)%nat) pages &&
  forallb (fun p => (length p =? batch)%nat) (removelast pages).
