(* C14 proofs, part 1: the wire primitives.  For every primitive
     - decode (encode a ++ rest) = Ok (a, rest)            (round trip, any continuation)
     - decode bs = Ok (a, rest) -> bs = encode a ++ rest    (the accepted encoding is unique)
   The second direction needs the canonical-encoding check of ReadVarInt. *)
From Coq Require Import NArith ZArith List Bool Lia ZifyBool ZifyN ZifyNat.
From BHS Require Import WireBase.
Import ListNotations.
Open Scope N_scope.

(* ---------- take / read_n / read_N ---------- *)

Lemma take_acc_app : forall (a rest acc : bytes),
  take_acc (length a) (a ++ rest) acc = Some (rev acc ++ a, rest).
Proof.
  induction a as [|x a IH]; intros rest acc; simpl.
  - rewrite rev_append_rev, !app_nil_r. reflexivity.
  - rewrite IH. simpl. rewrite <- app_assoc. reflexivity.
Qed.

Lemma take_app : forall (a rest : bytes), take (length a) (a ++ rest) = Some (a, rest).
Proof. intros a rest. unfold take. rewrite take_acc_app. reflexivity. Qed.

Lemma take_acc_inv : forall n bs acc a r,
  take_acc n bs acc = Some (a, r) ->
  exists x, a = rev acc ++ x /\ bs = x ++ r /\ length x = n.
Proof.
  induction n as [|n IH]; intros bs acc a r Ht; simpl in Ht.
  - inversion Ht; subst. exists []. rewrite rev_append_rev, !app_nil_r. auto.
  - destruct bs as [|b bs']; [discriminate|].
    apply IH in Ht. destruct Ht as [x [Ha [Hb Hl]]].
    exists (b :: x). simpl in Ha. rewrite <- app_assoc in Ha. simpl in Ha.
    subst. simpl. auto.
Qed.

Lemma take_inv : forall n bs a r, take n bs = Some (a, r) -> bs = a ++ r /\ length a = n.
Proof.
  intros n bs a r Ht. apply take_acc_inv in Ht. destruct Ht as [x [Ha [Hb Hl]]].
  simpl in Ha. subst. auto.
Qed.

Lemma read_n_app : forall (a rest : bytes), read_n (length a) (a ++ rest) = Ok (a, rest).
Proof.
  intros a rest. destruct a as [|x a]; [reflexivity|].
  unfold read_n. change (length (x :: a)) with (S (length a)).
  change ((x :: a) ++ rest) with (x :: (a ++ rest)).
  change (x :: a ++ rest) with ((x :: a) ++ rest).
  change (S (length a)) with (length (x :: a)).
  rewrite take_app. reflexivity.
Qed.

Lemma read_n_app' : forall n (a rest : bytes), length a = n -> read_n n (a ++ rest) = Ok (a, rest).
Proof. intros n a rest Hl. subst n. apply read_n_app. Qed.

Lemma read_n_inv : forall n bs a r, read_n n bs = Ok (a, r) -> bs = a ++ r /\ length a = n.
Proof.
  intros n bs a r Hr. unfold read_n in Hr. destruct n as [|n].
  - inversion Hr; subst. auto.
  - destruct bs as [|b bs']; [discriminate|].
    destruct (take (S n) (b :: bs')) as [[a' r']|] eqn:Ht; [|discriminate].
    inversion Hr; subst. apply take_inv in Ht. exact Ht.
Qed.

Lemma read_N_app : forall (a rest : bytes), read_N (N.of_nat (length a)) (a ++ rest) = Ok (a, rest).
Proof.
  intros a rest. unfold read_N.
  destruct a as [|x a]; [reflexivity|].
  destruct (N.eqb_spec (N.of_nat (length (x :: a))) 0) as [H0|H0]; [simpl in H0; lia|].
  change ((x :: a) ++ rest) with (x :: (a ++ rest)).
  destruct (N.ltb_spec (N.of_nat (length (x :: a ++ rest))) (N.of_nat (length (x :: a)))) as [Hlt|Hge].
  - simpl in Hlt. rewrite app_length in Hlt. lia.
  - rewrite Nat2N.id. change (x :: a ++ rest) with ((x :: a) ++ rest). rewrite take_app. reflexivity.
Qed.

Lemma read_N_inv : forall n bs a r, read_N n bs = Ok (a, r) -> bs = a ++ r /\ N.of_nat (length a) = n.
Proof.
  intros n bs a r Hr. unfold read_N in Hr.
  destruct (N.eqb_spec n 0) as [H0|H0].
  - inversion Hr; subst. auto.
  - destruct bs as [|b bs']; [discriminate|].
    destruct (N.of_nat (length (b :: bs')) <? n); [discriminate|].
    destruct (take (N.to_nat n) (b :: bs')) as [[a' r']|] eqn:Ht; [|discriminate].
    inversion Hr; subst. apply take_inv in Ht. destruct Ht as [Hb Hl]. split; [exact Hb|lia].
Qed.

(* ---------- bytes_ok ---------- *)

Lemma bytes_ok_app : forall a b, bytes_ok (a ++ b) = bytes_ok a && bytes_ok b.
Proof. intros a b. unfold bytes_ok. apply forallb_app. Qed.

Lemma bytes_ok_app_r : forall a b, bytes_ok (a ++ b) = true -> bytes_ok b = true.
Proof. intros a b H. rewrite bytes_ok_app in H. apply andb_prop in H. tauto. Qed.

Lemma bytes_ok_app_l : forall a b, bytes_ok (a ++ b) = true -> bytes_ok a = true.
Proof. intros a b H. rewrite bytes_ok_app in H. apply andb_prop in H. tauto. Qed.

(* ---------- little / big endian ---------- *)

Lemma le_enc_length : forall k v, length (le_enc k v) = k.
Proof. induction k as [|k IH]; intros v; simpl; [reflexivity|]. rewrite IH. reflexivity. Qed.

Lemma le_dec_enc_mod : forall k v, le_dec (le_enc k v) = v mod 2 ^ (8 * N.of_nat k).
Proof.
  induction k as [|k IH]; intros v.
  - simpl. rewrite N.mod_1_r. reflexivity.
  - cbn [le_enc le_dec]. rewrite IH.
    replace (8 * N.of_nat (S k)) with (8 + 8 * N.of_nat k) by lia.
    rewrite N.pow_add_r. change (2 ^ 8) with 256.
    assert (Hp : 2 ^ (8 * N.of_nat k) <> 0) by (apply N.pow_nonzero; lia).
    rewrite N.mod_mul_r by lia. reflexivity.
Qed.

Lemma le_dec_enc : forall k v, v < 2 ^ (8 * N.of_nat k) -> le_dec (le_enc k v) = v.
Proof. intros k v Hv. rewrite le_dec_enc_mod. apply N.mod_small. exact Hv. Qed.

Lemma le_dec_bound : forall bs, bytes_ok bs = true -> le_dec bs < 2 ^ (8 * N.of_nat (length bs)).
Proof.
  induction bs as [|b bs IH]; intros Hok.
  - simpl. lia.
  - simpl in Hok. apply andb_prop in Hok. destruct Hok as [Hb Hbs]. unfold byte_ok in Hb.
    specialize (IH Hbs). cbn [le_dec length].
    replace (8 * N.of_nat (S (length bs))) with (8 + 8 * N.of_nat (length bs)) by lia.
    rewrite N.pow_add_r. change (2 ^ 8) with 256. lia.
Qed.

Lemma le_enc_dec : forall bs, bytes_ok bs = true -> le_enc (length bs) (le_dec bs) = bs.
Proof.
  induction bs as [|b bs IH]; intros Hok; [reflexivity|].
  simpl in Hok. apply andb_prop in Hok. destruct Hok as [Hb Hbs]. unfold byte_ok in Hb.
  cbn [le_dec length le_enc].
  assert (Hm : (b + 256 * le_dec bs) mod 256 = b).
  { replace (b + 256 * le_dec bs) with (b + le_dec bs * 256) by lia.
    rewrite N.mod_add by lia. apply N.mod_small. lia. }
  assert (Hd : (b + 256 * le_dec bs) / 256 = le_dec bs).
  { replace (b + 256 * le_dec bs) with (b + le_dec bs * 256) by lia.
    rewrite N.div_add by lia. rewrite (N.div_small b 256) by lia. lia. }
  rewrite Hm, Hd, IH by exact Hbs. reflexivity.
Qed.

Lemma read_le_enc : forall k v rest, v < 2 ^ (8 * N.of_nat k) ->
  read_le k (le_enc k v ++ rest) = Ok (v, rest).
Proof.
  intros k v rest Hv. unfold read_le.
  rewrite (read_n_app' k) by apply le_enc_length. simpl. rewrite le_dec_enc by exact Hv. reflexivity.
Qed.

Lemma read_le_inv : forall k bs v r, bytes_ok bs = true -> read_le k bs = Ok (v, r) ->
  bs = le_enc k v ++ r /\ v < 2 ^ (8 * N.of_nat k) /\ bytes_ok r = true.
Proof.
  intros k bs v r Hok Hr. unfold read_le in Hr.
  destruct (read_n k bs) as [[a r']|e] eqn:Hn; simpl in Hr; [|discriminate].
  inversion Hr; subst. apply read_n_inv in Hn. destruct Hn as [Hb Hl]. subst bs.
  pose proof (bytes_ok_app_l _ _ Hok) as Ha. pose proof (bytes_ok_app_r _ _ Hok) as Hr'.
  split; [|split].
  - rewrite <- Hl. rewrite le_enc_dec by exact Ha. reflexivity.
  - rewrite <- Hl. apply le_dec_bound. exact Ha.
  - exact Hr'.
Qed.

Lemma bytes_ok_rev : forall bs, bytes_ok (rev bs) = bytes_ok bs.
Proof.
  induction bs as [|b bs IH]; [reflexivity|]. simpl. rewrite bytes_ok_app. simpl.
  rewrite IH. rewrite andb_true_r. apply andb_comm.
Qed.

Lemma read_be_enc : forall k v rest, v < 2 ^ (8 * N.of_nat k) ->
  read_be k (be_enc k v ++ rest) = Ok (v, rest).
Proof.
  intros k v rest Hv. unfold read_be, be_enc.
  rewrite (read_n_app' k) by (rewrite rev_length; apply le_enc_length).
  simpl. unfold be_dec. rewrite rev_involutive, le_dec_enc by exact Hv. reflexivity.
Qed.

Lemma read_be_inv : forall k bs v r, bytes_ok bs = true -> read_be k bs = Ok (v, r) ->
  bs = be_enc k v ++ r /\ v < 2 ^ (8 * N.of_nat k) /\ bytes_ok r = true.
Proof.
  intros k bs v r Hok Hr. unfold read_be in Hr.
  destruct (read_n k bs) as [[a r']|e] eqn:Hn; simpl in Hr; [|discriminate].
  inversion Hr; subst. apply read_n_inv in Hn. destruct Hn as [Hb Hl]. subst bs.
  pose proof (bytes_ok_app_l _ _ Hok) as Ha. pose proof (bytes_ok_app_r _ _ Hok) as Hr'.
  assert (Hra : bytes_ok (rev a) = true) by (rewrite bytes_ok_rev; exact Ha).
  unfold be_enc, be_dec. split; [|split].
  - rewrite <- Hl, <- (rev_length a). rewrite le_enc_dec by exact Hra. rewrite rev_involutive. reflexivity.
  - rewrite <- Hl, <- (rev_length a). apply le_dec_bound. exact Hra.
  - exact Hr'.
Qed.

(* ---------- two's complement ---------- *)

Lemma signed32_roundtrip : forall z, sfits 32 z = true -> to_signed 32 (of_signed 32 z) = z.
Proof.
  intros z Hz. unfold sfits in Hz. unfold to_signed, of_signed.
  change (2 ^ (32 - 1)) with 2147483648 in *. change (2 ^ 32) with 4294967296.
  change (Z.of_N 4294967296) with 4294967296%Z. change (Z.of_N 2147483648) with 2147483648%Z in Hz.
  destruct (Z.ltb_spec z 0) as [Hneg|Hpos].
  - replace (z mod 4294967296)%Z with (z + 4294967296)%Z
      by (apply Z.mod_unique with (q := (-1)%Z); lia).
    destruct (N.ltb_spec (Z.to_N (z + 4294967296)) 2147483648); lia.
  - rewrite Z.mod_small by lia.
    destruct (N.ltb_spec (Z.to_N z) 2147483648); lia.
Qed.

Lemma signed64_roundtrip : forall z, sfits 64 z = true -> to_signed 64 (of_signed 64 z) = z.
Proof.
  intros z Hz. unfold sfits in Hz. unfold to_signed, of_signed.
  change (2 ^ (64 - 1)) with 9223372036854775808 in *. change (2 ^ 64) with 18446744073709551616.
  change (Z.of_N 18446744073709551616) with 18446744073709551616%Z.
  change (Z.of_N 9223372036854775808) with 9223372036854775808%Z in Hz.
  destruct (Z.ltb_spec z 0) as [Hneg|Hpos].
  - replace (z mod 18446744073709551616)%Z with (z + 18446744073709551616)%Z
      by (apply Z.mod_unique with (q := (-1)%Z); lia).
    destruct (N.ltb_spec (Z.to_N (z + 18446744073709551616)) 9223372036854775808); lia.
  - rewrite Z.mod_small by lia.
    destruct (N.ltb_spec (Z.to_N z) 9223372036854775808); lia.
Qed.

Lemma of_signed32_bound : forall z, of_signed 32 z < 2 ^ 32.
Proof.
  intros z. unfold of_signed. change (2 ^ 32) with 4294967296.
  change (Z.of_N 4294967296) with 4294967296%Z.
  pose proof (Z.mod_pos_bound z 4294967296 ltac:(lia)). lia.
Qed.

Lemma of_signed64_bound : forall z, of_signed 64 z < 2 ^ 64.
Proof.
  intros z. unfold of_signed. change (2 ^ 64) with 18446744073709551616.
  change (Z.of_N 18446744073709551616) with 18446744073709551616%Z.
  pose proof (Z.mod_pos_bound z 18446744073709551616 ltac:(lia)). lia.
Qed.

Lemma unsigned32_roundtrip : forall z, ufits_z 32 z = true -> Z.of_N (of_signed 32 z) = z.
Proof.
  intros z Hz. unfold ufits_z in Hz. unfold of_signed. change (2 ^ 32) with 4294967296 in *.
  change (Z.of_N 4294967296) with 4294967296%Z in *.
  rewrite Z.mod_small by lia. lia.
Qed.

Lemma of_to_signed32 : forall n, n < 2 ^ 32 -> of_signed 32 (to_signed 32 n) = n.
Proof.
  intros n Hn. unfold to_signed, of_signed.
  change (2 ^ (32 - 1)) with 2147483648. change (2 ^ 32) with 4294967296 in *.
  change (Z.of_N 4294967296) with 4294967296%Z.
  destruct (N.ltb_spec n 2147483648) as [Hs|Hb].
  - rewrite Z.mod_small by lia. lia.
  - replace ((Z.of_N n - 4294967296) mod 4294967296)%Z with (Z.of_N n)
      by (apply Z.mod_unique with (q := (-1)%Z); lia). lia.
Qed.

Lemma of_to_signed64 : forall n, n < 2 ^ 64 -> of_signed 64 (to_signed 64 n) = n.
Proof.
  intros n Hn. unfold to_signed, of_signed.
  change (2 ^ (64 - 1)) with 9223372036854775808. change (2 ^ 64) with 18446744073709551616 in *.
  change (Z.of_N 18446744073709551616) with 18446744073709551616%Z.
  destruct (N.ltb_spec n 9223372036854775808) as [Hs|Hb].
  - rewrite Z.mod_small by lia. lia.
  - replace ((Z.of_N n - 18446744073709551616) mod 18446744073709551616)%Z with (Z.of_N n)
      by (apply Z.mod_unique with (q := (-1)%Z); lia). lia.
Qed.

Lemma of_signed32_of_N : forall n, n < 2 ^ 32 -> of_signed 32 (Z.of_N n) = n.
Proof.
  intros n Hn. unfold of_signed. change (2 ^ 32) with 4294967296 in *.
  change (Z.of_N 4294967296) with 4294967296%Z. rewrite Z.mod_small by lia. lia.
Qed.

(* ---------- varint ---------- *)

Lemma pow8_1 : 2 ^ (8 * N.of_nat 1) = 256. Proof. reflexivity. Qed.
Lemma pow8_2 : 2 ^ (8 * N.of_nat 2) = 65536. Proof. reflexivity. Qed.
Lemma pow8_4 : 2 ^ (8 * N.of_nat 4) = 4294967296. Proof. reflexivity. Qed.
Lemma pow8_8 : 2 ^ (8 * N.of_nat 8) = 18446744073709551616. Proof. reflexivity. Qed.

Lemma read_le1_cons : forall b rest, read_le 1 (b :: rest) = Ok (b, rest).
Proof.
  intros b rest. unfold read_le. change (b :: rest) with ([b] ++ rest).
  rewrite (read_n_app' 1) by reflexivity. simpl bind. cbn [le_dec]. f_equal. f_equal. lia.
Qed.

Local Opaque le_enc le_dec.

Lemma dec_enc_varint : forall v rest, v < 2 ^ 64 ->
  dec_varint (enc_varint v ++ rest) = Ok (v, rest).
Proof.
  intros v rest Hv. change (2 ^ 64) with 18446744073709551616 in Hv.
  unfold enc_varint, dec_varint.
  destruct (N.ltb_spec v 253) as [H1|H1].
  - simpl app. rewrite read_le1_cons. simpl bind.
    destruct (N.eqb_spec v 255); [lia|]. destruct (N.eqb_spec v 254); [lia|].
    destruct (N.eqb_spec v 253); [lia|]. reflexivity.
  - destruct (N.leb_spec v 65535) as [H2|H2].
    + simpl app. rewrite read_le1_cons. simpl bind.
      rewrite read_le_enc by (rewrite pow8_2; lia). simpl bind.
      destruct (N.ltb_spec v 253); [lia|]. reflexivity.
    + destruct (N.leb_spec v 4294967295) as [H3|H3].
      * simpl app. rewrite read_le1_cons. simpl bind.
        rewrite read_le_enc by (rewrite pow8_4; lia). simpl bind.
        destruct (N.ltb_spec v 65536); [lia|]. reflexivity.
      * simpl app. rewrite read_le1_cons. simpl bind.
        rewrite read_le_enc by (rewrite pow8_8; lia). simpl bind.
        destruct (N.ltb_spec v 4294967296); [lia|]. reflexivity.
Qed.

Local Transparent le_enc le_dec.

(* the accepted encoding of a count is the one WriteVarInt produces: this is what the
   canonical-encoding check of ReadVarInt buys *)
Lemma dec_varint_inv : forall bs v r, bytes_ok bs = true -> dec_varint bs = Ok (v, r) ->
  bs = enc_varint v ++ r /\ v < 2 ^ 64 /\ bytes_ok r = true.
Proof.
  intros bs v r Hok Hd. unfold dec_varint in Hd.
  destruct (read_le 1 bs) as [[d r0]|e] eqn:H1; simpl in Hd; [|discriminate].
  apply read_le_inv in H1; [|exact Hok]. destruct H1 as [Hbs [Hd256 Hr0]]. rewrite pow8_1 in Hd256.
  change (2 ^ 64) with 18446744073709551616.
  assert (Hd1 : le_enc 1 d = [d]).
  { simpl. rewrite N.mod_small by lia. reflexivity. }
  rewrite Hd1 in Hbs. unfold enc_varint.
  destruct (N.eqb_spec d 255) as [E255|N255].
  - destruct (read_le 8 r0) as [[v8 r8]|e] eqn:H8; simpl in Hd; [|discriminate].
    destruct (N.ltb_spec v8 4294967296) as [Hlt|Hge]; [discriminate|].
    inversion Hd; subst v8 r8. apply read_le_inv in H8; [|exact Hr0].
    destruct H8 as [Hr0' [Hb8 Hr8]]. rewrite pow8_8 in Hb8.
    destruct (N.ltb_spec v 253); [lia|]. destruct (N.leb_spec v 65535); [lia|].
    destruct (N.leb_spec v 4294967295); [lia|].
    subst. simpl. auto.
  - destruct (N.eqb_spec d 254) as [E254|N254].
    + destruct (read_le 4 r0) as [[v4 r4]|e] eqn:H4; simpl in Hd; [|discriminate].
      destruct (N.ltb_spec v4 65536) as [Hlt|Hge]; [discriminate|].
      inversion Hd; subst v4 r4. apply read_le_inv in H4; [|exact Hr0].
      destruct H4 as [Hr0' [Hb4 Hr4]]. rewrite pow8_4 in Hb4.
      destruct (N.ltb_spec v 253); [lia|]. destruct (N.leb_spec v 65535); [lia|].
      destruct (N.leb_spec v 4294967295); [|lia].
      subst. simpl. split; [reflexivity|]. split; [lia|assumption].
    + destruct (N.eqb_spec d 253) as [E253|N253].
      * destruct (read_le 2 r0) as [[v2 r2]|e] eqn:H2; simpl in Hd; [|discriminate].
        destruct (N.ltb_spec v2 253) as [Hlt|Hge]; [discriminate|].
        inversion Hd; subst v2 r2. apply read_le_inv in H2; [|exact Hr0].
        destruct H2 as [Hr0' [Hb2 Hr2]]. rewrite pow8_2 in Hb2.
        destruct (N.ltb_spec v 253); [lia|]. destruct (N.leb_spec v 65535); [|lia].
        subst. simpl. split; [reflexivity|]. split; [lia|assumption].
      * inversion Hd; subst d r0.
        destruct (N.ltb_spec v 253); [|lia].
        subst. simpl. split; [reflexivity|]. split; [lia|assumption].
Qed.

(* ---------- varstring ---------- *)

Lemma dec_enc_varstring : forall mmp s rest,
  N.of_nat (length s) <= mmp -> N.of_nat (length s) < 2 ^ 64 ->
  dec_varstring mmp (enc_varstring s ++ rest) = Ok (s, rest).
Proof.
  intros mmp s rest Hm H64. unfold dec_varstring, enc_varstring.
  rewrite <- app_assoc. rewrite dec_enc_varint by exact H64. simpl bind.
  destruct (N.ltb_spec mmp (N.of_nat (length s))); [lia|].
  apply read_N_app.
Qed.

Lemma dec_varstring_inv : forall mmp bs s r, bytes_ok bs = true -> dec_varstring mmp bs = Ok (s, r) ->
  bs = enc_varstring s ++ r /\ N.of_nat (length s) <= mmp /\ bytes_ok r = true /\ bytes_ok s = true.
Proof.
  intros mmp bs s r Hok Hd. unfold dec_varstring in Hd.
  destruct (dec_varint bs) as [[c r0]|e] eqn:Hc; simpl in Hd; [|discriminate].
  apply dec_varint_inv in Hc; [|exact Hok]. destruct Hc as [Hbs [Hc64 Hr0]].
  destruct (N.ltb_spec mmp c) as [Hlt|Hge]; [discriminate|].
  apply read_N_inv in Hd. destruct Hd as [Hr0' Hlen].
  subst r0. unfold enc_varstring. rewrite Hlen. rewrite <- app_assoc.
  split; [exact Hbs|]. split; [lia|]. split.
  - eapply bytes_ok_app_r; exact Hr0.
  - eapply bytes_ok_app_l; exact Hr0.
Qed.

Lemma dec_enc_varbytes : forall max s rest,
  N.of_nat (length s) <= max -> N.of_nat (length s) < 2 ^ 64 ->
  dec_varbytes max (enc_varstring s ++ rest) = Ok (s, rest).
Proof.
  intros max s rest Hm H64. unfold dec_varbytes, enc_varstring.
  rewrite <- app_assoc. rewrite dec_enc_varint by exact H64. simpl bind.
  destruct (N.ltb_spec max (N.of_nat (length s))); [lia|].
  apply read_N_app.
Qed.

Lemma dec_varbytes_inv : forall max bs s r, bytes_ok bs = true -> dec_varbytes max bs = Ok (s, r) ->
  bs = enc_varstring s ++ r /\ N.of_nat (length s) <= max /\ bytes_ok r = true /\ bytes_ok s = true.
Proof.
  intros max bs s r Hok Hd. unfold dec_varbytes in Hd.
  destruct (dec_varint bs) as [[c r0]|e] eqn:Hc; simpl in Hd; [|discriminate].
  apply dec_varint_inv in Hc; [|exact Hok]. destruct Hc as [Hbs [Hc64 Hr0]].
  destruct (N.ltb_spec max c) as [Hlt|Hge]; [discriminate|].
  apply read_N_inv in Hd. destruct Hd as [Hr0' Hlen].
  subst r0. unfold enc_varstring. rewrite Hlen. rewrite <- app_assoc.
  split; [exact Hbs|]. split; [lia|]. split.
  - eapply bytes_ok_app_r; exact Hr0.
  - eapply bytes_ok_app_l; exact Hr0.
Qed.

(* ---------- lists ---------- *)

Lemma dec_list_enc : forall (A : Type) (wf : A -> bool) (enc : A -> bytes) (dec : bytes -> res (A * bytes)),
  (forall a rest, wf a = true -> dec (enc a ++ rest) = Ok (a, rest)) ->
  forall l rest, forallb wf l = true ->
  dec_list dec (length l) (flat_map enc l ++ rest) = Ok (l, rest).
Proof.
  intros A wf enc dec Hc. induction l as [|a l IH]; intros rest Hwf; [reflexivity|].
  simpl in Hwf. apply andb_prop in Hwf. destruct Hwf as [Ha Hl].
  cbn [length flat_map dec_list]. rewrite <- app_assoc. rewrite Hc by exact Ha. simpl bind.
  rewrite IH by exact Hl. reflexivity.
Qed.

Lemma dec_list_inv : forall (A : Type) (enc : A -> bytes) (dec : bytes -> res (A * bytes)),
  (forall bs a r, bytes_ok bs = true -> dec bs = Ok (a, r) -> bs = enc a ++ r /\ bytes_ok r = true) ->
  forall n bs l r, bytes_ok bs = true -> dec_list dec n bs = Ok (l, r) ->
  bs = flat_map enc l ++ r /\ length l = n /\ bytes_ok r = true.
Proof.
  intros A enc dec Hc. induction n as [|n IH]; intros bs l r Hok Hd.
  - simpl in Hd. inversion Hd; subst. auto.
  - cbn [dec_list] in Hd.
    destruct (dec bs) as [[a r0]|e] eqn:Ha; simpl in Hd; [|discriminate].
    destruct (dec_list dec n r0) as [[l0 r1]|e] eqn:Hl; simpl in Hd; [|discriminate].
    inversion Hd; subst l r.
    apply Hc in Ha; [|exact Hok]. destruct Ha as [Hbs Hr0].
    apply IH in Hl; [|exact Hr0]. destruct Hl as [Hr0' [Hlen Hr1]].
    subst. cbn [flat_map length]. rewrite <- app_assoc. auto.
Qed.

Lemma dec_counted_enc : forall (A : Type) (wf : A -> bool) (enc : A -> bytes) (dec : bytes -> res (A * bytes)) (max : N),
  (forall a rest, wf a = true -> dec (enc a ++ rest) = Ok (a, rest)) ->
  forall l rest, N.of_nat (length l) <= max -> max < 2 ^ 64 -> forallb wf l = true ->
  dec_counted max dec (enc_counted enc l ++ rest) = Ok (l, rest).
Proof.
  intros A wf enc dec max Hc l rest Hmax H64 Hwf. unfold dec_counted, enc_counted.
  rewrite <- app_assoc. rewrite dec_enc_varint by lia. simpl bind.
  destruct (N.ltb_spec max (N.of_nat (length l))); [lia|].
  rewrite Nat2N.id. apply (dec_list_enc A wf); assumption.
Qed.

Lemma dec_counted_inv : forall (A : Type) (enc : A -> bytes) (dec : bytes -> res (A * bytes)) (max : N),
  (forall bs a r, bytes_ok bs = true -> dec bs = Ok (a, r) -> bs = enc a ++ r /\ bytes_ok r = true) ->
  forall bs l r, bytes_ok bs = true -> dec_counted max dec bs = Ok (l, r) ->
  bs = enc_counted enc l ++ r /\ N.of_nat (length l) <= max /\ bytes_ok r = true.
Proof.
  intros A enc dec max Hc bs l r Hok Hd. unfold dec_counted in Hd.
  destruct (dec_varint bs) as [[c r0]|e] eqn:Hcnt; simpl in Hd; [|discriminate].
  apply dec_varint_inv in Hcnt; [|exact Hok]. destruct Hcnt as [Hbs [Hc64 Hr0]].
  destruct (N.ltb_spec max c) as [Hlt|Hge]; [discriminate|].
  apply (dec_list_inv A enc dec Hc) in Hd; [|exact Hr0]. destruct Hd as [Hr0' [Hlen Hr]].
  unfold enc_counted. rewrite Hlen, N2Nat.id, <- app_assoc. subst r0.
  split; [exact Hbs|]. split; [lia|exact Hr].
Qed.

(* a count above the limit is refused before anything is allocated or read *)
Lemma dec_counted_over : forall (A : Type) (dec : bytes -> res (A * bytes)) (max : N) bs c r,
  dec_varint bs = Ok (c, r) -> max < c -> dec_counted max dec bs = Err ETooMany.
Proof.
  intros A dec max bs c r Hc Hlt. unfold dec_counted. rewrite Hc. simpl.
  destruct (N.ltb_spec max c); [reflexivity|lia].
Qed.

(* ---------- composite elements ---------- *)

Lemma bind_ok : forall (A B : Type) (a : A) (f : A -> res B), bind (Ok a) f = f a.
Proof. reflexivity. Qed.

Tactic Notation "bind_inv" hyp(H) "as" ident(a) ident(r) ident(E) :=
  match type of H with
  | bind ?x _ = Ok _ => destruct x as [[a r]|?] eqn:E; [cbn [bind] in H|discriminate H]
  end.

Lemma pow8_16 : 2 ^ (8 * N.of_nat 16) = 340282366920938463463374607431768211456. Proof. reflexivity. Qed.

Lemma ip_to16_16 : forall ip, length ip = 16%nat -> ip_to16 ip = ip.
Proof. intros ip Hl. unfold ip_to16. rewrite Hl. reflexivity. Qed.

Lemma hash_ok_len : forall h, hash_ok h = true -> length h = HashSize.
Proof. intros h Hh. unfold hash_ok in Hh. apply Nat.eqb_eq in Hh. exact Hh. Qed.

Lemma dec_hash_app : forall h rest, hash_ok h = true -> dec_hash (h ++ rest) = Ok (h, rest).
Proof. intros h rest Hh. unfold dec_hash. apply read_n_app'. apply hash_ok_len. exact Hh. Qed.

Lemma dec_hash_inv : forall bs h r, bytes_ok bs = true -> dec_hash bs = Ok (h, r) ->
  bs = h ++ r /\ bytes_ok r = true /\ hash_ok h = true.
Proof.
  intros bs h r Hok Hd. unfold dec_hash in Hd. apply read_n_inv in Hd. destruct Hd as [Hb Hl].
  subst bs. split; [reflexivity|]. split; [eapply bytes_ok_app_r; exact Hok|].
  unfold hash_ok. rewrite Hl. reflexivity.
Qed.

Local Opaque le_enc le_dec.

Lemma fits_lt : forall bits v, fits bits v = true -> v < 2 ^ bits.
Proof. intros bits v H. unfold fits in H. apply N.ltb_lt. exact H. Qed.

Lemma dec_enc_netaddr : forall pver ts na rest, wf_netaddr pver ts na = true ->
  dec_netaddr pver ts zero_time (enc_netaddr pver ts na ++ rest) = Ok (na, rest).
Proof.
  intros pver ts na rest Hwf. destruct na as [t svc ip port]. unfold wf_netaddr in Hwf. simpl in Hwf.
  apply andb_prop in Hwf. destruct Hwf as [Hwf Hport].
  apply andb_prop in Hwf. destruct Hwf as [Hwf Hip].
  apply andb_prop in Hwf. destruct Hwf as [Hts Hsvc].
  apply fits_lt in Hport. apply fits_lt in Hsvc. apply Nat.eqb_eq in Hip.
  unfold dec_netaddr, enc_netaddr. cbn [na_ts na_svc na_ip na_port].
  rewrite ip_to16_16 by exact Hip.
  destruct (has_ts pver ts).
  - rewrite <- !app_assoc.
    rewrite read_le_enc by (rewrite pow8_4; apply of_signed32_bound). cbn [bind].
    rewrite read_le_enc by (rewrite pow8_8; exact Hsvc). cbn [bind].
    rewrite (read_n_app' 16) by exact Hip. cbn [bind].
    rewrite read_be_enc by (rewrite pow8_2; exact Hport). cbn [bind].
    rewrite unsigned32_roundtrip by exact Hts. reflexivity.
  - apply Z.eqb_eq in Hts. subst t. cbn [app bind].
    rewrite <- !app_assoc.
    rewrite read_le_enc by (rewrite pow8_8; exact Hsvc). cbn [bind].
    rewrite (read_n_app' 16) by exact Hip. cbn [bind].
    rewrite read_be_enc by (rewrite pow8_2; exact Hport). cbn [bind]. reflexivity.
Qed.

Lemma dec_netaddr_inv : forall pver ts bs na r, bytes_ok bs = true ->
  dec_netaddr pver ts zero_time bs = Ok (na, r) ->
  bs = enc_netaddr pver ts na ++ r /\ bytes_ok r = true.
Proof.
  intros pver ts bs na r Hok Hd. unfold dec_netaddr in Hd. unfold enc_netaddr.
  destruct (has_ts pver ts).
  - bind_inv Hd as t r0 E0. bind_inv E0 as tv r0' E0'. inversion E0; subst t r0'; clear E0.
    apply read_le_inv in E0'; [|exact Hok]. destruct E0' as [Hb [Hv Hr0]]. rewrite pow8_4 in Hv.
    bind_inv Hd as svc r1 E1. apply read_le_inv in E1; [|exact Hr0]. destruct E1 as [Hb1 [Hv1 Hr1]].
    bind_inv Hd as ip r2 E2. apply read_n_inv in E2. destruct E2 as [Hb2 Hl2].
    assert (Hr2 : bytes_ok r2 = true) by (subst r1; eapply bytes_ok_app_r; exact Hr1).
    bind_inv Hd as port r3 E3. apply read_be_inv in E3; [|exact Hr2]. destruct E3 as [Hb3 [Hv3 Hr3]].
    inversion Hd; subst. cbn [na_ts na_svc na_ip na_port].
    rewrite of_signed32_of_N by exact Hv. rewrite ip_to16_16 by exact Hl2.
    rewrite <- !app_assoc. auto.
  - cbn [bind] in Hd.
    bind_inv Hd as svc r1 E1. apply read_le_inv in E1; [|exact Hok]. destruct E1 as [Hb1 [Hv1 Hr1]].
    bind_inv Hd as ip r2 E2. apply read_n_inv in E2. destruct E2 as [Hb2 Hl2].
    assert (Hr2 : bytes_ok r2 = true) by (subst r1; eapply bytes_ok_app_r; exact Hr1).
    bind_inv Hd as port r3 E3. apply read_be_inv in E3; [|exact Hr2]. destruct E3 as [Hb3 [Hv3 Hr3]].
    inversion Hd; subst. cbn [na_ts na_svc na_ip na_port app].
    rewrite ip_to16_16 by exact Hl2. rewrite <- !app_assoc. auto.
Qed.

Lemma dec_enc_invvect : forall iv rest, wf_invvect iv = true ->
  dec_invvect (enc_invvect iv ++ rest) = Ok (iv, rest).
Proof.
  intros iv rest Hwf. destruct iv as [t h]. unfold wf_invvect in Hwf. simpl in Hwf.
  apply andb_prop in Hwf. destruct Hwf as [Ht Hh]. apply fits_lt in Ht.
  unfold dec_invvect, enc_invvect. cbn [iv_type iv_hash]. rewrite <- !app_assoc.
  rewrite read_le_enc by (rewrite pow8_4; exact Ht). cbn [bind].
  rewrite dec_hash_app by exact Hh. reflexivity.
Qed.

Lemma dec_invvect_inv : forall bs iv r, bytes_ok bs = true -> dec_invvect bs = Ok (iv, r) ->
  bs = enc_invvect iv ++ r /\ bytes_ok r = true.
Proof.
  intros bs iv r Hok Hd. unfold dec_invvect in Hd.
  bind_inv Hd as t r0 E0. apply read_le_inv in E0; [|exact Hok]. destruct E0 as [Hb [Hv Hr0]].
  bind_inv Hd as h r1 E1. apply dec_hash_inv in E1; [|exact Hr0]. destruct E1 as [Hb1 [Hr1 Hh]].
  inversion Hd; subst. unfold enc_invvect. cbn [iv_type iv_hash]. rewrite <- !app_assoc. auto.
Qed.

Lemma dec_enc_blockheader : forall h rest, wf_blockheader h = true ->
  dec_blockheader (enc_blockheader h ++ rest) = Ok (h, rest).
Proof.
  intros h rest Hwf. destruct h as [v p m t b n]. unfold wf_blockheader in Hwf. simpl in Hwf.
  apply andb_prop in Hwf. destruct Hwf as [Hwf Hn].
  apply andb_prop in Hwf. destruct Hwf as [Hwf Hb].
  apply andb_prop in Hwf. destruct Hwf as [Hwf Ht].
  apply andb_prop in Hwf. destruct Hwf as [Hwf Hm].
  apply andb_prop in Hwf. destruct Hwf as [Hv Hp].
  apply fits_lt in Hn. apply fits_lt in Hb.
  unfold dec_blockheader, enc_blockheader. cbn [bh_ver bh_prev bh_merkle bh_ts bh_bits bh_nonce].
  rewrite <- !app_assoc.
  rewrite read_le_enc by (rewrite pow8_4; apply of_signed32_bound). cbn [bind].
  rewrite dec_hash_app by exact Hp. cbn [bind].
  rewrite dec_hash_app by exact Hm. cbn [bind].
  rewrite read_le_enc by (rewrite pow8_4; apply of_signed32_bound). cbn [bind].
  rewrite read_le_enc by (rewrite pow8_4; exact Hb). cbn [bind].
  rewrite read_le_enc by (rewrite pow8_4; exact Hn). cbn [bind].
  rewrite signed32_roundtrip by exact Hv. rewrite unsigned32_roundtrip by exact Ht. reflexivity.
Qed.

Lemma dec_blockheader_inv : forall bs h r, bytes_ok bs = true -> dec_blockheader bs = Ok (h, r) ->
  bs = enc_blockheader h ++ r /\ bytes_ok r = true.
Proof.
  intros bs h r Hok Hd. unfold dec_blockheader in Hd.
  bind_inv Hd as v r0 E0. apply read_le_inv in E0; [|exact Hok]. destruct E0 as [Hb0 [Hv0 Hr0]]. rewrite pow8_4 in Hv0.
  bind_inv Hd as p r1 E1. apply dec_hash_inv in E1; [|exact Hr0]. destruct E1 as [Hb1 [Hr1 Hh1]].
  bind_inv Hd as m r2 E2. apply dec_hash_inv in E2; [|exact Hr1]. destruct E2 as [Hb2 [Hr2 Hh2]].
  bind_inv Hd as t r3 E3. apply read_le_inv in E3; [|exact Hr2]. destruct E3 as [Hb3 [Hv3 Hr3]]. rewrite pow8_4 in Hv3.
  bind_inv Hd as b r4 E4. apply read_le_inv in E4; [|exact Hr3]. destruct E4 as [Hb4 [Hv4 Hr4]].
  bind_inv Hd as n r5 E5. apply read_le_inv in E5; [|exact Hr4]. destruct E5 as [Hb5 [Hv5 Hr5]].
  inversion Hd; subst. unfold enc_blockheader. cbn [bh_ver bh_prev bh_merkle bh_ts bh_bits bh_nonce].
  rewrite of_to_signed32 by exact Hv0. rewrite of_signed32_of_N by exact Hv3.
  rewrite <- !app_assoc. auto.
Qed.

Local Transparent le_enc le_dec.
