(* C12 - model of the webhook life cycle of block-headers-service
   (notification/webhooks.go, notification/webhooks_service.go, repository/dto/webhooks.go,
    database/sql/webhooks.go, database/repository/webhooks_repository.go,
    transports/http/endpoints/api/webhook/endpoints.go, transports/http/client/webhook_target.go).

   Definitions only.  The model is parameterised by a record [fixes] of three booleans, one per proposed
   repair; [faithful] (all false) is the code AS IT IS, [fixed] (all true) is the repaired behaviour
   (build/proposed-fixes/C12-1..3.diff).  The [_fixed] definitions at the end are the second set of
   definitions for which C12_main is proved; the [_faithful] ones are the ones refuted. *)
From Coq Require Import ZArith List Bool.
Import ListNotations.
Open Scope Z_scope.

(* ---------- data ---------- *)

(* token_header column: "" | "Authorization" | "X-H<h>" *)
Inductive hname := HEmpty | HAuthorization | HCustom (h : Z).
(* token column: "" | "Bearer tok<t>" | "tok<t>" *)
Inductive tokv := TEmpty | TBearer (t : Z) | TRaw (t : Z).
(* outcome of one call of the target client: reply with a status code and a readable body,
   transport error (client.Call returns err), reply whose body cannot be read (io.ReadAll fails) *)
Inductive outcome := OStatus (c : Z) | OTransport | OBody.
(* last_emit_status column: "" or what the last attempt produced *)
Inductive status := SNone | SOut (o : outcome).
(* requiredAuth.type of the registration request: "bearer" (any case) | anything else with header+token | absent *)
Inductive akind := KBearer | KCustom | KNone.

(* one row of the webhooks table; r_lts is a logical clock: 0 = never, otherwise the time of the op *)
Record row := mkRow {
  r_url : Z; r_hdr : hname; r_tok : tokv;
  r_errors : Z; r_active : bool; r_lstatus : status; r_lts : Z }.

(* the table in rowid (= insertion) order, which is the order of SELECT ... FROM webhooks *)
Definition table := list row.

(* what GET /api/v1/webhook?url= (and the reply of POST) shows: errorsCount, active, lastEmitStatus, lastEmitTimestamp *)
Definition view := (Z * bool * status * Z)%type.
Definition view_of (r : row) : view := (r_errors r, r_active r, r_lstatus r, r_lts r).

Inductive errcode := ErrRefreshWebhook | ErrWebhookNotFound.
Inductive resp := RespNone | RespOK | RespRow (v : view) | RespErr (e : errcode) | RespRejected.

(* one POST as seen by the target: url, and the headers other than Content-Type *)
Definition post := (Z * list (hname * tokv))%type.

Inductive op :=
| OpRegister (u : Z) (k : akind) (h t : Z)
| OpDelete (u : Z)
| OpNotify (f : Z -> outcome)     (* outcome of the call to each url for this event *)
| OpRestart
| OpRestartMt (m : Z)             (* a restart with webhook.max_tries set to m: the limit in force from then on *)
| OpBad.                          (* a request the endpoint rejects before the service is reached: no url, unparsable body *)

(* ---------- which repairs are applied ---------- *)
Record fixes := mkFixes {
  fx_maxtries : bool;   (* C12-1: WebhooksService.Notify restores MaxTries from the configuration after loading *)
  fx_lastemit : bool;   (* C12-2: dto.ToWebhook/ToDbWebhook carry LastEmitStatus / LastEmitTimestamp *)
  fx_skipempty : bool   (* C12-3: Webhook.Notify does not put an empty header name into the header map *)
}.
Definition faithful := mkFixes false false false.
Definition fixed := mkFixes true true true.

(* ---------- helpers ---------- *)
Definition find_row (u : Z) (tb : table) : option row := find (fun r => r_url r =? u) tb.

Definition hname_empty (h : hname) : bool := match h with HEmpty => true | _ => false end.

Definition is_ok (o : outcome) : bool := match o with OStatus c => c =? 200 | _ => false end.

(* dto.DbWebhook.ToWebhook: what the in-memory notification.Webhook looks like after loading a row *)
Definition load (fx : fixes) (r : row) : row :=
  if fx_lastemit fx then r
  else mkRow (r_url r) (r_hdr r) (r_tok r) (r_errors r) (r_active r) SNone 0.

(* Webhook.MaxTries of a loaded webhook: the zero value today, the configured value after repair C12-1 *)
Definition loaded_maxtries (fx : fixes) (mt : Z) : Z := if fx_maxtries fx then mt else 0.

(* CreateWebhook service method: bearer rewrite *)
Definition rewrite_auth (k : akind) (h t : Z) : hname * tokv :=
  match k with
  | KBearer => (HAuthorization, TBearer t)
  | KCustom => (HCustom h, TRaw t)
  | KNone => (HEmpty, TEmpty)
  end.

(* sqlUpdateWebhook: SET last_emit_status, last_emit_timestamp, errors_count, is_active WHERE url IN (?) *)
Definition persist (w : row) (tb : table) : table :=
  map (fun r => if r_url r =? r_url w
                then mkRow (r_url r) (r_hdr r) (r_tok r) (r_errors w) (r_active w) (r_lstatus w) (r_lts w)
                else r) tb.

(* Webhook.updateWebhookAfterNotification, [mx] = w.MaxTries *)
Definition update_after (mx : Z) (w : row) (o : outcome) (now : Z) : row :=
  if is_ok o
  then mkRow (r_url w) (r_hdr w) (r_tok w) 0 true (SOut o) now
  else let e := r_errors w + 1 in
       mkRow (r_url w) (r_hdr w) (r_tok w) e (if e >=? mx then false else r_active w) (SOut o) now.

(* Webhook.Notify: the header map handed to the client, without Content-Type *)
Definition headers_of (fx : fixes) (w : row) : list (hname * tokv) :=
  if fx_skipempty fx && hname_empty (r_hdr w) then [] else [(r_hdr w, r_tok w)].

(* the target client.  [prod = true]: transports/http/client.callRequest - http.Client.Do rejects a request
   with an empty header field name before anything is sent; [prod = false]: the injected scripted client,
   which records whatever it is handed. *)
Definition client_call (prod : bool) (u : Z) (hs : list (hname * tokv)) (f : Z -> outcome) : option post * outcome :=
  if prod && existsb (fun p => hname_empty (fst p)) hs then (None, OTransport) else (Some (u, hs), f u).

Definition opt_cons {A} (o : option A) (l : list A) : list A := match o with Some a => a :: l | None => l end.

(* WebhooksService.Notify: loop over the webhooks loaded at the start, skip inactive, call, update, persist *)
Fixpoint notify_loop (fx : fixes) (mt : Z) (prod : bool) (f : Z -> outcome) (now : Z)
         (loaded : list row) (tb : table) : table * list post :=
  match loaded with
  | [] => (tb, [])
  | w :: rest =>
    if r_active w then
      let '(p, o) := client_call prod (r_url w) (headers_of fx w) f in
      let w' := update_after (loaded_maxtries fx mt) w o now in
      let '(tb', ps) := notify_loop fx mt prod f now rest (persist w' tb) in
      (tb', opt_cons p ps)
    else notify_loop fx mt prod f now rest tb
  end.

Definition notify (fx : fixes) (mt : Z) (prod : bool) (f : Z -> outcome) (now : Z) (tb : table) : table * list post :=
  notify_loop fx mt prod f now (map (load fx) tb) tb.

(* WebhooksService.CreateWebhook (+ refreshWebhook when the INSERT hits the primary key) *)
Definition register (fx : fixes) (u : Z) (k : akind) (h t : Z) (tb : table) : table * resp :=
  match find_row u tb with
  | None =>
    let '(hd, tk) := rewrite_auth k h t in
    let w := mkRow u hd tk 0 true SNone 0 in
    (tb ++ [w], RespRow (view_of w))
  | Some r =>
    let w := load fx r in
    if r_active w then (tb, RespErr ErrRefreshWebhook)
    else let w' := mkRow (r_url w) (r_hdr w) (r_tok w) 0 true (r_lstatus w) (r_lts w) in
         (persist w' tb, RespRow (view_of w'))
  end.

(* WebhooksService.DeleteWebhook *)
Definition delete (u : Z) (tb : table) : table * resp :=
  match find_row u tb with
  | None => (tb, RespErr ErrWebhookNotFound)
  | Some _ => (filter (fun r => negb (r_url r =? u)) tb, RespOK)
  end.

(* WebhooksService.GetWebhookByURL as rendered by the endpoint *)
Definition get (fx : fixes) (u : Z) (tb : table) : option view :=
  option_map (fun r => view_of (load fx r)) (find_row u tb).

(* a restart: the service keeps no webhook state outside the table *)
Definition restart (tb : table) : table := tb.

(* ---------- runs ---------- *)
Definition step (fx : fixes) (mt : Z) (prod : bool) (now : Z) (o : op) (tb : table) : table * resp * list post :=
  match o with
  | OpRegister u k h t => let '(tb', r) := register fx u k h t tb in (tb', r, [])
  | OpDelete u => let '(tb', r) := delete u tb in (tb', r, [])
  | OpNotify f => let '(tb', ps) := notify fx mt prod f now tb in (tb', RespNone, ps)
  | OpRestart => (restart tb, RespNone, [])
  | OpRestartMt _ => (restart tb, RespNone, [])
  | OpBad => (tb, RespRejected, [])
  end.

(* the observable of one step: response, POSTs, GET of every url of the universe *)
Definition stepobs := (resp * list post * list (option view))%type.

Definition universe : list Z := [0; 1; 2; 3].

(* webhook.max_tries is configuration, read when the service starts: the limit in force after an op *)
Definition next_mt (mt : Z) (o : op) : Z := match o with OpRestartMt m => m | _ => mt end.
Definition limit_after (mt : Z) (ops : list op) : Z := fold_left next_mt ops mt.
(* the op does not change the limit [mt] (a restart with the same value is allowed) *)
Definition limit_kept (mt : Z) (o : op) : Prop := match o with OpRestartMt m => m = mt | _ => True end.

(* ops are numbered from [now] on (the clock of op number i is i); [mt] is the limit in force at the first op *)
Fixpoint run_from (fx : fixes) (mt : Z) (prod : bool) (now : Z) (ops : list op) (tb : table) : list stepobs * table :=
  match ops with
  | [] => ([], tb)
  | o :: rest =>
    let '(tb', r, ps) := step fx mt prod now o tb in
    let '(obs, tbf) := run_from fx (next_mt mt o) prod (now + 1) rest tb' in
    ((r, ps, map (fun u => get fx u tb') universe) :: obs, tbf)
  end.

Definition run (fx : fixes) (mt : Z) (prod : bool) (ops : list op) : list stepobs * table :=
  run_from fx mt prod 1 ops [].

Definition table_after (fx : fixes) (mt : Z) (prod : bool) (ops : list op) : table := snd (run fx mt prod ops).

(* a series of events delivered one at a time (each with its outcomes and its time), nothing else in between *)
Fixpoint notify_seq (fx : fixes) (mt : Z) (prod : bool) (evs : list ((Z -> outcome) * Z)) (tb : table) : table * list post :=
  match evs with
  | [] => (tb, [])
  | ev :: rest =>
    let '(tb1, ps1) := notify fx mt prod (fst ev) (snd ev) tb in
    let '(tb2, ps2) := notify_seq fx mt prod rest tb1 in
    (tb2, ps1 ++ ps2)
  end.

(* ---------- the two named instances ---------- *)
Definition notify_faithful := notify faithful.
Definition register_faithful := register faithful.
Definition get_faithful := get faithful.
Definition run_faithful := run faithful.

Definition load_fixed := load fixed.
Definition headers_of_fixed := headers_of fixed.
Definition notify_fixed := notify fixed.
Definition register_fixed := register fixed.
Definition get_fixed := get fixed.
Definition step_fixed := step fixed.
Definition run_fixed := run fixed.
Definition table_after_fixed := table_after fixed.

(* ---------- declarative vocabulary of the property ---------- *)

(* the authorisation header a webhook is configured with: none for an empty header name *)
Definition auth_headers (hd : hname) (tk : tokv) : list (hname * tokv) :=
  match hd with HEmpty => [] | _ => [(hd, tk)] end.

Definition posts_to (u : Z) (ps : list post) : list post := filter (fun p => fst p =? u) ps.

(* C12, notify clause, for a model variant [fx]: from table [tb], one event with outcomes [f] at time [now] *)
Definition notify_clause (fx : fixes) (mt : Z) (prod : bool) (tb : table) : Prop :=
  forall f now u,
    let tb' := fst (notify fx mt prod f now tb) in
    let ps := snd (notify fx mt prod f now tb) in
    match find_row u tb with
    | Some r =>
      if r_active r then
        (* exactly one POST, carrying exactly the configured authorisation header *)
        posts_to u ps = [(u, auth_headers (r_hdr r) (r_tok r))] /\
        exists r', find_row u tb' = Some r' /\
          r_url r' = u /\ r_hdr r' = r_hdr r /\ r_tok r' = r_tok r /\
          r_lstatus r' = SOut (f u) /\ r_lts r' = now /\
          (is_ok (f u) = true -> r_errors r' = 0 /\ r_active r' = true) /\
          (is_ok (f u) = false -> r_errors r' = r_errors r + 1 /\
                                  (r_active r' = false <-> r_errors r + 1 = mt))
      else posts_to u ps = [] /\ find_row u tb' = Some r
    | None => posts_to u ps = [] /\ find_row u tb' = None
    end.

(* the same clause without any assumption on how the count relates to the limit (the limit may have been changed by a
   restart): a failed delivery switches the webhook off exactly when the new count is at or above the limit in force *)
Definition notify_clause_any (fx : fixes) (mt : Z) (prod : bool) (tb : table) : Prop :=
  forall f now u,
    let tb' := fst (notify fx mt prod f now tb) in
    let ps := snd (notify fx mt prod f now tb) in
    match find_row u tb with
    | Some r =>
      if r_active r then
        posts_to u ps = [(u, auth_headers (r_hdr r) (r_tok r))] /\
        exists r', find_row u tb' = Some r' /\
          r_url r' = u /\ r_hdr r' = r_hdr r /\ r_tok r' = r_tok r /\
          r_lstatus r' = SOut (f u) /\ r_lts r' = now /\
          (is_ok (f u) = true -> r_errors r' = 0 /\ r_active r' = true) /\
          (is_ok (f u) = false -> r_errors r' = r_errors r + 1 /\
                                  (r_active r' = false <-> mt <= r_errors r + 1))
      else posts_to u ps = [] /\ find_row u tb' = Some r
    | None => posts_to u ps = [] /\ find_row u tb' = None
    end.

(* C12, register clause *)
Definition register_clause (fx : fixes) (tb : table) : Prop :=
  forall u k h t,
    let tb' := fst (register fx u k h t tb) in
    let rs := snd (register fx u k h t tb) in
    (forall u', u' <> u -> find_row u' tb' = find_row u' tb) /\
    match find_row u tb with
    | None =>
      let r' := mkRow u (fst (rewrite_auth k h t)) (snd (rewrite_auth k h t)) 0 true SNone 0 in
      find_row u tb' = Some r' /\ rs = RespRow (view_of r')
    | Some r =>
      if r_active r then tb' = tb /\ rs = RespErr ErrRefreshWebhook
      else let r' := mkRow u (r_hdr r) (r_tok r) 0 true (r_lstatus r) (r_lts r) in
           find_row u tb' = Some r' /\ rs = RespRow (view_of r')
    end.

(* C12, delete clause *)
Definition delete_clause (tb : table) : Prop :=
  forall u,
    let tb' := fst (delete u tb) in
    (forall u', u' <> u -> find_row u' tb' = find_row u' tb) /\
    find_row u tb' = None /\
    snd (delete u tb) = match find_row u tb with Some _ => RespOK | None => RespErr ErrWebhookNotFound end.

(* C12, query clause: the endpoint reports the stored state, also after a restart *)
Definition get_clause (fx : fixes) (tb : table) : Prop :=
  forall u, get fx u tb = option_map view_of (find_row u tb) /\
            get fx u (restart tb) = get fx u tb.

(* the state invariant: unique urls; the count stays within 0..max_tries and the flag is "count below max_tries" *)
Definition row_ok (mt : Z) (r : row) : Prop :=
  0 <= r_errors r <= mt /\ (r_active r = false <-> r_errors r = mt).
Definition table_ok (mt : Z) (tb : table) : Prop :=
  NoDup (map r_url tb) /\ Forall (row_ok mt) tb.

(* the whole statement for a model variant, one limit for the whole history (restarts keep it) *)
Definition C12_statement (fx : fixes) : Prop :=
  forall (mt : Z) (prod : bool) (ops : list op), 1 <= mt -> Forall (limit_kept mt) ops ->
    let tb := table_after fx mt prod ops in
    table_ok mt tb /\ notify_clause fx mt prod tb /\ register_clause fx tb /\ delete_clause tb /\ get_clause fx tb.

(* the statement when restarts may change the limit: every history, the limit in force is the one of the last restart *)
Definition C12_statement_any (fx : fixes) : Prop :=
  forall (mt : Z) (prod : bool) (ops : list op),
    let tb := table_after fx mt prod ops in
    NoDup (map r_url tb) /\ notify_clause_any fx (limit_after mt ops) prod tb /\
    register_clause fx tb /\ delete_clause tb /\ get_clause fx tb.

(* ---------- the executable spec oracle ----------
   Applied to the OBSERVED behaviour of the implementation, step by step.  Before every step the reference
   state is re-synchronised with what the implementation reported after the previous step (GET of every url),
   keeping only the configured authorisation (not visible through GET) from the reference; then the repaired
   model [step_fixed] - the one C12_main is about - says what must come next.  Every difference is classified. *)

Inductive fclass :=
| FResponse | FPresence | FErrors | FActive | FLastEmit | FPostMissing | FPostUnexpected | FPostDuplicate | FAuthHeader
(* narrow classes of the three recorded defects *)
| FDeactivatedBeforeMax      (* a failed delivery deactivated the webhook although count < max_tries; count itself right *)
| FLastEmitNotReported       (* lastEmitStatus "" / lastEmitTimestamp zero reported where an attempt is on record *)
| FNoauthNotPosted           (* production client: active webhook without authorisation received no POST *)
| FNoauthEmptyHeaderName.    (* scripted client: the header map of a webhook without authorisation carries the pair ""="" *)

Definition narrow (c : fclass) : bool :=
  match c with FDeactivatedBeforeMax | FLastEmitNotReported | FNoauthNotPosted | FNoauthEmptyHeaderName => true | _ => false end.

Definition hname_eqb (a b : hname) : bool :=
  match a, b with
  | HEmpty, HEmpty => true | HAuthorization, HAuthorization => true
  | HCustom x, HCustom y => x =? y | _, _ => false end.
Definition tokv_eqb (a b : tokv) : bool :=
  match a, b with
  | TEmpty, TEmpty => true | TBearer x, TBearer y => x =? y | TRaw x, TRaw y => x =? y | _, _ => false end.
Definition outcome_eqb (a b : outcome) : bool :=
  match a, b with
  | OStatus x, OStatus y => x =? y | OTransport, OTransport => true | OBody, OBody => true | _, _ => false end.
Definition status_eqb (a b : status) : bool :=
  match a, b with SNone, SNone => true | SOut x, SOut y => outcome_eqb x y | _, _ => false end.
Definition hdrs_eqb (a b : list (hname * tokv)) : bool :=
  (length a =? length b)%nat &&
  forallb (fun p => hname_eqb (fst (fst p)) (fst (snd p)) && tokv_eqb (snd (fst p)) (snd (snd p))) (combine a b).
Definition view_eqb (a b : view) : bool :=
  let '(e1, a1, s1, t1) := a in let '(e2, a2, s2, t2) := b in
  (e1 =? e2) && Bool.eqb a1 a2 && status_eqb s1 s2 && (t1 =? t2).
Definition errcode_eqb (a b : errcode) : bool :=
  match a, b with ErrRefreshWebhook, ErrRefreshWebhook => true | ErrWebhookNotFound, ErrWebhookNotFound => true | _, _ => false end.
Definition resp_eqb (a b : resp) : bool :=
  match a, b with
  | RespNone, RespNone => true | RespOK, RespOK => true
  | RespRow x, RespRow y => view_eqb x y | RespErr x, RespErr y => errcode_eqb x y
  | RespRejected, RespRejected => true | _, _ => false end.

(* re-synchronise the reference table with the observed views *)
Definition resync_row (obs : list (Z * option view)) (r : row) : list row :=
  match find (fun p => fst p =? r_url r) obs with
  | Some (_, Some (e, a, s, t)) => [mkRow (r_url r) (r_hdr r) (r_tok r) e a s t]
  | Some (_, None) => []
  | None => [r]
  end.
Definition resync (ghost : table) (obs : list (Z * option view)) : table :=
  flat_map (resync_row obs) ghost ++
  flat_map (fun p => match find_row (fst p) ghost, snd p with
                     | None, Some (e, a, s, t) => [mkRow (fst p) HEmpty TEmpty e a s t]
                     | _, _ => [] end) obs.

(* compare what the reference expects for url [u] after the step with what was observed *)
Definition cmp_view (mt : Z) (called : bool) (exp obs : option view) : list fclass :=
  match exp, obs with
  | None, None => []
  | Some _, None | None, Some _ => [FPresence]
  | Some (e1, a1, s1, t1), Some (e2, a2, s2, t2) =>
    (if e1 =? e2 then [] else [FErrors]) ++
    (if Bool.eqb a1 a2 then []
     else if called && a1 && negb a2 && (e1 =? e2) && (e1 <? mt) && (0 <? e1) then [FDeactivatedBeforeMax] else [FActive]) ++
    (if status_eqb s1 s2 && (t1 =? t2) then []
     else if status_eqb s2 SNone && (t2 =? 0) then [FLastEmitNotReported] else [FLastEmit])
  end.

Definition cmp_posts (prod : bool) (u : Z) (exp obs : list post) : list fclass :=
  match posts_to u exp, posts_to u obs with
  | [], [] => []
  | [], _ :: _ => [FPostUnexpected]
  | (_, hs) :: _, [] => if prod && (length hs =? 0)%nat then [FNoauthNotPosted] else [FPostMissing]
  | (_, hs) :: _, [(_, hs')] =>
    if hdrs_eqb hs hs' then []
    else if (length hs =? 0)%nat && hdrs_eqb hs' [(HEmpty, TEmpty)] then [FNoauthEmptyHeaderName] else [FAuthHeader]
  | _ :: _, _ :: _ :: _ => [FPostDuplicate]
  end.

(* a POST that did not arrive is a failed delivery: the outcome the reference uses for url u *)
Definition effective_outcomes (o : op) (obs_posts : list post) : op :=
  match o with
  | OpNotify f => OpNotify (fun u => match posts_to u obs_posts with [] => OTransport | _ => f u end)
  | _ => o
  end.

Definition is_notify (o : op) : bool := match o with OpNotify _ => true | _ => false end.

Definition check_step (mt : Z) (prod : bool) (now : Z) (o : op) (pre : table) (so : stepobs) : table * list fclass :=
  let '(r_obs, ps_obs, gets_obs) := so in
  let '(tb', r_exp, ps_exp) := step_fixed mt prod now (effective_outcomes o ps_obs) pre in
  let fs :=
    (if resp_eqb r_exp r_obs then [] else [FResponse]) ++
    flat_map (fun u => cmp_posts prod u ps_exp ps_obs) universe ++
    (if forallb (fun p => existsb (fun u => fst p =? u) universe) ps_obs then [] else [FPostUnexpected]) ++
    flat_map (fun p => cmp_view mt (is_notify o && negb (length (posts_to (fst p) ps_exp) =? 0)%nat)
                                (get_fixed (fst p) tb') (snd p))
             (combine universe gets_obs) in
  (resync tb' (combine universe gets_obs), fs).

Fixpoint check_from (mt : Z) (prod : bool) (now : Z) (ops : list op) (pre : table) (obs : list stepobs)
  : list (Z * fclass) :=
  match ops, obs with
  | o :: ops', so :: obs' =>
    let '(pre', fs) := check_step mt prod now o pre so in
    map (fun c => (now, c)) fs ++ check_from (next_mt mt o) prod (now + 1) ops' pre' obs'
  | [], [] => []
  | _, _ => [(now, FResponse)]
  end.

(* all failures of a run (step number, class) *)
Definition oracle (mt : Z) (prod : bool) (ops : list op) (obs : list stepobs) : list (Z * fclass) :=
  check_from mt prod 1 ops [] obs.

(* the verdict: the first failure of a class that is not one of the narrow ones, else the first narrow one *)
Definition verdict (fs : list (Z * fclass)) : option (Z * fclass) :=
  match find (fun p => negb (narrow (snd p))) fs with
  | Some p => Some p
  | None => match fs with p :: _ => Some p | [] => None end
  end.
