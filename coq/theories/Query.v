(* C04 - the chain query endpoints as functions  store -> result.  Definitions only.

   One function per SQL statement / service method that the read endpoints use
   (/repo/database/sql/headers.go, /repo/service/header_service.go, the handlers in
   /repo/transports/http/endpoints/api/{headers,tips}).  The model mirrors the code AS IT IS.

   Reads are functions of the store and return no store: "reads never modify the store" holds for the
   model by typing; for the implementation it is CHECKED (table digest before/after every batch of reads).

   Recursive CTEs follow previous_block by hash lookup (Store.walk), NOT restricted to older rows; the
   fuel [S (length s)] is a modelling artefact (SQL has none) - QueryProofs.walk_complete shows it is
   never exhausted on a height-consistent walk. *)
From Coq Require Import ZArith NArith List Bool.
From BHS Require Import Store.
Import ListNotations.
Open Scope Z_scope.

(* ------------------------------------------------------------------ generic helpers *)
Fixpoint take_while {A} (p : A -> bool) (l : list A) : list A :=
  match l with
  | [] => []
  | x :: l' => if p x then x :: take_while p l' else []
  end.

Fixpoint all_some {A} (l : list (option A)) : option (list A) :=
  match l with
  | [] => Some []
  | None :: _ => None
  | Some x :: l' => match all_some l' with Some r => Some (x :: r) | None => None end
  end.

Definition fuel_of (s : store) : nat := Datatypes.S (length s).

(* ------------------------------------------------------------------ single-row reads *)
(* sqlHeader (GetHeaderByHash, GetHeadersState): the row or ErrHeaderNotFound (404) *)
Definition get_by_hash (s : store) (t : N) : option row := by_hash s t.

(* sqlSelectTip (GET /chain/tip/longest) *)
Definition tip_longest (s : store) : option row := tipB s.

(* sqlSelectPreviousBlock: FROM headers h, headers prev WHERE h.hash = ? AND h.previous_block = prev.hash *)
Definition prev_header (s : store) (t : N) : option row :=
  match by_hash s t with Some x => by_hash s (prev x) | None => None end.

(* ------------------------------------------------------------------ by height *)
(* sqlHeaderByHeightRange: WHERE height BETWEEN ? AND ?  - ALL states.  GetHeadersByHeight passes
   (height, height + count - 1); the handler defaults count to 1 when absent / not a number.
   Row order: SQLite answers this range through idx_height_state_hash (height, header_state), i.e. in
   (height, header_state, rowid) order with 'LONGEST_CHAIN' < 'ORPHAN' < 'STALE' (validated by the
   correspondence check, not guaranteed by SQL). *)
Definition st_rank (x : hstate) : Z := match x with Longest => 0 | Orphan => 1 | Stale => 2 end.
Definition idx_le (a b : row) : bool :=
  (height a <? height b) || ((height a =? height b) && (st_rank (st a) <=? st_rank (st b))).
Fixpoint idx_insert (r : row) (l : list row) : list row :=
  match l with
  | [] => [r]
  | x :: l' => if idx_le r x then r :: l else x :: idx_insert r l'
  end.
(* stable with respect to the input order (rowid order when applied to [rev s]) *)
Definition idx_sort (l : list row) : list row := fold_right idx_insert [] l.

(* the declarative window [h, h+c-1] (exact integers) *)
Definition in_window (h c : Z) (r : row) : bool := (h <=? height r) && (height r <=? h + c - 1).
(* the code (since the fix 76f1492 of /repo = proposed-fixes/C04-2.diff): strconv.Atoi yields a Go int (64 bit) or an error
   (handled by the handler model in the driver: height out of range -> 400, count out of range -> 1);
   GetHeadersByHeight: a count <= 0 is the empty window; the end height + (count - 1) saturates to math.MaxInt when the
   sum does not fit a 64-bit int (the window is open-ended); the two bounds reach "WHERE height BETWEEN ? AND ?" as int64. *)
Definition two63 : Z := 9223372036854775808.
Definition in_range (lo hi : Z) (r : row) : bool := (lo <=? height r) && (height r <=? hi).
Definition window_end (h c : Z) : Z := Z.min (h + c - 1) (two63 - 1).
Definition by_height_range (s : store) (h : Z) (count : option Z) : list row :=
  let c := match count with Some c => c | None => 1 end in
  if c <=? 0 then [] else idx_sort (filter (in_range h (window_end h c)) (rev s)).

(* history: before 76f1492 the end was computed as height + count - 1 in Go int arithmetic, which WRAPS modulo 2^64 *)
Definition wrap64 (z : Z) : Z := (z + two63) mod (2 * two63) - two63.
Definition window_end_before_fix (h c : Z) : Z := wrap64 (h + c - 1).
Definition by_height_range_before_fix (s : store) (h : Z) (count : option Z) : list row :=
  let c := match count with Some c => c | None => 1 end in
  idx_sort (filter (in_range h (window_end_before_fix h c)) (rev s)).

(* ------------------------------------------------------------------ tips *)
(* sqlSelectTips: mainTip = the LONGEST_CHAIN row of maximal height (ORDER BY height DESC LIMIT 1)
   UNION every non-LONGEST_CHAIN row whose hash is not the previous_block of a non-LONGEST_CHAIN row.
   (UNION = set; the endpoint's order is the order of SQLite's de-duplication, by hash - compared as a set.) *)
Definition is_L (r : row) : bool := st_eqb (st r) Longest.
Definition has_nonL_child (s : store) (r : row) : bool :=
  existsb (fun c => negb (is_L c) && N.eqb (prev c) (id r)) s.
Definition tips (s : store) : list row :=
  (match tipB s with Some t => [t] | None => [] end) ++
  filter (fun r => negb (is_L r) && negb (has_nonL_child s r)) (rev s).

(* ------------------------------------------------------------------ recursive CTEs *)
(* WITH RECURSIVE ancestors AS (SELECT .. WHERE hash = ?  UNION ALL  SELECT h.. FROM headers h JOIN ancestors a
   ON h.hash = a.previous_block AND <keep h>): the seed row unconditionally, then parents while <keep> holds.
   Rows come out in recursion (level) order. *)
Definition cte_rows (s : store) (t : N) (keep : row -> bool) : list row :=
  match walk (fuel_of s) s t with
  | [] => []
  | x :: rest => x :: take_while keep rest
  end.

(* sqlSelectAncestorOnHeight: keep = (h.height >= ?), final filter height = ?, first row (bh[0]) *)
Definition ancestor_on_height (s : store) (t : N) (h : Z) : option row :=
  find (fun r => height r =? h) (cte_rows s t (fun p => h <=? height p)).

(* sqlChainBetweenTwoHashes(high, low, low): keep = (h.hash != low), then UNION ALL the row of low *)
Definition chain_between (s : store) (low high : N) : list row :=
  cte_rows s high (fun p => negb (N.eqb (id p) low)) ++
  match by_hash s low with Some l => [l] | None => [] end.

(* ------------------------------------------------------------------ GetHeaderAncestorsByHash *)
Inductive aerr :=
| ENotFound    (* ErrHeaderWithGivenHashes 400: one of the two hashes is not stored *)
| EHigher      (* ErrAncestorHashHigher 400 *)
| ENotSame     (* ErrHeadersNotPartOfTheSameChain 400 *)
| ERange.      (* ErrHeadersForGivenRangeNotFound 404 *)
Inductive ares := AOk (p : list row) | AErr (e : aerr).

(* [fixed = true] : the code (since the fix ed2f6a2 of /repo, which is build/proposed-fixes/C04-1.diff): at EQUAL height the
                    empty list only for a = b, ErrHeadersNotPartOfTheSameChain for two different headers.
   [fixed = false]: the code before ed2f6a2 - two headers of equal height gave the empty list whatever they were
                    (kept for history / for checking an unrepaired tree: VERIF_C04_FIXED=0). *)
Definition ancestors_gen (fixed : bool) (s : store) (a b : N) : ares :=
  match by_hash s a, by_hash s b with
  | Some ra, Some rb =>
    if height ra <? height rb then AErr EHigher
    else if height rb =? height ra then
      (if fixed && negb (N.eqb (id rb) (id ra)) then AErr ENotSame else AOk [])
    else
      match ancestor_on_height s (id ra) (height rb) with
      | None => AErr ENotSame
      | Some x =>
        if N.eqb (id x) (id rb) then
          match chain_between s b a with [] => AErr ERange | l => AOk l end
        else AErr ENotSame
      end
  | _, _ => AErr ENotFound
  end.
Definition ancestors := ancestors_gen true.
Definition ancestors_before_fix := ancestors_gen false.

(* ------------------------------------------------------------------ GetCommonAncestor *)
Inductive cres :=
| COk (r : row)
| CNil           (* service returns (nil, nil); the handler answers ErrAncestorNotFound 400 (fix 5c09f8d) *)
| CErrNotFound   (* ErrHeaderNotFound 404 (a given hash, or a previous header, is not stored) *)
| CErrAnc        (* ErrAncestorNotFound 400 *)
| CPanic         (* service called with an empty list: headers[0] index out of range (not reachable through the endpoint) *)
| CBind.         (* handler: an empty / null list is refused with ErrBindBody 400 (fix 5ab472d) *)

(* the HTTP status the handler produces for each outcome *)
Definition cres_status (c : cres) : Z :=
  match c with COk _ => 200 | CNil => 400 | CErrNotFound => 404 | CErrAnc => 400 | CPanic => 500 | CBind => 400 end.

Definition all_eq (l : list row) : bool :=
  match l with [] => true | x :: r => forallb (fun y => N.eqb (id y) (id x)) r end.

(* for height >= 0 { if allEqual return headers[0]; headers[i] = previous(headers[i]); height-- } ; return nil *)
Fixpoint lockstep (fuel : nat) (s : store) (cur : list row) : cres :=
  match fuel with
  | Datatypes.O => CNil
  | Datatypes.S f =>
    match cur with
    | [] => CPanic
    | x :: _ =>
      if all_eq cur then COk x else
      match all_some (map (fun r => prev_header s (id r)) cur) with
      | None => CErrNotFound
      | Some nxt => lockstep f s nxt
      end
    end
  end.

Definition max_int32 : Z := 2147483647.

Definition common_ancestor (s : store) (l : list N) : cres :=
  match l with
  | [] => CPanic     (* height stays MaxInt32, nothing to lift, areAllElementsEqual([]) = true, headers[0] panics *)
  | _ =>
    match all_some (map (by_hash s) l) with
    | None => CErrNotFound
    | Some hs =>
      let mh := min_height hs max_int32 in
      if mh <? 1 then CNil else
      let h := mh - 1 in
      match all_some (map (fun r => ancestor_on_height s (id r) h) hs) with
      | None => CErrAnc
      | Some cur => lockstep (Z.to_nat (h + 1)) s cur
      end
    end
  end.

(* POST /chain/header/commonAncestor: the handler refuses an empty list before calling the service *)
Definition common_ancestor_endpoint (s : store) (l : list N) : cres :=
  match l with [] => CBind | _ => common_ancestor s l end.

(* ================================================================== declarative side *)
(* [reach s t x]: row x is [t]'s row or one of its ancestors, following stored parent links *)
Inductive reach (s : store) : N -> row -> Prop :=
| reach_here t x : by_hash s t = Some x -> reach s t x
| reach_next t x y : by_hash s t = Some x -> reach s (prev x) y -> reach s t y.

(* [path s a b p]: p lists the rows from a down to b, each the stored parent of the one before *)
Inductive path (s : store) : N -> N -> list row -> Prop :=
| path_end a x : by_hash s a = Some x -> path s a a [x]
| path_cons a b x p : by_hash s a = Some x -> path s (prev x) b p -> path s a b (x :: p).

(* every parent link below t is height-consistent (child = parent + 1).  Holds for every connected
   (non-orphan) header and for orphan chains all of whose stored parents were stored BEFORE their children
   (QueryProofs.connected_regular); fails exactly below an orphan whose parent arrived later, because the
   orphan keeps height 1. *)
Definition regular (s : store) (t : N) : Prop :=
  forall x p, reach s t x -> by_hash s (prev x) = Some p -> height x = height p + 1.

Definition has_child (s : store) (r : row) : Prop := exists c, In c s /\ prev c = id r.

(* ================================================================== boolean oracles (run on OBSERVED answers) *)
Definition row_same (a b : row) : bool :=
  N.eqb (id a) (id b) && N.eqb (prev a) (prev b) && (height a =? height b) && (work a =? work b) &&
  (cum a =? cum b) && st_eqb (st a) (st b) &&
  (p_bits (pl a) =? p_bits (pl b)) && (p_ver (pl a) =? p_ver (pl b)) && N.eqb (p_merkle (pl a)) (p_merkle (pl b)) &&
  (p_ts (pl a) =? p_ts (pl b)) && (p_nonce (pl a) =? p_nonce (pl b)).
Definition stored (s : store) (r : row) : bool := existsb (row_same r) s.
Definition mem_id (i : N) (l : list row) : bool := existsb (fun r => N.eqb (id r) i) l.

Definition reach_b (s : store) (t : N) (i : N) : bool := mem_id i (walk (fuel_of s) s t).
Definition has_child_b (s : store) (r : row) : bool := existsb (fun c => N.eqb (prev c) (id r)) s.

(* tips: exactly the Longest tip and every Stale/Orphan row without a stored child *)
Definition want_tip (s : store) (r : row) : bool :=
  (match tipB s with Some t => N.eqb (id t) (id r) | None => false end)
  || (negb (is_L r) && negb (has_child_b s r)).
Definition tips_ok (s : store) (obs : list row) : bool :=
  forallb (fun r => stored s r && want_tip s r) obs &&
  forallb (fun r => negb (want_tip s r) || mem_id (id r) obs) s.

(* by height: only stored rows of the window, and every Longest row of the window *)
Definition by_height_ok (s : store) (h : Z) (count : option Z) (obs : list row) : bool :=
  let c := match count with Some c => c | None => 1 end in
  forallb (fun r => stored s r && in_window h c r) obs &&
  forallb (fun r => negb (is_L r && in_window h c r) || mem_id (id r) obs) s.

(* p is the parent-linked path from a down to b (checker of [path], by stored rows) *)
Fixpoint linked_b (s : store) (p : list row) : bool :=
  match p with
  | [] => true
  | x :: p' => stored s x && match p' with [] => true | y :: _ => N.eqb (prev x) (id y) end && linked_b s p'
  end.
Definition path_ok (s : store) (a b : N) (p : list row) : bool :=
  match p with
  | [] => N.eqb a b && mem_id a s          (* convention pinned by the repository's own test: a = b gives [] *)
  | x :: _ => negb (N.eqb a b) && N.eqb (id x) a && N.eqb (id (last p x)) b && linked_b s p
  end.

(* the best common ancestor strictly below the minimal height, computed by brute force over the store *)
Definition common_of (s : store) (l : list N) (r : row) : bool := forallb (fun t => reach_b s t (id r)) l.
Definition ca_candidates (s : store) (l : list N) (mh : Z) : list row :=
  filter (fun r => (height r <? mh) && common_of s l r) s.
Definition ca_ok (s : store) (l : list N) (mh : Z) (r : row) : bool :=
  stored s r && (height r <? mh) && common_of s l r &&
  forallb (fun r' => height r' <=? height r) (ca_candidates s l mh).
