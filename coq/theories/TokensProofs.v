(* C10 proofs about the model of Tokens.v: all statements quantify over every operation sequence
   (induction), every admin token and every token value. *)
From Coq Require Import String List Bool Arith Lia.
From BHS Require Import Tokens.
Import ListNotations.

(* ---------------- basic facts about the table ---------------- *)

Lemma mem_In : forall t st, mem t st = true <-> In t st.
Proof.
  intros t st. unfold mem. rewrite existsb_exists. split.
  - intros [x [Hin Heq]]. apply String.eqb_eq in Heq. subst x. exact Hin.
  - intros Hin. exists t. split; [exact Hin | apply String.eqb_refl].
Qed.

Lemma bool_ext : forall a b : bool, (a = true <-> b = true) -> a = b.
Proof. intros a b H. destruct a, b; try reflexivity; destruct H as [H1 H2]; [symmetry; apply H1 | apply H2]; reflexivity. Qed.

Lemma In_insert : forall x t st, In x (insert t st) <-> x = t \/ In x st.
Proof.
  intros x t st. unfold insert. destruct (mem t st) eqn:Hm.
  - apply mem_In in Hm. split; [intros H; right; exact H | intros [H | H]; [subst x; exact Hm | exact H]].
  - rewrite in_app_iff. simpl. split.
    + intros [H | [H | []]]; [right; exact H | left; symmetry; exact H].
    + intros [H | H]; [right; left; symmetry; exact H | left; exact H].
Qed.

Lemma In_delete : forall x t st, In x (delete t st) <-> x <> t /\ In x st.
Proof.
  intros x t st. unfold delete. rewrite filter_In. split.
  - intros [Hin Hneq]. split; [| exact Hin]. apply negb_true_iff in Hneq. apply String.eqb_neq in Hneq. exact Hneq.
  - intros [Hneq Hin]. split; [exact Hin |]. apply negb_true_iff. apply String.eqb_neq. exact Hneq.
Qed.

Lemma mem_insert : forall t t' st, mem t (insert t' st) = String.eqb t' t || mem t st.
Proof.
  intros t t' st. apply bool_ext. rewrite orb_true_iff, !mem_In, In_insert, String.eqb_eq.
  split; (intros [H | H]; [left; symmetry; exact H | right; exact H]).
Qed.

Lemma mem_delete : forall t t' st, mem t (delete t' st) = negb (String.eqb t' t) && mem t st.
Proof.
  intros t t' st. apply bool_ext. rewrite andb_true_iff, negb_true_iff, !mem_In, In_delete, String.eqb_neq.
  split; (intros [H1 H2]; split; [intros He; apply H1; symmetry; exact He | exact H2]).
Qed.

Lemma is_admin_get : forall admin st c, is_admin (get_token admin st c) = String.eqb c admin.
Proof.
  intros admin st c. unfold get_token. destruct (String.eqb c admin); [reflexivity |].
  destruct (mem c st); reflexivity.
Qed.

Lemma only_admin_is_admin : forall admin st t, get_token admin st t = Admin <-> t = admin.
Proof.
  intros admin st t. unfold get_token. destruct (String.eqb t admin) eqn:He.
  - apply String.eqb_eq in He. split; [intros _; exact He | reflexivity].
  - apply String.eqb_neq in He. destruct (mem t st); split; intros H; try discriminate H; contradiction.
Qed.

(* ---------------- the state after a history is the declarative marking ---------------- *)

Lemma step_mem : forall admin st o t, mem t (step admin st o) = mark admin t (mem t st) o.
Proof.
  intros admin st o t. destruct o as [c t' | c t' | t' | t' | | c t' | c t' | t']; simpl; try reflexivity.
  - rewrite is_admin_get. destruct (String.eqb c admin); simpl; [| reflexivity].
    rewrite mem_insert. destruct (String.eqb t' t); reflexivity.
  - rewrite is_admin_get. destruct (String.eqb c admin); simpl; [| reflexivity].
    rewrite mem_delete. destruct (String.eqb t' t); reflexivity.
  - rewrite mem_delete. destruct (String.eqb t' t); reflexivity.
Qed.

Lemma run_mem : forall admin ops st t,
  mem t (run admin st ops) = fold_left (mark admin t) ops (mem t st).
Proof.
  intros admin ops. unfold run. induction ops as [| o r IH]; intros st t; simpl; [reflexivity |].
  rewrite IH, step_mem. reflexivity.
Qed.

Lemma run_app : forall admin st pre post, run admin st (pre ++ post) = run admin (run admin st pre) post.
Proof. intros admin st pre post. unfold run. apply fold_left_app. Qed.

Lemma role_spec : forall admin ops t, get_token admin (run admin [] ops) t = spec_role admin ops t.
Proof.
  intros admin ops t. unfold get_token, spec_role, issuedb. rewrite run_mem. reflexivity.
Qed.

Lemma revokes_not_create : forall admin o t, revokes admin o t -> o <> Create admin t.
Proof. intros admin o t [H | H] Hc; rewrite H in Hc; discriminate Hc. Qed.

Lemma mark_cases : forall admin t acc o,
  (o = Create admin t /\ mark admin t acc o = true) \/
  (revokes admin o t /\ mark admin t acc o = false) \/
  (o <> Create admin t /\ ~ revokes admin o t /\ mark admin t acc o = acc).
Proof.
  intros admin t acc o. unfold revokes.
  destruct o as [c t' | c t' | t' | t' | | c t' | c t' | t']; simpl;
    try (right; right; repeat split; [intros H; discriminate H | intros [H | H]; discriminate H]).
  - destruct (String.eqb c admin) eqn:Hc; destruct (String.eqb t' t) eqn:Ht; simpl.
    + apply String.eqb_eq in Hc, Ht. subst. left. split; reflexivity.
    + apply String.eqb_neq in Ht. right; right. repeat split; [intros H; inversion H; contradiction | intros [H | H]; discriminate H].
    + apply String.eqb_neq in Hc. right; right. repeat split; [intros H; inversion H; contradiction | intros [H | H]; discriminate H].
    + apply String.eqb_neq in Hc. right; right. repeat split; [intros H; inversion H; contradiction | intros [H | H]; discriminate H].
  - destruct (String.eqb c admin) eqn:Hc; destruct (String.eqb t' t) eqn:Ht; simpl.
    + apply String.eqb_eq in Hc, Ht. subst. right; left. split; [left; reflexivity | reflexivity].
    + apply String.eqb_neq in Ht. right; right. repeat split; [intros H; discriminate H | intros [H | H]; [inversion H; contradiction | discriminate H]].
    + apply String.eqb_neq in Hc. right; right. repeat split; [intros H; discriminate H | intros [H | H]; [inversion H; contradiction | discriminate H]].
    + apply String.eqb_neq in Hc. right; right. repeat split; [intros H; discriminate H | intros [H | H]; [inversion H; contradiction | discriminate H]].
  - destruct (String.eqb t' t) eqn:Ht.
    + apply String.eqb_eq in Ht. subst. right; left. split; [right; reflexivity | reflexivity].
    + apply String.eqb_neq in Ht. right; right. repeat split; [intros H; discriminate H | intros [H | H]; [discriminate H | inversion H; contradiction]].
Qed.

Lemma split_last : forall (A : Type) (pre post ops : list A) (x o : A),
  pre ++ x :: post = ops ++ [o] ->
  (post = [] /\ x = o /\ pre = ops) \/ (exists post', post = post' ++ [o] /\ ops = pre ++ x :: post').
Proof.
  intros A pre post ops x o H.
  destruct post as [| p post0].
  - left. apply app_inj_tail in H. destruct H as [H1 H2]. repeat split; assumption.
  - right. assert (Hne : p :: post0 <> []) by (intros Hn; discriminate Hn).
    destruct (exists_last Hne) as [post' [a Hp]]. rewrite Hp in H |- *.
    replace (pre ++ x :: post' ++ [a]) with ((pre ++ x :: post') ++ [a]) in H
      by (rewrite <- app_assoc; reflexivity).
    apply app_inj_tail in H. destruct H as [H1 H2]. subst a. exists post'. split; [reflexivity | symmetry; exact H1].
Qed.

Lemma issuedb_snoc : forall admin ops o t, issuedb admin (ops ++ [o]) t = mark admin t (issuedb admin ops t) o.
Proof. intros admin ops o t. unfold issuedb. rewrite fold_left_app. reflexivity. Qed.

Lemma issuedb_iff : forall admin ops t, issuedb admin ops t = true <-> issued admin ops t.
Proof.
  intros admin ops t. induction ops as [| o ops IH] using rev_ind.
  - unfold issuedb, issued. simpl. split; [intros H; discriminate H |].
    intros [pre [post [H _]]]. destruct pre; discriminate H.
  - rewrite issuedb_snoc.
    destruct (mark_cases admin t (issuedb admin ops t) o) as [[Ho Hm] | [[Ho Hm] | [Hnc [Hnr Hm]]]]; rewrite Hm.
    + split; [intros _ | reflexivity]. exists ops, []. split; [rewrite Ho; reflexivity | intros o' []].
    + split; [intros H; discriminate H |]. intros [pre [post [Hs Hn]]]. exfalso. symmetry in Hs.
      apply split_last in Hs. destruct Hs as [[_ [Hx _]] | [post' [Hp _]]].
      * apply (revokes_not_create admin o t Ho). symmetry. exact Hx.
      * apply (Hn o); [rewrite Hp; apply in_or_app; right; left; reflexivity | exact Ho].
    + rewrite IH. unfold issued. split.
      * intros [pre [post [Hs Hn]]]. exists pre, (post ++ [o]). split.
        -- rewrite Hs, <- app_assoc. reflexivity.
        -- intros o' Hin. apply in_app_or in Hin. destruct Hin as [Hin | [Hin | []]]; [exact (Hn o' Hin) | subst o'; exact Hnr].
      * intros [pre [post [Hs Hn]]]. symmetry in Hs. apply split_last in Hs. destruct Hs as [[_ [Hx _]] | [post' [Hp Hops]]].
        -- exfalso. apply Hnc. symmetry. exact Hx.
        -- exists pre, post'. split; [exact Hops |]. intros o' Hin. apply Hn. rewrite Hp. apply in_or_app. left. exact Hin.
Qed.

(* ---------------- C10: the headline statements ---------------- *)

(* after any history, t authenticates iff it is the admin token or was issued and not revoked since *)
Theorem auth_iff_issued : forall admin ops t,
  authenticated (get_token admin (run admin [] ops) t) = true <-> t = admin \/ issued admin ops t.
Proof.
  intros admin ops t. rewrite role_spec. unfold spec_role.
  destruct (String.eqb t admin) eqn:He.
  - apply String.eqb_eq in He. simpl. split; [intros _; left; exact He | reflexivity].
  - apply String.eqb_neq in He. destruct (issuedb admin ops t) eqn:Hi; simpl.
    + split; [intros _; right; apply issuedb_iff; exact Hi | reflexivity].
    + split; [intros H; discriminate H |]. intros [H | H]; [contradiction |].
      apply issuedb_iff in H. rewrite H in Hi. discriminate Hi.
Qed.

(* ... and then as a non-admin *)
Theorem user_iff_issued : forall admin ops t,
  get_token admin (run admin [] ops) t = User <-> t <> admin /\ issued admin ops t.
Proof.
  intros admin ops t. rewrite role_spec. unfold spec_role.
  destruct (String.eqb t admin) eqn:He.
  - apply String.eqb_eq in He. split; [intros H; discriminate H | intros [H _]; contradiction].
  - apply String.eqb_neq in He. destruct (issuedb admin ops t) eqn:Hi.
    + split; [intros _; split; [exact He | apply issuedb_iff; exact Hi] | reflexivity].
    + split; [intros H; discriminate H |]. intros [_ H]. apply issuedb_iff in H. rewrite H in Hi. discriminate Hi.
Qed.

Lemma outcome_spec_eq : forall admin pre o,
  outcome_of admin (run admin [] pre) o = spec_outcome admin pre o.
Proof.
  intros admin pre o. destruct o as [c t | c t | t | t | | c t | c t | t]; simpl;
    rewrite ?is_admin_get, ?role_spec; reflexivity.
Qed.

Lemma trace_nth : forall admin pre st o post,
  nth_error (trace admin st (pre ++ o :: post)) (length pre) =
  Some (outcome_of admin (run admin st pre) o, run admin st (pre ++ [o])).
Proof.
  intros admin pre. induction pre as [| p pre IH]; intros st o post; simpl; [reflexivity |].
  rewrite IH. reflexivity.
Qed.

(* at every position of every operation sequence the answer is the one the history up to there dictates *)
Theorem every_position : forall admin ops pre o post,
  ops = pre ++ o :: post ->
  exists st', nth_error (trace admin [] ops) (length pre) = Some (spec_outcome admin pre o, st') /\
              forall t, get_token admin st' t = spec_role admin (pre ++ [o]) t.
Proof.
  intros admin ops pre o post Hops. subst ops. exists (run admin [] (pre ++ [o])). split.
  - rewrite trace_nth, outcome_spec_eq. reflexivity.
  - intros t. apply role_spec.
Qed.

Theorem trace_is_spec_trace : forall admin rest pre,
  map fst (trace admin (run admin [] pre) rest) = spec_trace admin pre rest.
Proof.
  intros admin rest. induction rest as [| o r IH]; intros pre; simpl; [reflexivity |].
  rewrite outcome_spec_eq. f_equal.
  replace (step admin (run admin [] pre) o) with (run admin [] (pre ++ [o])) by (rewrite run_app; reflexivity).
  apply IH.
Qed.

(* creating or revoking t never changes the validity of another token *)
Theorem others_unaffected : forall admin st o t',
  target o <> Some t' ->
  get_token admin (step admin st o) t' = get_token admin st t'.
Proof.
  intros admin st o t' Hne. unfold get_token. rewrite step_mem.
  destruct (mark_cases admin t' (mem t' st) o) as [[Ho _] | [[[Ho | Ho] _] | [_ [_ Hm]]]].
  - exfalso. apply Hne. rewrite Ho. reflexivity.
  - exfalso. apply Hne. rewrite Ho. reflexivity.
  - exfalso. apply Hne. rewrite Ho. reflexivity.
  - rewrite Hm. reflexivity.
Qed.

(* operations that are not an admin create/revoke change nothing at all *)
Theorem non_admin_ops_change_nothing : forall admin st o,
  (forall t, o <> Create admin t /\ o <> Revoke admin t /\ o <> Race t) -> step admin st o = st.
Proof.
  intros admin st o H. destruct o as [c t | c t | t | t | | c t | c t | t]; simpl; try reflexivity.
  - rewrite is_admin_get. destruct (String.eqb c admin) eqn:Hc; [| reflexivity].
    apply String.eqb_eq in Hc. subst c. destruct (H t) as [H1 _]. exfalso. apply H1. reflexivity.
  - rewrite is_admin_get. destruct (String.eqb c admin) eqn:Hc; [| reflexivity].
    apply String.eqb_eq in Hc. subst c. destruct (H t) as [_ [H2 _]]. exfalso. apply H2. reflexivity.
  - destruct (H t) as [_ [_ H3]]. exfalso. apply H3. reflexivity.
Qed.

Theorem admin_always_admin : forall admin st ops,
  get_token admin (run admin st ops) admin = Admin.
Proof. intros admin st ops. apply only_admin_is_admin. reflexivity. Qed.

(* revoking the admin token (with any credential, at any point) does not disable it, on either transport *)
Theorem admin_not_revocable : forall admin pre c post,
  let st := run admin [] (pre ++ Revoke c admin :: post) in
  outcome_of admin st (AuthHttp admin) = ORole Admin /\ outcome_of admin st (AuthWs admin) = OWs true.
Proof.
  intros admin pre c post st. simpl. rewrite (proj2 (only_admin_is_admin admin st admin) eq_refl).
  split; reflexivity.
Qed.

(* an issued token never authenticates as admin *)
Theorem issued_never_admin : forall admin st t, t <> admin -> get_token admin st t <> Admin.
Proof. intros admin st t Hne H. apply only_admin_is_admin in H. contradiction. Qed.

Theorem http_ws_agree : forall admin st t ok r,
  outcome_of admin st (AuthWs t) = OWs ok -> outcome_of admin st (AuthHttp t) = ORole r ->
  (ok = true <-> r <> NoTok).
Proof.
  intros admin st t ok r Hw Hh. simpl in Hw, Hh. inversion Hw as [Hok]. inversion Hh as [Hr].
  destruct (get_token admin st t); simpl; split; intros H; try reflexivity; try discriminate H;
    try (intros Hc; discriminate Hc); exfalso; apply H; reflexivity.
Qed.

Theorem restart_keeps_table : forall admin st, step admin st Restart = st.
Proof. reflexivity. Qed.

(* ---------------- refinement to the set specification ---------------- *)

Theorem refinement_step : forall admin st o x,
  abs (step admin st o) x <-> spec_step admin (abs st) o x.
Proof.
  intros admin st o x. unfold abs. destruct o as [c t | c t | t | t | | c t | c t | t]; simpl; try tauto.
  - rewrite is_admin_get. destruct (String.eqb c admin); [apply In_insert | tauto].
  - rewrite is_admin_get. destruct (String.eqb c admin); [apply In_delete | tauto].
  - apply In_delete.
Qed.

Lemma spec_step_ext : forall admin (S S' : token -> Prop) o,
  (forall x, S x <-> S' x) -> forall x, spec_step admin S o x <-> spec_step admin S' o x.
Proof.
  intros admin S S' o H x. destruct o as [c t | c t | t | t | | c t | c t | t]; simpl; try apply H.
  - destruct (String.eqb c admin); [rewrite H; tauto | apply H].
  - destruct (String.eqb c admin); [rewrite H; tauto | apply H].
  - rewrite H; tauto.
Qed.

Lemma spec_run_ext : forall admin ops (S S' : token -> Prop),
  (forall x, S x <-> S' x) -> forall x, spec_run admin S ops x <-> spec_run admin S' ops x.
Proof.
  intros admin ops. unfold spec_run. induction ops as [| o r IH]; intros S S' H x; simpl; [apply H |].
  apply IH. apply spec_step_ext. exact H.
Qed.

Theorem refinement_run : forall admin ops st x,
  abs (run admin st ops) x <-> spec_run admin (abs st) ops x.
Proof.
  intros admin ops. unfold run, spec_run. induction ops as [| o r IH]; intros st x; simpl; [tauto |].
  rewrite IH. apply (spec_run_ext admin r). intros y. apply refinement_step.
Qed.

Lemma created_In : forall admin ops t, In t (created admin ops) <-> In (Create admin t) ops.
Proof.
  intros admin ops t. induction ops as [| o r IH]; simpl; [tauto |].
  destruct o as [c t' | c t' | t' | t' | | c t' | c t' | t']; simpl;
    try (rewrite IH; split; [intros H; right; exact H | intros [H | H]; [discriminate H | exact H]]).
  destruct (String.eqb c admin) eqn:Hc.
  - apply String.eqb_eq in Hc. subst c. simpl. rewrite IH. split.
    + intros [H | H]; [left; rewrite H; reflexivity | right; exact H].
    + intros [H | H]; [left; inversion H; reflexivity | right; exact H].
  - apply String.eqb_neq in Hc. rewrite IH. split; [intros H; right; exact H |].
    intros [H | H]; [inversion H; exfalso; apply Hc; assumption | exact H].
Qed.

Lemma revoked_In : forall admin ops t, In t (revoked admin ops) <-> exists o, In o ops /\ revokes admin o t.
Proof.
  intros admin ops t. unfold revokes. induction ops as [| o r IH]; simpl.
  - split; [intros [] | intros [o [[] _]]].
  - assert (Hskip : (forall t0, o <> Revoke admin t0) -> (forall t0, o <> Race t0) ->
                    (In t (revoked admin r) <-> exists o0, (o = o0 \/ In o0 r) /\ (o0 = Revoke admin t \/ o0 = Race t))).
    { intros H1 H2. rewrite IH. split.
      - intros [o0 [Hin Hr]]. exists o0. split; [right; exact Hin | exact Hr].
      - intros [o0 [[He | Hin] Hr]]; [subst o0; destruct Hr as [Hr | Hr]; [exfalso; exact (H1 t Hr) | exfalso; exact (H2 t Hr)] |].
        exists o0. split; assumption. }
    destruct o as [c t' | c t' | t' | t' | | c t' | c t' | t'];
      try (apply Hskip; intros t0 Hd; discriminate Hd).
    + destruct (String.eqb c admin) eqn:Hc.
      * apply String.eqb_eq in Hc. subst c. simpl. rewrite IH. split.
        -- intros [H | [o0 [Hin Hr]]]; [exists (Revoke admin t'); split; [left; reflexivity | left; rewrite H; reflexivity] |
                                       exists o0; split; [right; exact Hin | exact Hr]].
        -- intros [o0 [[He | Hin] Hr]].
           ++ subst o0. destruct Hr as [Hr | Hr]; [left; inversion Hr; reflexivity | discriminate Hr].
           ++ right. exists o0. split; assumption.
      * apply String.eqb_neq in Hc. apply Hskip; [| intros t0 Hd; discriminate Hd].
        intros t0 Hd. inversion Hd. apply Hc. assumption.
    + simpl. rewrite IH. split.
      * intros [H | [o0 [Hin Hr]]]; [exists (Race t'); split; [left; reflexivity | right; rewrite H; reflexivity] |
                                     exists o0; split; [right; exact Hin | exact Hr]].
      * intros [o0 [[He | Hin] Hr]].
        -- subst o0. destruct Hr as [Hr | Hr]; [discriminate Hr | left; inversion Hr; reflexivity].
        -- right. exists o0. split; assumption.
Qed.

Lemma fresh_from_split : forall admin pre p c t post,
  fresh_from admin p (pre ++ Create c t :: post) ->
  c = admin -> t <> admin /\ forall o', In o' (p ++ pre) -> ~ mentions o' t.
Proof.
  intros admin pre. induction pre as [| q pre IH]; intros p c t post Hf Hc; simpl in Hf.
  - destruct Hf as [Hcond _]. rewrite app_nil_r. apply Hcond. exact Hc.
  - destruct Hf as [_ Hf]. apply IH in Hf; [| exact Hc]. destruct Hf as [Hne Hf]. split; [exact Hne |].
    intros o' Hin. apply Hf. rewrite <- app_assoc. exact Hin.
Qed.

(* when the generated values are fresh the table is exactly created \ revoked *)
Theorem set_spec : forall admin ops t, fresh admin ops ->
  (In t (run admin [] ops) <-> In t (created admin ops) /\ ~ In t (revoked admin ops)).
Proof.
  intros admin ops t Hf. rewrite <- mem_In. rewrite run_mem. simpl.
  change (fold_left (mark admin t) ops false) with (issuedb admin ops t).
  rewrite issuedb_iff, created_In, revoked_In. split.
  - intros [pre [post [Hops Hn]]]. split.
    + rewrite Hops. apply in_or_app. right. left. reflexivity.
    + intros [o [Hin Hr]]. rewrite Hops in Hin. apply in_app_or in Hin. destruct Hin as [Hin | [Hin | Hin]].
      * unfold fresh in Hf. rewrite Hops in Hf. apply fresh_from_split in Hf; [| reflexivity].
        destruct Hf as [_ Hf]. apply (Hf o); [exact Hin |].
        destruct Hr as [Hr | Hr]; rewrite Hr; simpl; [right; reflexivity | reflexivity].
      * apply (revokes_not_create admin o t Hr). symmetry. exact Hin.
      * exact (Hn o Hin Hr).
  - intros [Hc Hr]. apply in_split in Hc. destruct Hc as [pre [post Hops]]. exists pre, post. split; [exact Hops |].
    intros o Hin Hrv. apply Hr. exists o. split; [| exact Hrv]. rewrite Hops. apply in_or_app. right. right. exact Hin.
Qed.

Lemma fresh_created_aux : forall admin ops p, fresh_from admin p ops ->
  (forall t, In t (created admin ops) -> forall o', In o' p -> ~ mentions o' t) /\ NoDup (created admin ops).
Proof.
  intros admin ops. induction ops as [| o r IH]; intros p Hf; simpl.
  - split; [intros t [] | constructor].
  - simpl in Hf. destruct Hf as [Hcond Hf]. apply IH in Hf. destruct Hf as [Hm Hnd].
    assert (Hm' : forall t, In t (created admin r) -> forall o', In o' p -> ~ mentions o' t).
    { intros t Hin o' Hin'. apply (Hm t Hin). apply in_or_app. left. exact Hin'. }
    destruct o as [c t0 | c t0 | t0 | t0 | | c t0 | c t0 | t0]; try (split; assumption).
    destruct (String.eqb c admin) eqn:Hc; [| split; assumption].
    apply String.eqb_eq in Hc. destruct (Hcond Hc) as [_ Hfr]. split.
    + intros t [Ht | Ht]; [subst t; exact Hfr | apply Hm'; exact Ht].
    + constructor; [| exact Hnd]. intros Hin. apply (Hm t0 Hin (Create c t0)).
      * apply in_or_app. right. left. reflexivity.
      * simpl. right. reflexivity.
Qed.

(* freshness of the draws is exactly what makes issued tokens pairwise distinct *)
Theorem fresh_created_distinct : forall admin ops, fresh admin ops -> NoDup (created admin ops).
Proof. intros admin ops Hf. apply (fresh_created_aux admin ops [] Hf). Qed.

(* the table never holds a value twice (PRIMARY KEY + ON CONFLICT DO NOTHING) *)
Lemma step_nodup : forall admin st o, NoDup st -> NoDup (step admin st o).
Proof.
  intros admin st o Hnd. destruct o as [c t | c t | t | t | | c t | c t | t]; simpl; try exact Hnd.
  - destruct (is_admin (get_token admin st c)); [| exact Hnd]. unfold insert.
    destruct (mem t st) eqn:Hm; [exact Hnd |].
    apply NoDup_rev in Hnd. apply (NoDup_cons t) in Hnd.
    + apply NoDup_rev in Hnd. simpl in Hnd. rewrite rev_involutive in Hnd. exact Hnd.
    + intros Hin. apply in_rev in Hin. apply mem_In in Hin. rewrite Hin in Hm. discriminate Hm.
  - destruct (is_admin (get_token admin st c)); [| exact Hnd]. apply NoDup_filter. exact Hnd.
  - apply NoDup_filter. exact Hnd.
Qed.

Theorem table_nodup : forall admin ops st, NoDup st -> NoDup (run admin st ops).
Proof.
  intros admin ops. unfold run. induction ops as [| o r IH]; intros st Hnd; simpl; [exact Hnd |].
  apply IH. apply step_nodup. exact Hnd.
Qed.

(* ---------------- storage failures and overlapping operations ---------------- *)

(* an operation whose COMMIT failed changes nothing ... *)
Theorem failed_op_changes_nothing : forall admin st o, is_failed o = true -> step admin st o = st.
Proof. intros admin st o H. destruct o; simpl in H; try discriminate H; reflexivity. Qed.

(* ... its answer is not a success ... *)
Theorem failed_op_not_success : forall admin st o, is_failed o = true ->
  outcome_of admin st o = OFailed \/ outcome_of admin st o = ODenied.
Proof.
  intros admin st o H. destruct o as [c t | c t | t | t | | c t | c t | t]; simpl in H; try discriminate H; simpl;
    destruct (is_admin (get_token admin st c)); [left | right | left | right]; reflexivity.
Qed.

(* ... and every later answer is the one of the history with the failed operations erased *)
Theorem failed_ops_erasable : forall admin ops st,
  run admin st ops = run admin st (filter (fun o => negb (is_failed o)) ops).
Proof.
  intros admin ops. unfold run. induction ops as [| o r IH]; intros st; simpl; [reflexivity |].
  destruct (is_failed o) eqn:Hf; simpl.
  - rewrite (failed_op_changes_nothing admin st o Hf). apply IH.
  - apply IH.
Qed.

Lemma mark_fold_true : forall admin t l acc,
  fold_left (mark admin t) l acc = true -> acc = true \/ In (Create admin t) l.
Proof.
  intros admin t l. induction l as [| o r IH]; intros acc H; simpl in H; [left; exact H |].
  apply IH in H. destruct H as [H | H]; [| right; right; exact H].
  destruct (mark_cases admin t acc o) as [[Ho _] | [[_ Hm] | [_ [_ Hm]]]].
  - right. left. exact Ho.
  - rewrite Hm in H. discriminate H.
  - rewrite Hm in H. left. exact H.
Qed.

(* Linearisation reading.  Every operation has a single access to the shared table (one SQL statement), its
   linearisation point, between its invocation and its response; an execution of overlapping operations is
   the sequence [lin] of the operations in the order of these points, and an operation invoked after the
   response of another one comes later in it.  Hence: once a revocation of t (plain, or the one inside Race)
   has taken effect, every authentication of t that takes effect later - in particular every one that starts
   after the revocation answered - is refused on both transports, as long as t is not created again. *)
Theorem after_revoke_refused : forall admin pre o mid t,
  t <> admin -> revokes admin o t -> ~ In (Create admin t) mid ->
  let st := run admin [] (pre ++ o :: mid) in
  outcome_of admin st (AuthHttp t) = ORole NoTok /\ outcome_of admin st (AuthWs t) = OWs false.
Proof.
  intros admin pre o mid t Hne Hr Hnc st.
  assert (Hg : get_token admin st t = NoTok).
  { unfold st. rewrite role_spec. unfold spec_role. apply String.eqb_neq in Hne. rewrite Hne.
    destruct (issuedb admin (pre ++ o :: mid) t) eqn:Hi; [| reflexivity]. exfalso.
    unfold issuedb in Hi. rewrite fold_left_app in Hi. simpl in Hi.
    apply mark_fold_true in Hi. destruct Hi as [Hi | Hi]; [| exact (Hnc Hi)].
    destruct (mark_cases admin t (fold_left (mark admin t) pre false) o) as [[Ho _] | [[_ Hm] | [_ [Hnr _]]]].
    - exact (revokes_not_create admin o t Hr Ho).
    - rewrite Hm in Hi. discriminate Hi.
    - exact (Hnr Hr). }
  simpl. rewrite Hg. split; reflexivity.
Qed.

(* the authenticate that overlaps the revocation may be linearised on either side of it *)
Theorem race_inflight_allowed : forall admin pre t r,
  outcome_of admin (run admin [] pre) (Race t) = ORace r -> race_allowed admin pre t r.
Proof.
  intros admin pre t r H. simpl in H. inversion H as [Hr]. left. apply role_spec.
Qed.

(* the two allowed answers are: the validity before, or refused (the admin token stays admin) *)
Theorem race_allowed_cases : forall admin pre t r, race_allowed admin pre t r ->
  r = spec_role admin pre t \/ (t <> admin /\ r = NoTok) \/ (t = admin /\ r = Admin).
Proof.
  intros admin pre t r [H | H]; [left; exact H |]. right.
  unfold spec_role in H. destruct (String.eqb t admin) eqn:He.
  - apply String.eqb_eq in He. right. split; assumption.
  - apply String.eqb_neq in He. left. split; [exact He |].
    rewrite issuedb_snoc in H. simpl in H. rewrite !String.eqb_refl in H. exact H.
Qed.

(* Authentications do not interfere with one another: whatever authentications - of whatever tokens, on either
   transport, valid or not - take effect before it (in the linearisation reading: all those that overlap it or
   precede it), the table and therefore the verdict for t is the one determined by (admin, table, t) alone. *)
Theorem auths_do_not_interfere : forall admin others st,
  forallb is_auth others = true -> run admin st others = st.
Proof.
  intros admin others. unfold run. induction others as [| o r IH]; intros st H; simpl; [reflexivity |].
  simpl in H. apply andb_true_iff in H. destruct H as [Ho Hr].
  destruct o; simpl in Ho; try discriminate Ho; simpl; apply IH; exact Hr.
Qed.

Theorem verdict_depends_on_own_token_only : forall admin others st o,
  forallb is_auth others = true -> is_auth o = true ->
  outcome_of admin (run admin st others) o = outcome_of admin st o.
Proof. intros admin others st o H _. rewrite (auths_do_not_interfere admin others st H). reflexivity. Qed.

(* ---------------- Examples: the hypotheses are satisfiable on a concrete non-trivial history ---------------- *)
Open Scope string_scope.

Definition ex_admin : token := "adm".
Definition ex_ops : list op :=
  [AuthHttp "t0"; Create "adm" "t1"; AuthHttp "t1"; Create "t1" "zz"; Revoke "t1" "t1"; Create "adm" "t2";
   Restart; Revoke "adm" "t1"; AuthWs "t1"; AuthWs "t2"; Revoke "adm" "adm"; AuthHttp "adm"; Revoke "adm" "nope";
   RevokeFail "adm" "t2"; AuthHttp "t2"; CreateFail "adm" "t3"; AuthHttp "t3"; CreateFail "t2" "t4";
   Create "adm" "t5"; Race "t5"; AuthHttp "t5"; Race "adm"; Race "t2"].

Example ex_trace :
  map fst (trace ex_admin [] ex_ops) =
  [ORole NoTok; OCreated; ORole User; ODenied; ODenied; OCreated; ORestarted; ORevoked; OWs false; OWs true;
   ORevoked; ORole Admin; ORevoked; OFailed; ORole User; OFailed; ORole NoTok; ODenied;
   OCreated; ORace User; ORole NoTok; ORace Admin; ORace User]
  /\ run ex_admin [] ex_ops = [].
Proof. vm_compute. split; reflexivity. Qed.

Example ex_issued : issued ex_admin (firstn 13 ex_ops) "t2" /\ ~ issued ex_admin ex_ops "t1".
Proof.
  split.
  - apply issuedb_iff. vm_compute. reflexivity.
  - intros H. apply issuedb_iff in H. vm_compute in H. discriminate H.
Qed.

Ltac fresh_here :=
  intros _; split; [intros Hd; discriminate Hd |
    intros o' Hin Hm; simpl in Hin;
    repeat (destruct Hin as [Hin | Hin]; [subst o'; simpl in Hm; intuition discriminate |]); contradiction].

Example ex_fresh : fresh ex_admin ex_ops.
Proof.
  unfold fresh, ex_ops, ex_admin. simpl.
  repeat (split; [first [exact I | fresh_here | (intros Hd; discriminate Hd)] |]). exact I.
Qed.

Example ex_set_spec : created ex_admin ex_ops = ["t1"; "t2"; "t5"] /\ revoked ex_admin ex_ops = ["t1"; "adm"; "nope"; "t5"; "adm"; "t2"].
Proof. vm_compute. split; reflexivity. Qed.

(* without freshness the set form would be wrong (a value revoked before it is drawn), which is why
   the hypothesis is there; the trace form above needs no such hypothesis *)
Example ex_not_fresh :
  let ops := [Revoke "adm" "t"; Create "adm" "t"] in
  In "t" (run "adm" [] ops) /\ In "t" (revoked "adm" ops) /\ ~ fresh "adm" ops.
Proof.
  simpl. split; [left; reflexivity |]. split; [left; reflexivity |].
  unfold fresh. simpl. intros [_ [H _]]. destruct (H eq_refl) as [_ Hf].
  apply (Hf (Revoke "adm" "t")); [left; reflexivity | simpl; right; reflexivity].
Qed.
