(* C05 definitions: crash states (the first k planned writes happened), restart, and the boolean
   structural-validity oracle applied to observed tables.  Definitions only. *)
From Coq Require Import ZArith NArith List Bool.
From BHS Require Import Work Store Chain ChainSpec.
Import ListNotations.
Open Scope Z_scope.

(* the store a kill (or a failing write) leaves behind while header h is being added to s:
   the first k of the planned writes happened, each in its own transaction *)
Definition crash_state (f : list N) (s : store) (h : src) (k : nat) : store :=
  exec s (snd (plan f s h)) k.

Definition n_writes (f : list N) (s : store) (h : src) : nat := length (snd (plan f s h)).

(* history-level: headers before index i were ingested completely, header i got its first k writes *)
Definition crash_run (f : list N) (s0 : store) (hs : list src) (i k : nat) : store :=
  let s := run_from f s0 (firstn i hs) in
  match nth_error hs i with
  | Some h => crash_state f s h k
  | None => s
  end.

(* which error Add reports when write number k (0-based) fails: the updates are inside switchChainsStates
   (ChainUpdateFail), the insert is HeaderSaveFail *)
Inductive fault_outcome := FChainUpdateFail | FHeaderSaveFail | FNoWrite.
Definition fault_kind (f : list N) (s : store) (h : src) (k : nat) : fault_outcome :=
  match nth_error (snd (plan f s h)) k with
  | Some (WUpdate _ _) => FChainUpdateFail
  | Some (WInsert _) => FHeaderSaveFail
  | None => FNoWrite
  end.

(* ---- structural validity, as the statement words it, on a raw table ---- *)
Definition is_L (r : row) : bool := st_eqb (st r) Longest.
Definition count_L_at (s : store) (h : Z) : nat := length (filter (fun r => is_L r && (height r =? h)) s).
Fixpoint heights_up_to (n : nat) : list Z :=
  match n with Datatypes.O => [0] | Datatypes.S m => Z.of_nat n :: heights_up_to m end.
(* exactly one LONGEST_CHAIN row at every height 0..maxLh, none above *)
Definition one_L_per_height (s : store) : bool :=
  (0 <=? maxLh s) &&
  forallb (fun h => Nat.eqb (count_L_at s h) 1) (heights_up_to (Z.to_nat (maxLh s))) &&
  Nat.eqb (length (filter is_L s)) (S (Z.to_nat (maxLh s))).
(* every LONGEST_CHAIN row above height 0 has a LONGEST_CHAIN parent one below *)
Definition L_parent_linked (s : store) : bool :=
  forallb (fun r => negb (is_L r) || (height r =? 0) ||
                    existsb (fun p => is_L p && N.eqb (id p) (prev r) && (height p + 1 =? height r)) s) s.
Definition struct_validb (s : store) : bool := one_L_per_height s && L_parent_linked s.

(* every row of [old] is still present in [new] with all fields but the label unchanged *)
Definition same_but_label (a b : row) : bool :=
  N.eqb (id a) (id b) && N.eqb (prev a) (prev b) && (height a =? height b) && (work a =? work b) &&
  (cum a =? cum b) && payload_eqb (pl a) (pl b).
Definition persistb (old new : store) : bool :=
  forallb (fun a => existsb (same_but_label a) new) old.

(* the same set of header ids is stored (used for the fault-and-continue exploration, where headers that
   arrived while their parent's insertion had failed are legitimately stored as orphans) *)
Definition same_ids (a b : store) : bool :=
  forallb (fun r => memN (id r) (ids b)) a && forallb (fun r => memN (id r) (ids a)) b.

(* ---- crash at a TRANSACTION boundary below the repository layer: the first k commits succeed, every later
   one is refused.  UpdateState with an empty list returns before opening a transaction (no commit). ---- *)
Definition costs_commit (w : write) : bool := match w with WUpdate [] _ => false | _ => true end.
Fixpoint exec_commits (s : store) (ws : list write) (k : nat) : store :=
  match ws with
  | [] => s
  | w :: ws' =>
    if costs_commit w then
      match k with
      | Datatypes.O => s
      | Datatypes.S k' => exec_commits (apply_write s w) ws' k'
      end
    else exec_commits (apply_write s w) ws' k
  end.
Definition commit_crash_state (f : list N) (s : store) (h : src) (k : nat) : store :=
  exec_commits s (snd (plan f s h)) k.
(* ONE commit fails and the process goes on ("cfault"): the store is the one after the first k commits (as above);
   what Add reports depends on which write's transaction it was *)
Fixpoint nth_commit (ws : list write) (k : nat) : option write :=
  match ws with
  | [] => None
  | w :: ws' => if costs_commit w then match k with Datatypes.O => Some w | Datatypes.S k' => nth_commit ws' k' end
                else nth_commit ws' k
  end.
Definition commit_fault_kind (f : list N) (s : store) (h : src) (k : nat) : fault_outcome :=
  match nth_commit (snd (plan f s h)) k with
  | Some (WUpdate _ _) => FChainUpdateFail
  | Some (WInsert _) => FHeaderSaveFail
  | None => FNoWrite
  end.

(* ---- a storage error on one STATEMENT kind (injected below the repository by a SQLite trigger that aborts it):
   kind 0 = the demoting UPDATE (SET header_state='STALE'), 1 = the promoting UPDATE ('LONGEST_CHAIN'), 2 = the INSERT.
   Add stops at the first statement of that kind it would execute (an update of an empty list executes nothing). ---- *)
Definition write_kind (w : write) : nat :=
  match w with WUpdate _ Stale => 0 | WUpdate _ Longest => 1 | WUpdate _ Orphan => 3 | WInsert _ => 2 end.
Fixpoint exec_until_kind (s : store) (ws : list write) (k : nat) : store :=
  match ws with
  | [] => s
  | w :: ws' => if costs_commit w && Nat.eqb (write_kind w) k then s else exec_until_kind (apply_write s w) ws' k
  end.
Fixpoint hits_kind (ws : list write) (k : nat) : bool :=
  match ws with [] => false | w :: ws' => (costs_commit w && Nat.eqb (write_kind w) k) || hits_kind ws' k end.
Definition stmt_fault_state (f : list N) (s : store) (h : src) (k : nat) : store :=
  exec_until_kind s (snd (plan f s h)) k.
Definition stmt_fault_hits (f : list N) (s : store) (h : src) (k : nat) : bool := hits_kind (snd (plan f s h)) k.
