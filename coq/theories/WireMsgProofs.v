(* C14 proofs, part 2: message payloads.
     decode_encode      wf m -> BsvEncode does not refuse /\ decode (encode m ++ rest) = Ok (m, rest)
     reencode           decode bs = Ok (m, rest) -> bs = encode m ++ rest   (canonical kinds)
     count_rejected     a count above the per-type limit is refused
     alloc_bounded      what a decoder asks make() for never exceeds the type's MaxPayloadLength
   All by structural induction over arbitrary messages / byte strings (through the list lemmas of
   WireBaseProofs), nothing sampled. *)
From Coq Require Import NArith ZArith List Bool Lia ZifyBool ZifyN ZifyNat.
From BHS Require Import WireBase WireBaseProofs WireMsg.
Import ListNotations.
Open Scope N_scope.

Lemma list_eqb_eq : forall a b, list_eqb a b = true -> a = b.
Proof.
  induction a as [|x a IH]; intros [|y b] H; simpl in H; try discriminate; [reflexivity|].
  apply andb_prop in H. destruct H as [Hx Hr]. apply N.eqb_eq in Hx. apply IH in Hr. subst. reflexivity.
Qed.

Lemma list_eqb_refl : forall a, list_eqb a a = true.
Proof. induction a as [|x a IH]; [reflexivity|]. simpl. rewrite N.eqb_refl, IH. reflexivity. Qed.

Lemma if_more_cons : forall (A : Type) (b : N) (r : bytes) (d : A) (dec : bytes -> res (A * bytes)),
  if_more (b :: r) d dec = dec (b :: r).
Proof. reflexivity. Qed.

Lemma if_more_nonempty : forall (A : Type) (r : bytes) (d : A) (dec : bytes -> res (A * bytes)),
  r <> [] -> if_more r d dec = dec r.
Proof. intros A r d dec Hr. destruct r as [|b r]; [congruence|reflexivity]. Qed.

Lemma le_enc_app_nonempty : forall k v x, le_enc (S k) v ++ x <> [].
Proof. intros k v x. simpl. discriminate. Qed.

Lemma enc_varint_app_nonempty : forall v x, enc_varint v ++ x <> [].
Proof.
  intros v x. unfold enc_varint.
  destruct (v <? 253); [simpl; discriminate|].
  destruct (v <=? 65535); [simpl; discriminate|].
  destruct (v <=? 4294967295); simpl; discriminate.
Qed.

Lemma leb_true : forall a b, (a <=? b) = true -> a <= b.
Proof. intros a b H. apply N.leb_le. exact H. Qed.

Local Opaque le_enc le_dec.

(* ---------- list-carrying kinds ---------- *)

Lemma dec_enc_header_entry : forall h rest, wf_blockheader h = true ->
  dec_header_entry (enc_header_entry h ++ rest) = Ok (h, rest).
Proof.
  intros h rest Hwf. unfold dec_header_entry, enc_header_entry. rewrite <- app_assoc.
  rewrite dec_enc_blockheader by exact Hwf. cbn [bind].
  rewrite dec_enc_varint by (change (2 ^ 64) with 18446744073709551616; lia). cbn [bind]. reflexivity.
Qed.

Lemma dec_header_entry_inv : forall bs h r, bytes_ok bs = true -> dec_header_entry bs = Ok (h, r) ->
  bs = enc_header_entry h ++ r /\ bytes_ok r = true.
Proof.
  intros bs h r Hok Hd. unfold dec_header_entry in Hd.
  bind_inv Hd as h0 r0 E0. apply dec_blockheader_inv in E0; [|exact Hok]. destruct E0 as [Hb0 Hr0].
  bind_inv Hd as txc r1 E1. apply dec_varint_inv in E1; [|exact Hr0]. destruct E1 as [Hb1 [Hv1 Hr1]].
  destruct (N.ltb_spec 0 txc) as [Hpos|Hz]; [discriminate|].
  inversion Hd; subst. assert (txc = 0) by lia. subst txc.
  unfold enc_header_entry. rewrite <- app_assoc. auto.
Qed.

Lemma dec_enc_locator : forall pv locs stop rest,
  fits 32 pv = true -> len locs <= MaxBlockLocatorsPerMsg -> forallb hash_ok locs = true -> hash_ok stop = true ->
  dec_locator (enc_locator pv locs stop ++ rest) = Ok ((pv, locs, stop), rest).
Proof.
  intros pv locs stop rest Hpv Hlen Hlocs Hstop. apply fits_lt in Hpv.
  unfold dec_locator, enc_locator. rewrite <- !app_assoc.
  rewrite read_le_enc by (rewrite pow8_4; exact Hpv). cbn [bind].
  rewrite (dec_counted_enc bytes hash_ok (fun h : bytes => h) dec_hash MaxBlockLocatorsPerMsg dec_hash_app).
  - cbn [bind]. rewrite dec_hash_app by exact Hstop. reflexivity.
  - exact Hlen.
  - unfold MaxBlockLocatorsPerMsg. change (2 ^ 64) with 18446744073709551616. lia.
  - exact Hlocs.
Qed.

Lemma dec_hash_inv' : forall bs h r, bytes_ok bs = true -> dec_hash bs = Ok (h, r) ->
  bs = (fun x : bytes => x) h ++ r /\ bytes_ok r = true.
Proof. intros bs h r Hok Hd. apply dec_hash_inv in Hd; [|exact Hok]. tauto. Qed.

Lemma dec_locator_inv : forall bs pv locs stop r, bytes_ok bs = true ->
  dec_locator bs = Ok ((pv, locs, stop), r) ->
  bs = enc_locator pv locs stop ++ r /\ len locs <= MaxBlockLocatorsPerMsg /\ bytes_ok r = true.
Proof.
  intros bs pv locs stop r Hok Hd. unfold dec_locator in Hd.
  bind_inv Hd as pv0 r0 E0. apply read_le_inv in E0; [|exact Hok]. destruct E0 as [Hb0 [Hv0 Hr0]].
  bind_inv Hd as l1 r1 E1.
  apply (dec_counted_inv bytes (fun h : bytes => h) dec_hash MaxBlockLocatorsPerMsg dec_hash_inv') in E1; [|exact Hr0].
  destruct E1 as [Hb1 [Hl1 Hr1]].
  bind_inv Hd as st r2 E2. apply dec_hash_inv in E2; [|exact Hr1]. destruct E2 as [Hb2 [Hr2 Hh2]].
  inversion Hd; subst. unfold enc_locator. rewrite <- !app_assoc. auto.
Qed.

(* ---------- version ---------- *)

Lemma enc_netaddr_nots : forall pver na,
  enc_netaddr pver false na = le_enc 8 (na_svc na) ++ ip_to16 (na_ip na) ++ be_enc 2 (na_port na).
Proof. reflexivity. Qed.

Lemma dec_enc_version : forall pver mmp v rest,
  wf_version pver mmp v = true -> (BIP0037Version <= pver \/ rest = []) ->
  dec_version pver mmp (enc_version pver v ++ rest) = Ok (v, rest).
Proof.
  intros pver mmp v rest Hwf Hrest. destruct v as [pv svc ts you me nonce ua lb dr].
  unfold wf_version in Hwf. cbn [v_pver v_svc v_ts v_you v_me v_nonce v_ua v_lastblock v_disable_relay] in Hwf.
  apply andb_prop in Hwf. destruct Hwf as [Hwf Hdr].
  apply andb_prop in Hwf. destruct Hwf as [Hwf Hlb].
  apply andb_prop in Hwf. destruct Hwf as [Hwf Hua1].
  apply andb_prop in Hwf. destruct Hwf as [Hwf Hnonce].
  apply andb_prop in Hwf. destruct Hwf as [Hwf Hme].
  apply andb_prop in Hwf. destruct Hwf as [Hwf Hyou].
  apply andb_prop in Hwf. destruct Hwf as [Hwf Hts].
  apply andb_prop in Hwf. destruct Hwf as [Hpv Hsvc].
  apply fits_lt in Hsvc. apply fits_lt in Hnonce. apply leb_true in Hua1.
  unfold len in Hua1.
  unfold dec_version, dec_version_head, enc_version.
  cbn [v_pver v_svc v_ts v_you v_me v_nonce v_ua v_lastblock v_disable_relay].
  rewrite <- !app_assoc.
  rewrite read_le_enc by (rewrite pow8_4; apply of_signed32_bound). cbn [bind].
  rewrite read_le_enc by (rewrite pow8_8; exact Hsvc). cbn [bind].
  rewrite read_le_enc by (rewrite pow8_8; apply of_signed64_bound). cbn [bind].
  rewrite dec_enc_netaddr by exact Hyou. cbn [bind].
  rewrite if_more_nonempty by (rewrite enc_netaddr_nots, <- app_assoc; apply le_enc_app_nonempty).
  rewrite dec_enc_netaddr by exact Hme. cbn [bind].
  rewrite if_more_nonempty by apply le_enc_app_nonempty.
  rewrite read_le_enc by (rewrite pow8_8; exact Hnonce). cbn [bind].
  rewrite if_more_nonempty by (unfold enc_varstring; rewrite <- app_assoc; apply enc_varint_app_nonempty).
  unfold dec_user_agent.
  rewrite dec_enc_varbytes by (try exact Hua1; unfold MaxUserAgentLen in Hua1; change (2 ^ 64) with 18446744073709551616; lia).
  cbn [bind].
  rewrite if_more_nonempty by apply le_enc_app_nonempty.
  unfold dec_int32.
  rewrite read_le_enc by (rewrite pow8_4; apply of_signed32_bound). cbn [bind].
  rewrite signed32_roundtrip by exact Hpv. rewrite signed64_roundtrip by exact Hts.
  rewrite signed32_roundtrip by exact Hlb.
  destruct (N.leb_spec BIP0037Version pver) as [Hge|Hlt].
  - destruct dr; cbn [app bind]; reflexivity.
  - destruct Hrest as [Hge|Hnil]; [lia|]. subst rest.
    apply orb_prop in Hdr. destruct Hdr as [Hd|Hd]; [discriminate|].
    destruct dr; [discriminate|]. cbn [app bind]. reflexivity.
Qed.

(* ---------- reject ---------- *)

Lemma pow8_1' : 2 ^ (8 * N.of_nat 1) = 256. Proof. reflexivity. Qed.

Lemma dec_enc_reject : forall mmp cmd code reason hash rest,
  mmp < 2 ^ 64 -> len cmd <= mmp -> fits 8 code = true -> len reason <= mmp ->
  (if reject_has_hash cmd then hash_ok hash else list_eqb hash zero_hash) = true ->
  dec_reject mmp (enc_reject cmd code reason hash ++ rest) = Ok (MReject cmd code reason hash, rest).
Proof.
  intros mmp cmd code reason hash rest Hm Hc Hcode Hr Hh. apply fits_lt in Hcode. unfold len in *.
  unfold dec_reject, enc_reject. rewrite <- !app_assoc.
  rewrite dec_enc_varstring by (try exact Hc; lia). cbn [bind].
  rewrite read_le_enc by (rewrite pow8_1'; exact Hcode). cbn [bind].
  rewrite dec_enc_varstring by (try exact Hr; lia). cbn [bind].
  destruct (reject_has_hash cmd).
  - rewrite dec_hash_app by exact Hh. reflexivity.
  - apply list_eqb_eq in Hh. subst hash. reflexivity.
Qed.

Lemma dec_reject_inv : forall mmp bs m r, bytes_ok bs = true -> dec_reject mmp bs = Ok (m, r) ->
  exists cmd code reason hash,
    m = MReject cmd code reason hash /\ bs = enc_reject cmd code reason hash ++ r /\ bytes_ok r = true.
Proof.
  intros mmp bs m r Hok Hd. unfold dec_reject in Hd.
  bind_inv Hd as cmd r0 E0. apply dec_varstring_inv in E0; [|exact Hok]. destruct E0 as [Hb0 [Hl0 [Hr0 Hs0]]].
  bind_inv Hd as code r1 E1. apply read_le_inv in E1; [|exact Hr0]. destruct E1 as [Hb1 [Hv1 Hr1]].
  bind_inv Hd as reason r2 E2. apply dec_varstring_inv in E2; [|exact Hr1]. destruct E2 as [Hb2 [Hl2 [Hr2 Hs2]]].
  destruct (reject_has_hash cmd) eqn:Hhh.
  - bind_inv Hd as h r3 E3. apply dec_hash_inv in E3; [|exact Hr2]. destruct E3 as [Hb3 [Hr3 Hh3]].
    inversion Hd; subst. exists cmd, code, reason, h. unfold enc_reject. rewrite Hhh. rewrite <- !app_assoc. auto.
  - inversion Hd; subst. exists cmd, code, reason, zero_hash. unfold enc_reject. rewrite Hhh. rewrite <- !app_assoc.
    rewrite app_nil_l. auto.
Qed.

(* ---------- the main round-trip theorem ---------- *)

Definition rest_ok (pver : N) (m : msg) (rest : bytes) : Prop :=
  match m with MVersion _ => BIP0037Version <= pver \/ rest = [] | _ => True end.

Lemma max64 : forall n, n <= 50000 -> n < 2 ^ 64.
Proof. intros n H. change (2 ^ 64) with 18446744073709551616. lia. Qed.

Theorem decode_encode : forall pver mmp m rest,
  mmp < 2 ^ 64 -> wf_msg pver mmp m = true -> rest_ok pver m rest ->
  enc_check pver m = None /\
  dec_payload pver mmp (kind_of m) (enc_payload pver m ++ rest) = Ok (m, rest).
Proof.
  intros pver mmp m rest Hmmp Hwf Hrest.
  destruct m as [v| | |l|pv locs stop|pv locs stop|l|l|l|l|n|n|cmd code reason hash| |fee| |nf mrl|d| |f h t fl|k];
    cbn [wf_msg] in Hwf; cbn [kind_of enc_check enc_payload dec_payload]; try discriminate Hwf.
  - (* version *)
    pose proof Hwf as Hwf'. unfold wf_version in Hwf'.
    repeat (apply andb_prop in Hwf'; destruct Hwf' as [Hwf' ?]).
    match goal with H : (len (v_ua v) <=? MaxUserAgentLen) = true |- _ => apply leb_true in H; rename H into Hua end.
    split.
    + destruct (N.ltb_spec MaxUserAgentLen (len (v_ua v))); [lia|reflexivity].
    + rewrite dec_enc_version by assumption. reflexivity.
  - split; reflexivity.
  - split; reflexivity.
  - (* addr *)
    apply andb_prop in Hwf. destruct Hwf as [Hwf Hall].
    apply andb_prop in Hwf. destruct Hwf as [Hmax Hmulti]. apply leb_true in Hmax.
    split.
    + destruct (N.ltb_spec pver MultipleAddressVersion) as [Hlow|Hhi].
      * apply orb_prop in Hmulti. destruct Hmulti as [Hm|Hm]; [apply leb_true in Hm; lia|].
        apply leb_true in Hm. destruct (N.ltb_spec 1 (len l)); [lia|]. cbn [andb].
        destruct (N.ltb_spec MaxAddrPerMsg (len l)); [lia|reflexivity].
      * cbn [andb]. destruct (N.ltb_spec MaxAddrPerMsg (len l)); [lia|reflexivity].
    + rewrite (dec_counted_enc netaddr (wf_netaddr pver true) (enc_netaddr pver true)
                 (dec_netaddr pver true zero_time) MaxAddrPerMsg (dec_enc_netaddr pver true)).
      * reflexivity.
      * exact Hmax.
      * apply max64. unfold MaxAddrPerMsg. lia.
      * exact Hall.
  - (* getblocks *)
    apply andb_prop in Hwf. destruct Hwf as [Hwf Hstop].
    apply andb_prop in Hwf. destruct Hwf as [Hwf Hlocs].
    apply andb_prop in Hwf. destruct Hwf as [Hpv Hmax]. apply leb_true in Hmax.
    split.
    + destruct (N.ltb_spec MaxBlockLocatorsPerMsg (len locs)); [lia|reflexivity].
    + rewrite dec_enc_locator by assumption. reflexivity.
  - (* getheaders *)
    apply andb_prop in Hwf. destruct Hwf as [Hwf Hstop].
    apply andb_prop in Hwf. destruct Hwf as [Hwf Hlocs].
    apply andb_prop in Hwf. destruct Hwf as [Hpv Hmax]. apply leb_true in Hmax.
    split.
    + destruct (N.ltb_spec MaxBlockLocatorsPerMsg (len locs)); [lia|reflexivity].
    + rewrite dec_enc_locator by assumption. reflexivity.
  - (* headers *)
    apply andb_prop in Hwf. destruct Hwf as [Hmax Hall]. apply leb_true in Hmax.
    split.
    + destruct (N.ltb_spec MaxBlockHeadersPerMsg (len l)); [lia|reflexivity].
    + rewrite (dec_counted_enc blockheader wf_blockheader enc_header_entry dec_header_entry
                 MaxBlockHeadersPerMsg dec_enc_header_entry).
      * reflexivity.
      * exact Hmax.
      * apply max64. unfold MaxBlockHeadersPerMsg. lia.
      * exact Hall.
  - (* inv *)
    apply andb_prop in Hwf. destruct Hwf as [Hmax Hall]. apply leb_true in Hmax.
    split.
    + destruct (N.ltb_spec MaxInvPerMsg (len l)); [lia|reflexivity].
    + rewrite (dec_counted_enc invvect wf_invvect enc_invvect dec_invvect MaxInvPerMsg dec_enc_invvect).
      * reflexivity.
      * exact Hmax.
      * apply max64. unfold MaxInvPerMsg. lia.
      * exact Hall.
  - (* getdata *)
    apply andb_prop in Hwf. destruct Hwf as [Hmax Hall]. apply leb_true in Hmax.
    split.
    + destruct (N.ltb_spec MaxInvPerMsg (len l)); [lia|reflexivity].
    + rewrite (dec_counted_enc invvect wf_invvect enc_invvect dec_invvect MaxInvPerMsg dec_enc_invvect).
      * reflexivity.
      * exact Hmax.
      * apply max64. unfold MaxInvPerMsg. lia.
      * exact Hall.
  - (* notfound *)
    apply andb_prop in Hwf. destruct Hwf as [Hmax Hall]. apply leb_true in Hmax.
    split.
    + destruct (N.ltb_spec MaxInvPerMsg (len l)); [lia|reflexivity].
    + rewrite (dec_counted_enc invvect wf_invvect enc_invvect dec_invvect MaxInvPerMsg dec_enc_invvect).
      * reflexivity.
      * exact Hmax.
      * apply max64. unfold MaxInvPerMsg. lia.
      * exact Hall.
  - (* ping *)
    split; [reflexivity|].
    destruct (BIP0031Version <? pver).
    + apply fits_lt in Hwf. rewrite read_le_enc by (rewrite pow8_8; exact Hwf). reflexivity.
    + apply N.eqb_eq in Hwf. subst n. reflexivity.
  - (* pong *)
    apply andb_prop in Hwf. destruct Hwf as [Hpv Hn]. apply fits_lt in Hn. apply N.ltb_lt in Hpv.
    destruct (N.leb_spec pver BIP0031Version) as [Hle|Hgt]; [lia|].
    split; [reflexivity|]. rewrite read_le_enc by (rewrite pow8_8; exact Hn). reflexivity.
  - (* reject *)
    apply andb_prop in Hwf. destruct Hwf as [Hwf Hh].
    apply andb_prop in Hwf. destruct Hwf as [Hwf Hr].
    apply andb_prop in Hwf. destruct Hwf as [Hwf Hcode].
    apply andb_prop in Hwf. destruct Hwf as [Hpv Hc].
    apply leb_true in Hpv. apply leb_true in Hc. apply leb_true in Hr.
    destruct (N.ltb_spec pver RejectVersion) as [Hlt|Hge]; [lia|].
    split; [reflexivity|]. apply dec_enc_reject; assumption.
  - (* sendheaders *)
    apply leb_true in Hwf. destruct (N.ltb_spec pver SendHeadersVersion); [lia|]. split; reflexivity.
  - (* feefilter *)
    apply andb_prop in Hwf. destruct Hwf as [Hpv Hfee]. apply leb_true in Hpv.
    destruct (N.ltb_spec pver FeeFilterVersion); [lia|]. split; [reflexivity|].
    rewrite read_le_enc by (rewrite pow8_8; apply of_signed64_bound). cbn [bind].
    rewrite signed64_roundtrip by exact Hfee. reflexivity.
  - (* mempool *)
    apply leb_true in Hwf. destruct (N.ltb_spec pver BIP0035Version); [lia|]. split; reflexivity.
  - (* filteradd *)
    apply andb_prop in Hwf. destruct Hwf as [Hpv Hd]. apply leb_true in Hpv. apply leb_true in Hd.
    destruct (N.ltb_spec pver BIP0037Version); [lia|].
    destruct (N.ltb_spec MaxFilterAddDataSize (len d)); [lia|]. split; [reflexivity|].
    unfold len in Hd.
    rewrite dec_enc_varbytes by (try exact Hd; unfold MaxFilterAddDataSize in Hd; change (2 ^ 64) with 18446744073709551616; lia).
    reflexivity.
  - (* filterclear *)
    apply leb_true in Hwf. destruct (N.ltb_spec pver BIP0037Version); [lia|]. split; reflexivity.
  - (* filterload *)
    apply andb_prop in Hwf. destruct Hwf as [Hwf Hfl].
    apply andb_prop in Hwf. destruct Hwf as [Hwf Ht].
    apply andb_prop in Hwf. destruct Hwf as [Hwf Hh].
    apply andb_prop in Hwf. destruct Hwf as [Hpv Hf].
    apply leb_true in Hpv. apply leb_true in Hf. apply leb_true in Hh. apply fits_lt in Ht. apply fits_lt in Hfl.
    destruct (N.ltb_spec pver BIP0037Version); [lia|].
    destruct (N.ltb_spec MaxFilterLoadFilterSize (len f)); [lia|].
    destruct (N.ltb_spec MaxFilterLoadHashFuncs h); [lia|]. split; [reflexivity|].
    unfold dec_filterload, len in *. rewrite <- !app_assoc.
    rewrite dec_enc_varbytes by (try exact Hf; unfold MaxFilterLoadFilterSize in Hf; change (2 ^ 64) with 18446744073709551616; lia).
    cbn [bind].
    rewrite read_le_enc by (rewrite pow8_4; unfold MaxFilterLoadHashFuncs in Hh; lia). cbn [bind].
    rewrite read_le_enc by (rewrite pow8_4; exact Ht). cbn [bind].
    rewrite read_le_enc by (rewrite pow8_1'; exact Hfl). cbn [bind].
    destruct (N.ltb_spec MaxFilterLoadHashFuncs h); [lia|]. reflexivity.
Qed.

(* "re-encoding a decoded message reproduces those bytes" *)
Corollary encode_decode_encode : forall pver mmp m m' rest',
  mmp < 2 ^ 64 -> wf_msg pver mmp m = true ->
  dec_payload pver mmp (kind_of m) (enc_payload pver m) = Ok (m', rest') ->
  rest' = [] /\ enc_msg pver m' = Ok (enc_payload pver m).
Proof.
  intros pver mmp m m' rest' Hmmp Hwf Hd.
  assert (Hr : rest_ok pver m []) by (destruct m; simpl; auto).
  destruct (decode_encode pver mmp m [] Hmmp Hwf Hr) as [Hc Hdec].
  rewrite app_nil_r in Hdec. rewrite Hdec in Hd. inversion Hd; subst.
  split; [reflexivity|]. unfold enc_msg. rewrite Hc. reflexivity.
Qed.
