(* C14 proofs, part 3: the model satisfies the declarative oracles of WireSpec for ALL inputs:
   reencode (canonical kinds), count_rejected, alloc_bounded (and its refutation for version). *)
From Coq Require Import NArith ZArith List Bool Lia ZifyBool ZifyN ZifyNat.
From BHS Require Import Sha256 WireBase WireBaseProofs WireMsg WireMsgProofs WireFrame WireSpec.
Import ListNotations.
Open Scope N_scope.

Local Opaque le_enc le_dec.

(* ---------- re-encoding accepted bytes ---------- *)

Lemma dec_netaddr_inv_ts : forall pver bs na r, bytes_ok bs = true ->
  dec_netaddr pver true zero_time bs = Ok (na, r) ->
  bs = enc_netaddr pver true na ++ r /\ bytes_ok r = true.
Proof. intros pver. apply dec_netaddr_inv. Qed.

Lemma counted_kind_inv : forall (A : Type) (enc : A -> bytes) (dec : bytes -> res (A * bytes)) (max : N) (mk : list A -> msg) bs m r,
  (forall bs a r, bytes_ok bs = true -> dec bs = Ok (a, r) -> bs = enc a ++ r /\ bytes_ok r = true) ->
  bytes_ok bs = true ->
  ('(l, r) <- dec_counted max dec bs ;; Ok (mk l, r)) = Ok (m, r) ->
  exists l, m = mk l /\ bs = enc_counted enc l ++ r /\ len l <= max.
Proof.
  intros A enc dec max mk bs m r Hc Hok Hd.
  bind_inv Hd as l r0 E0. inversion Hd; subst.
  apply (dec_counted_inv A enc dec max Hc) in E0; [|exact Hok]. destruct E0 as [Hb [Hl Hr]].
  exists l. auto.
Qed.

Theorem reencode : forall pver mmp k bs m r,
  canonical_kind pver k = true -> bytes_ok bs = true ->
  dec_payload pver mmp k bs = Ok (m, r) ->
  bs = enc_payload pver m ++ r /\ enc_check pver m = None /\ kind_of m = k.
Proof.
  intros pver mmp k bs m r Hcan Hok Hd.
  destruct k; cbn [canonical_kind] in Hcan; try discriminate Hcan; cbn [dec_payload] in Hd.
  - (* verack *) inversion Hd; subst. auto.
  - (* getaddr *) inversion Hd; subst. auto.
  - (* addr *)
    apply N.leb_le in Hcan.
    apply (counted_kind_inv netaddr (enc_netaddr pver true) _ _ MAddr bs m r (dec_netaddr_inv_ts pver) Hok) in Hd.
    destruct Hd as [l [Hm [Hb Hl]]]. subst m. cbn [enc_payload enc_check kind_of].
    split; [exact Hb|]. split; [|reflexivity].
    destruct (N.ltb_spec pver MultipleAddressVersion); [lia|]. cbn [andb].
    destruct (N.ltb_spec MaxAddrPerMsg (len l)); [lia|reflexivity].
  - (* getblocks *)
    bind_inv Hd as x r0 E0. destruct x as [[pv locs] stop]. inversion Hd; subst.
    apply dec_locator_inv in E0; [|exact Hok]. destruct E0 as [Hb [Hl Hr]].
    cbn [enc_payload enc_check kind_of]. split; [exact Hb|]. split; [|reflexivity].
    destruct (N.ltb_spec MaxBlockLocatorsPerMsg (len locs)); [lia|reflexivity].
  - (* inv *)
    apply (counted_kind_inv invvect enc_invvect _ _ MInv bs m r dec_invvect_inv Hok) in Hd.
    destruct Hd as [l [Hm [Hb Hl]]]. subst m. cbn [enc_payload enc_check kind_of].
    split; [exact Hb|]. split; [|reflexivity].
    destruct (N.ltb_spec MaxInvPerMsg (len l)); [lia|reflexivity].
  - (* getdata *)
    apply (counted_kind_inv invvect enc_invvect _ _ MGetData bs m r dec_invvect_inv Hok) in Hd.
    destruct Hd as [l [Hm [Hb Hl]]]. subst m. cbn [enc_payload enc_check kind_of].
    split; [exact Hb|]. split; [|reflexivity].
    destruct (N.ltb_spec MaxInvPerMsg (len l)); [lia|reflexivity].
  - (* notfound *)
    apply (counted_kind_inv invvect enc_invvect _ _ MNotFound bs m r dec_invvect_inv Hok) in Hd.
    destruct Hd as [l [Hm [Hb Hl]]]. subst m. cbn [enc_payload enc_check kind_of].
    split; [exact Hb|]. split; [|reflexivity].
    destruct (N.ltb_spec MaxInvPerMsg (len l)); [lia|reflexivity].
  - (* getheaders *)
    bind_inv Hd as x r0 E0. destruct x as [[pv locs] stop]. inversion Hd; subst.
    apply dec_locator_inv in E0; [|exact Hok]. destruct E0 as [Hb [Hl Hr]].
    cbn [enc_payload enc_check kind_of]. split; [exact Hb|]. split; [|reflexivity].
    destruct (N.ltb_spec MaxBlockLocatorsPerMsg (len locs)); [lia|reflexivity].
  - (* headers *)
    apply (counted_kind_inv blockheader enc_header_entry _ _ MHeaders bs m r dec_header_entry_inv Hok) in Hd.
    destruct Hd as [l [Hm [Hb Hl]]]. subst m. cbn [enc_payload enc_check kind_of].
    split; [exact Hb|]. split; [|reflexivity].
    destruct (N.ltb_spec MaxBlockHeadersPerMsg (len l)); [lia|reflexivity].
  - (* ping *)
    destruct (BIP0031Version <? pver) eqn:Hp.
    + bind_inv Hd as n r0 E0. inversion Hd; subst.
      apply read_le_inv in E0; [|exact Hok]. destruct E0 as [Hb _].
      cbn [enc_payload enc_check kind_of]. rewrite Hp. auto.
    + inversion Hd; subst. cbn [enc_payload enc_check kind_of]. rewrite Hp. auto.
  - (* pong *)
    destruct (pver <=? BIP0031Version) eqn:Hp; [discriminate|].
    bind_inv Hd as n r0 E0. inversion Hd; subst.
    apply read_le_inv in E0; [|exact Hok]. destruct E0 as [Hb _].
    cbn [enc_payload enc_check kind_of]. rewrite Hp. auto.
  - (* mempool *)
    destruct (pver <? BIP0035Version) eqn:Hp; [discriminate|]. inversion Hd; subst.
    cbn [enc_payload enc_check kind_of]. rewrite Hp. auto.
  - (* filteradd *)
    destruct (pver <? BIP0037Version) eqn:Hp; [discriminate|].
    bind_inv Hd as d r0 E0. inversion Hd; subst.
    apply dec_varbytes_inv in E0; [|exact Hok]. destruct E0 as [Hb [Hl _]].
    cbn [enc_payload enc_check kind_of]. rewrite Hp. unfold len.
    destruct (N.ltb_spec MaxFilterAddDataSize (N.of_nat (length d))); [lia|]. auto.
  - (* filterclear *)
    destruct (pver <? BIP0037Version) eqn:Hp; [discriminate|]. inversion Hd; subst.
    cbn [enc_payload enc_check kind_of]. rewrite Hp. auto.
  - (* filterload *)
    destruct (pver <? BIP0037Version) eqn:Hp; [discriminate|]. unfold dec_filterload in Hd.
    bind_inv Hd as f r0 E0. apply dec_varbytes_inv in E0; [|exact Hok]. destruct E0 as [Hb0 [Hl0 [Hr0 _]]].
    bind_inv Hd as h r1 E1. apply read_le_inv in E1; [|exact Hr0]. destruct E1 as [Hb1 [_ Hr1]].
    bind_inv Hd as t r2 E2. apply read_le_inv in E2; [|exact Hr1]. destruct E2 as [Hb2 [_ Hr2]].
    bind_inv Hd as fl r3 E3. apply read_le_inv in E3; [|exact Hr2]. destruct E3 as [Hb3 [_ Hr3]].
    destruct (N.ltb_spec MaxFilterLoadHashFuncs h) as [Hbad|Hh]; [discriminate|].
    inversion Hd; subst. cbn [enc_payload enc_check kind_of]. rewrite Hp. unfold len.
    destruct (N.ltb_spec MaxFilterLoadFilterSize (N.of_nat (length f))); [lia|].
    destruct (N.ltb_spec MaxFilterLoadHashFuncs h); [lia|].
    rewrite <- !app_assoc. auto.
  - (* reject *)
    destruct (pver <? RejectVersion) eqn:Hp; [discriminate|].
    apply dec_reject_inv in Hd; [|exact Hok].
    destruct Hd as [cmd [code [reason [hash [Hm [Hb Hr]]]]]]. subst m.
    cbn [enc_payload enc_check kind_of]. rewrite Hp. auto.
  - (* sendheaders *)
    destruct (pver <? SendHeadersVersion) eqn:Hp; [discriminate|]. inversion Hd; subst.
    cbn [enc_payload enc_check kind_of]. rewrite Hp. auto.
  - (* feefilter *)
    destruct (pver <? FeeFilterVersion) eqn:Hp; [discriminate|].
    bind_inv Hd as f r0 E0. inversion Hd; subst.
    apply read_le_inv in E0; [|exact Hok]. destruct E0 as [Hb [Hv _]]. rewrite pow8_8 in Hv.
    cbn [enc_payload enc_check kind_of]. rewrite Hp. rewrite of_to_signed64 by exact Hv. auto.
Qed.

(* version is NOT canonical: any non-zero relay byte decodes to "relay", optional fields may be absent *)
Example version_not_canonical :
  let bs := le_enc 4 70013 ++ le_enc 8 0 ++ le_enc 8 0 ++ repeat 0 26%nat ++ repeat 0 26%nat ++
            le_enc 8 0 ++ [0] ++ le_enc 4 0 ++ [5] in
  exists v, dec_payload 70013 268435456 KVersion bs = Ok (MVersion v, []) /\
            enc_payload 70013 (MVersion v) <> bs.
Proof.
  eexists. split; [vm_compute; reflexivity|]. vm_compute. discriminate.
Qed.

(* ---------- counts above the limit are refused ---------- *)

Lemma read_n_firstn : forall n bs, (n <= length bs)%nat -> read_n n bs = Ok (firstn n bs, skipn n bs).
Proof.
  intros n bs Hn. rewrite <- (firstn_skipn n bs) at 1.
  apply read_n_app'. apply firstn_length_le. exact Hn.
Qed.

Theorem count_rejected : forall pver mmp k bs,
  count_over_limit k bs = true -> dec_payload pver mmp k bs = Err ETooMany.
Proof.
  intros pver mmp k bs Hc. unfold count_over_limit in Hc.
  destruct k; cbn [count_limit] in Hc; try discriminate Hc; cbn [dec_payload];
    apply andb_prop in Hc; destruct Hc as [Hoff Hc];
    match type of Hc with
    | match dec_varint ?x with _ => _ end = true =>
      destruct (dec_varint x) as [[c r]|e] eqn:Hv; [|discriminate Hc]
    end; apply N.ltb_lt in Hc.
  - (* addr *) cbn [skipn] in Hv. rewrite (dec_counted_over _ _ _ _ _ _ Hv Hc). reflexivity.
  - (* getblocks *)
    unfold dec_locator, read_le. unfold len in Hoff. apply N.leb_le in Hoff.
    rewrite read_n_firstn by lia. cbn [bind].
    rewrite (dec_counted_over _ _ _ _ _ _ Hv Hc). reflexivity.
  - (* inv *) cbn [skipn] in Hv. rewrite (dec_counted_over _ _ _ _ _ _ Hv Hc). reflexivity.
  - (* getdata *) cbn [skipn] in Hv. rewrite (dec_counted_over _ _ _ _ _ _ Hv Hc). reflexivity.
  - (* notfound *) cbn [skipn] in Hv. rewrite (dec_counted_over _ _ _ _ _ _ Hv Hc). reflexivity.
  - (* getheaders *)
    unfold dec_locator, read_le. unfold len in Hoff. apply N.leb_le in Hoff.
    rewrite read_n_firstn by lia. cbn [bind].
    rewrite (dec_counted_over _ _ _ _ _ _ Hv Hc). reflexivity.
  - (* headers *) cbn [skipn] in Hv. rewrite (dec_counted_over _ _ _ _ _ _ Hv Hc). reflexivity.
Qed.

(* ---------- allocation requests ---------- *)

Lemma alloc_counted_le : forall max elem bs, alloc_counted max elem bs <= max * elem.
Proof.
  intros max elem bs. unfold alloc_counted.
  destruct (dec_varint bs) as [[c r]|e]; [|lia].
  destruct (N.ltb_spec max c); [lia|]. apply N.mul_le_mono_r. assumption.
Qed.

Lemma alloc_varstring_le : forall mmp bs, alloc_varstring mmp bs <= mmp.
Proof.
  intros mmp bs. unfold alloc_varstring.
  destruct (dec_varint bs) as [[c r]|e]; [|lia].
  destruct (N.ltb_spec mmp c); lia.
Qed.

(* every decoder asks for at most the declared payload limit of its type
   (addr: for the protocol versions the service negotiates, >= MultipleAddressVersion).
   History: until fix ad1f9ac the version decoder read its user agent with ReadVarString, bounded
   only by maxMessagePayload; the bound was then refuted for version (an 85-byte payload requested
   256 MiB) and proved only for the other kinds. *)
Theorem alloc_bounded : forall pver ebs k bs,
  (k = KAddr -> MultipleAddressVersion <= pver) ->
  alloc_payload pver (max_message_payload ebs) k bs <= max_payload k pver ebs.
Proof.
  intros pver ebs k bs Haddr.
  destruct k; cbn [alloc_payload max_payload]; try lia.
  - (* version *)
    destruct (dec_version_head pver bs) as [[hd r]|e]; [|lia].
    destruct r as [|b r]; [lia|].
    pose proof (alloc_varstring_le MaxUserAgentLen (b :: r)).
    unfold MaxUserAgentLen, MaxVarIntPayload, max_net_address_payload in *. lia.
  - (* addr *)
    specialize (Haddr eq_refl).
    destruct (N.ltb_spec pver MultipleAddressVersion); [lia|].
    pose proof (alloc_counted_le MaxAddrPerMsg (netaddr_size pver true) bs) as Ha.
    unfold netaddr_size, has_ts, max_net_address_payload, MaxVarIntPayload, MaxAddrPerMsg in *.
    cbn [andb] in *. destruct (NetAddressTimeVersion <=? pver); lia.
  - (* getblocks *)
    destruct (read_le 4 bs) as [[v r]|e]; [|lia].
    pose proof (alloc_counted_le MaxBlockLocatorsPerMsg 32 r).
    unfold MaxVarIntPayload, MaxBlockLocatorsPerMsg in *. lia.
  - pose proof (alloc_counted_le MaxInvPerMsg 36 bs). unfold MaxVarIntPayload, MaxInvPerMsg in *. lia.
  - pose proof (alloc_counted_le MaxInvPerMsg 36 bs). unfold MaxVarIntPayload, MaxInvPerMsg in *. lia.
  - pose proof (alloc_counted_le MaxInvPerMsg 36 bs). unfold MaxVarIntPayload, MaxInvPerMsg in *. lia.
  - (* getheaders *)
    destruct (read_le 4 bs) as [[v r]|e]; [|lia].
    pose proof (alloc_counted_le MaxBlockLocatorsPerMsg 32 r).
    unfold MaxVarIntPayload, MaxBlockLocatorsPerMsg in *. lia.
  - pose proof (alloc_counted_le MaxBlockHeadersPerMsg 81 bs).
    unfold MaxVarIntPayload, MaxBlockHeadersPerMsg in *. lia.
  - (* filteradd *)
    destruct (pver <? BIP0037Version); [lia|].
    pose proof (alloc_varstring_le MaxFilterAddDataSize bs). lia.
  - (* filterload *)
    destruct (pver <? BIP0037Version); [lia|].
    pose proof (alloc_varstring_le MaxFilterLoadFilterSize bs). lia.
  - (* reject *)
    destruct (pver <? RejectVersion); [lia|].
    apply N.max_lub; [apply alloc_varstring_le|].
    destruct (dec_varstring (max_message_payload ebs) bs) as [[s r]|e]; [|lia].
    destruct (read_le 1 r) as [[c r']|e]; [|lia]. apply alloc_varstring_le.
Qed.

(* the former witness of the version defect: the over-long count is now refused, nothing is requested *)
Definition version_alloc_witness : bytes :=
  le_enc 4 70013 ++ le_enc 8 0 ++ le_enc 8 0 ++ repeat 0 26%nat ++ repeat 0 26%nat ++ le_enc 8 0 ++
  [0xfe; 0; 0; 0; 0x10].

Example version_alloc_witness_refused :
  alloc_payload 70013 (max_message_payload 128000000) KVersion version_alloc_witness = 0 /\
  dec_payload 70013 (max_message_payload 128000000) KVersion version_alloc_witness = Err EBytesTooLong.
Proof. split; vm_compute; reflexivity. Qed.

(* below MultipleAddressVersion the addr decoder still accepts 1000 entries although the type's
   limit is one address (outside the versions the service negotiates) *)
Example alloc_addr_old_pver :
  max_payload KAddr 208 128000000 < alloc_payload 208 (max_message_payload 128000000) KAddr [0xfd; 0xe8; 0x03].
Proof. vm_compute. reflexivity. Qed.
