(* The header store model shared by C01-C05, C08, C11, C13, C15, C17.
   Definitions only.  The store is a list of rows, NEWEST FIRST (insert = cons; SQLite rowid
   order = rev).  A header hash is an abstract id (N; 0 = the all-zero hash); the harness maps
   real double-SHA-256 hashes to ids injectively (asserted on every run).
   One list function per SQL statement of /repo/database/sql/headers.go that ingestion uses. *)
From Coq Require Import ZArith NArith List Bool.
Import ListNotations.
Open Scope Z_scope.

Inductive hstate := Longest | Stale | Orphan.       (* LONGEST_CHAIN / STALE / ORPHAN *)

(* fields returned exactly as received (C03) *)
Record payload := { p_bits : Z; p_ver : Z; p_merkle : N; p_ts : Z; p_nonce : Z }.

(* a submitted header: id = its hash, as computed by the service's hasher *)
Record src := { s_id : N; s_prev : N; s_pl : payload }.

Record row := { id : N; prev : N; height : Z; work : Z; cum : Z;
                orph : bool;     (* ghost: "was an orphan when it arrived"; equals (st = Orphan), lemma st_O_iff *)
                st : hstate; pl : payload }.
Definition store := list row.

Definition st_eqb (a b : hstate) : bool :=
  match a, b with Longest, Longest | Stale, Stale | Orphan, Orphan => true | _, _ => false end.

Definition ids (s : store) := map id s.
(* sqlHeader: WHERE hash = ? *)
Definition by_hash (s : store) (i : N) : option row := find (fun r => N.eqb (id r) i) s.

(* ancestors-or-self of [t], following links to OLDER rows only (structural; no fuel) *)
Fixpoint chain (s : store) (t : N) : list row :=
  match s with
  | [] => []
  | r :: s' => if N.eqb (id r) t then r :: chain s' (prev r) else chain s' t
  end.

Definition set_st (x : hstate) (r : row) : row :=
  {| id := id r; prev := prev r; height := height r; work := work r; cum := cum r; orph := orph r;
     st := x; pl := pl r |}.
Definition memN (i : N) (l : list N) := existsb (N.eqb i) l.

(* sqlUpdateState: UPDATE headers SET header_state = ? WHERE hash IN (?)
   (after the fix an empty list is a no-op; map over no matching id is the identity anyway) *)
Definition update_state (s : store) (l : list N) (x : hstate) : store :=
  map (fun r => if memN (id r) l then set_st x r else r) s.

(* sqlLongestChainHeadersFromHeight: height >= ? AND header_state = 'LONGEST_CHAIN' *)
Definition longest_from (s : store) (lh : Z) := filter (fun r => st_eqb (st r) Longest && (lh <=? height r)) s.

(* sqlHeaderByHeight with state LONGEST_CHAIN, as used by hasConcurrentHeaderFromLongestChain:
   "is there a LONGEST_CHAIN row at this height" (the row found is never the new header itself) *)
Definition has_L_at (s : store) (h : Z) := existsb (fun r => st_eqb (st r) Longest && (height r =? h)) s.

(* sqlSelectTip: WHERE height = (SELECT max(height) FROM headers WHERE header_state='LONGEST_CHAIN'),
   first row in (height, header_state, rowid) index order; 'LONGEST_CHAIN' sorts before 'ORPHAN' and 'STALE',
   so it is the OLDEST LONGEST_CHAIN row at the maximal LONGEST_CHAIN height *)
Fixpoint maxLh (s : store) : Z :=
  match s with [] => -1 | r :: s' => if st_eqb (st r) Longest then Z.max (height r) (maxLh s') else maxLh s' end.
Definition tipB (s : store) := find (fun r => st_eqb (st r) Longest && (height r =? maxLh s)) (rev s).

(* recursive CTEs follow previous_block by hash lookup (not restricted to older rows) *)
Fixpoint walk (fuel : nat) (s : store) (t : N) : list row :=
  match fuel with
  | Datatypes.O => []
  | Datatypes.S f => match by_hash s t with None => [] | Some x => x :: walk f s (prev x) end
  end.
(* sqlStaleHeadersFrom: all ancestors-or-self by hash lookup, filtered to STALE *)
Definition stale_back (s : store) (t : N) := filter (fun r => st_eqb (st r) Stale) (walk (length s) s t).
(* lowestHeightOf (after the fix: an empty chain gives the header's own height) *)
Definition min_height (l : list row) (d : Z) := fold_right (fun r m => Z.min (height r) m) d l.
