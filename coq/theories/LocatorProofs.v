(* C13 proofs: under the ingestion invariant (ChainMain.Valid) the model of LatestHeaderLocator and
   locateHeadersGetHeaders computes exactly the declarative specification of Locator.v. *)
From Coq Require Import ZArith NArith List Lia Bool.
From BHS Require Import Work WorkProofs Store Chain ChainSpec StoreProofs ChainInv ChainReorg ChainAdd ChainMain ChainFields Locator.
From BHSGen Require Import Params.
Import ListNotations.
Open Scope Z_scope.

Example cap_is_2000 : cap = 2000.
Proof. reflexivity. Qed.

(* ---------------------------------------------------------------- generic list facts *)
Lemma orev_rev l : orev l = rev l.
Proof. unfold orev. symmetry. apply rev_alt. Qed.

Lemma isL_iff r : isL r = true <-> st r = Longest.
Proof. unfold isL. apply st_eqb_eq. Qed.

Lemma filter_rev' {A} (p : A -> bool) l : filter p (rev l) = rev (filter p l).
Proof.
  induction l as [|a l IH]; [reflexivity|]. cbn. rewrite filter_app, IH. cbn.
  destruct (p a); cbn; [reflexivity| apply app_nil_r].
Qed.

Lemma find_andb {A} (a b : A -> bool) l : find (fun x => a x && b x) l = find b (filter a l).
Proof.
  induction l as [|x l IH]; [reflexivity|]. cbn. destruct (a x); cbn; [|exact IH].
  destruct (b x); [reflexivity| exact IH].
Qed.

Lemma filter_andb {A} (a b : A -> bool) l : filter (fun x => a x && b x) l = filter b (filter a l).
Proof.
  induction l as [|x l IH]; [reflexivity|]. cbn. destruct (a x); cbn; [|exact IH].
  destruct (b x); [f_equal|]; exact IH.
Qed.

(* ---------------------------------------------------------------- ascending runs of heights *)
(* heights h0, h0+1, h0+2, ... *)
Fixpoint asc_from (h0 : Z) (l : list row) : Prop :=
  match l with [] => True | x :: l' => height x = h0 /\ asc_from (h0 + 1) l' end.
(* heights h, h-1, ..., 0 *)
Fixpoint desc_to0 (h : Z) (l : list row) : Prop :=
  match l with [] => h = -1 | x :: l' => height x = h /\ desc_to0 (h - 1) l' end.
(* consecutive rows are parent-linked with height + 1 *)
Fixpoint linked (l : list row) : Prop :=
  match l with
  | a :: l' => match l' with b :: _ => prev b = id a /\ height b = height a + 1 | [] => True end /\ linked l'
  | [] => True
  end.

Lemma asc_app h0 l1 l2 : asc_from h0 (l1 ++ l2) <-> asc_from h0 l1 /\ asc_from (h0 + Z.of_nat (length l1)) l2.
Proof.
  revert h0. induction l1 as [|x l1 IH]; intros h0; cbn [app asc_from length].
  - rewrite Z.add_0_r. tauto.
  - rewrite IH. replace (h0 + 1 + Z.of_nat (length l1)) with (h0 + Z.of_nat (S (length l1))) by lia. tauto.
Qed.

Lemma desc_rev h l : desc_to0 h l -> asc_from 0 (rev l) /\ Z.of_nat (length l) = h + 1.
Proof.
  revert h. induction l as [|x l IH]; intros h H; cbn in H.
  - subst. split; [exact I| reflexivity].
  - destruct H as [Hx Hl]. destruct (IH _ Hl) as [Ha Hn]. cbn [rev length]. split; [|lia].
    apply asc_app. split; [exact Ha|]. rewrite rev_length. cbn. split; [lia| exact I].
Qed.

Lemma asc_ge h0 l : asc_from h0 l -> forall x, In x l -> h0 <= height x.
Proof.
  revert h0. induction l as [|a l IH]; intros h0 H x Hx; [inversion Hx|]. destruct H as [Ha Hl].
  destruct Hx as [<-|Hx]; [lia|]. specialize (IH _ Hl x Hx). lia.
Qed.

Lemma asc_nth h0 l : asc_from h0 l -> forall n x, nth_error l n = Some x -> height x = h0 + Z.of_nat n.
Proof.
  revert h0. induction l as [|a l IH]; intros h0 H n x Hn; [destruct n; discriminate|]. destruct H as [Ha Hl].
  destruct n as [|n]; cbn in Hn.
  - inversion Hn; subst. lia.
  - rewrite (IH _ Hl n x Hn). lia.
Qed.

Lemma asc_find h0 l : asc_from h0 l -> forall h, h0 <= h ->
  find (fun r => height r =? h) l = nth_error l (Z.to_nat (h - h0)).
Proof.
  revert h0. induction l as [|a l IH]; intros h0 H h Hh; cbn [find].
  - destruct (Z.to_nat (h - h0)); reflexivity.
  - destruct H as [Ha Hl]. rewrite Ha. destruct (Z.eqb_spec h0 h) as [E|E].
    + subst. rewrite Z.sub_diag. reflexivity.
    + replace (Z.to_nat (h - h0)) with (S (Z.to_nat (h - (h0 + 1)))) by lia. cbn. apply IH; [exact Hl| lia].
Qed.

(* the rows with height in [lo, hi] of an ascending run are a contiguous segment *)
Definition in_range (lo hi : Z) (r : row) : bool := (lo <=? height r) && (height r <=? hi).

Lemma asc_segment l : forall h0 lo hi, asc_from h0 l ->
  filter (in_range lo hi) l = firstn (Z.to_nat (hi - Z.max lo h0 + 1)) (skipn (Z.to_nat (lo - h0)) l).
Proof.
  induction l as [|x l IH]; intros h0 lo hi H.
  - rewrite skipn_nil, firstn_nil. reflexivity.
  - destruct H as [Hx Hl]. cbn [filter]. unfold in_range at 1. rewrite Hx.
    destruct (Z.leb_spec lo h0) as [Hlo|Hlo]; cbn [andb].
    + replace (Z.to_nat (lo - h0)) with Datatypes.O by lia. cbn [skipn].
      rewrite (IH _ lo hi Hl). replace (Z.to_nat (lo - (h0 + 1))) with Datatypes.O by lia. cbn [skipn].
      destruct (Z.leb_spec h0 hi) as [Hhi|Hhi].
      * replace (Z.to_nat (hi - Z.max lo h0 + 1)) with (S (Z.to_nat (hi - Z.max lo (h0 + 1) + 1))) by lia.
        reflexivity.
      * replace (Z.to_nat (hi - Z.max lo h0 + 1)) with Datatypes.O by lia.
        replace (Z.to_nat (hi - Z.max lo (h0 + 1) + 1)) with Datatypes.O by lia. reflexivity.
    + replace (Z.to_nat (lo - h0)) with (S (Z.to_nat (lo - (h0 + 1)))) by lia. cbn [skipn].
      rewrite (IH _ lo hi Hl). replace (Z.max lo (h0 + 1)) with (Z.max lo h0) by lia. reflexivity.
Qed.

Lemma linked_app_one l x : linked l -> (forall a, last l x = a -> l <> [] -> prev x = id a /\ height x = height a + 1) ->
  linked (l ++ [x]).
Proof.
  induction l as [|a l IH]; intros Hl Hx; [cbn; auto|].
  destruct Hl as [Ha Hl]. destruct l as [|b l].
  - cbn. split; [|auto]. apply (Hx a); [reflexivity| discriminate].
  - cbn [app linked]. split; [exact Ha|]. apply IH; [exact Hl|].
    intros c Hc _. apply Hx; [|discriminate]. exact Hc.
Qed.

Lemma linked_skipn n l : linked l -> linked (skipn n l).
Proof.
  revert l. induction n as [|n IH]; intros l H; [exact H|]. destruct l as [|a l]; [exact I|].
  cbn [skipn]. apply IH. apply H.
Qed.

Lemma linked_firstn n l : linked l -> linked (firstn n l).
Proof.
  revert l. induction n as [|n IH]; intros l H; [exact I|]. destruct l as [|a l]; [exact I|].
  cbn [firstn]. destruct H as [Ha Hl]. specialize (IH l Hl). destruct n as [|n].
  - cbn. auto.
  - destruct l as [|b l]; [cbn; auto|]. cbn [firstn linked] in *. split; [exact Ha| exact IH].
Qed.

(* ---------------------------------------------------------------- the chain of a connected row *)
Lemma chain_desc s : wf s -> forall rest t x, chain s t = x :: rest -> orph x = false -> desc_to0 (height x) (x :: rest).
Proof.
  intros Hwf rest. revert s Hwf. induction rest as [|b c IH]; intros s Hwf t x H Ho.
  - destruct (chain_connected_nonempty_last s Hwf t x [] H Ho) as (g & Hg & Hg0 & _). cbn in Hg. subst g.
    cbn. split; [reflexivity| lia].
  - destruct (chain_step s Hwf t x b c H) as (_ & Hh & _ & Hob).
    destruct (chain_tail_is_chain _ _ _ _ H) as (s' & [pre Hpre] & Hr).
    assert (Hwf': wf s').
    { subst s. apply (wf_suffix (pre ++ [x]) s'); [rewrite <- app_assoc; exact Hwf|].
      intro E. subst s'. cbn in Hr. discriminate. }
    cbn [desc_to0]. split; [reflexivity|].
    replace (height x - 1) with (height b) by lia.
    apply (IH s' Hwf' (prev x) b (eq_sym Hr)). congruence.
Qed.

Lemma chain_linked_rev s : wf s -> forall c t, chain s t = c -> linked (rev c).
Proof.
  intros Hwf c. revert s Hwf. induction c as [|x c IH]; intros s Hwf t H; [exact I|].
  cbn [rev]. destruct (chain_tail_is_chain _ _ _ _ H) as (s' & [pre Hpre] & Hr).
  destruct c as [|b c]; [cbn; auto|].
  assert (Hwf': wf s').
  { subst s. apply (wf_suffix (pre ++ [x]) s'); [rewrite <- app_assoc; exact Hwf|].
    intro E. subst s'. cbn in Hr. discriminate. }
  destruct (chain_step s Hwf t x b c H) as (Hp & Hh & _ & _).
  apply linked_app_one; [apply (IH s' Hwf' (prev x)); symmetry; exact Hr|].
  intros a Ha _. cbn [rev] in Ha. rewrite last_last in Ha. subst a. split; assumption.
Qed.

(* chain = the members of the chain in store order *)
Lemma chain_filter s : NoDup (ids s) -> forall t, chain s t = filter (fun r => memN (id r) (ids (chain s t))) s.
Proof.
  induction s as [|r s IH]; intros Hnd t; [reflexivity|].
  inversion Hnd as [|? ? Hnotin Hnd']; subst. cbn [chain filter].
  destruct (N.eqb_spec (id r) t) as [E|E].
  - cbn [ids map memN existsb]. rewrite N.eqb_refl. cbn [orb]. f_equal.
    rewrite (IH Hnd' (prev r)) at 1. apply filter_ext_in. intros x Hx.
    destruct (N.eqb_spec (id x) (id r)) as [E2|E2]; [|reflexivity].
    exfalso. apply Hnotin. rewrite <- E2. apply in_map. exact Hx.
  - rewrite (memN_false (id r) (ids (chain s t)) (fresh_not_in_chain s t r Hnotin)). apply IH. exact Hnd'.
Qed.

Lemma L_rows_are_chain s tip : Inv s tip -> filter isL s = chain s tip.
Proof.
  intros HI. pose proof HI as (Hwf & (t & Ht & Ho) & Hl).
  rewrite (chain_filter s (wf_nodup s Hwf) tip). apply filter_ext_in. intros r Hr.
  change (memN (id r) (ids (chain s tip))) with (inchain s tip r).
  destruct (inchain s tip r) eqn:E.
  - apply isL_iff. apply (is_L_iff s tip HI r Hr). apply (inchain_in s tip r Hwf Hr). exact E.
  - destruct (isL r) eqn:E2; [|reflexivity]. apply isL_iff in E2.
    apply (is_L_iff s tip HI r Hr) in E2. apply (inchain_in s tip r Hwf Hr) in E2. congruence.
Qed.

(* ---------------------------------------------------------------- what Valid says about the main chain *)
Record mc_facts (s : store) (mc : list row) (tip : N) (t g : row) : Prop := {
  mf_inv : Inv s tip;
  mf_tipB : tipB s = Some t;
  mf_mc : mc = rev (chain s tip);
  mf_L : filter isL (orev s) = mc;
  mf_asc : asc_from 0 (mc);
  mf_linked : linked (mc);
  mf_len : Z.of_nat (length (mc)) = height t + 1;
  mf_tip : nth_error (mc) (Z.to_nat (height t)) = Some t;
  mf_gen : nth_error (mc) 0 = Some g;
  mf_gid : id g = genesis_id s
}.

Lemma wf_last s : wf s -> exists pre g, s = pre ++ [g] /\ is_genesis g.
Proof.
  induction 1 as [g Hg | r s Hwf IH Hn Hz Hok].
  - exists [], g. split; [reflexivity| exact Hg].
  - destruct IH as (pre & g & E & Hg). exists (r :: pre), g. split; [rewrite E; reflexivity| exact Hg].
Qed.

Lemma wf_ids_nonzero s : wf s -> forall r, In r s -> id r <> 0%N.
Proof.
  induction 1 as [g Hg | a s Hwf IH Hn Hz Hok]; intros r Hr.
  - destruct Hr as [<-|[]]. apply Hg.
  - destruct Hr as [<-|Hr]; [exact Hz| apply IH; exact Hr].
Qed.

(* everything below needs only the label invariant Inv (every history, zero-work headers included);
   mc is the chain of the invariant's tip, genesis first *)
Lemma inv_mc s tip : Inv s tip -> exists t g, mc_facts s (rev (chain s tip)) tip t g /\ id t = tip.
Proof.
  intros HI. pose proof HI as (Hwf & (t & Ht & Ho) & Hl).
  destruct (by_hash_chain s tip (wf_nodup s Hwf) t Ht) as [rest Hc].
  pose proof (chain_desc s Hwf rest tip t Hc Ho) as Hd.
  destruct (desc_rev _ _ Hd) as [Hasc Hlen].
  destruct (wf_last s Hwf) as (pre & g & Es & Hg).
  destruct (chain_connected_nonempty_last s Hwf tip t rest Hc Ho) as (g' & Hg1 & _ & Hg2).
  assert (Eg: g' = g). { rewrite <- Hg2, Es. apply last_last. } rewrite Eg in Hg1. clear Hg2.
  exists t, g. split; [|apply (by_hash_in _ _ _ Ht)]. constructor.
  - exact HI.
  - rewrite (tipB_is_tip s tip HI). exact Ht.
  - reflexivity.
  - rewrite orev_rev, filter_rev', (L_rows_are_chain s tip HI). reflexivity.
  - rewrite Hc. exact Hasc.
  - apply (chain_linked_rev s Hwf _ tip eq_refl).
  - rewrite Hc, rev_length. exact Hlen.
  - rewrite Hc. cbn [rev]. rewrite nth_error_app2; rewrite rev_length; cbn [length] in Hlen.
    + replace (Z.to_nat (height t) - length rest)%nat with Datatypes.O by lia. reflexivity.
    + lia.
  - rewrite Hc.
    assert (Hne: t :: rest <> []) by discriminate.
    rewrite (app_removelast_last t Hne), Hg1, rev_app_distr. reflexivity.
  - unfold genesis_id. rewrite orev_rev, Es, rev_app_distr. reflexivity.
Qed.

(* the chain of the reported tip is the chain of the invariant's tip = the rows labelled LONGEST_CHAIN *)
Lemma tip_chain_inv s tip : Inv s tip -> tip_chain s = rev (chain s tip) /\ tip_chain s = filter isL (orev s).
Proof.
  intros HI. destruct (inv_mc s tip HI) as (t & g & F & Hid).
  assert (E: tip_chain s = rev (chain s tip)).
  { unfold tip_chain. rewrite (mf_tipB _ _ _ _ _ F), Hid. apply orev_rev. }
  split; [exact E|]. rewrite E. symmetry. exact (mf_L _ _ _ _ _ F).
Qed.

Lemma inv_tip_mc s : (exists tip, Inv s tip) -> exists tip t g, mc_facts s (tip_chain s) tip t g.
Proof.
  intros (tip & HI). destruct (inv_mc s tip HI) as (t & g & F & _). exists tip, t, g.
  rewrite (proj1 (tip_chain_inv s tip HI)). exact F.
Qed.

(* for positive-work histories (Valid) it is also the greatest-cumulative-work chain of the specification *)
Lemma main_chain_valid s tip : Inv2 s tip -> main_chain s = rev (chain s tip) /\ tip_chain s = main_chain s.
Proof.
  intros HI2. pose proof (spec_tip_inv2 s tip HI2) as Hst.
  assert (E: main_chain s = rev (chain s tip)) by (unfold main_chain; rewrite Hst; apply orev_rev).
  split; [exact E|]. rewrite E. apply (tip_chain_inv s tip (proj1 HI2)).
Qed.

Lemma valid_mc s : Valid s -> exists tip t g, mc_facts s (main_chain s) tip t g.
Proof.
  intros (tip & HI2). destruct (inv_mc s tip (proj1 HI2)) as (t & g & F & _). exists tip, t, g.
  rewrite (proj1 (main_chain_valid s tip HI2)). exact F.
Qed.

Lemma mc_in s mc tip t g : mc_facts s mc tip t g -> forall r, In r (mc) <-> In r s /\ st r = Longest.
Proof.
  intros F r. rewrite <- (mf_L _ _ _ _ _ F), filter_In, orev_rev, <- in_rev, isL_iff. tauto.
Qed.

Lemma mc_height_pos s mc tip t g : mc_facts s mc tip t g -> 0 <= height t.
Proof.
  intros F. pose proof (mf_len _ _ _ _ _ F) as Hlen.
  assert (Hlt: (Z.to_nat (height t) < length (mc))%nat) by (apply nth_error_Some; rewrite (mf_tip _ _ _ _ _ F); discriminate).
  lia.
Qed.

Lemma asc_in_nth h0 l : asc_from h0 l -> forall x, In x l -> nth_error l (Z.to_nat (height x - h0)) = Some x.
Proof.
  intros H x Hx. destruct (In_nth_error _ _ Hx) as [n Hn].
  rewrite (asc_nth _ _ H n x Hn). replace (Z.to_nat (h0 + Z.of_nat n - h0)) with n by lia. exact Hn.
Qed.

Lemma mc_nth_bounds s mc tip t g : mc_facts s mc tip t g -> forall x, In x (mc) -> 0 <= height x <= height t.
Proof.
  intros F x Hx. pose proof (asc_in_nth _ _ (mf_asc _ _ _ _ _ F) x Hx) as Hn.
  pose proof (asc_ge _ _ (mf_asc _ _ _ _ _ F) x Hx) as H0.
  assert (Hlt: (Z.to_nat (height x - 0) < length (mc))%nat) by (apply nth_error_Some; congruence).
  pose proof (mf_len _ _ _ _ _ F). lia.
Qed.

(* by-height lookup among LONGEST_CHAIN rows = position in the main chain *)
Lemma by_height_L_nth s mc tip t g : mc_facts s mc tip t g -> forall h, 0 <= h ->
  by_height_L s h = nth_error (mc) (Z.to_nat h).
Proof.
  intros F h Hh. unfold by_height_L. rewrite find_andb, (mf_L _ _ _ _ _ F).
  rewrite (asc_find 0 _ (mf_asc _ _ _ _ _ F) h Hh). rewrite Z.sub_0_r. reflexivity.
Qed.

Lemma mc_nth_some s mc tip t g : mc_facts s mc tip t g -> forall h, 0 <= h <= height t ->
  exists r, nth_error (mc) (Z.to_nat h) = Some r /\ height r = h /\ In r s /\ st r = Longest /\ at_height_mc mc h = id r.
Proof.
  intros F h Hh. pose proof (mf_len _ _ _ _ _ F) as Hlen.
  destruct (nth_error (mc) (Z.to_nat h)) as [r|] eqn:E.
  - exists r. split; [reflexivity|]. pose proof (asc_nth _ _ (mf_asc _ _ _ _ _ F) _ _ E) as Hr.
    apply nth_error_In in E as Hin. apply (mc_in _ _ _ _ _ F) in Hin. destruct Hin as [Hin HL].
    unfold at_height_mc. rewrite E. repeat split; auto. lia.
  - apply nth_error_None in E. lia.
Qed.

(* ---------------------------------------------------------------- the locator loop *)
Lemma gap_pos i : 1 <= gap i.
Proof. unfold gap. destruct (Z.leb_spec (Z.of_nat i) 10); [lia|]. pose proof (Z.pow_pos_nonneg 2 (Z.of_nat i - 10)). lia. Qed.

(* the `if len(locator) > 10 { step *= 2 }` update produces the next gap *)
Lemma gap_step i : (if 10 <? Z.of_nat (S i) then gap i * 2 else gap i) = gap (S i).
Proof.
  unfold gap. destruct (Z.ltb_spec 10 (Z.of_nat (S i))) as [H|H].
  - destruct (Z.leb_spec (Z.of_nat (S i)) 10); [lia|].
    destruct (Z.leb_spec (Z.of_nat i) 10) as [H2|H2].
    + replace (Z.of_nat (S i) - 10) with 1 by lia. reflexivity.
    + replace (Z.of_nat (S i) - 10) with (Z.succ (Z.of_nat i - 10)) by lia. rewrite Z.pow_succ_r; lia.
  - destruct (Z.leb_spec (Z.of_nat (S i)) 10); [|lia]. destruct (Z.leb_spec (Z.of_nat i) 10); [reflexivity| lia].
Qed.

(* the gap is 1 while at most 10 hashes precede the entry and doubles from then on *)
Lemma gap_one i : (i <= 10)%nat -> gap i = 1.
Proof. intros H. unfold gap. destruct (Z.leb_spec (Z.of_nat i) 10); [reflexivity| lia]. Qed.
Lemma gap_double i : (10 <= i)%nat -> gap (S i) = 2 * gap i.
Proof. intros H. rewrite <- gap_step. destruct (Z.ltb_spec 10 (Z.of_nat (S i))); lia. Qed.

Lemma loop_spec s mc tip t g : mc_facts s mc tip t g -> forall f i hs cur,
  hs <= height t -> nth_error (mc) (Z.to_nat (Z.max 0 hs)) = Some cur ->
  (Z.to_nat (Z.max 0 hs) < f)%nat ->
  loc_loop f s cur (gap i) i = Some (map (at_height_mc mc) (spec_heights f i hs)).
Proof.
  intros F f. induction f as [|f IH]; intros i hs cur Hle Hn Hf; [lia|].
  pose proof (asc_nth _ _ (mf_asc _ _ _ _ _ F) _ _ Hn) as Hh.
  assert (Hid: at_height_mc mc (Z.max 0 hs) = id cur) by (unfold at_height_mc; rewrite Hn; reflexivity).
  cbn [loc_loop spec_heights]. destruct (Z.leb_spec hs 0) as [H0|H0].
  - replace (height cur =? 0) with true by (symmetry; apply Z.eqb_eq; lia).
    cbn. replace (Z.max 0 hs) with 0 in Hid by lia. rewrite Hid. reflexivity.
  - replace (height cur =? 0) with false by (symmetry; apply Z.eqb_neq; lia).
    replace (Z.max 0 hs) with hs in * by lia.
    replace (if height cur - gap i <? 0 then 0 else height cur - gap i) with (Z.max 0 (hs - gap i))
      by (destruct (Z.ltb_spec (height cur - gap i) 0); lia).
    pose proof (gap_pos i) as Hg.
    destruct (mc_nth_some _ _ _ _ _ F (Z.max 0 (hs - gap i)) ltac:(lia)) as (v & Hv & _).
    rewrite (by_height_L_nth _ _ _ _ _ F (Z.max 0 (hs - gap i)) ltac:(lia)), Hv, gap_step.
    rewrite (IH (S i) (hs - gap i) v ltac:(lia) Hv ltac:(lia)). cbn. rewrite Hid. reflexivity.
Qed.

Lemma latest_locator_mc s mc tip t g : mc_facts s mc tip t g -> latest_locator s = Some (spec_locator_mc mc).
Proof.
  intros F.
  pose proof (mc_height_pos _ _ _ _ _ F) as Hp. pose proof (mf_len _ _ _ _ _ F) as Hlen.
  unfold latest_locator, spec_locator_mc. rewrite (mf_tipB _ _ _ _ _ F).
  replace (S (Z.to_nat (height t))) with (length (mc)) by lia.
  replace (Z.of_nat (length (mc)) - 1) with (height t) by lia.
  change 1 with (gap Datatypes.O).
  apply (loop_spec _ _ _ _ _ F); [lia| | lia].
  replace (Z.max 0 (height t)) with (height t) by lia. exact (mf_tip _ _ _ _ _ F).
Qed.

(* ---- the shape of the height list ---- *)
Fixpoint shape (i : nat) (l : list Z) : Prop :=
  match l with
  | [] => False
  | h :: l' => match l' with
               | [] => h = 0                                             (* ends at genesis *)
               | h' :: _ => 0 < h /\ h' = Z.max 0 (h - gap i) /\ shape (S i) l'
               end
  end.

Lemma spec_heights_shape f : forall i h, (Z.to_nat h < f)%nat ->
  shape i (spec_heights f i h) /\ hd 0 (spec_heights f i h) = Z.max 0 h.
Proof.
  induction f as [|f IH]; intros i h Hf; [lia|]. cbn [spec_heights].
  destruct (Z.leb_spec h 0) as [H0|H0]; [cbn; split; [reflexivity| lia]|].
  pose proof (gap_pos i) as Hg.
  destruct (IH (S i) (h - gap i) ltac:(lia)) as [Hs Hh]. split; [|cbn; lia].
  cbn [shape]. destruct (spec_heights f (S i) (h - gap i)) as [|h' l'] eqn:E; [contradiction|].
  cbn in Hh. subst h'. repeat split; [lia | exact Hs].
Qed.

Lemma shape_bounds l : forall i, shape i l -> forall h, In h l -> 0 <= h <= hd 0 l.
Proof.
  induction l as [|a l IH]; intros i H h Hh; [contradiction|]. cbn [hd].
  destruct l as [|b l].
  - cbn in H. destruct Hh as [<-|[]]. lia.
  - destruct H as (Ha & Hb & Hs). pose proof (gap_pos i). destruct Hh as [<-|Hh]; [lia|].
    specialize (IH _ Hs h Hh). cbn [hd] in IH. lia.
Qed.

Lemma shape_last l : forall i, shape i l -> last l 0 = 0.
Proof.
  induction l as [|a l IH]; intros i H; [reflexivity|]. destruct l as [|b l]; [exact H|].
  destruct H as (_ & _ & Hs). change (last (a :: b :: l) 0) with (last (b :: l) 0). apply (IH _ Hs).
Qed.

(* strictly descending *)
Lemma shape_desc l : forall i, shape i l -> forall pre a b post, l = pre ++ a :: b :: post -> b < a.
Proof.
  induction l as [|x l IH]; intros i H pre a b post E; [destruct pre; discriminate|].
  destruct l as [|y l]; [destruct pre as [|? [|? ?]]; discriminate|].
  destruct H as (Hx & Hy & Hs). pose proof (gap_pos i). destruct pre as [|p pre].
  - inversion E; subst. lia.
  - inversion E as [[E1 E2]]. apply (IH _ Hs pre a b post E2).
Qed.

Lemma last_map {A B} (f : A -> B) l d : last (map f l) (f d) = f (last l d).
Proof. induction l as [|a l IH]; [reflexivity|]. destruct l as [|b l]; [reflexivity|]. exact IH. Qed.

(* C13, first half: the locator starts at the tip, ends at genesis, contains only longest-chain hashes in
   strictly descending height, steps back one block at a time for the first entries and then doubles the step;
   the loop terminates within the fuel (Some). *)
Lemma locator_shape_mc s mc tip t0 g : mc_facts s mc tip t0 g ->
  exists t hs,
    tipB s = Some t /\
    latest_locator s = Some (map (at_height_mc mc) hs) /\                                  (* fuel suffices *)
    hd 0%N (map (at_height_mc mc) hs) = id t /\ hd 0 hs = height t /\                       (* head = tip *)
    last (map (at_height_mc mc) hs) 0%N = genesis_id s /\ last hs 0 = 0 /\                   (* last = genesis *)
    shape Datatypes.O hs /\                                                             (* gaps 1 (x11), 2, 4, 8, .. clamped at 0 *)
    (forall pre a b post, hs = pre ++ a :: b :: post -> b < a) /\                        (* strictly descending *)
    (forall h, In h hs -> exists r, In r s /\ st r = Longest /\ height r = h /\ id r = at_height_mc mc h).
Proof.
  intros F. set (t := t0) in *.
  pose proof (mc_height_pos _ _ _ _ _ F) as Hp. pose proof (mf_len _ _ _ _ _ F) as Hlen.
  set (hs := spec_heights (length (mc)) Datatypes.O ((Z.of_nat (length mc) - 1))).
  assert (Hth: (Z.of_nat (length mc) - 1) = height t) by lia.
  destruct (spec_heights_shape (length (mc)) Datatypes.O ((Z.of_nat (length mc) - 1)) ltac:(lia)) as [Hs Hh].
  fold hs in Hs, Hh. rewrite Hth in Hh. replace (Z.max 0 (height t)) with (height t) in Hh by lia.
  assert (Hne: hs <> []) by (intro E; rewrite E in Hs; exact Hs).
  assert (Htip: at_height_mc mc (height t) = id t).
  { unfold at_height_mc. rewrite (mf_tip _ _ _ _ _ F). reflexivity. }
  assert (Hgen: at_height_mc mc 0 = genesis_id s).
  { unfold at_height_mc. cbn [Z.to_nat]. rewrite (mf_gen _ _ _ _ _ F). exact (mf_gid _ _ _ _ _ F). }
  exists t, hs. split; [exact (mf_tipB _ _ _ _ _ F)|]. split; [exact (latest_locator_mc _ _ _ _ _ F)|].
  split; [destruct hs as [|h0 hs']; [contradiction| cbn in *; subst h0; exact Htip]|].
  split; [exact Hh|].
  split.
  { assert (Hne': map (at_height_mc mc) hs <> []) by (destruct hs; [contradiction| discriminate]).
    rewrite (last_indep_nonempty _ 0%N (at_height_mc mc 0) Hne'), last_map, (shape_last _ _ Hs). exact Hgen. }
  split; [exact (shape_last _ _ Hs)|]. split; [exact Hs|]. split; [exact (shape_desc _ _ Hs)|].
  intros h Hin. pose proof (shape_bounds _ _ Hs h Hin) as Hb. rewrite Hh in Hb.
  destruct (mc_nth_some _ _ _ _ _ F h Hb) as (r & _ & Hr & Hin' & HL & Hid). exists r. auto.
Qed.

(* ---------------------------------------------------------------- start height = anchor *)
Definition is_anchor (c : list row) (p : row -> bool) (a : Z) : Prop :=
  (exists r, In r c /\ p r = true /\ height r = a /\ forall r', In r' c -> p r' = true -> height r' <= a)
  \/ (a = 0 /\ forall r, In r c -> p r = false).

Lemma is_anchor_unique c p a b : is_anchor c p a -> is_anchor c p b -> a = b.
Proof.
  intros [(r & Hr & Hp & Hh & Hm)|[Ha Hn]] [(r2 & Hr2 & Hp2 & Hh2 & Hm2)|[Hb Hn2]].
  - specialize (Hm r2 Hr2 Hp2). specialize (Hm2 r Hr Hp). lia.
  - rewrite (Hn2 r Hr) in Hp. discriminate.
  - rewrite (Hn r2 Hr2) in Hp2. discriminate.
  - lia.
Qed.

Lemma fold_max_spec (q : row -> bool) l :
  match fold_right (fun r m => if q r then max_opt m (height r) else m) None l with
  | None => forall r, In r l -> q r = false
  | Some x => exists r, In r l /\ q r = true /\ height r = x /\ forall r', In r' l -> q r' = true -> height r' <= x
  end.
Proof.
  induction l as [|a l IH]; [intros r []|]. cbn [fold_right].
  destruct (fold_right (fun r m => if q r then max_opt m (height r) else m) None l) as [x|].
  - destruct IH as (r & Hr & Hq & Hh & Hm). destruct (q a) eqn:Ea; cbn [max_opt].
    + destruct (Z.max_spec (height a) x) as [[Hlt E]|[Hge E]]; rewrite E.
      * exists r. split; [right; exact Hr|]. split; [exact Hq|]. split; [exact Hh|].
        intros r' [<-|Hr'] Hq'; [lia| apply Hm; assumption].
      * exists a. split; [left; reflexivity|]. split; [exact Ea|]. split; [reflexivity|].
        intros r' [<-|Hr'] Hq'; [lia| specialize (Hm r' Hr' Hq'); lia].
    + exists r. split; [right; exact Hr|]. split; [exact Hq|]. split; [exact Hh|].
      intros r' [<-|Hr'] Hq'; [congruence| apply Hm; assumption].
  - destruct (q a) eqn:Ea; cbn [max_opt].
    + exists a. split; [left; reflexivity|]. split; [exact Ea|]. split; [reflexivity|].
      intros r' [<-|Hr'] Hq'; [lia| rewrite (IH r' Hr') in Hq'; discriminate].
    + intros r [<-|Hr]; [exact Ea| apply IH; exact Hr].
Qed.

Lemma start_is_anchor s mc tip t g locs : mc_facts s mc tip t g ->
  is_anchor (mc) (fun r => memN (id r) locs) (start_height s locs).
Proof.
  intros F. unfold start_height.
  pose proof (fold_max_spec (fun r => isL r && memN (id r) locs) s) as H.
  destruct (fold_right _ None s) as [x|].
  - destruct H as (r & Hr & Hq & Hh & Hm). apply andb_prop in Hq. destruct Hq as [HL Hq]. left.
    exists r. split; [apply (mc_in _ _ _ _ _ F); split; [exact Hr| apply isL_iff; exact HL]|].
    split; [exact Hq|]. split; [exact Hh|]. intros r' Hr' Hq'. apply (mc_in _ _ _ _ _ F) in Hr'. destruct Hr' as [Hin HL'].
    apply Hm; [exact Hin|]. apply andb_true_intro. split; [apply isL_iff; exact HL'| exact Hq'].
  - right. split; [reflexivity|]. intros r Hr. apply (mc_in _ _ _ _ _ F) in Hr. destruct Hr as [Hin HL].
    specialize (H r Hin). apply isL_iff in HL. rewrite HL in H. exact H.
Qed.

Lemma fold_left_anchor (p : row -> bool) l : forall h0 a0, asc_from h0 l ->
  let A := fold_left (fun a r => if p r then height r else a) l a0 in
  (exists r, In r l /\ p r = true /\ height r = A /\ forall r', In r' l -> p r' = true -> height r' <= A)
  \/ (A = a0 /\ forall r, In r l -> p r = false).
Proof.
  induction l as [|x l IH]; intros h0 a0 H; cbn zeta; [right; split; [reflexivity| intros r []]|].
  destruct H as [Hx Hl]. cbn [fold_left].
  destruct (IH (h0 + 1) (if p x then height x else a0) Hl) as [(r & Hr & Hp & Hh & Hm)|[HA Hn]].
  - left. exists r. split; [right; exact Hr|]. split; [exact Hp|]. split; [exact Hh|].
    intros r' [<-|Hr'] Hp'; [|apply Hm; assumption].
    pose proof (asc_ge _ _ Hl r Hr). lia.
  - destruct (p x) eqn:Ex.
    + left. exists x. split; [left; reflexivity|]. split; [exact Ex|]. split; [rewrite HA; reflexivity|].
      intros r' [<-|Hr'] Hp'; [lia| rewrite (Hn r' Hr') in Hp'; discriminate].
    + right. split; [exact HA|]. intros r [<-|Hr]; [exact Ex| apply Hn; exact Hr].
Qed.

Lemma start_eq_anchor s mc tip t g locs : mc_facts s mc tip t g -> start_height s locs = anchor_mc mc locs.
Proof.
  intros F. apply (is_anchor_unique (mc) (fun r => memN (id r) locs)); [apply (start_is_anchor _ _ _ _ _ _ F)|].
  unfold anchor_mc. exact (fold_left_anchor (fun r => memN (id r) locs) (mc) 0 0 (mf_asc _ _ _ _ _ F)).
Qed.

Lemma anchor_bounds s mc tip t g locs : mc_facts s mc tip t g -> 0 <= anchor_mc mc locs <= height t.
Proof.
  intros F. pose proof (mc_height_pos _ _ _ _ _ F).
  destruct (fold_left_anchor (fun r => memN (id r) locs) (mc) 0 0 (mf_asc _ _ _ _ _ F)) as [(r & Hr & _ & Hh & _)|[HA _]];
    fold (anchor_mc mc locs) in *.
  - rewrite <- Hh. apply (mc_nth_bounds _ _ _ _ _ F r Hr).
  - lia.
Qed.

(* ---------------------------------------------------------------- stop height *)
Lemma find_ext' {A} (p q : A -> bool) l : (forall x, p x = q x) -> find p l = find q l.
Proof. intros H. induction l as [|a l IH]; [reflexivity|]. cbn. rewrite H, IH. reflexivity. Qed.

Lemma stop_height_mc s mc tip t g stop : mc_facts s mc tip t g ->
  stop_height s stop = match find (fun r => N.eqb (id r) stop) (mc) with Some x => height x | None => 0 end.
Proof.
  intros F. unfold stop_height.
  rewrite (find_ext' _ (fun r => isL r && N.eqb (id r) stop) _ (fun x => andb_comm _ _)).
  rewrite find_andb, (mf_L _ _ _ _ _ F). reflexivity.
Qed.

(* ---------------------------------------------------------------- the range query *)
Lemma asc_firstn n : forall h0 l, asc_from h0 l -> asc_from h0 (firstn n l).
Proof.
  induction n as [|n IH]; intros h0 l H; [exact I|]. destruct l as [|a l]; [exact I|].
  destruct H as [Ha Hl]. cbn. split; [exact Ha| apply IH; exact Hl].
Qed.

Lemma asc_skipn n : forall h0 l, asc_from h0 l -> asc_from (h0 + Z.of_nat n) (skipn n l).
Proof.
  induction n as [|n IH]; intros h0 l H; [cbn; rewrite Z.add_0_r; exact H|]. destruct l as [|a l]; [exact I|].
  destruct H as [Ha Hl]. cbn [skipn]. replace (h0 + Z.of_nat (S n)) with (h0 + 1 + Z.of_nat n) by lia. apply IH. exact Hl.
Qed.

Lemma sort_asc l : forall h0, asc_from h0 l -> sort_h l = l.
Proof.
  induction l as [|x l IH]; intros h0 H; [reflexivity|]. destruct H as [Hx Hl].
  unfold sort_h in *. cbn [fold_right]. rewrite (IH _ Hl). destruct l as [|y l]; [reflexivity|].
  destruct Hl as [Hy _]. cbn [insert_h]. replace (height x <=? height y) with true by (symmetry; apply Z.leb_le; lia).
  reflexivity.
Qed.

(* position view of a segment of the main chain: the rows with height lo .. lo+n-1 *)
Definition seg (mc : list row) (lo : Z) (n : nat) : list row := firstn n (skipn (Z.to_nat lo) mc).

Lemma range_L_seg s mc tip t g lo hi : mc_facts s mc tip t g -> 0 <= lo ->
  range_L s lo hi = seg mc lo (Z.to_nat (hi - lo + 1)).
Proof.
  intros F Hlo. unfold range_L, seg.
  rewrite (filter_andb isL (fun r => (lo <=? height r) && (height r <=? hi))), (mf_L _ _ _ _ _ F).
  change (fun r => (lo <=? height r) && (height r <=? hi)) with (in_range lo hi).
  rewrite (asc_segment _ 0 lo hi (mf_asc _ _ _ _ _ F)).
  replace (Z.max lo 0) with lo by lia. rewrite Z.sub_0_r.
  apply (sort_asc _ (0 + Z.of_nat (Z.to_nat lo))). apply asc_firstn, asc_skipn. exact (mf_asc _ _ _ _ _ F).
Qed.

Lemma asc_above l : forall h0 a, asc_from h0 l ->
  filter (fun r => a <? height r) l = skipn (Z.to_nat (a + 1 - h0)) l.
Proof.
  induction l as [|x l IH]; intros h0 a H; [rewrite skipn_nil; reflexivity|].
  destruct H as [Hx Hl]. cbn [filter]. rewrite Hx, (IH _ a Hl). destruct (Z.ltb_spec a h0) as [Ha|Ha].
  - replace (Z.to_nat (a + 1 - h0)) with Datatypes.O by lia.
    replace (Z.to_nat (a + 1 - (h0 + 1))) with Datatypes.O by lia. reflexivity.
  - replace (Z.to_nat (a + 1 - h0)) with (S (Z.to_nat (a + 1 - (h0 + 1)))) by lia. reflexivity.
Qed.

Lemma asc_below l : forall h0 b, asc_from h0 l ->
  filter (fun r => height r <=? b) l = firstn (Z.to_nat (b - h0 + 1)) l.
Proof.
  induction l as [|x l IH]; intros h0 b H; [rewrite firstn_nil; reflexivity|].
  destruct H as [Hx Hl]. cbn [filter]. rewrite Hx, (IH _ b Hl). destruct (Z.leb_spec h0 b) as [Hb|Hb].
  - replace (Z.to_nat (b - h0 + 1)) with (S (Z.to_nat (b - (h0 + 1) + 1))) by lia. reflexivity.
  - replace (Z.to_nat (b - h0 + 1)) with Datatypes.O by lia.
    replace (Z.to_nat (b - (h0 + 1) + 1)) with Datatypes.O by lia. reflexivity.
Qed.

(* the specification, position view *)
Lemma spec_locate_seg s mc tip t g locs stop : mc_facts s mc tip t g ->
  spec_locate_mc mc locs stop =
  let a := anchor_mc mc locs in
  match find (fun r => N.eqb (id r) stop) (mc) with
  | Some x => if height x <=? a then [] else seg mc (a + 1) (Nat.min (Z.to_nat cap) (Z.to_nat (height x - a)))
  | None => seg mc (a + 1) (Z.to_nat cap)
  end.
Proof.
  intros F. pose proof (anchor_bounds _ _ _ _ _ locs F) as Ha. unfold spec_locate_mc, seg. cbn zeta.
  rewrite (asc_above _ 0 (anchor_mc mc locs) (mf_asc _ _ _ _ _ F)). rewrite Z.sub_0_r.
  destruct (find (fun r => N.eqb (id r) stop) (mc)) as [x|]; [|reflexivity].
  destruct (height x <=? anchor_mc mc locs); [reflexivity|].
  rewrite (asc_below _ (0 + Z.of_nat (Z.to_nat (anchor_mc mc locs + 1))) (height x)
             (asc_skipn _ 0 _ (mf_asc _ _ _ _ _ F))).
  rewrite firstn_firstn. f_equal. lia.
Qed.

Lemma cap_pos : 0 < cap.
Proof. rewrite cap_is_2000. lia. Qed.

Lemma start_height_nil s : start_height s [] = 0.
Proof.
  unfold start_height.
  assert (E: fold_right (fun r m => if isL r && memN (id r) [] then max_opt m (height r) else m) None s = None).
  { induction s as [|r s IH]; [reflexivity|]. cbn [fold_right]. rewrite IH. cbn. rewrite andb_false_r. reflexivity. }
  rewrite E. reflexivity.
Qed.

(* the genesis lookup added by fix 1ef8815 *)
Definition gen_stop (s : store) (stop : N) : bool :=
  match by_height_L s 0 with Some g => N.eqb (id g) stop | None => false end.

(* the model, position view *)
Lemma locate_seg s mc tip t g locs stop : mc_facts s mc tip t g ->
  answer (locate_core s locs stop) =
  let a := anchor_mc mc locs in
  let sh0 := if N.eqb stop 0 then a + cap else stop_height s stop in
  if (sh0 =? 0) && gen_stop s stop then [] else
  let sh := if sh0 =? 0 then a + cap else sh0 in
  if sh <=? a then [] else seg mc (a + 1) (Z.to_nat (Z.min (sh - a) cap)).
Proof.
  intros F. pose proof (anchor_bounds _ _ _ _ _ locs F) as Ha. pose proof cap_pos as Hc.
  unfold locate_core. fold (gen_stop s stop).
  replace (match locs with [] => 0 | _ :: _ => start_height s locs end) with (anchor_mc mc locs)
    by (rewrite <- (start_eq_anchor _ _ _ _ _ locs F); destruct locs; [first [apply start_height_nil | symmetry; apply start_height_nil]| reflexivity]).
  cbn zeta. set (a := anchor_mc mc locs) in *.
  set (sh0 := if N.eqb stop 0 then a + cap else stop_height s stop).
  destruct ((sh0 =? 0) && gen_stop s stop); [reflexivity|].
  set (sh := if sh0 =? 0 then a + cap else sh0).
  destruct (Z.leb_spec sh a) as [Hle|Hgt]; [reflexivity|]. cbn [answer].
  rewrite (range_L_seg _ _ _ _ _ (a + 1) _ F ltac:(lia)). f_equal.
  destruct (Z.ltb_spec cap (sh - a)); lia.
Qed.

(* C13, second half, which headers: for ALL locators and stop hashes the answer is the specification's *)
Lemma locate_matches_mc s mc tip t g locs stop : mc_facts s mc tip t g ->
  answer (locate_core s locs stop) = spec_locate_mc mc locs stop.
Proof.
  intros F.
  pose proof (anchor_bounds _ _ _ _ _ locs F) as Ha. pose proof cap_pos as Hc.
  rewrite (locate_seg _ _ _ _ _ _ stop F), (spec_locate_seg _ _ _ _ _ _ stop F), (stop_height_mc _ _ _ _ _ stop F).
  cbn zeta. set (a := anchor_mc mc locs) in *.
  assert (Hg0: gen_stop s stop = N.eqb (id g) stop).
  { unfold gen_stop. rewrite (by_height_L_nth _ _ _ _ _ F 0 ltac:(lia)). cbn [Z.to_nat]. rewrite (mf_gen _ _ _ _ _ F). reflexivity. }
  assert (Hgin: In g (mc)) by (apply (nth_error_In _ 0); exact (mf_gen _ _ _ _ _ F)).
  destruct (find (fun r => N.eqb (id r) stop) (mc)) as [x|] eqn:Hf.
  - apply find_some in Hf. destruct Hf as [Hx Hid]. apply N.eqb_eq in Hid.
    pose proof (mc_nth_bounds _ _ _ _ _ F x Hx) as Hb.
    assert (Hs0: stop <> 0%N).
    { rewrite <- Hid. apply (wf_ids_nonzero s (proj1 (mf_inv _ _ _ _ _ F))). apply (mc_in _ _ _ _ _ F). exact Hx. }
    replace (N.eqb stop 0) with false by (symmetry; apply N.eqb_neq; exact Hs0).
    destruct (Z.eqb_spec (height x) 0) as [E0|E0].
    + (* the stop hash is the genesis block *)
      pose proof (asc_in_nth _ _ (mf_asc _ _ _ _ _ F) x Hx) as Hn.
      replace (Z.to_nat (height x - 0)) with Datatypes.O in Hn by lia.
      rewrite (mf_gen _ _ _ _ _ F) in Hn. inversion Hn; subst x.
      rewrite Hg0, Hid, N.eqb_refl. cbn [andb].
      replace (height g <=? a) with true by (symmetry; apply Z.leb_le; lia). reflexivity.
    + cbn [andb]. destruct (Z.leb_spec (height x) a); [reflexivity|]. f_equal. lia.
  - assert (Hng: N.eqb (id g) stop = false).
    { pose proof (find_none _ _ Hf g Hgin) as Hn. exact Hn. }
    rewrite Hg0, Hng, andb_false_r.
    replace (if (if N.eqb stop 0 then a + cap else 0) =? 0 then a + cap else if N.eqb stop 0 then a + cap else 0)
      with (a + cap) by (destruct (N.eqb stop 0); [destruct (Z.eqb_spec (a + cap) 0); lia| reflexivity]).
    destruct (Z.leb_spec (a + cap) a); [lia|]. f_equal. lia.
Qed.

(* ---------------------------------------------------------------- properties of segments *)
Lemma in_firstn {A} n (l : list A) x : In x (firstn n l) -> In x l.
Proof. intros H. rewrite <- (firstn_skipn n l). apply in_or_app. left. exact H. Qed.
Lemma in_skipn {A} n (l : list A) x : In x (skipn n l) -> In x l.
Proof. intros H. rewrite <- (firstn_skipn n l). apply in_or_app. right. exact H. Qed.

Lemma seg_props s mc tip t g lo n : mc_facts s mc tip t g -> 0 <= lo ->
  (length (seg mc lo n) <= n)%nat /\ linked (seg mc lo n) /\ asc_from lo (seg mc lo n) /\
  (forall r, In r (seg mc lo n) -> In r s /\ st r = Longest /\ lo <= height r).
Proof.
  intros F Hlo. unfold seg. split; [apply firstn_le_length|].
  split; [apply linked_firstn, linked_skipn; exact (mf_linked _ _ _ _ _ F)|].
  assert (Ha: asc_from lo (firstn n (skipn (Z.to_nat lo) (mc)))).
  { replace lo with (0 + Z.of_nat (Z.to_nat lo)) at 1 by lia. apply asc_firstn, asc_skipn. exact (mf_asc _ _ _ _ _ F). }
  split; [exact Ha|]. intros r Hr. pose proof (asc_ge _ _ Ha r Hr).
  apply in_firstn, in_skipn in Hr. apply (mc_in _ _ _ _ _ F) in Hr. destruct Hr. auto.
Qed.

Lemma firstn_length_idem {A} n (l : list A) : firstn (length (firstn n l)) l = firstn n l.
Proof.
  rewrite firstn_length. destruct (Nat.min_spec n (length l)) as [[H E]|[H E]]; rewrite E; [reflexivity|].
  rewrite firstn_all, firstn_all2; [reflexivity| exact H].
Qed.

Lemma last_firstn_skipn {A} (d : A) : forall m k l x, nth_error l (m + k) = Some x -> last (firstn (S k) (skipn m l)) d = x.
Proof.
  induction m as [|m IHm]; intros k l x H.
  - cbn [skipn plus] in *. revert l x H. induction k as [|k IHk]; intros l x H.
    + destruct l as [|a l]; [discriminate|]. cbn in *. inversion H. reflexivity.
    + destruct l as [|a l]; [discriminate|]. cbn [nth_error] in H. specialize (IHk l x H).
      cbn [firstn]. destruct l as [|b l]; [destruct k; discriminate|]. exact IHk.
  - destruct l as [|a l]; [discriminate|]. cbn [skipn]. apply IHm. exact H.
Qed.

(* C13, second half, safety: WHATEVER the locator and the stop hash (also in the two corner cases), what is
   sent is a parent-linked ascending run of at most `cap` longest-chain headers above the start. *)
Lemma locate_safe_mc s mc tip t g locs stop : mc_facts s mc tip t g ->
  let l := answer (locate_core s locs stop) in
  (length l <= Z.to_nat cap)%nat /\ linked l /\
  (forall r, In r l -> In r s /\ st r = Longest /\ anchor_mc mc locs < height r) /\
  l = seg mc (anchor_mc mc locs + 1) (length l).
Proof.
  intros F. cbn zeta.
  pose proof (anchor_bounds _ _ _ _ _ locs F) as Ha. rewrite (locate_seg _ _ _ _ _ _ stop F). cbn zeta.
  assert (Hnil: (length (@nil row) <= Z.to_nat cap)%nat /\ linked [] /\
                (forall r, In r [] -> In r s /\ st r = Longest /\ anchor_mc mc locs < height r) /\
                [] = seg mc (anchor_mc mc locs + 1) (length (@nil row))).
  { cbn. split; [lia|]. split; [exact I|]. split; [intros r []|]. unfold seg. reflexivity. }
  match goal with |- context [if ?c then _ else _] => destruct c end; [exact Hnil|].
  match goal with |- context [if ?c then _ else _] => destruct c end; [exact Hnil|].
  match goal with |- context [seg mc ?lo ?n] => destruct (seg_props s mc tip t g lo n F ltac:(lia)) as (H1 & H2 & H3 & H4) end.
  split; [lia|]. split; [exact H2|]. split.
  - intros r Hr. destruct (H4 r Hr) as (A & B & C). repeat split; auto. lia.
  - unfold seg. symmetry. apply firstn_length_idem.
Qed.

(* ---- the bind-variable guard: locators of more than sql_max_vars hashes are refused ---- *)
Lemma locate_short s locs stop : Z.of_nat (length locs) <= sql_max_vars -> locate s locs stop = locate_core s locs stop.
Proof. intros H. unfold locate. destruct (Z.ltb_spec sql_max_vars (Z.of_nat (length locs))); [lia| reflexivity]. Qed.

Lemma locate_too_long s locs stop : sql_max_vars < Z.of_nat (length locs) ->
  locate s locs stop = LErr ELocatorLookup /\ answer (locate s locs stop) = [].
Proof. intros H. unfold locate. destruct (Z.ltb_spec sql_max_vars (Z.of_nat (length locs))); [split; reflexivity| lia]. Qed.

Lemma locate_matches_mc_guard s mc tip t g locs stop : mc_facts s mc tip t g -> Z.of_nat (length locs) <= sql_max_vars ->
  answer (locate s locs stop) = spec_locate_mc mc locs stop.
Proof. intros F H. rewrite (locate_short s locs stop H). exact (locate_matches_mc _ _ _ _ _ locs stop F). Qed.

Lemma locate_safe_mc_guard s mc tip t g locs stop : mc_facts s mc tip t g ->
  let l := answer (locate s locs stop) in
  (length l <= Z.to_nat cap)%nat /\ linked l /\
  (forall r, In r l -> In r s /\ st r = Longest /\ anchor_mc mc locs < height r) /\
  l = seg mc (anchor_mc mc locs + 1) (length l).
Proof.
  intros F. destruct (Z.ltb_spec sql_max_vars (Z.of_nat (length locs))) as [H|H].
  - rewrite (proj2 (locate_too_long s locs stop H)). cbn. split; [lia|]. split; [exact I|]. split; [intros r []|].
    unfold seg. reflexivity.
  - rewrite (locate_short s locs stop H). exact (locate_safe_mc _ _ _ _ _ locs stop F).
Qed.

(* ---- what the specification means (sanity of the declarative side) ---- *)
Lemma spec_locate_meaning_mc s mc tip t g locs stop : mc_facts s mc tip t g ->
  let a := anchor_mc mc locs in let l := spec_locate_mc mc locs stop in
  (* the start is the highest locator entry on the main chain, height 0 if none is *)
  is_anchor (mc) (fun r => memN (id r) locs) a /\
  (* a contiguous run of the main chain starting immediately after it, at most cap long *)
  l = seg mc (a + 1) (length l) /\ (length l <= Z.to_nat cap)%nat /\ linked l /\
  (forall r, In r l -> In r s /\ st r = Longest) /\
  (* the stop hash *)
  (forall x, In x (mc) -> id x = stop ->
     (height x <= a -> l = []) /\
     (a < height x <= a + cap -> last l x = x) /\
     (a + cap < height x -> length l = Z.to_nat cap)) /\
  ((forall x, In x (mc) -> id x <> stop) ->
     Z.of_nat (length l) = Z.min cap ((Z.of_nat (length mc) - 1) - a)).
Proof.
  intros F. cbn zeta.
  pose proof (anchor_bounds _ _ _ _ _ locs F) as Ha. pose proof cap_pos as Hc. pose proof (mf_len _ _ _ _ _ F) as Hlen.
  split. { unfold anchor_mc. exact (fold_left_anchor (fun r => memN (id r) locs) (mc) 0 0 (mf_asc _ _ _ _ _ F)). }
  rewrite (spec_locate_seg _ _ _ _ _ locs stop F). cbn zeta. set (a := anchor_mc mc locs) in *.
  assert (Hseg: forall n, let l := seg mc (a + 1) n in
            l = seg mc (a + 1) (length l) /\ (length l <= n)%nat /\ linked l /\ (forall r, In r l -> In r s /\ st r = Longest) /\
            Z.of_nat (length l) = Z.min (Z.of_nat n) (height t - a)).
  { intros n. cbn zeta. destruct (seg_props s mc tip t g (a + 1) n F ltac:(lia)) as (H1 & H2 & H3 & H4).
    split; [unfold seg; symmetry; apply firstn_length_idem|]. split; [exact H1|]. split; [exact H2|].
    split; [intros r Hr; destruct (H4 r Hr) as (A & B & _); auto|].
    unfold seg. rewrite firstn_length, skipn_length. lia. }
  assert (Hnil: [] = seg mc (a + 1) (@length row [])) by reflexivity.
  destruct (find (fun r => N.eqb (id r) stop) (mc)) as [x|] eqn:Hf.
  - apply find_some in Hf as Hf'. destruct Hf' as [Hx Hid]. apply N.eqb_eq in Hid.
    pose proof (mc_nth_bounds _ _ _ _ _ F x Hx) as Hb.
    assert (Hux: forall y, In y (mc) -> id y = stop -> y = x).
    { intros y Hy Ey. apply (mc_in _ _ _ _ _ F) in Hy, Hx. destruct Hy as [Hy _], Hx as [Hx _].
      apply (nodup_ids_in s (wf_nodup s (proj1 (mf_inv _ _ _ _ _ F)))); auto. congruence. }
    destruct (Z.leb_spec (height x) a) as [Hle|Hgt].
    + split; [exact Hnil|]. split; [cbn; lia|]. split; [exact I|]. split; [intros r []|]. split.
      * intros y Hy Ey. rewrite (Hux y Hy Ey). split; [reflexivity|]. split; [lia|]. intros; lia.
      * intros Hno. exfalso. exact (Hno x Hx Hid).
    + destruct (Hseg (Nat.min (Z.to_nat cap) (Z.to_nat (height x - a)))) as (S1 & S2 & S3 & S4 & S5).
      split; [exact S1|]. split; [lia|]. split; [exact S3|]. split; [exact S4|]. split.
      * intros y Hy Ey. rewrite (Hux y Hy Ey). split; [lia|]. split.
        -- intros Hr. replace (Nat.min (Z.to_nat cap) (Z.to_nat (height x - a))) with (S (Z.to_nat (height x - a - 1))) by lia.
           unfold seg. apply last_firstn_skipn.
           replace (Z.to_nat (a + 1) + Z.to_nat (height x - a - 1))%nat with (Z.to_nat (height x - 0)) by lia.
           apply (asc_in_nth _ _ (mf_asc _ _ _ _ _ F) x). exact Hx.
        -- intros Hr. lia.
      * intros Hno. exfalso. exact (Hno x Hx Hid).
  - destruct (Hseg (Z.to_nat cap)) as (S1 & S2 & S3 & S4 & S5).
    split; [exact S1|]. split; [exact S2|]. split; [exact S3|]. split; [exact S4|]. split.
    + intros y Hy Ey. exfalso. pose proof (find_none _ _ Hf y Hy) as Hn. cbv beta in Hn. rewrite Ey, N.eqb_refl in Hn. discriminate.
    + intros _. unfold tip_height. lia.
Qed.

(* ---------------------------------------------------------------- concrete stores: hypotheses are satisfiable *)
(* G(1); A(2),B(3) on G; C(4) on B; orphans 5,6; A2(7) on A with more work: longest chain 1-2-7, stale 3,4 *)
Definition ex_store : store := run [8%N] 1 (ex_pl 486604799) ex_hist.

Lemma ex_store_valid : Valid ex_store.
Proof. apply reachable_valid; [discriminate| apply ex_hist_hyps| apply ex_hist_hyps]. Qed.

Lemma pw_check hs : forallb (fun h => 0 <? calc_work (p_bits (s_pl h))) hs = true -> positive_work hs.
Proof. intros H h Hh. rewrite forallb_forall in H. specialize (H h Hh). apply Z.ltb_lt. exact H. Qed.
Lemma nz_check hs : forallb (fun h => negb (N.eqb (s_id h) 0)) hs = true -> nonzero_ids hs.
Proof. intros H h Hh. rewrite forallb_forall in H. specialize (H h Hh). apply negb_true_iff, N.eqb_neq in H. exact H. Qed.

(* a linear chain of n headers on genesis: ids 2 .. n+1 *)
Definition lin_hist (n : nat) : list src := map (fun k => ex_sub (N.of_nat k + 2) (N.of_nat k + 1) 545259519) (seq 0 n).
Definition lin_store (n : nat) : store := run [] 1 (ex_pl 486604799) (lin_hist n).
Lemma lin_store_valid n : forallb (fun h => 0 <? calc_work (p_bits (s_pl h))) (lin_hist n) = true ->
  forallb (fun h => negb (N.eqb (s_id h) 0)) (lin_hist n) = true -> Valid (lin_store n).
Proof. intros H1 H2. apply reachable_valid; [discriminate| apply pw_check; exact H1| apply nz_check; exact H2]. Qed.

Example locator_example_forked :
  Valid ex_store /\ latest_locator ex_store = Some [7%N; 2%N; 1%N].
Proof. split; [exact ex_store_valid| vm_compute; reflexivity]. Qed.

(* tip height 30: eleven single steps (30..20 then 19), then gaps 2, 4, 8 and the clamp to genesis *)
Example locator_example_doubling :
  Valid (lin_store 30) /\
  latest_locator (lin_store 30) = Some [31; 30; 29; 28; 27; 26; 25; 24; 23; 22; 21; 20; 18; 14; 6; 1]%N.
Proof. split; [apply lin_store_valid; vm_compute; reflexivity| vm_compute; reflexivity]. Qed.

(* stale (3), longest (2) and unknown (99) hashes in the locator, stop = tip; orphan/stale-only locator;
   stop behind the start; and the two former corner cases (history: before /repo commits 1ef8815 and 744966c the
   code answered stop = genesis with the following headers and an empty locator with an error - refuted then,
   repaired now): stop = genesis yields nothing, the empty locator is answered from height 1 *)
Example locate_example :
  Valid ex_store /\
  map id (answer (locate ex_store [3%N; 2%N; 99%N] 7%N)) = [7%N] /\
  map id (answer (locate ex_store [4%N; 5%N] 0%N)) = [2%N; 7%N] /\
  locate ex_store [7%N] 2%N = LErr EStopLow /\
  locate ex_store [1%N] (genesis_id ex_store) = LErr EStopLow /\
  map id (answer (locate ex_store [] 0%N)) = [2%N; 7%N].
Proof.
  split; [exact ex_store_valid|]. vm_compute. repeat split; reflexivity.
Qed.

(* ---------------------------------------------------------------- maxEntries (the uint8 capacity hint) *)
(* single steps: k entries with gap 1 *)
Lemma heights_phase1 k : forall f i h, (i + k <= 11)%nat -> Z.of_nat k <= h ->
  length (spec_heights (k + f) i h) = (k + length (spec_heights f (i + k) (h - Z.of_nat k)))%nat.
Proof.
  induction k as [|k IH]; intros f i h Hi Hh.
  - cbn [plus]. rewrite Nat.add_0_r, Z.sub_0_r. reflexivity.
  - cbn [plus spec_heights]. destruct (Z.leb_spec h 0); [lia|]. cbn [length]. f_equal.
    rewrite (gap_one i ltac:(lia)). rewrite (IH f (S i) (h - 1) ltac:(lia) ltac:(lia)).
    replace (S i + k)%nat with (i + S k)%nat by lia. replace (h - 1 - Z.of_nat k) with (h - Z.of_nat (S k)) by lia.
    reflexivity.
Qed.

(* doubling steps: gap 2^j at entry 10+j *)
Lemma heights_phase2 f : forall j h, (1 <= j)%nat -> 1 <= h -> (Z.to_nat h < f)%nat ->
  Z.of_nat (length (spec_heights f (10 + j) h)) = 2 + Z.log2 (h + 2 ^ Z.of_nat j - 1) - Z.of_nat j.
Proof.
  induction f as [|f IH]; intros j h Hj Hh Hf; [lia|].
  cbn [spec_heights]. destruct (Z.leb_spec h 0); [lia|]. cbn [length].
  assert (Hg: gap (10 + j) = 2 ^ Z.of_nat j).
  { unfold gap. destruct (Z.leb_spec (Z.of_nat (10 + j)) 10); [lia|]. f_equal. lia. }
  rewrite Hg. pose proof (Z.pow_pos_nonneg 2 (Z.of_nat j) ltac:(lia) ltac:(lia)) as Hp.
  destruct (Z.leb_spec (h - 2 ^ Z.of_nat j) 0) as [Hle|Hgt].
  - destruct f as [|f]; [lia|]. cbn [spec_heights].
    replace (h - 2 ^ Z.of_nat j <=? 0) with true by (symmetry; apply Z.leb_le; exact Hle). cbn [length].
    rewrite (Z.log2_unique (h + 2 ^ Z.of_nat j - 1) (Z.of_nat j)); [lia| lia|].
    replace (Z.succ (Z.of_nat j)) with (Z.of_nat j + 1) by lia. rewrite Z.pow_add_r by lia. lia.
  - replace (S (10 + j)) with (10 + S j)%nat by lia.
    rewrite Nat2Z.inj_succ, (IH (S j) (h - 2 ^ Z.of_nat j) ltac:(lia) ltac:(lia) ltac:(lia)).
    replace (Z.of_nat (S j)) with (Z.of_nat j + 1) by lia. rewrite Z.pow_add_r by lia.
    replace (h - 2 ^ Z.of_nat j + 2 ^ Z.of_nat j * 2 ^ 1 - 1) with (h + 2 ^ Z.of_nat j - 1) by lia. lia.
Qed.

(* the capacity computed for the slice is exactly the number of entries the loop appends: the uint8
   arithmetic never wraps for int32 heights and the slice is never re-allocated *)
Theorem max_entries_exact H f : 0 <= H < 2 ^ 31 -> (Z.to_nat H < f)%nat ->
  Z.of_nat (length (spec_heights f Datatypes.O H)) = max_entries H.
Proof.
  intros HH Hf. unfold max_entries. destruct (Z.leb_spec H 12) as [H12|H12].
  - rewrite (Z.mod_small H 256) by lia. rewrite Z.mod_small by lia.
    destruct (Z.leb_spec H 11) as [H11|H11].
    + replace f with (Z.to_nat H + (f - Z.to_nat H))%nat by lia.
      rewrite (heights_phase1 (Z.to_nat H) (f - Z.to_nat H) Datatypes.O H ltac:(lia) ltac:(lia)).
      replace (H - Z.of_nat (Z.to_nat H)) with 0 by lia.
      destruct (f - Z.to_nat H)%nat as [|f'] eqn:E; [lia|]. cbn [spec_heights Z.leb Z.compare length]. lia.
    + assert (H = 12) by lia. subst H.
      replace f with (11 + (f - 11))%nat by lia.
      rewrite (heights_phase1 11 (f - 11) Datatypes.O 12 ltac:(lia) ltac:(lia)).
      rewrite Nat2Z.inj_add. change (0 + 11)%nat with (10 + 1)%nat.
      rewrite (heights_phase2 (f - 11) 1 (12 - Z.of_nat 11) ltac:(lia) ltac:(lia) ltac:(lia)). reflexivity.
  - rewrite (Z.mod_small H (2 ^ 32)) by lia. rewrite (Z.mod_small (H - 10) (2 ^ 32)) by lia.
    rewrite (log2_spec (H - 10)) by lia.
    pose proof (Z.log2_nonneg (H - 10)). assert (Z.log2 (H - 10) < 32) by (apply Z.log2_lt_pow2; lia).
    rewrite Z.mod_small by lia.
    replace f with (11 + (f - 11))%nat by lia.
    rewrite (heights_phase1 11 (f - 11) Datatypes.O H ltac:(lia) ltac:(lia)).
    rewrite Nat2Z.inj_add. change (0 + 11)%nat with (10 + 1)%nat.
    rewrite (heights_phase2 (f - 11) 1 (H - Z.of_nat 11) ltac:(lia) ltac:(lia) ltac:(lia)).
    change (Z.of_nat 11) with 11. change (Z.of_nat 1) with 1. change (2 ^ 1) with 2.
    replace (H - 11 + 2 - 1) with (H - 10) by lia. lia.
Qed.

Lemma locator_length_mc s mc tip t0 g t : mc_facts s mc tip t0 g -> tipB s = Some t -> height t < 2 ^ 31 ->
  exists l, latest_locator s = Some l /\ Z.of_nat (length l) = max_entries (height t) /\ max_entries (height t) <= 43.
Proof.
  intros F Ht Hlt.
  rewrite (mf_tipB _ _ _ _ _ F) in Ht. inversion Ht; subst t0.
  pose proof (mc_height_pos _ _ _ _ _ F) as Hp. pose proof (mf_len _ _ _ _ _ F) as Hlen.
  exists (spec_locator_mc mc). split; [exact (latest_locator_mc _ _ _ _ _ F)|].
  assert (Hth: (Z.of_nat (length mc) - 1) = height t) by lia.
  assert (E: Z.of_nat (length (spec_locator_mc mc)) = max_entries (height t)).
  { unfold spec_locator_mc. rewrite map_length, Hth. apply max_entries_exact; lia. }
  split; [exact E|]. unfold max_entries. destruct (Z.leb_spec (height t) 12).
  - rewrite (Z.mod_small (height t) 256) by lia. rewrite Z.mod_small by lia. lia.
  - rewrite (Z.mod_small (height t) (2 ^ 32)) by lia. rewrite (Z.mod_small (height t - 10) (2 ^ 32)) by lia.
    pose proof (log2_range (height t - 10) ltac:(lia)). rewrite Z.mod_small by lia. lia.
Qed.

(* ================================================================ the two instances *)
(* (A) Valid s - positive-work histories: "the longest chain" is main_chain s, the ancestors of the
       greatest-cumulative-work header (ChainSpec.best), which is also what the labels say. *)
Theorem latest_locator_spec s : Valid s -> latest_locator s = Some (spec_locator s).
Proof. intros HV. destruct (valid_mc s HV) as (tip & t & g & F). exact (latest_locator_mc _ _ _ _ _ F). Qed.

Theorem locator_shape_thm s : Valid s ->
  exists t hs,
    tipB s = Some t /\
    latest_locator s = Some (map (at_height s) hs) /\
    hd 0%N (map (at_height s) hs) = id t /\ hd 0 hs = height t /\
    last (map (at_height s) hs) 0%N = genesis_id s /\ last hs 0 = 0 /\
    shape Datatypes.O hs /\
    (forall pre a b post, hs = pre ++ a :: b :: post -> b < a) /\
    (forall h, In h hs -> exists r, In r s /\ st r = Longest /\ height r = h /\ id r = at_height s h).
Proof. intros HV. destruct (valid_mc s HV) as (tip & t & g & F). exact (locator_shape_mc _ _ _ _ _ F). Qed.

Theorem locator_length_thm s t : Valid s -> tipB s = Some t -> height t < 2 ^ 31 ->
  exists l, latest_locator s = Some l /\ Z.of_nat (length l) = max_entries (height t) /\ max_entries (height t) <= 43.
Proof. intros HV. destruct (valid_mc s HV) as (tip & t0 & g & F). exact (locator_length_mc _ _ _ _ _ t F). Qed.

Theorem locate_matches_spec s locs stop : Valid s -> Z.of_nat (length locs) <= sql_max_vars ->
  answer (locate s locs stop) = spec_locate s locs stop.
Proof. intros HV H. destruct (valid_mc s HV) as (tip & t & g & F). exact (locate_matches_mc_guard _ _ _ _ _ locs stop F H). Qed.

Theorem locate_safe_thm s locs stop : Valid s ->
  let l := answer (locate s locs stop) in
  (length l <= Z.to_nat cap)%nat /\ linked l /\
  (forall r, In r l -> In r s /\ st r = Longest /\ anchor s locs < height r) /\
  l = seg (main_chain s) (anchor s locs + 1) (length l).
Proof. intros HV. destruct (valid_mc s HV) as (tip & t & g & F). exact (locate_safe_mc_guard _ _ _ _ _ locs stop F). Qed.

Theorem spec_locate_meaning s locs stop : Valid s ->
  let a := anchor s locs in let l := spec_locate s locs stop in
  is_anchor (main_chain s) (fun r => memN (id r) locs) a /\
  l = seg (main_chain s) (a + 1) (length l) /\ (length l <= Z.to_nat cap)%nat /\ linked l /\
  (forall r, In r l -> In r s /\ st r = Longest) /\
  (forall x, In x (main_chain s) -> id x = stop ->
     (height x <= a -> l = []) /\
     (a < height x <= a + cap -> last l x = x) /\
     (a + cap < height x -> length l = Z.to_nat cap)) /\
  ((forall x, In x (main_chain s) -> id x <> stop) ->
     Z.of_nat (length l) = Z.min cap (tip_height s - a)).
Proof. intros HV. destruct (valid_mc s HV) as (tip & t & g & F). exact (spec_locate_meaning_mc _ _ _ _ _ locs stop F). Qed.

(* (B) exists tip, Inv s tip - EVERY history, zero-work headers included (ChainFields.reachable_inv): "the
       longest chain" is tip_chain s, the ancestors of the header the repository reports as tip, which are exactly
       the rows labelled LONGEST_CHAIN.  (For zero-work histories this chain need not be the greatest-work one:
       C01's known finding; what is proved here is that locator and getheaders describe the LABELLED chain.) *)
Theorem tip_chain_any_work s : (exists tip, Inv s tip) ->
  tip_chain s = filter isL (orev s) /\
  exists t, tipB s = Some t /\ tip_chain s = rev (chain s (id t)) /\ asc_from 0 (tip_chain s) /\ linked (tip_chain s).
Proof.
  intros (tip & HI). destruct (inv_mc s tip HI) as (t & g & F & Hid). destruct (tip_chain_inv s tip HI) as [E1 E2].
  split; [exact E2|]. exists t. split; [exact (mf_tipB _ _ _ _ _ F)|]. rewrite Hid. split; [exact E1|].
  rewrite E1. split; [exact (mf_asc _ _ _ _ _ F)| exact (mf_linked _ _ _ _ _ F)].
Qed.

Theorem tip_chain_valid s : Valid s -> tip_chain s = main_chain s.
Proof. intros (tip & HI2). apply (main_chain_valid s tip HI2). Qed.

Theorem latest_locator_any_work s : (exists tip, Inv s tip) -> latest_locator s = Some (spec_locator_mc (tip_chain s)).
Proof. intros HI. destruct (inv_tip_mc s HI) as (tip & t & g & F). exact (latest_locator_mc _ _ _ _ _ F). Qed.

Theorem locator_shape_any_work s : (exists tip, Inv s tip) ->
  exists t hs,
    tipB s = Some t /\
    latest_locator s = Some (map (at_height_mc (tip_chain s)) hs) /\
    hd 0%N (map (at_height_mc (tip_chain s)) hs) = id t /\ hd 0 hs = height t /\
    last (map (at_height_mc (tip_chain s)) hs) 0%N = genesis_id s /\ last hs 0 = 0 /\
    shape Datatypes.O hs /\
    (forall pre a b post, hs = pre ++ a :: b :: post -> b < a) /\
    (forall h, In h hs -> exists r, In r s /\ st r = Longest /\ height r = h /\ id r = at_height_mc (tip_chain s) h).
Proof. intros HI. destruct (inv_tip_mc s HI) as (tip & t & g & F). exact (locator_shape_mc _ _ _ _ _ F). Qed.

Theorem locator_length_any_work s t : (exists tip, Inv s tip) -> tipB s = Some t -> height t < 2 ^ 31 ->
  exists l, latest_locator s = Some l /\ Z.of_nat (length l) = max_entries (height t) /\ max_entries (height t) <= 43.
Proof. intros HI. destruct (inv_tip_mc s HI) as (tip & t0 & g & F). exact (locator_length_mc _ _ _ _ _ t F). Qed.

Theorem locate_any_work s locs stop : (exists tip, Inv s tip) -> Z.of_nat (length locs) <= sql_max_vars ->
  answer (locate s locs stop) = spec_locate_mc (tip_chain s) locs stop.
Proof. intros HI H. destruct (inv_tip_mc s HI) as (tip & t & g & F). exact (locate_matches_mc_guard _ _ _ _ _ locs stop F H). Qed.

Theorem locate_safe_any_work s locs stop : (exists tip, Inv s tip) ->
  let l := answer (locate s locs stop) in
  (length l <= Z.to_nat cap)%nat /\ linked l /\
  (forall r, In r l -> In r s /\ st r = Longest /\ anchor_mc (tip_chain s) locs < height r) /\
  l = seg (tip_chain s) (anchor_mc (tip_chain s) locs + 1) (length l).
Proof. intros HI. destruct (inv_tip_mc s HI) as (tip & t & g & F). exact (locate_safe_mc_guard _ _ _ _ _ locs stop F). Qed.

Theorem spec_locate_meaning_any_work s locs stop : (exists tip, Inv s tip) ->
  let mc := tip_chain s in let a := anchor_mc mc locs in let l := spec_locate_mc mc locs stop in
  is_anchor mc (fun r => memN (id r) locs) a /\
  l = seg mc (a + 1) (length l) /\ (length l <= Z.to_nat cap)%nat /\ linked l /\
  (forall r, In r l -> In r s /\ st r = Longest) /\
  (forall x, In x mc -> id x = stop ->
     (height x <= a -> l = []) /\
     (a < height x <= a + cap -> last l x = x) /\
     (a + cap < height x -> length l = Z.to_nat cap)) /\
  ((forall x, In x mc -> id x <> stop) ->
     Z.of_nat (length l) = Z.min cap (Z.of_nat (length mc) - 1 - a)).
Proof. intros HI. destruct (inv_tip_mc s HI) as (tip & t & g & F). exact (spec_locate_meaning_mc _ _ _ _ _ locs stop F). Qed.

(* the any-work hypotheses are satisfiable on a store that is NOT Valid-reachable by the positive-work route:
   ChainMain.zw_hist = G(1), A(2) on G, Z(3) on A with zero work (Z is labelled LONGEST_CHAIN and reported as tip) *)
Definition zw_store : store := run [] 1 (ex_pl 486604799) zw_hist.
Example any_work_example :
  (exists tip, Inv zw_store tip) /\
  map id (tip_chain zw_store) = [1%N; 2%N; 3%N] /\
  latest_locator zw_store = Some [3%N; 2%N; 1%N] /\
  map id (answer (locate zw_store [2%N] 0%N)) = [3%N] /\
  map id (answer (locate zw_store [] 3%N)) = [2%N; 3%N] /\
  answer (locate zw_store [3%N] 1%N) = [].
Proof.
  split.
  - apply ChainFields.reachable_inv; [discriminate| apply C01_zero_work_refuted].
  - vm_compute. repeat split; reflexivity.
Qed.

(* every locator a getheaders message can carry (wire.MaxBlockLocatorsPerMsg, regenerated) is within the limit *)
Example wire_locators_within_sql_limit : max_block_locators_per_msg = 500 /\ max_block_locators_per_msg <= sql_max_vars.
Proof. split; [reflexivity| unfold max_block_locators_per_msg, sql_max_vars; lia]. Qed.

Theorem locate_wire s locs stop : Valid s -> Z.of_nat (length locs) <= max_block_locators_per_msg ->
  answer (locate s locs stop) = spec_locate s locs stop.
Proof.
  intros HV H. apply (locate_matches_spec s locs stop HV). pose proof (proj2 wire_locators_within_sql_limit). lia.
Qed.
