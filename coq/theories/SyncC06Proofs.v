(* C06: linear catch-up of the default engine (catchup_linear) - one honest protocol-conformant peer with chain C,
   the store's longest chain a prefix of C, any sorted checkpoint list consistent with C (none, one, several, one at
   the tip), any reply cap >= 1: the closed system runs to quiescence with longest chain = C, every request being
   sent (never filtered as a duplicate) with the current tip as locator head. *)
From Coq Require Import ZArith NArith List Lia Bool.
From BHS Require Import Work Store Chain ChainSpec StoreProofs ChainInv ChainReorg ChainAdd ChainMain
     SyncNode SyncDefault SyncExp SyncSys SyncSpec SyncC07Proofs.
Import ListNotations.
Open Scope Z_scope.

(* ------------------------------------------------------------------------------------------- *)
(* list facts                                                                                   *)
(* ------------------------------------------------------------------------------------------- *)
Lemma firstn_S_nth {A} (l : list A) k d : (k < length l)%nat -> firstn (S k) l = firstn k l ++ [nth k l d].
Proof.
  revert k. induction l as [|a l IH]; intros k Hk; [cbn in Hk; lia|].
  destruct k as [|k]; [reflexivity|]. change (a :: firstn (S k) l = a :: (firstn k l ++ [nth k l d])). f_equal. apply IH. cbn in Hk. lia.
Qed.

Lemma skipn_nth_cons {A} (l : list A) k d : (k < length l)%nat -> skipn k l = nth k l d :: skipn (S k) l.
Proof.
  revert k. induction l as [|a l IH]; intros k Hk; [cbn in Hk; lia|].
  destruct k as [|k]; [reflexivity|]. cbn [skipn nth]. apply IH. cbn in Hk. lia.
Qed.

Lemma firstn_firstn_min {A} (l : list A) a b : firstn a (firstn b l) = firstn (Nat.min a b) l.
Proof. apply firstn_firstn. Qed.

Lemma index_of_nth (l : list N) k : NoDup l -> (k < length l)%nat -> index_of (nth k l 0%N) l = Some k.
Proof.
  revert k. induction l as [|a l IH]; intros k Hnd Hk; [cbn in Hk; lia|].
  inversion Hnd as [|? ? Hnotin Hnd']; subst. destruct k as [|k]; cbn [nth index_of].
  - rewrite N.eqb_refl. reflexivity.
  - destruct (N.eqb_spec a (nth k l 0%N)) as [E|_].
    + exfalso. apply Hnotin. rewrite E. apply nth_In. cbn in Hk. lia.
    + assert (Hk': (k < length l)%nat) by (cbn in Hk; lia). rewrite (IH k Hnd' Hk'). reflexivity.
Qed.

Lemma nth_error_skipn' {A} (l : list A) k i : nth_error (skipn k l) i = nth_error l (k + i).
Proof. revert l. induction k as [|k IH]; intros l; [reflexivity|]. destruct l as [|a l]; [destruct i; reflexivity|]. cbn. apply IH. Qed.

Lemma upto_stop_firstn stop l : exists j, upto_stop stop l = firstn j l /\ (j <= length l)%nat /\ (l <> [] -> (1 <= j)%nat) /\
  (forall i h, nth_error l i = Some h -> s_id h = stop -> (j <= S i)%nat).
Proof.
  induction l as [|h t IH].
  - exists O. split; [reflexivity|]. split; [cbn; lia|]. split; [intros H; contradiction|]. intros i h H. destruct i; discriminate.
  - cbn [upto_stop]. destruct (N.eqb_spec (s_id h) stop) as [E|E].
    + exists 1%nat. split; [reflexivity|]. split; [cbn; lia|]. split; [intros _; lia|]. intros; lia.
    + destruct IH as (j & Ej & Hl & Hne & Hst). exists (S j). split; [|split; [|split]].
      * cbn. rewrite Ej. reflexivity.
      * cbn. lia.
      * intros _. lia.
      * intros i x Hn Hx. destruct i as [|i]; cbn in Hn; [inversion Hn; subst; contradiction|]. specialize (Hst i x Hn Hx). lia.
Qed.

(* ------------------------------------------------------------------------------------------- *)
(* heights along a connected chain                                                              *)
(* ------------------------------------------------------------------------------------------- *)
Lemma chain_height s : wf s -> forall n t x rest, length rest = n -> chain s t = x :: rest -> orph x = false ->
  height x = Z.of_nat n.
Proof.
  intros Hwf n. induction n as [|n IH]; intros t x rest Hlen Hc Ho.
  - destruct rest; [|discriminate]. destruct (chain_connected_nonempty_last s Hwf t x [] Hc Ho) as (g & Eg & Hg & _).
    cbn in Eg. subst g. exact Hg.
  - destruct rest as [|y rest']; [discriminate|]. cbn in Hlen.
    destruct (chain_step s Hwf t x y rest' Hc) as (Hp & Hh & _ & Hoo).
    pose proof (chain_unfold s Hwf t x (y :: rest') Hc Ho) as Hu.
    assert (Hy: height y = Z.of_nat n). { apply (IH (prev x) y rest'); [lia| symmetry; exact Hu| congruence]. }
    lia.
Qed.

(* ------------------------------------------------------------------------------------------- *)
(* the setting                                                                                  *)
(* ------------------------------------------------------------------------------------------- *)
Fixpoint linked (prev : N) (C : list src) : Prop :=
  match C with [] => True | h :: r => s_prev h = prev /\ linked (s_id h) r end.

Definition cids (gid : N) (C : list src) : list N := gid :: map s_id C.        (* index = height *)

Record good_chain (f : list N) (gid : N) (C : list src) : Prop := {
  gc_gid : gid <> 0%N;
  gc_linked : linked gid C;
  gc_nodup : NoDup (cids gid C);
  gc_each : forall h, In h C -> s_id h <> 0%N /\ 0 < calc_work (p_bits (s_pl h)) /\ memN (s_id h) f = false }.

(* checkpoints consistent with the chain: the header of C at the checkpoint's height has the checkpoint's hash *)
Definition cps_ok (gid : N) (C : list src) (cps : list cp) : Prop :=
  forall c, In c cps -> exists i : nat, fst c = Z.of_nat i /\ nth_error (cids gid C) i = Some (snd c).

(* the store's longest chain is genesis + the first k headers of C, and no later header of C is stored *)
Definition Good (gid : N) (C : list src) (k : nat) (s : store) : Prop :=
  exists tip, Inv2 s tip /\ ids (chain s tip) = rev (firstn (S k) (cids gid C)) /\
              forall h, In h (skipn k C) -> by_hash s (s_id h) = None.

Lemma linked_nth gid C : linked gid C -> forall k, (k < length C)%nat ->
  s_prev (nth k C (ex_sub 0 0 0)) = nth k (cids gid C) 0%N.
Proof.
  revert gid. induction C as [|h C IH]; intros gid Hl k Hk; [cbn in Hk; lia|].
  destruct Hl as [Hp Hl]. destruct k as [|k]; [exact Hp|].
  cbn [nth cids map]. change (nth k (s_id h :: map s_id C) 0%N) with (nth k (cids (s_id h) C) 0%N).
  apply IH; [exact Hl| cbn in Hk; lia].
Qed.

Lemma cids_nth gid C k : (k < length C)%nat -> nth (S k) (cids gid C) 0%N = s_id (nth k C (ex_sub 0 0 0)).
Proof. intros Hk. unfold cids. cbn [nth]. rewrite <- (map_nth s_id). reflexivity. Qed.

Lemma cids_length gid C : length (cids gid C) = S (length C).
Proof. unfold cids. cbn. rewrite map_length. reflexivity. Qed.

Section Linear.
Variables (f : list N) (gid : N) (C : list src).
Hypothesis HC : good_chain f gid C.
Notation dflt := (ex_sub 0 0 0).
Notation ci := (cids gid C).

Lemma good_tip k s : (k <= length C)%nat -> Good gid C k s ->
  exists tip t, Inv2 s tip /\ tip = nth k ci 0%N /\ by_hash s tip = Some t /\ tipB s = Some t /\ id t = tip /\
                height t = Z.of_nat k /\ st t = Longest /\ orph t = false /\ chain s tip = t :: chain s (prev t) /\
                ids (chain s tip) = rev (firstn (S k) ci).
Proof.
  intros Hk (tip & HI2 & Hids & Hrest). pose proof HI2 as [HI Hb]. pose proof HI as (Hwf & (t & Ht & Hto) & Hl).
  destruct (by_hash_chain s tip (wf_nodup s Hwf) t Ht) as (rest & Hc).
  assert (Hlen: length (chain s tip) = S k).
  { rewrite <- (map_length id). fold (ids (chain s tip)). rewrite Hids, rev_length, firstn_length, cids_length. lia. }
  assert (Htid: id t = tip) by (apply by_hash_in in Ht; apply Ht).
  assert (Etip: tip = nth k ci 0%N).
  { rewrite (firstn_S_nth ci k 0%N) in Hids by (rewrite cids_length; lia).
    rewrite rev_app_distr in Hids. cbn [rev app] in Hids. rewrite Hc in Hids. cbn [ids map] in Hids. inversion Hids. congruence. }
  exists tip, t.
  split; [exact HI2|]. split; [exact Etip|]. split; [exact Ht|].
  split; [rewrite (tipB_is_tip s tip HI); exact Ht|]. split; [exact Htid|].
  split; [apply (chain_height s Hwf k tip t rest); auto; rewrite Hc in Hlen; cbn in Hlen; lia|].
  split; [apply (tip_is_L s tip t HI Ht)|]. split; [exact Hto|].
  split; [rewrite Hc; f_equal; apply (chain_unfold s Hwf tip t rest Hc Hto)| exact Hids].
Qed.

Lemma no_L_above_tip s tip t : Inv s tip -> by_hash s tip = Some t -> has_L_at s (height t + 1) = false.
Proof.
  intros HI Ht. destruct (has_L_at s (height t + 1)) eqn:E; [|reflexivity]. exfalso.
  unfold has_L_at in E. apply existsb_exists in E. destruct E as (r & Hr & Hb).
  apply andb_true_iff in Hb. destruct Hb as [Hst Hh]. apply st_eqb_eq in Hst. apply Z.eqb_eq in Hh.
  destruct (tip_height_max s tip t HI Ht r Hr Hst) as [->|Hlt]; lia.
Qed.

(* one more header of C on a Good store: it extends the tip *)
Lemma good_add k s : (k < length C)%nat -> Good gid C k s ->
  let h := nth k C dflt in
  add f s h = (create_header s h :: s, Stored Longest) /\
  height (create_header s h) = Z.of_nat (S k) /\
  Good gid C (S k) (create_header s h :: s).
Proof.
  intros Hk HG h.
  destruct (good_tip k s ltac:(lia) HG) as (tip & t & HI2 & Etip & Ht & HtB & Htid & Hth & HtL & Hto & Hc & Hids).
  destruct HG as (tip0 & _ & _ & Hrest). pose proof HI2 as [HI Hb]. pose proof HI as (Hwf & _ & Hl).
  assert (Hin: In h C) by (apply nth_In; exact Hk).
  destruct (gc_each f gid C HC h Hin) as (Hz & Hw & Hnf).
  assert (Hprev: s_prev h = tip). { unfold h. rewrite (linked_nth gid C (gc_linked f gid C HC) k Hk). symmetry. exact Etip. }
  assert (Hnew: by_hash s (s_id h) = None). { apply Hrest. rewrite (skipn_nth_cons C k dflt Hk). left. reflexivity. }
  assert (Hadd: add f s h = (create_header s h :: s, Stored Longest) /\ height (create_header s h) = Z.of_nat (S k)).
  { rewrite add_is_explicit. unfold add_explicit. rewrite Hnew, Hnf. unfold create_header. rewrite Hprev, Ht. rewrite HtL.
    cbn [st height]. rewrite Hth. rewrite <- Hth. rewrite (no_L_above_tip s tip t HI Ht). cbn [negb]. split; [reflexivity|]. lia. }
  destruct Hadd as [Hadd Hh]. split; [exact Hadd|]. split; [exact Hh|].
  destruct (add_inv2 f s tip h HI2 Hw Hz Hnew Hnf) as (s2 & x & tip' & Ea & HI' & _).
  rewrite Hadd in Ea. assert (Ex: x = Longest) by congruence. assert (Es: s2 = s) by congruence. subst x s2. clear Ea.
  set (r0 := create_header s h) in *.
  assert (Hr0st: st r0 = Longest). { unfold r0, create_header. rewrite Hprev, Ht, HtL. reflexivity. }
  assert (Hr0: set_st Longest r0 = r0). { rewrite <- Hr0st. apply set_st_self. }
  rewrite Hr0 in HI'.
  assert (Hid0: id r0 = s_id h) by reflexivity.
  assert (Hfresh: ~ In (s_id h) (ids s)) by (apply by_hash_none; exact Hnew).
  assert (Etip': tip' = s_id h).
  { destruct HI' as [HIn _]. pose proof (proj1 (is_L_iff _ tip' HIn r0 (or_introl eq_refl)) Hr0st) as Hin0.
    cbn [chain] in Hin0. rewrite Hid0 in Hin0. destruct (N.eqb_spec (s_id h) tip') as [E|E]; [symmetry; exact E|].
    exfalso. apply Hfresh. apply in_map_iff. exists r0. split; [reflexivity| apply (chain_incl s tip'); exact Hin0]. }
  subst tip'. exists (s_id h). split; [exact HI'|]. split.
  - cbn [chain]. rewrite Hid0, N.eqb_refl. cbn [ids map]. fold (ids (chain s (prev r0))).
    change (prev r0) with (s_prev h). rewrite Hprev, Hids.
    rewrite (firstn_S_nth ci (S k) 0%N) by (rewrite cids_length; lia).
    rewrite rev_app_distr. cbn [rev app]. rewrite (cids_nth gid C k Hk). reflexivity.
  - intros h' Hh'. unfold by_hash. cbn [find]. rewrite Hid0.
    assert (Hin': In h' (skipn k C)). { rewrite (skipn_nth_cons C k dflt Hk). right. exact Hh'. }
    destruct (N.eqb_spec (s_id h) (s_id h')) as [E|_]; [|apply Hrest; exact Hin'].
    exfalso. (* two positions of C with the same id *)
    pose proof (gc_nodup f gid C HC) as Hnd. unfold cids in Hnd. inversion Hnd as [|? ? _ Hnd']; subst.
    assert (Hsplit: map s_id C = map s_id (firstn k C) ++ s_id h :: map s_id (skipn (S k) C)).
    { rewrite <- (firstn_skipn k C) at 1. rewrite map_app. f_equal. rewrite (skipn_nth_cons C k dflt Hk). reflexivity. }
    rewrite Hsplit in Hnd'. apply NoDup_remove_2 in Hnd'. apply Hnd'. apply in_or_app. right. rewrite E. apply in_map. exact Hh'.
Qed.

(* ------------------------------------------------------------------------------------------- *)
(* a batch of consecutive headers of C, not reaching beyond the expected checkpoint             *)
(* ------------------------------------------------------------------------------------------- *)
Definition nx_ok (nx : option cp) (k m : nat) : Prop :=
  match nx with
  | Some (H, cid) => exists Hn : nat, H = Z.of_nat Hn /\ (k + m <= Hn)%nat /\ nth_error ci Hn = Some cid
  | None => True
  end.
Definition reached (nx : option cp) (k m : nat) : bool :=
  match nx with Some (H, _) => (0 <? Z.of_nat m) && (Z.of_nat (k + m) =? H) | None => false end.

(* the headers of C never contradict a checkpoint list that is consistent with C *)
Lemma no_contradiction cps x k : cps_ok gid C cps -> (k < length C)%nat ->
  contradicts cps x (Z.of_nat (S k)) (s_id (nth k C dflt)) = false.
Proof.
  intros Hok Hk. destruct (contradicts cps x (Z.of_nat (S k)) (s_id (nth k C dflt))) eqn:E; [|reflexivity]. exfalso.
  apply contradicts_spec in E. destruct E as (_ & c & Hc & Hh & Hn). destruct (Hok c Hc) as (i & Ei & Hi).
  assert (i = S k) by lia. subst i. apply nth_error_nth with (d := 0%N) in Hi. rewrite (cids_nth gid C k Hk) in Hi. congruence.
Qed.

Lemma hloop_linear cps nx : cps_ok gid C cps -> forall m k s rc fin, (k + m <= length C)%nat -> Good gid C k s -> nx_ok nx k m ->
  exists s', Good gid C (k + m) s' /\
    hloop f cps nx s rc fin (firstn m (skipn k C)) =
    HDone s' (rc || reached nx k m) (match m with O => fin | S _ => Some (nth (k + m) ci 0%N) end).
Proof.
  intros Hok. induction m as [|m IH]; intros k s rc fin Hkm HG Hnx.
  - exists s. split; [rewrite Nat.add_0_r; exact HG|]. cbn [firstn hloop].
    assert (Er: reached nx k 0 = false) by (unfold reached; destruct nx as [[H c]|]; reflexivity).
    rewrite Er, orb_false_r. reflexivity.
  - assert (Hk: (k < length C)%nat) by lia.
    rewrite (skipn_nth_cons C k dflt Hk). cbn [firstn hloop].
    destruct (good_add k s Hk HG) as (Ha & Hh & HG1). rewrite Ha. rewrite Hh. rewrite (no_contradiction cps Longest k Hok Hk).
    set (h := nth k C dflt) in *.
    assert (Eid: s_id h = nth (S k) ci 0%N) by (symmetry; apply cids_nth; exact Hk).
    destruct nx as [[H cid]|].
    + destruct Hnx as (Hn & EH & Hle & Hcid).
      destruct (Z.eqb_spec (Z.of_nat (S k)) H) as [E|E].
      * (* the checkpoint header: it must be the last of the batch *)
        assert (Em: m = O) by lia. subst m.
        assert (Ec: s_id h = cid).
        { rewrite Eid. assert (Hn = S k) by lia. subst Hn. apply nth_error_nth with (d := 0%N) in Hcid. exact Hcid. }
        rewrite Ec, N.eqb_refl. cbn [firstn hloop].
        exists (create_header s h :: s). split; [replace (k + 1)%nat with (S k) by lia; exact HG1|].
        unfold reached. replace (k + 1)%nat with (S k) by lia. rewrite E, Z.eqb_refl. cbn. rewrite orb_true_r. rewrite <- Ec, Eid. reflexivity.
      * destruct (IH (S k) (create_header s h :: s) rc (Some (s_id h)) ltac:(lia) HG1) as (s' & HG' & El).
        { exists Hn. repeat split; auto. lia. }
        exists s'. split; [replace (k + S m)%nat with (S k + m)%nat by lia; exact HG'|].
        rewrite El. f_equal.
        -- f_equal. unfold reached. replace (k + S m)%nat with (S k + m)%nat by lia.
           destruct m as [|m']; [|reflexivity]. cbn [Z.of_nat Z.ltb Z.compare andb].
           replace (S k + 0)%nat with (S k) by lia. destruct (Z.eqb_spec (Z.of_nat (S k)) H); [contradiction| reflexivity].
        -- destruct m as [|m']; [rewrite Eid; f_equal; f_equal; lia| f_equal; f_equal; lia].
    + destruct (IH (S k) (create_header s h :: s) rc (Some (s_id h)) ltac:(lia) HG1 I) as (s' & HG' & El).
      exists s'. split; [replace (k + S m)%nat with (S k + m)%nat by lia; exact HG'|].
      rewrite El. f_equal. destruct m as [|m']; [rewrite Eid; f_equal; f_equal; lia| f_equal; f_equal; lia].
Qed.

(* ------------------------------------------------------------------------------------------- *)
(* what the conformant node replies to a request whose locator starts with the k-th hash of C   *)
(* ------------------------------------------------------------------------------------------- *)
Lemma start_index_head k rest : (k <= length C)%nat -> start_index gid C (nth k ci 0%N :: rest) = k.
Proof.
  intros Hk. unfold start_index. cbn [first_known]. fold ci.
  rewrite (index_of_nth ci k (gc_nodup f gid C HC)) by (rewrite cids_length; lia). reflexivity.
Qed.

Lemma reply_shape k rest stop cap : (k <= length C)%nat -> (1 <= cap)%nat ->
  exists m, reply gid C (nth k ci 0%N :: rest) stop cap = firstn m (skipn k C) /\ (k + m <= length C)%nat /\
            ((k < length C)%nat -> (1 <= m)%nat) /\
            (forall Hn, (k < Hn)%nat -> nth_error ci Hn = Some stop -> (k + m <= Hn)%nat).
Proof.
  intros Hk Hcap. unfold reply. rewrite (start_index_head k rest Hk).
  destruct (upto_stop_firstn stop (skipn k C)) as (j & Ej & Hjl & Hj1 & Hjs).
  rewrite Ej, firstn_firstn_min. exists (Nat.min cap j). rewrite skipn_length in Hjl. repeat split.
  - lia.
  - intros Hlt. assert (skipn k C <> []). { rewrite (skipn_nth_cons C k dflt Hlt). discriminate. } specialize (Hj1 H). lia.
  - intros Hn Hlt Hst. destruct Hn as [|Hn]; [lia|].
    unfold cids in Hst. cbn [nth_error] in Hst. rewrite nth_error_map in Hst.
    destruct (nth_error C Hn) as [x|] eqn:Ex; [|discriminate]. cbn in Hst. inversion Hst as [Hx].
    assert (Hsk: nth_error (skipn k C) (Hn - k) = Some x). { rewrite nth_error_skipn'. replace (k + (Hn - k))%nat with Hn by lia. exact Ex. }
    specialize (Hjs (Hn - k)%nat x Hsk Hx). lia.
Qed.
End Linear.

(* ------------------------------------------------------------------------------------------- *)
(* evaluation lemmas for the default engine on a single connected peer                          *)
(* ------------------------------------------------------------------------------------------- *)
Lemma on_headers_done cfg st p c hs s' rc fh :
  aget p (d_states st) = Some c -> d_hfm st = true -> hs <> [] ->
  hloop (c_forb cfg) (sm_cps cfg) (d_next st) (d_store st) false None hs = HDone s' rc (Some fh) ->
  on_headers cfg st p hs =
  match (if rc then d_next st else None) with
  | Some (H, cid) =>
    match find_next_d (c_cps cfg) H with
    | Some (H', c') => send_gh (with_next (with_store st s') (Some (H', c'))) p [cid] c'
    | None => send_gh (with_next (with_store st s') None) p (locator s') 0%N
    end
  | None =>
    match d_next st with
    | None => send_gh (with_store st s') p (locator s') 0%N
    | Some (_, c0) => send_gh (with_store st s') p (locator s') c0
    end
  end.
Proof.
  intros Hst Hh Hne Hl. unfold on_headers. rewrite Hst, Hh. cbn [negb].
  destruct hs as [|h0 hs0]; [contradiction|]. rewrite Hl. reflexivity.
Qed.

Lemma send_gh_sent st p o loc stop : d_objs st = [(p, o)] -> po_conn o = true ->
  match po_ps o, po_pb o, hd_error loc with
  | Some s0, Some b0, Some b1 => N.eqb stop s0 && N.eqb b1 b0
  | _, _, _ => false
  end = false ->
  send_gh st p loc stop =
  (with_objs st [(p, {| po_conn := true; po_last := po_last o; po_start := po_start o; po_pb := hd_error loc; po_ps := Some stop |})],
   [GetHeaders p loc stop]).
Proof.
  intros Ho Hc Hd. unfold send_gh. rewrite Ho. cbn [aget]. rewrite N.eqb_refl, Hd. cbn [aset]. rewrite N.eqb_refl, Hc. reflexivity.
Qed.

Lemma nodup_nth_neq (l : list N) i j : NoDup l -> (i < length l)%nat -> (j < length l)%nat -> i <> j -> nth i l 0%N <> nth j l 0%N.
Proof. intros Hnd Hi Hj Hne E. apply Hne. apply (proj1 (NoDup_nth l 0%N) Hnd i j Hi Hj E). Qed.

Lemma least_above_mono cps a b : sorted cps -> a <= b ->
  (match least_above cps a with Some c => b < fst c | None => True end) -> least_above cps b = least_above cps a.
Proof.
  unfold least_above. induction cps as [|c cps IH]; intros Hs Hab Hc; [reflexivity|]. cbn [find] in *.
  destruct Hs as [Hlt Hs].
  destruct (Z.ltb_spec a (fst c)) as [Ha|Ha].
  - destruct (Z.ltb_spec b (fst c)); [reflexivity| lia].
  - destruct (Z.ltb_spec b (fst c)); [lia|]. apply IH; assumption.
Qed.

Lemma least_above_gt cps a c : least_above cps a = Some c -> a < fst c /\ In c cps.
Proof. unfold least_above. intros H. apply find_some in H. destruct H as [Hin Hb]. apply Z.ltb_lt in Hb. auto. Qed.

(* ------------------------------------------------------------------------------------------- *)
(* the closed system with one honest peer                                                       *)
(* ------------------------------------------------------------------------------------------- *)
(* the checkpoint list the manager actually follows: none when checkpoints are disabled (SyncManager.New never sets
   nextCheckpoint then, and only handleHeadersMsg ever advances it) *)
Definition eff_cps (cfg : dcfg) : list cp := sm_cps cfg.      (* = SyncDefault.sm_cps: sm.checkpoints *)
Lemma eff_cps_some cfg x c : least_above (eff_cps cfg) x = Some c -> eff_cps cfg = c_cps cfg.
Proof. unfold eff_cps, sm_cps. destruct (c_disable cfg); [discriminate| reflexivity]. Qed.

Section Catchup.
Variables (cfg : dcfg) (gid : N) (C : list src) (p : N) (cap : nat) (res : list src).
Hypothesis HC : good_chain (c_forb cfg) gid C.
Hypothesis Hcps : cps_ok gid C (eff_cps cfg).
Hypothesis Hsorted : sorted (eff_cps cfg).
Hypothesis Hcap : (1 <= cap)%nat.
Notation ci := (cids gid C).
Notation dflt := (ex_sub 0 0 0).

Definition stop_of (nx : option cp) : N := match nx with Some c => snd c | None => 0%N end.
Definition tipid (k : nat) : N := nth k ci 0%N.

Definition eng_ok (k : nat) (st : dstate) : Prop :=
  d_hfm st = true /\ d_sync st = Some p /\ d_states st = [(p, true)] /\
  (exists o, d_objs st = [(p, o)] /\ po_conn o = true /\ po_pb o = Some (tipid k) /\
             (forall s0, po_ps o = Some s0 -> s0 = 0%N \/ In s0 ci)) /\         (* the previous stop hash: zero or a hash of C *)
  d_next st = least_above (eff_cps cfg) (Z.of_nat k) /\ Good gid C k (d_store st).

Definition node_ok (k : nat) (nx : option cp) (n : node) : Prop :=
  n_chain n = C /\ n_reserve n = res /\ n_cap n = cap /\ n_open n = true /\ n_stalled n = false /\
  (* the reply in flight: the next m headers of C, not reaching beyond the expected checkpoint *)
  exists m, n_out n = [MHeaders (firstn m (skipn k C))] /\ (k + m <= length C)%nat /\ ((k < length C)%nat -> (1 <= m)%nat) /\
            nx_ok gid C nx k m.

Definition sys_ok (k : nat) (y : sys) : Prop :=
  y_cfg y = cfg /\ y_gid y = gid /\ eng_ok k (y_eng y) /\ y_done y = [] /\
  exists n, y_nodes y = [(p, n)] /\ node_ok k (d_next (y_eng y)) n.

(* what is recorded about one step: exactly one request, to p, whose locator starts with the tip of the store after the
   step and whose stop hash is the next checkpoint's (zero when none is left) - or nothing after the empty reply *)
Definition entry_ok (x : devent * list eff * dstate) : Prop :=
  let '(ev, es, st) := x in
  match es with
  | [] => ev = EHeaders p []
  | [GetHeaders q loc stop] =>
    q = p /\ hd_error loc = option_map id (tipB (d_store st)) /\ stop = stop_of (d_next st)
  | _ => False
  end.

Lemma reply_head k rest stop : (k <= length C)%nat ->
  reply gid C (tipid k :: rest) stop cap = firstn cap (upto_stop stop (skipn k C)).
Proof. intros Hk. unfold reply, tipid. rewrite (start_index_head (c_forb cfg) gid C HC k rest Hk). reflexivity. Qed.

Lemma good_locator k s : (k <= length C)%nat -> Good gid C k s -> exists rest, locator s = tipid k :: rest /\ option_map id (tipB s) = Some (tipid k).
Proof.
  intros Hk HG. destruct (good_tip gid C k s Hk HG) as (tip & t & _ & Etip & _ & HtB & Htid & _).
  unfold locator. rewrite HtB. eexists. split; [|cbn; rewrite Htid, Etip; reflexivity]. rewrite Htid, Etip. reflexivity.
Qed.

(* the next checkpoint is on C, strictly above k, and its hash sits at its height *)
Lemma next_on_chain k H cid : least_above (eff_cps cfg) (Z.of_nat k) = Some (H, cid) ->
  exists Hn : nat, H = Z.of_nat Hn /\ (k < Hn)%nat /\ nth_error ci Hn = Some cid /\ (Hn <= length C)%nat.
Proof.
  intros Hl. destruct (least_above_gt _ _ _ Hl) as [Hgt Hin]. destruct (Hcps _ Hin) as (i & Ei & Hn). cbn [fst snd] in *.
  exists i. split; [exact Ei|]. split; [lia|]. split; [exact Hn|].
  assert (i < length ci)%nat by (apply nth_error_Some; congruence). rewrite cids_length in H0. lia.
Qed.

(* the reply of the node to a request whose locator starts with the k-th hash and whose stop is the cursor's hash *)
Lemma reply_batch k rest : (k <= length C)%nat ->
  exists m, reply gid C (tipid k :: rest) (stop_of (least_above (eff_cps cfg) (Z.of_nat k))) cap = firstn m (skipn k C) /\
            (k + m <= length C)%nat /\ ((k < length C)%nat -> (1 <= m)%nat) /\
            nx_ok gid C (least_above (eff_cps cfg) (Z.of_nat k)) k m.
Proof.
  intros Hk.
  destruct (reply_shape (c_forb cfg) gid C HC k rest (stop_of (least_above (eff_cps cfg) (Z.of_nat k))) cap Hk Hcap) as (m & Em & Hkm & Hm1 & Hmstop).
  exists m. split; [exact Em|]. split; [exact Hkm|]. split; [exact Hm1|].
  unfold nx_ok. destruct (least_above (eff_cps cfg) (Z.of_nat k)) as [[H cid]|] eqn:El; [|exact I].
  destruct (next_on_chain k H cid El) as (Hn & EH & Hlt2 & Hnth & _).
  exists Hn. split; [exact EH|]. split; [|exact Hnth]. apply (Hmstop Hn Hlt2). exact Hnth.
Qed.

(* the state between syncs: everything delivered, nothing in flight *)
Definition idle_ok (y : sys) : Prop :=
  y_cfg y = cfg /\ y_gid y = gid /\ eng_ok (length C) (y_eng y) /\ y_done y = [] /\
  exists n, y_nodes y = [(p, n)] /\ n_chain n = C /\ n_reserve n = res /\ n_cap n = cap /\ n_open n = true /\
            n_stalled n = false /\ n_out n = [].

(* one delivery *)
Lemma round k y : (k <= length C)%nat -> sys_ok k y ->
  exists y' tr, deliver y p = (y', tr) /\ Forall entry_ok tr /\
    (((k < length C)%nat /\ exists m, (1 <= m)%nat /\ (k + m <= length C)%nat /\ sys_ok (k + m) y') \/
     (k = length C /\ quiescent y' = true /\ idle_ok y')).
Proof.
  intros Hk (Ecfg & Egid & Heng & Edone & n & Enodes & Hnode).
  pose proof Heng as Heng0.
  destruct Heng as (Hhfm & Hsync & Hstates & (o & Eobjs & Hconn & Hpb & Hps) & Hnext & HG).
  destruct Hnode as (Hch & Hrs & Hcp & Hop & Hns & m & Hout & Hkm & Hm1 & Hnxok).
  set (st := y_eng y) in *.
  pose (nx := d_next st). assert (Enxd: d_next st = nx) by reflexivity. clearbody nx. rewrite Enxd in Hnext, Hnxok.
  set (n1 := n_with n (n_chain n) (n_reserve n) (n_open n) (n_used n) (n_stalled n) []).
  assert (Edel: deliver y p = eng_event (y_with y st [(p, n1)] (y_done y) (y_hints y)) (EHeaders p (firstn m (skipn k C)))).
  { unfold deliver. rewrite Enodes. cbn [aget]. rewrite N.eqb_refl, Hop, Hout. cbn [negb].
    unfold upd_node. cbn [map fst snd]. rewrite N.eqb_refl. reflexivity. }
  rewrite Edel. unfold eng_event. cbn [y_cfg y_eng y_with y_hints y_gid y_nodes y_done]. rewrite Ecfg, Egid. cbn [d_step].
  destruct (Nat.eq_dec k (length C)) as [Eend|Hlt'].
  - (* the chain is exhausted: the reply is empty and nothing more happens *)
    assert (Em0: m = O) by lia. subst m. cbn [firstn].
    assert (Eon: on_headers cfg st p [] = (st, [])).
    { unfold on_headers. rewrite Hstates. cbn [aget]. rewrite N.eqb_refl, Hhfm. reflexivity. }
    rewrite Eon. cbn [apply_effs]. eexists _, _. split; [reflexivity|]. split; [constructor; [reflexivity| constructor]|].
    right. split; [exact Eend|]. split.
    + unfold quiescent, next_ready. cbn [y_nodes y_with find snd fst n1 n_with n_open n_out y_done]. rewrite Hop, Edone. reflexivity.
    + unfold idle_ok. cbn [y_cfg y_gid y_eng y_done y_nodes y_with]. split; [exact Ecfg|]. split; [exact Egid|].
      split; [rewrite <- Eend; exact Heng0|]. split; [exact Edone|].
      exists n1. split; [reflexivity|]. unfold n1, n_with. cbn [n_chain n_reserve n_cap n_open n_stalled n_out].
      split; [exact Hch|]. split; [exact Hrs|]. split; [exact Hcp|]. split; [exact Hop|]. split; [exact Hns|]. reflexivity.
  - assert (Hlt: (k < length C)%nat) by lia. specialize (Hm1 Hlt).
    destruct (hloop_linear (c_forb cfg) gid C HC (sm_cps cfg) nx Hcps m k (d_store st) false None Hkm HG Hnxok) as (s' & HG' & Eloop).
    destruct m as [|m']; [lia|]. set (m := S m') in *. cbn [orb] in Eloop.
    assert (Hne: firstn m (skipn k C) <> []). { rewrite (skipn_nth_cons C k dflt Hlt). discriminate. }
    assert (Hstp: aget p (d_states st) = Some true) by (rewrite Hstates; cbn [aget]; rewrite N.eqb_refl; reflexivity).
    rewrite <- Enxd in Eloop at 1.
    rewrite (on_headers_done cfg st p true _ s' _ _ Hstp Hhfm Hne Eloop).
    destruct (good_locator (k + m) s' Hkm HG') as (lrest & Eloc & Etb).
    assert (Htne: tipid (k + m) <> tipid k).
    { apply nodup_nth_neq; [apply (gc_nodup _ _ _ HC)| rewrite cids_length; lia| rewrite cids_length; lia| lia]. }
    assert (Hsend: forall st0 loc stop, d_objs st0 = [(p, o)] -> hd_error loc = Some (tipid (k + m)) ->
              send_gh st0 p loc stop =
              (with_objs st0 [(p, {| po_conn := true; po_last := po_last o; po_start := po_start o; po_pb := Some (tipid (k + m)); po_ps := Some stop |})],
               [GetHeaders p loc stop])).
    { intros st0 loc stop Ho Hhd. rewrite (send_gh_sent st0 p o loc stop Ho Hconn); [rewrite Hhd; reflexivity|].
      rewrite Hpb, Hhd. destruct (po_ps o); [|reflexivity].
      destruct (N.eqb_spec (tipid (k + m)) (tipid k)); [contradiction|]. apply andb_false_r. }
    (* both branches lead to: next = least_above cps (k+m), one request with head tipid (k+m) and stop = stop_of next *)
    assert (Hres: exists st2 loc,
              (match (if reached nx k m then d_next st else None) with
               | Some (H, cid) =>
                 match find_next_d (c_cps cfg) H with
                 | Some (H', c') => send_gh (with_next (with_store st s') (Some (H', c'))) p [cid] c'
                 | None => send_gh (with_next (with_store st s') None) p (locator s') 0%N
                 end
               | None =>
                 match d_next st with
                 | None => send_gh (with_store st s') p (locator s') 0%N
                 | Some (_, c0) => send_gh (with_store st s') p (locator s') c0
                 end
               end) = (st2, [GetHeaders p loc (stop_of (d_next st2))]) /\
              hd_error loc = Some (tipid (k + m)) /\ d_next st2 = least_above (eff_cps cfg) (Z.of_nat (k + m)) /\
              d_store st2 = s' /\ d_hfm st2 = true /\ d_sync st2 = Some p /\ d_states st2 = [(p, true)] /\
              (exists o2, d_objs st2 = [(p, o2)] /\ po_conn o2 = true /\ po_pb o2 = Some (tipid (k + m)) /\
                          (forall s0, po_ps o2 = Some s0 -> s0 = 0%N \/ In s0 ci))).
    { rewrite Enxd. destruct nx as [[H cid]|].
      - symmetry in Hnext.
        destruct (next_on_chain k H cid Hnext) as (Hn & EH & Hlt2 & Hnth & HnC).
        destruct Hnxok as (Hn' & EH' & Hle' & _). assert (Hn' = Hn) by lia. subst Hn'.
        unfold reached. replace (0 <? Z.of_nat m) with true by (symmetry; apply Z.ltb_lt; lia). cbn [andb].
        destruct (Z.eqb_spec (Z.of_nat (k + m)) H) as [E|E].
        + (* the batch ended on the checkpoint *)
          assert (Hn = (k + m)%nat) by lia. subst Hn.
          assert (Ecid: cid = tipid (k + m)). { unfold tipid. symmetry. apply nth_error_nth. exact Hnth. }
          rewrite <- (eff_cps_some cfg _ _ Hnext).
          rewrite (find_next_d_spec _ H Hsorted). rewrite <- E.
          destruct (least_above (eff_cps cfg) (Z.of_nat (k + m))) as [[H' c']|] eqn:El.
          * rewrite (Hsend _ [cid] c'); [|exact Eobjs| cbn; rewrite Ecid; reflexivity].
            match goal with |- exists st2 loc, (?a, [GetHeaders ?q ?l ?s]) = _ /\ _ => exists a, l end. split; [reflexivity|]. cbn. rewrite Ecid. repeat split; auto.
            eexists. split; [reflexivity|]. split; [reflexivity|]. split; [reflexivity|].
            intros s0 Hs0. cbn in Hs0. inversion Hs0; subst s0. right.
            destruct (next_on_chain (k + m) H' c' El) as (Hn2 & _ & _ & Hnth2 & _). exact (nth_error_In ci Hn2 Hnth2).
          * rewrite (Hsend _ (locator s') 0%N); [|exact Eobjs| rewrite Eloc; reflexivity].
            match goal with |- exists st2 loc, (?a, [GetHeaders ?q ?l ?s]) = _ /\ _ => exists a, l end. split; [reflexivity|]. cbn. rewrite Eloc. repeat split; auto.
            eexists. split; [reflexivity|]. split; [reflexivity|]. split; [reflexivity|].
            intros s0 Hs0. cbn in Hs0. inversion Hs0; subst s0. left. reflexivity.
        + (* still below the checkpoint: the cursor stays *)
          rewrite (Hsend _ (locator s') cid); [|exact Eobjs| rewrite Eloc; reflexivity].
          match goal with |- exists st2 loc, (?a, [GetHeaders ?q ?l ?s]) = _ /\ _ => exists a, l end. split; [cbn; rewrite Enxd; reflexivity|]. cbn. rewrite Enxd, Eloc. repeat split; auto.
          * rewrite <- Hnext. symmetry. apply least_above_mono; [exact Hsorted| lia|]. rewrite Hnext. cbn. lia.
          * eexists. split; [reflexivity|]. split; [reflexivity|]. split; [reflexivity|].
            intros s0 Hs0. cbn in Hs0. inversion Hs0; subst s0. right. exact (nth_error_In ci Hn Hnth).
      - cbn [reached]. rewrite (Hsend _ (locator s') 0%N); [|exact Eobjs| rewrite Eloc; reflexivity].
        match goal with |- exists st2 loc, (?a, [GetHeaders ?q ?l ?s]) = _ /\ _ => exists a, l end. split; [cbn; rewrite Enxd; reflexivity|]. cbn. rewrite Enxd, Eloc. repeat split; auto.
        + rewrite Hnext. symmetry. apply least_above_mono; [exact Hsorted| lia|]. rewrite <- Hnext. exact I.
        + eexists. split; [reflexivity|]. split; [reflexivity|]. split; [reflexivity|].
          intros s0 Hs0. cbn in Hs0. inversion Hs0; subst s0. left. reflexivity. }
    destruct Hres as (st2 & loc & Eres & Hhd & Hnx2 & Hst2 & Hh2 & Hs2 & Hss2 & Ho2).
    rewrite Eres. cbn [apply_effs]. unfold upd_node. cbn [map fst snd]. rewrite N.eqb_refl. cbn [apply_effs].
    eexists _, _. split; [reflexivity|]. split.
    + constructor; [|constructor]. cbn. split; [reflexivity|]. split; [|reflexivity]. rewrite Hst2, Etb. exact Hhd.
    + left. split; [exact Hlt|]. exists m. split; [lia|]. split; [exact Hkm|].
      unfold sys_ok. cbn [y_cfg y_gid y_eng y_done y_nodes y_with]. split; [exact Ecfg|]. split; [exact Egid|].
      split; [|split; [exact Edone|]].
      * unfold eng_ok. rewrite Hst2. repeat split; auto.
      * eexists. split; [reflexivity|].
        unfold node_request, n1, n_with. cbn [n_open n_stalled n_chain n_reserve n_used n_out n_cap]. rewrite Hop, Hns. cbn [negb andb app].
        unfold node_ok. cbn [n_chain n_reserve n_cap n_open n_stalled n_out].
        split; [exact Hch|]. split; [exact Hrs|]. split; [exact Hcp|]. split; [reflexivity|]. split; [reflexivity|].
        rewrite Hch, Hcp. destruct loc as [|l0 lr]; [discriminate|]. assert (El0: l0 = tipid (k + m)) by (cbn [hd_error] in Hhd; congruence). subst l0.
        rewrite Hnx2. destruct (reply_batch (k + m) lr Hkm) as (m2 & Em2 & Hkm2 & Hm12 & Hnx2ok).
        exists m2. rewrite Em2. auto.
Qed.

Lemma sys_ok_ready k y : sys_ok k y -> next_ready y = Some (false, p).
Proof.
  intros (_ & _ & _ & _ & n & En & (_ & _ & _ & Hop & _ & m & Hout & _)). unfold next_ready. rewrite En. cbn [find snd]. rewrite Hop, Hout. reflexivity.
Qed.

Lemma quiescent_run fuel y : quiescent y = true -> run_q fuel y = (y, []).
Proof. unfold quiescent. intros H. destruct fuel; [reflexivity|]. cbn [run_q]. destruct (next_ready y); [discriminate| reflexivity]. Qed.

(* fuel_suffices: |C| - k + 1 deliveries are enough *)
Lemma run_linear : forall fuel k y, (k <= length C)%nat -> sys_ok k y -> (length C - k + 1 <= fuel)%nat ->
  exists y' tr, run_q fuel y = (y', tr) /\ Forall entry_ok tr /\ quiescent y' = true /\
                Good gid C (length C) (d_store (y_eng y')) /\ idle_ok y'.
Proof.
  induction fuel as [|fuel IH]; intros k y Hk Hs Hf; [lia|].
  cbn [run_q]. rewrite (sys_ok_ready k y Hs).
  destruct (round k y Hk Hs) as (y1 & t1 & Ed & Ht1 & [(Hlt & m & Hm & Hkm & Hs1)|(Eend & Hq & Hidle)]); rewrite Ed.
  - destruct (IH (k + m)%nat y1 Hkm Hs1 ltac:(lia)) as (y2 & t2 & Er & Ht2 & Hq2 & HG2 & Hi2).
    rewrite Er. exists y2, (t1 ++ t2). split; [reflexivity|]. split; [apply Forall_app; split; assumption|]. auto.
  - rewrite (quiescent_run fuel y1 Hq). exists y1, (t1 ++ []). split; [reflexivity|]. split; [rewrite app_nil_r; exact Ht1|].
    split; [exact Hq|]. split; [|exact Hidle]. destruct Hidle as (_ & _ & (_ & _ & _ & _ & _ & HG) & _). exact HG.
Qed.

Local Arguments locator : simpl never.
Local Arguments find_next_d : simpl never.
Local Arguments tip_height : simpl never.
Local Arguments reply : simpl never.
Local Arguments least_above : simpl never.

Definition node0 : node :=
  {| n_chain := C; n_reserve := res; n_cap := cap; n_open := false; n_used := false; n_stalled := false; n_out := [] |}.

Lemma last_of_single st o x : last_of (with_states (with_objs st [(p, o)]) x) p = po_last o.
Proof. unfold last_of. cbn [d_objs with_states with_objs aget]. rewrite N.eqb_refl. reflexivity. Qed.

(* SyncManager.New on a Good store: nextCheckpoint follows the effective list; headersFirstMode is on exactly when there is
   no next checkpoint (also with checkpoints disabled, since e6f7150) *)
Lemma d_init_eval k s : (k <= length C)%nat -> Good gid C k s ->
  d_init cfg s = {| d_hfm := match least_above (eff_cps cfg) (Z.of_nat k) with None => true | Some _ => false end;
                    d_next := least_above (eff_cps cfg) (Z.of_nat k); d_sync := None; d_objs := []; d_states := []; d_store := s |}.
Proof.
  intros Hk HG.
  destruct (good_tip gid C k s Hk HG) as (tip & t & _ & _ & _ & HtB & _ & Hth & _).
  assert (Eth: tip_height s = Z.of_nat k). { unfold tip_height. rewrite HtB. exact Hth. }
  unfold d_init. rewrite Eth. unfold eff_cps, sm_cps in *. destruct (c_disable cfg).
  - reflexivity.
  - rewrite (find_next_d_spec _ _ Hsorted). reflexivity.
Qed.

(* handleNewPeerMsg -> startSync on a fresh manager: the first request *)
Lemma new_peer_eval k s hint : (k <= length C)%nat -> Good gid C k s ->
  on_new_peer cfg hint (d_init cfg s) p true (Z.of_nat (length C)) =
  (let nx := least_above (eff_cps cfg) (Z.of_nat k) in
   ({| d_hfm := true; d_next := nx; d_sync := Some p;
       d_objs := [(p, {| po_conn := true; po_last := Z.of_nat (length C); po_start := Z.of_nat (length C);
                         po_pb := hd_error (locator s); po_ps := Some (stop_of nx) |})];
       d_states := [(p, true)]; d_store := s |},
    [GetHeaders p (locator s) (stop_of nx)])).
Proof.
  intros Hk HG. rewrite (d_init_eval k s Hk HG).
  destruct (good_tip gid C k s Hk HG) as (tip & t & HI2 & Etip & Ht & HtB & Htid & Hth & HtL & Hto & Hc & Hids).
  assert (Eth: tip_height s = Z.of_nat k). { unfold tip_height. rewrite HtB. exact Hth. }
  unfold on_new_peer. cbn [andb d_sync negb].
  unfold start_sync. cbn [d_sync with_states with_objs d_states d_objs d_store aset filter snd fst map].
  rewrite !last_of_single. cbn [po_last]. rewrite Eth.
  replace (Z.of_nat (length C) <? Z.of_nat k) with false by (symmetry; apply Z.ltb_ge; lia). cbn [andb fst snd].
  set (o0 := {| po_conn := true; po_last := Z.of_nat (length C); po_start := Z.of_nat (length C); po_pb := None; po_ps := None |}).
  match goal with |- context [match (match ?bp with _ :: _ => ?a | [] => ?b end) with Some _ => _ | None => _ end] =>
    assert (Hpick: (match bp with _ :: _ => a | [] => b end) = Some p) end.
  { destruct (Z.ltb_spec (Z.of_nat k) (Z.of_nat (length C))) as [Hlt|Hge]; cbn [map fst].
    - destruct (memN hint [p]) eqn:Em; [|reflexivity]. apply memN_in in Em. destruct Em as [<-|[]]. reflexivity.
    - destruct (Z.eqb_spec (Z.of_nat (length C)) (Z.of_nat k)) as [_|Hne]; [|lia]. cbn [map fst].
      destruct (memN hint [p]) eqn:Em; [|reflexivity]. apply memN_in in Em. destruct Em as [<-|[]]. reflexivity. }
  rewrite Hpick. clear Hpick. cbn [d_next d_store d_objs with_hfm with_states with_objs].
  destruct (least_above (eff_cps cfg) (Z.of_nat k)) as [[H cid]|] eqn:El.
  - destruct (next_on_chain k H cid El) as (Hn & EH & Hlt2 & Hnth & HnC).
    replace (Z.of_nat k <? H) with true by (symmetry; apply Z.ltb_lt; lia).
    match goal with |- context [send_gh ?st0 p ?loc ?stop] => rewrite (send_gh_sent st0 p o0 loc stop eq_refl eq_refl eq_refl) end.
    reflexivity.
  - match goal with |- context [send_gh ?st0 p ?loc ?stop] => rewrite (send_gh_sent st0 p o0 loc stop eq_refl eq_refl eq_refl) end.
    reflexivity.
Qed.

(* connecting the peer *)
Lemma connect_ok k s hints : (k <= length C)%nat -> Good gid C k s ->
  exists y1 ev es st, y_cmd (y_init cfg gid s [(p, node0)] hints) (CConnect p) = (y1, [(ev, es, st)]) /\ sys_ok k y1 /\
    ev = ENew p true (Z.of_nat (length C)) /\ entry_ok (EHeaders p [], es, st) /\ es <> [].
Proof.
  intros Hk HG.
  destruct (good_locator k s Hk HG) as (lrest & Eloc & Etb).
  assert (Ecmd: y_cmd (y_init cfg gid s [(p, node0)] hints) (CConnect p) =
                eng_event (y_with (y_init cfg gid s [(p, node0)] hints) (d_init cfg s)
                                  [(p, n_with node0 C res true true false [])] [] hints)
                          (ENew p true (Z.of_nat (length C)))).
  { unfold y_cmd, y_init. cbn [y_nodes aget]. rewrite N.eqb_refl. cbn [node0 n_used y_eng y_done y_hints].
    unfold upd_node. cbn [map fst snd]. rewrite N.eqb_refl. reflexivity. }
  rewrite Ecmd. unfold eng_event. cbn [y_cfg y_eng y_with y_hints y_gid y_nodes y_done y_init d_step].
  rewrite (new_peer_eval k s (hd 0%N hints) Hk HG). cbv zeta.
  cbn [apply_effs]. unfold upd_node. cbn [map fst snd]. rewrite N.eqb_refl. cbn [apply_effs].
  eexists _, _, _, _. split; [reflexivity|]. split; [|split; [reflexivity|split; [|discriminate]]].
  - unfold sys_ok. cbn [y_cfg y_gid y_eng y_done y_nodes y_with]. split; [reflexivity|]. split; [reflexivity|]. split; [|split; [reflexivity|]].
    + unfold eng_ok. cbn [d_hfm d_sync d_states d_objs d_next d_store]. repeat split; auto.
      eexists. split; [reflexivity|]. cbn [po_conn po_pb po_ps]. split; [reflexivity|]. split; [rewrite Eloc; reflexivity|].
      intros s0 Hs0. inversion Hs0; subst s0.
      destruct (least_above (eff_cps cfg) (Z.of_nat k)) as [[H cid]|] eqn:El; [|left; reflexivity].
      right. destruct (next_on_chain k H cid El) as (Hn & _ & _ & Hnth & _). exact (nth_error_In ci Hn Hnth).
    + eexists. split; [reflexivity|]. unfold node_ok, node_request, n_with.
      cbn [n_open n_stalled n_chain n_reserve n_used n_out n_cap node0 negb andb app d_next].
      split; [reflexivity|]. split; [reflexivity|]. split; [reflexivity|]. split; [reflexivity|]. split; [reflexivity|].
      rewrite Eloc. destruct (reply_batch k lrest Hk) as (m & Em & Hkm & Hm1 & Hnx). exists m. rewrite Em. auto.
  - cbn [entry_ok d_store d_next]. split; [reflexivity|]. split; [|reflexivity]. rewrite Eloc, Etb. reflexivity.
Qed.

(* ---- catchup_linear ---- *)
Theorem catchup_linear_sys k s hints fuel : (k <= length C)%nat -> Good gid C k s -> (length C - k + 1 <= fuel)%nat ->
  exists y1 t1 y2 t2,
    y_cmd (y_init cfg gid s [(p, node0)] hints) (CConnect p) = (y1, t1) /\
    y_cmd y1 (CRun fuel) = (y2, t2) /\
    quiescent y2 = true /\
    Good gid C (length C) (d_store (y_eng y2)) /\ idle_ok y2 /\
    (exists ev es st, t1 = [(ev, es, st)] /\ entry_ok (EHeaders p [], es, st) /\ es <> []) /\
    Forall entry_ok t2.
Proof.
  intros Hk HG Hf.
  destruct (connect_ok k s hints Hk HG) as (y1 & ev & es & st & E1 & Hs1 & _ & He & Hne).
  destruct (run_linear fuel k y1 Hk Hs1 Hf) as (y2 & t2 & E2 & Ht2 & Hq & HG2 & Hi2).
  exists y1, [(ev, es, st)], y2, t2. split; [exact E1|]. split; [exact E2|]. split; [exact Hq|]. split; [exact HG2|]. split; [exact Hi2|].
  split; [|exact Ht2]. exists ev, es, st. auto.
Qed.

End Catchup.

(* ------------------------------------------------------------------------------------------- *)
(* reading the result; stores that satisfy the hypothesis                                       *)
(* ------------------------------------------------------------------------------------------- *)
Lemma nth_length_last {A} (l : list A) : forall g d d', nth (length l) (g :: l) d = last (g :: l) d'.
Proof.
  induction l as [|a l IH]; intros g d d'; [reflexivity|].
  change (nth (length (a :: l)) (g :: a :: l) d) with (nth (length l) (a :: l) d).
  change (last (g :: a :: l) d') with (last (a :: l) d'). apply IH.
Qed.

Lemma good_final gid C s : Good gid C (length C) s ->
  exists tip t, Inv2 s tip /\ ids (chain s tip) = rev (cids gid C) /\ tipB s = Some t /\ id t = last (cids gid C) gid /\
                height t = Z.of_nat (length C).
Proof.
  intros HG. destruct (good_tip gid C (length C) s (le_n _) HG) as (tip & t & HI2 & Etip & Ht & HtB & Htid & Hth & _ & _ & _ & Hids).
  exists tip, t. split; [exact HI2|]. split.
  - rewrite Hids. rewrite firstn_all2; [reflexivity| rewrite cids_length; lia].
  - split; [exact HtB|]. split; [|exact Hth]. rewrite Htid, Etip. unfold cids.
    rewrite <- (map_length s_id C). apply nth_length_last.
Qed.

(* genesis + the first k headers of C ingested in order is such a store *)
Lemma good_genesis f gid gpl C : good_chain f gid C -> Good gid C 0 (init gid gpl).
Proof.
  intros HC. exists gid. split; [apply init_inv2; apply (gc_gid _ _ _ HC)|]. split.
  - unfold init, genesis_row. cbn. rewrite N.eqb_refl. reflexivity.
  - intros h Hh. cbn [skipn] in Hh. destruct (by_hash (init gid gpl) (s_id h)) as [r|] eqn:E; [|reflexivity]. exfalso.
    apply by_hash_in in E. destruct E as [Hin Hid]. destruct Hin as [Hr|[]]. subst r. cbn in Hid.
    pose proof (gc_nodup _ _ _ HC) as Hnd. unfold cids in Hnd. apply NoDup_cons_iff in Hnd. destruct Hnd as [Hnotin _].
    apply Hnotin. rewrite Hid. apply in_map. exact Hh.
Qed.

Lemma run_from_app f s a b : run_from f s (a ++ b) = run_from f (run_from f s a) b.
Proof. unfold run_from. apply fold_left_app. Qed.

Lemma good_prefix f gid gpl C : good_chain f gid C -> forall k, (k <= length C)%nat ->
  Good gid C k (run_from f (init gid gpl) (firstn k C)).
Proof.
  intros HC. induction k as [|k IH]; intros Hk; [apply good_genesis with (f := f); exact HC|].
  rewrite (firstn_S_nth C k (ex_sub 0 0 0)) by lia. rewrite run_from_app.
  destruct (good_add f gid C HC k _ ltac:(lia) (IH ltac:(lia))) as (Ha & _ & HG).
  unfold run_from at 1. cbn [fold_left]. rewrite Ha. exact HG.
Qed.

(* ------------------------------------------------------------------------------------------- *)
(* catchup_linear, closed                                                                       *)
(* ------------------------------------------------------------------------------------------- *)
Theorem catchup_linear cfg gid C p cap res k s hints fuel :
  good_chain (c_forb cfg) gid C -> cps_ok gid C (eff_cps cfg) -> sorted (eff_cps cfg) ->
  (1 <= cap)%nat -> (k <= length C)%nat -> Good gid C k s -> (length C - k + 1 <= fuel)%nat ->
  exists y1 t1 y2 t2,
    y_cmd (y_init cfg gid s [(p, node0 C cap res)] hints) (CConnect p) = (y1, t1) /\
    y_cmd y1 (CRun fuel) = (y2, t2) /\
    quiescent y2 = true /\
    (* the longest chain is C, the tip is its last header *)
    (exists tip t, Inv2 (d_store (y_eng y2)) tip /\ ids (chain (d_store (y_eng y2)) tip) = rev (cids gid C) /\
                   tipB (d_store (y_eng y2)) = Some t /\ id t = last (cids gid C) gid) /\
    (* every step made exactly one request (none was filtered), to p, with the tip of that moment as locator head and
       the next checkpoint's hash (zero after the last / when disabled) as stop; the last reply was empty; nobody was disconnected *)
    (exists ev es st, t1 = [(ev, es, st)] /\ entry_ok p (EHeaders p [], es, st) /\ es <> []) /\
    Forall (entry_ok p) t2 /\
    idle_ok cfg gid C p cap res y2.
Proof.
  intros HC Hcps Hs Hcap Hk HG Hf.
  destruct (catchup_linear_sys cfg gid C p cap res HC Hcps Hs Hcap k s hints fuel Hk HG Hf)
    as (y1 & t1 & y2 & t2 & E1 & E2 & Hq & HG2 & Hi2 & Ht1 & Ht2).
  exists y1, t1, y2, t2. split; [exact E1|]. split; [exact E2|]. split; [exact Hq|]. split; [|split; [exact Ht1| split; assumption]].
  destruct (good_final gid C _ HG2) as (tip & t & HI & Hids & HtB & Htid & _). exists tip, t. auto.
Qed.

(* checkpoints enabled: the configured list must be sorted and consistent with C *)
Corollary catchup_linear_enabled cfg gid C p cap res k s hints fuel :
  c_disable cfg = false -> good_chain (c_forb cfg) gid C -> cps_ok gid C (c_cps cfg) -> sorted (c_cps cfg) ->
  (1 <= cap)%nat -> (k <= length C)%nat -> Good gid C k s -> (length C - k + 1 <= fuel)%nat ->
  exists y1 t1 y2 t2,
    y_cmd (y_init cfg gid s [(p, node0 C cap res)] hints) (CConnect p) = (y1, t1) /\
    y_cmd y1 (CRun fuel) = (y2, t2) /\ quiescent y2 = true /\
    (exists tip t, Inv2 (d_store (y_eng y2)) tip /\ ids (chain (d_store (y_eng y2)) tip) = rev (cids gid C) /\
                   tipB (d_store (y_eng y2)) = Some t /\ id t = last (cids gid C) gid) /\
    (exists ev es st, t1 = [(ev, es, st)] /\ entry_ok p (EHeaders p [], es, st) /\ es <> []) /\
    Forall (entry_ok p) t2 /\ idle_ok cfg gid C p cap res y2.
Proof.
  intros Hd HC Hcps Hs. apply catchup_linear; auto; unfold eff_cps, sm_cps; rewrite Hd; assumption.
Qed.

(* checkpoints disabled (p2p.disable_checkpoints = true): NO hypothesis on the configured list at all *)
Corollary catchup_linear_disabled cfg gid C p cap res k s hints fuel :
  c_disable cfg = true -> good_chain (c_forb cfg) gid C ->
  (1 <= cap)%nat -> (k <= length C)%nat -> Good gid C k s -> (length C - k + 1 <= fuel)%nat ->
  exists y1 t1 y2 t2,
    y_cmd (y_init cfg gid s [(p, node0 C cap res)] hints) (CConnect p) = (y1, t1) /\
    y_cmd y1 (CRun fuel) = (y2, t2) /\ quiescent y2 = true /\
    (exists tip t, Inv2 (d_store (y_eng y2)) tip /\ ids (chain (d_store (y_eng y2)) tip) = rev (cids gid C) /\
                   tipB (d_store (y_eng y2)) = Some t /\ id t = last (cids gid C) gid) /\
    (exists ev es st, t1 = [(ev, es, st)] /\ entry_ok p (EHeaders p [], es, st) /\ es <> []) /\
    Forall (entry_ok p) t2 /\ idle_ok cfg gid C p cap res y2.
Proof.
  intros Hd HC. apply catchup_linear; auto; unfold eff_cps, sm_cps; rewrite Hd; [intros c []| exact I].
Qed.

(* the hypotheses are satisfiable: chain 2 <- 3 <- 4 <- 5 <- 6 on genesis 1, checkpoints at 2 and 5, store = genesis + 2 *)
Definition exC : list src := map (fun i => ex_sub i (i - 1) 545259519) [2; 3; 4; 5; 6]%N.
Definition exCfg : dcfg := {| c_cps := [(2, 3%N); (5, 6%N)]; c_disable := false; c_forb := [99%N]; c_now := 0 |}.

Example ex_catchup_hyps :
  good_chain (c_forb exCfg) 1 exC /\ cps_ok 1 exC (eff_cps exCfg) /\ sorted (eff_cps exCfg) /\
  Good 1 exC 1 (run_from (c_forb exCfg) (init 1 (ex_pl 486604799)) (firstn 1 exC)).
Proof.
  assert (HC: good_chain (c_forb exCfg) 1 exC).
  { constructor.
    - discriminate.
    - cbn. repeat split; reflexivity.
    - cbn. repeat constructor; cbn; intuition discriminate.
    - intros h Hh. cbn in Hh. repeat (destruct Hh as [<-|Hh]; [vm_compute; repeat split; try discriminate; reflexivity|]). destruct Hh. }
  split; [exact HC|]. split; [|split].
  - intros c Hc. cbn in Hc. destruct Hc as [<-|[<-|[]]]; [exists 2%nat| exists 5%nat]; split; reflexivity.
  - cbn. repeat split; intros d Hd; repeat (destruct Hd as [<-|Hd]; [reflexivity|]); destruct Hd.
  - apply good_prefix; [exact HC| cbn; lia].
Qed.

Example ex_catchup_run :
  let s := run_from (c_forb exCfg) (init 1 (ex_pl 486604799)) (firstn 1 exC) in
  let '(y1, t1) := y_cmd (y_init exCfg 1 s [(7%N, node0 exC 2 [])] []) (CConnect 7) in
  let '(y2, t2) := y_cmd y1 (CRun 6) in
  ids (d_store (y_eng y2)) = [6; 5; 4; 3; 2; 1]%N /\
  map (fun x => snd (fst x)) (t1 ++ t2) =
  [[GetHeaders 7 [2; 1] 3]; [GetHeaders 7 [3] 6]; [GetHeaders 7 [5; 4; 3; 2; 1] 6]; [GetHeaders 7 [6; 5; 4; 3; 2; 1] 0]; []]%N.
Proof. vm_compute. split; reflexivity. Qed.

(* ------------------------------------------------------------------------------------------- *)
(* what used to be refuted, and what still is                                                   *)
(* ------------------------------------------------------------------------------------------- *)
Definition final_tip (y : sys) : option N := option_map id (tipB (d_store (y_eng y))).
Definition all_effs (ts : list trace) : list eff := concat (map (fun t => concat (map (fun x => snd (fst x)) t)) ts).

(* History: two further situations used to be refuted here and are now theorems.
   (1) disable_checkpoints = true: headersFirstMode stayed false, the answer to the service's own getheaders was "unrequested",
       the peer was disconnected (C06_disable_checkpoints_refuted) - repaired by /repo e6f7150; now catchup_linear_disabled.
   (2) a lone peer's inv after the initial sync: the follow-up getheaders repeated begin/stop of the answered one and was
       filtered (C06_single_peer_announce_refuted) - repaired by /repo 1572875; now announce_inv in SyncAnnounceProofs.
   The same scenarios on the model of the repaired code: *)
Example ex_disabled_now_syncs :
  let cfg := {| c_cps := [(1, 77%N)]; c_disable := true; c_forb := []; c_now := 0 |} in      (* an inconsistent list: ignored *)
  let y0 := y_init cfg 1 (init 1 (ex_pl 486604799)) [(7%N, node0 exC 2 [])] [] in
  let '(y, ts) := y_run y0 [CConnect 7; CRun 20] in
  final_tip y = Some 6%N /\ ~ In (Disconnect 7) (all_effs ts) /\ quiescent y = true.
Proof. vm_compute. split; [reflexivity|]. split; [|reflexivity]. intros H. repeat (destruct H as [H|H]; [discriminate|]). exact H. Qed.

Definition exNew : list src := map (fun i => {| s_id := i; s_prev := (i - 1)%N;
   s_pl := {| p_bits := 545259519; p_ver := 1; p_merkle := 7%N; p_ts := 4000000000; p_nonce := 0 |} |}) [2; 3; 4]%N.
Example ex_announce_now_followed :
  let cfg := {| c_cps := [(2, 3%N)]; c_disable := false; c_forb := []; c_now := 1800000000 |} in
  let y0 := y_init cfg 1 (init 1 (ex_pl 486604799)) [(7%N, node0 (firstn 2 exNew) 2000 (skipn 2 exNew))] [] in
  let '(y, ts) := y_run y0 [CConnect 7; CRun 20; CAnnounce 7 1 true; CRun 20] in
  final_tip y = Some 4%N /\ quiescent y = true /\
  concat (map (fun x => snd (fst x)) (nth 3 ts [])) = [GetHeaders 7 [3; 2; 1]%N 4%N; GetHeaders 7 [4; 3; 2; 1]%N 0%N].
Proof. vm_compute. repeat split; reflexivity. Qed.

(* the statement is still false for the code as it is in one situation (witness by computation) *)
(* the sync peer has delivered all it has; a second peer with a longer chain connects: it is never asked, also not
   when the stall timer fires *)
Theorem lagging_sync_peer_refuted :
  let cfg := {| c_cps := [(1, 2%N)]; c_disable := false; c_forb := []; c_now := 1800000000 |} in
  let y0 := y_init cfg 1 (init 1 (ex_pl 486604799)) [(7%N, node0 (firstn 2 exC) 2000 []); (8%N, node0 exC 2000 [])] [] in
  let '(y, ts) := y_run y0 [CConnect 7; CRun 20; CConnect 8; CRun 20; CTick true; CRun 20] in
  final_tip y = Some 3%N /\ quiescent y = true /\ d_sync (y_eng y) = Some 7%N /\
  (exists n, aget 8%N (y_nodes y) = Some n /\ n_open n = true /\ length (n_chain n) = 5%nat).
Proof. vm_compute. split; [reflexivity|]. split; [reflexivity|]. split; [reflexivity|]. eexists; repeat split; reflexivity. Qed.

(* ------------------------------------------------------------------------------------------- *)
(* C07 composition: after a forbidden header or a checkpoint mismatch the store is the one from before the offending
   header; if that store is (still) a prefix store of an honest chain C, a manager started on it catches up with an
   honest peer (catchup_linear applies again) *)
(* ------------------------------------------------------------------------------------------- *)
Theorem contained_then_converges cfg st p c o pre h post s1 rc1 fin1 gid C q cap res k hints fuel :
  no_forb (c_forb cfg) (d_store st) ->
  aget p (d_states st) = Some c -> d_hfm st = true -> aget p (d_objs st) = Some o -> po_conn o = true ->
  hloop (c_forb cfg) (sm_cps cfg) (d_next st) (d_store st) false None pre = HDone s1 rc1 fin1 ->
  memN (s_id h) (c_forb cfg) = true ->
  good_chain (c_forb cfg) gid C -> cps_ok gid C (eff_cps cfg) -> sorted (eff_cps cfg) ->
  (1 <= cap)%nat -> (k <= length C)%nat -> Good gid C k s1 -> (length C - k + 1 <= fuel)%nat ->
  exists st', on_headers cfg st p (pre ++ h :: post) = (st', [Ban p; Disconnect p]) /\
  exists y1 t1 y2 t2,
    y_cmd (y_init cfg gid (d_store st') [(q, node0 C cap res)] hints) (CConnect q) = (y1, t1) /\
    y_cmd y1 (CRun fuel) = (y2, t2) /\ quiescent y2 = true /\
    (exists tip t, Inv2 (d_store (y_eng y2)) tip /\ ids (chain (d_store (y_eng y2)) tip) = rev (cids gid C) /\
                   tipB (d_store (y_eng y2)) = Some t /\ id t = last (cids gid C) gid).
Proof.
  intros Hnf Hst Hh Ho Hc Hpre Hf HC Hcps Hs Hcap Hk HG Hfu.
  destruct (rejected_peer_dropped_default' cfg st p c o pre h post s1 rc1 fin1 Hnf Hst Hh Ho Hc Hpre Hf) as (st' & E & Es & _).
  exists st'. split; [exact E|]. rewrite Es.
  destruct (catchup_linear cfg gid C q cap res k s1 hints fuel HC Hcps Hs Hcap Hk HG Hfu) as (y1 & t1 & y2 & t2 & E1 & E2 & Hq & Hfin & _).
  exists y1, t1, y2, t2. auto.
Qed.
