(* C07: forbidden headers and checkpoint-violating peers are contained - proofs about the models
   BHS.Chain (ingestion), BHS.SyncDefault, BHS.SyncExp, BHS.SyncNode (cursors). *)
From Coq Require Import ZArith NArith List Lia Bool Sorted.
From BHS Require Import Work Store Chain ChainSpec StoreProofs ChainInv ChainReorg ChainAdd ChainMain
     SyncNode SyncDefault SyncExp SyncSpec.
Import ListNotations.
Open Scope Z_scope.

(* ------------------------------------------------------------------------------------------- *)
(* 1. a forbidden hash is never stored                                                          *)
(* ------------------------------------------------------------------------------------------- *)
Definition no_forb (f : list N) (s : store) := forall r, In r s -> memN (id r) f = false.

Lemma in_update_state s l x r : In r (update_state s l x) -> exists r', In r' s /\ id r = id r' /\ prev r = prev r' /\ orph r = orph r'.
Proof.
  unfold update_state. intros H. apply in_map_iff in H. destruct H as (r' & E & Hr').
  exists r'. split; [exact Hr'|]. destruct (memN (id r') l); subst r; cbn; auto.
Qed.

Lemma no_forb_update f s l x : no_forb f s -> no_forb f (update_state s l x).
Proof. intros H r Hr. destruct (in_update_state _ _ _ _ Hr) as (r' & Hr' & E & _). rewrite E. apply H. exact Hr'. Qed.

Lemma add_no_forb f s h : no_forb f s -> no_forb f (fst (add f s h)).
Proof.
  intros Hs. rewrite add_is_explicit. unfold add_explicit.
  destruct (by_hash s (s_id h)) as [x|] eqn:Hnew; [exact Hs|].
  destruct (memN (s_id h) f) eqn:Hf; [exact Hs|].
  set (r0 := create_header s h).
  assert (Hid: id r0 = s_id h) by reflexivity.
  destruct (negb _).
  - cbn [fst]. intros r [<-|Hr]; [rewrite Hid; exact Hf| apply Hs; exact Hr].
  - destruct (tipB s) as [t|]; [|exact Hs].
    destruct (cum t <? cum r0); cbn [fst]; intros r [<-|Hr]; try (cbn [id set_st]; rewrite Hid; exact Hf).
    + revert r Hr. apply no_forb_update, no_forb_update, Hs.
    + apply Hs; exact Hr.
Qed.

Lemma run_from_no_forb f hs : forall s, no_forb f s -> no_forb f (run_from f s hs).
Proof.
  induction hs as [|h hs IH]; intros s Hs; [exact Hs|].
  unfold run_from in *. cbn [fold_left]. apply IH, add_no_forb, Hs.
Qed.

Lemma init_no_forb f gid gpl : memN gid f = false -> no_forb f (init gid gpl).
Proof. intros Hg r [<-|[]]. exact Hg. Qed.

Lemma no_forb_by_hash f s i : no_forb f s -> memN i f = true -> by_hash s i = None.
Proof.
  intros Hs Hi. destruct (by_hash s i) as [r|] eqn:E; [|reflexivity].
  destruct (by_hash_in _ _ _ E) as [Hin Hid]. specialize (Hs r Hin). congruence.
Qed.

Theorem forbidden_never_stored f gid gpl hs i :
  memN gid f = false -> memN i f = true -> by_hash (run f gid gpl hs) i = None.
Proof.
  intros Hg Hi. apply (no_forb_by_hash f); [|exact Hi].
  apply run_from_no_forb, init_no_forb, Hg.
Qed.

(* ... hence no read can return it: every read of the store returns rows of the store *)
Lemma no_forb_find f s p r : no_forb f s -> find p s = Some r -> memN (id r) f = false.
Proof. intros Hs H. apply find_some in H. apply Hs, H. Qed.

Theorem forbidden_never_read f s : no_forb f s ->
  (forall t, tipB s = Some t -> memN (id t) f = false) /\
  (forall h r, l_at s h = Some r -> memN (id r) f = false) /\
  (forall t r, In r (chain s t) -> memN (id r) f = false) /\
  (forall i, In i (locator s) -> memN i f = false).
Proof.
  intros Hs.
  assert (Hrev: no_forb f (rev s)) by (intros r Hr; apply Hs, in_rev, Hr).
  assert (Hl: forall h r, l_at s h = Some r -> memN (id r) f = false).
  { intros h r H. unfold l_at in H. exact (no_forb_find f _ _ _ Hrev H). }
  split; [|split; [exact Hl|split]].
  - intros t H. unfold tipB in H. exact (no_forb_find f _ _ _ Hrev H).
  - intros t r Hr. apply Hs. exact (chain_incl s t r Hr).
  - intros i Hi. unfold locator in Hi. destruct (tipB s) as [t|] eqn:Et; [|inversion Hi].
    destruct Hi as [<-|Hi]; [unfold tipB in Et; exact (no_forb_find f _ _ _ Hrev Et)|].
    revert Hi. generalize (height t) 1 1%nat. generalize (length s) as fuel.
    induction fuel as [|fu IH]; intros h step len Hi; [inversion Hi|].
    cbn [loc_from] in Hi. destruct (h =? 0); [inversion Hi|].
    destruct (l_at s (Z.max (h - step) 0)) as [r|] eqn:El; [|inversion Hi].
    destruct Hi as [<-|Hi]; [exact (Hl _ _ El)| exact (IH _ _ _ Hi)].
Qed.

Lemma rows_of_forbidden_absent f s : no_forb f s -> spec_forbidden_absent f (rows_of s) = true.
Proof.
  intros Hs. unfold spec_forbidden_absent, rows_of. apply forallb_forall. intros x Hx.
  apply in_map_iff in Hx. destruct Hx as (r & <- & Hr). cbn. rewrite (Hs r Hr). reflexivity.
Qed.

(* ------------------------------------------------------------------------------------------- *)
(* 2. the descendants of a forbidden header can only ever be orphans                            *)
(* ------------------------------------------------------------------------------------------- *)
Lemma wf_row_ok s : wf s -> forall r, In r s ->
  is_genesis r \/ exists pre older, s = pre ++ r :: older /\ row_ok older r.
Proof.
  induction 1 as [g Hg | a s Hwf IH Hn Hz Hok]; intros r Hr.
  - destruct Hr as [<-|[]]. left. exact Hg.
  - destruct Hr as [<-|Hr].
    + right. exists [], s. split; [reflexivity| exact Hok].
    + destruct (IH r Hr) as [Hg|(pre & older & E & Hrok)]; [left; exact Hg|].
      right. exists (a :: pre), older. split; [rewrite E; reflexivity| exact Hrok].
Qed.

Lemma forbidden_parent_orph f s r : wf s -> no_forb f s -> memN 0%N f = false ->
  In r s -> memN (prev r) f = true -> orph r = true.
Proof.
  intros Hwf Hs Hz Hr Hp.
  destruct (wf_row_ok s Hwf r Hr) as [Hg|(pre & older & E & Hok)].
  - destruct Hg as (Hp0 & _). rewrite Hp0 in Hp. congruence.
  - assert (Ho: no_forb f older). { intros x Hx. apply Hs. rewrite E. apply in_or_app. right. right. exact Hx. }
    unfold row_ok in Hok. rewrite (no_forb_by_hash f older (prev r) Ho Hp) in Hok. apply Hok.
Qed.

Theorem descendants_of_forbidden_orphan f gid gpl hs :
  gid <> 0%N -> positive_work hs -> nonzero_ids hs -> memN gid f = false -> memN 0%N f = false ->
  forall r, In r (run f gid gpl hs) -> memN (prev r) f = true -> st r = Orphan /\ orph r = true.
Proof.
  intros Hg Hp Hn Hgf Hzf r Hr Hpf.
  destruct (run_related f hs (init gid gpl) gid (init_inv2 gid gpl Hg) Hp Hn) as (tip' & [HI _] & _).
  fold (run f gid gpl hs) in HI.
  assert (Ho: orph r = true).
  { apply (forbidden_parent_orph f (run f gid gpl hs)); auto.
    - apply HI.
    - apply run_from_no_forb, init_no_forb, Hgf. }
  split; [|exact Ho]. apply (st_O_iff _ tip' r HI Hr). exact Ho.
Qed.

(* the same for every Valid store without forbidden rows (what the engines maintain) *)
Theorem descendants_orphan_valid f s : Valid s -> no_forb f s -> memN 0%N f = false ->
  spec_desc_orphan f (rows_of s) = true.
Proof.
  intros (tip & HI & _) Hs Hz. unfold spec_desc_orphan, rows_of. apply forallb_forall. intros x Hx.
  apply in_map_iff in Hx. destruct Hx as (r & <- & Hr). cbn.
  destruct (memN (prev r) f) eqn:Hp; [|reflexivity].
  assert (Ho: orph r = true) by (apply (forbidden_parent_orph f s); auto; apply HI).
  apply (st_O_iff _ tip r HI Hr) in Ho. rewrite Ho. reflexivity.
Qed.

(* an orphan stays an orphan: once stored, a row's label only changes between Longest and Stale *)
Theorem orphans_stay_orphans f s tip h r :
  Inv2 s tip -> 0 < calc_work (p_bits (s_pl h)) -> s_id h <> 0%N ->
  In r s -> st r = Orphan -> exists r', In r' (fst (add f s h)) /\ id r' = id r /\ st r' = Orphan.
Proof.
  intros HI2 Hw Hz Hr Hst.
  destruct (step_related f s tip h HI2 Hw Hz) as (tip' & HI' & Hd & _).
  assert (Hin: In (dummy r) (map dummy (fst (add f s h)))).
  { rewrite Hd. unfold spec_step. destruct (by_hash (map dummy s) (s_id h)); cbn [fst]; [apply in_map; exact Hr|].
    destruct (memN (s_id h) f); cbn [fst]; [apply in_map; exact Hr| right; apply in_map; exact Hr]. }
  apply in_map_iff in Hin. destruct Hin as (r' & E & Hr').
  exists r'. split; [exact Hr'|].
  assert (Eid: id r' = id r) by (apply (f_equal id) in E; exact E).
  assert (Eo: orph r' = orph r) by (apply (f_equal orph) in E; exact E).
  split; [exact Eid|].
  destruct HI2 as [HI _]. destruct HI' as [HI' _].
  apply (st_O_iff _ tip' r' HI' Hr'). rewrite Eo. apply (st_O_iff _ tip r HI Hr). exact Hst.
Qed.

(* ------------------------------------------------------------------------------------------- *)
(* 3. frame facts about the default engine's helpers                                            *)
(* ------------------------------------------------------------------------------------------- *)
Lemma disc_frame st p : let st' := fst (disc st p) in
  d_store st' = d_store st /\ d_next st' = d_next st /\ d_hfm st' = d_hfm st /\ d_sync st' = d_sync st /\ d_states st' = d_states st.
Proof. unfold disc. destruct (aget p (d_objs st)); cbn; auto. Qed.

Lemma send_gh_frame st p loc stop : let st' := fst (send_gh st p loc stop) in
  d_store st' = d_store st /\ d_next st' = d_next st /\ d_hfm st' = d_hfm st /\ d_sync st' = d_sync st /\ d_states st' = d_states st.
Proof.
  unfold send_gh. destruct (aget p (d_objs st)) as [o|]; cbn; auto.
  destruct (match po_ps o with Some s0 => _ | None => false end); cbn; auto.
Qed.

Lemma disc_connected st p o : aget p (d_objs st) = Some o -> po_conn o = true -> snd (disc st p) = [Disconnect p].
Proof. intros H Hc. unfold disc. rewrite H. cbn. rewrite Hc. reflexivity. Qed.

(* ------------------------------------------------------------------------------------------- *)
(* 4. the batch loops                                                                           *)
(* ------------------------------------------------------------------------------------------- *)
Lemma hloop_app f cps next pre : forall s rc fin rest,
  hloop f cps next s rc fin (pre ++ rest) =
  match hloop f cps next s rc fin pre with
  | HDone s1 rc1 fin1 => hloop f cps next s1 rc1 fin1 rest
  | other => other
  end.
Proof.
  induction pre as [|h pre IH]; intros s rc fin rest; [reflexivity|].
  cbn [app hloop]. destruct (add f s h) as [s' o]. destruct o as [x| | |]; try apply IH; try reflexivity.
  destruct next as [[H cid]|].
  - destruct (height (create_header s h) =? H).
    + destruct (N.eqb (s_id h) cid); [apply IH| reflexivity].
    + destruct (contradicts cps x (height (create_header s h)) (s_id h)); [reflexivity| apply IH].
  - destruct (contradicts cps x (height (create_header s h)) (s_id h)); [reflexivity| apply IH].
Qed.

Lemma eloop_app cfg pre : forall s cur n lasth rest,
  eloop cfg s cur n lasth (pre ++ rest) =
  match eloop cfg s cur n lasth pre with
  | EDoneL s1 cur1 n1 l1 => eloop cfg s1 cur1 n1 l1 rest
  | other => other
  end.
Proof.
  induction pre as [|h pre IH]; intros s cur n lasth rest; [reflexivity|].
  cbn [app eloop]. destruct (add (x_forb cfg) s h) as [s' o]. destruct o as [x| | |]; try apply IH; try reflexivity.
  destruct (contradicts (x_cps cfg) x (height (create_header s h)) (s_id h)); [reflexivity|].
  destruct x; try apply IH.
  destruct (verify_advance (x_cps cfg) cur (height (create_header s h)) (s_id h)); [apply IH| reflexivity].
Qed.

Definition hres_store (r : hres) : store := match r with HDone s _ _ | HBan s | HMismatch s => s end.
Lemma hloop_no_forb f cps next hs : forall s rc fin, no_forb f s -> no_forb f (hres_store (hloop f cps next s rc fin hs)).
Proof.
  induction hs as [|h hs IH]; intros s rc fin Hs; [exact Hs|].
  cbn [hloop]. pose proof (add_no_forb f s h Hs) as Hs'. destruct (add f s h) as [s' o]. cbn [fst] in Hs'.
  destruct o as [x| | |]; try (apply IH; exact Hs'); try exact Hs'.
  destruct next as [[H cid]|].
  - destruct (height (create_header s h) =? H).
    + destruct (N.eqb (s_id h) cid); [apply IH; exact Hs'| exact Hs'].
    + destruct (contradicts cps x (height (create_header s h)) (s_id h)); [exact Hs'| apply IH; exact Hs'].
  - destruct (contradicts cps x (height (create_header s h)) (s_id h)); [exact Hs'| apply IH; exact Hs'].
Qed.

Definition eres_store (r : eres) : store := match r with EDoneL s _ _ _ | EStop s _ => s end.
Lemma eloop_no_forb cfg hs : forall s cur n l, no_forb (x_forb cfg) s -> no_forb (x_forb cfg) (eres_store (eloop cfg s cur n l hs)).
Proof.
  induction hs as [|h hs IH]; intros s cur n l Hs; [exact Hs|].
  cbn [eloop]. pose proof (add_no_forb (x_forb cfg) s h Hs) as Hs'. destruct (add (x_forb cfg) s h) as [s' o]. cbn [fst] in Hs'.
  destruct o as [x| | |]; try (apply IH; exact Hs'); try exact Hs'.
  destruct (contradicts (x_cps cfg) x (height (create_header s h)) (s_id h)); [exact Hs'|].
  destruct x; try (apply IH; exact Hs').
  destruct (verify_advance (x_cps cfg) cur (height (create_header s h)) (s_id h)); [apply IH; exact Hs'| exact Hs'].
Qed.

(* ------------------------------------------------------------------------------------------- *)
(* 5. rejected_peer_dropped                                                                     *)
(* ------------------------------------------------------------------------------------------- *)
Theorem rejected_peer_dropped_default cfg st p c o pre h post s1 rc1 fin1 :
  aget p (d_states st) = Some c -> d_hfm st = true -> aget p (d_objs st) = Some o -> po_conn o = true ->
  hloop (c_forb cfg) (sm_cps cfg) (d_next st) (d_store st) false None pre = HDone s1 rc1 fin1 ->
  by_hash s1 (s_id h) = None -> memN (s_id h) (c_forb cfg) = true ->
  exists st', on_headers cfg st p (pre ++ h :: post) = (st', [Ban p; Disconnect p]) /\
    d_store st' = s1 /\ d_next st' = d_next st /\ d_hfm st' = d_hfm st /\ d_sync st' = d_sync st /\ d_states st' = d_states st.
Proof.
  intros Hst Hh Ho Hc Hpre Hnew Hf. unfold on_headers. rewrite Hst, Hh. cbn [negb].
  destruct (pre ++ h :: post) eqn:E; [destruct pre; discriminate|]. rewrite <- E. clear E.
  rewrite hloop_app, Hpre. cbn [hloop]. rewrite (add_forbidden _ _ _ Hnew Hf).
  pose proof (disc_frame (with_store st s1) p) as Hfr. pose proof (disc_connected (with_store st s1) p o Ho Hc) as He.
  destruct (disc (with_store st s1) p) as [st1 e1]. cbn [fst snd] in *. subst e1.
  exists st1. split; [reflexivity|]. cbn in Hfr. rewrite Hh in Hfr. exact Hfr.
Qed.

(* the store never holds a forbidden row, so "forbidden" alone decides *)
Corollary rejected_peer_dropped_default' cfg st p c o pre h post s1 rc1 fin1 :
  no_forb (c_forb cfg) (d_store st) ->
  aget p (d_states st) = Some c -> d_hfm st = true -> aget p (d_objs st) = Some o -> po_conn o = true ->
  hloop (c_forb cfg) (sm_cps cfg) (d_next st) (d_store st) false None pre = HDone s1 rc1 fin1 ->
  memN (s_id h) (c_forb cfg) = true ->
  exists st', on_headers cfg st p (pre ++ h :: post) = (st', [Ban p; Disconnect p]) /\
    d_store st' = s1 /\ d_next st' = d_next st /\ d_hfm st' = d_hfm st /\ d_sync st' = d_sync st /\ d_states st' = d_states st.
Proof.
  intros Hnf Hst Hh Ho Hc Hpre Hf.
  apply (rejected_peer_dropped_default cfg st p c o pre h post s1 rc1 fin1); auto.
  apply (no_forb_by_hash (c_forb cfg)); [|exact Hf].
  pose proof (hloop_no_forb (c_forb cfg) (sm_cps cfg) (d_next st) pre (d_store st) false None Hnf) as H. rewrite Hpre in H. exact H.
Qed.

Theorem rejected_peer_dropped_exp cfg p st pre h post s1 cur1 n1 l1 :
  e_conn st = true ->
  eloop cfg (e_store st) (e_cur st) O 0 pre = EDoneL s1 cur1 n1 l1 ->
  by_hash s1 (s_id h) = None -> memN (s_id h) (x_forb cfg) = true ->
  exists st', e_on_headers cfg p st (pre ++ h :: post) = (st', [Disconnect p]) /\
    e_store st' = s1 /\ e_conn st' = false /\ e_cur st' = cur1 /\ e_shm st' = e_shm st.
Proof.
  intros Hc Hpre Hnew Hf. unfold e_on_headers. rewrite eloop_app, Hpre. cbn [eloop].
  rewrite (add_forbidden _ _ _ Hnew Hf). rewrite Hc.
  eexists. split; [reflexivity|]. cbn. auto.
Qed.

(* ------------------------------------------------------------------------------------------- *)
(* 6. checkpoint mismatch: disconnect, no request                                               *)
(* ------------------------------------------------------------------------------------------- *)
Theorem checkpoint_mismatch_default cfg st p c o pre h post s1 rc1 fin1 H cid s2 x :
  aget p (d_states st) = Some c -> d_hfm st = true -> aget p (d_objs st) = Some o -> po_conn o = true ->
  hloop (c_forb cfg) (sm_cps cfg) (d_next st) (d_store st) false None pre = HDone s1 rc1 fin1 ->
  d_next st = Some (H, cid) ->
  add (c_forb cfg) s1 h = (s2, Stored x) -> height (create_header s1 h) = H -> s_id h <> cid ->
  exists st', on_headers cfg st p (pre ++ h :: post) = (st', [Disconnect p]) /\
    d_store st' = s2 /\ d_next st' = d_next st /\ d_hfm st' = d_hfm st /\ d_sync st' = d_sync st /\ d_states st' = d_states st.
Proof.
  intros Hst Hh Ho Hc Hpre Hn Ha Hht Hne. unfold on_headers. rewrite Hst, Hh. cbn [negb].
  destruct (pre ++ h :: post) eqn:E; [destruct pre; discriminate|]. rewrite <- E. clear E.
  rewrite hloop_app, Hpre. rewrite Hn. cbn [hloop]. rewrite Ha, Hht, Z.eqb_refl.
  destruct (N.eqb_spec (s_id h) cid) as [Ee|_]; [contradiction|].
  pose proof (disc_frame (with_store st s2) p) as Hfr. pose proof (disc_connected (with_store st s2) p o Ho Hc) as He.
  destruct (disc (with_store st s2) p) as [st1 e1]. cbn [fst snd] in *. subst e1.
  exists st1. split; [reflexivity|]. cbn in Hfr. rewrite Hn, Hh in Hfr. exact Hfr.
Qed.

Theorem checkpoint_mismatch_exp cfg p st pre h post s1 i H cid n1 l1 s2 :
  e_conn st = true ->
  eloop cfg (e_store st) (e_cur st) O 0 pre = EDoneL s1 (Some (i, (H, cid))) n1 l1 ->
  add (x_forb cfg) s1 h = (s2, Stored Longest) -> height (create_header s1 h) = H -> s_id h <> cid ->
  exists st', e_on_headers cfg p st (pre ++ h :: post) = (st', [Disconnect p]) /\ e_store st' = s2 /\ e_conn st' = false.
Proof.
  intros Hc Hpre Ha Hht Hne. unfold e_on_headers. rewrite eloop_app, Hpre. cbn [eloop]. rewrite Ha.
  destruct (contradicts (x_cps cfg) Longest (height (create_header s1 h)) (s_id h)); [rewrite Hc; eexists; split; [reflexivity|]; cbn; auto|].
  unfold verify_advance. rewrite Hht, Z.ltb_irrefl, Z.eqb_refl.
  destruct (N.eqb_spec (s_id h) cid) as [Ee|_]; [contradiction|]. rewrite Hc.
  eexists. split; [reflexivity|]. cbn. auto.
Qed.

(* a header ABOVE the expected checkpoint height on the longest chain is refused as well *)
Theorem above_checkpoint_exp cfg p st pre h post s1 i H cid n1 l1 s2 :
  e_conn st = true ->
  eloop cfg (e_store st) (e_cur st) O 0 pre = EDoneL s1 (Some (i, (H, cid))) n1 l1 ->
  add (x_forb cfg) s1 h = (s2, Stored Longest) -> H < height (create_header s1 h) ->
  exists st', e_on_headers cfg p st (pre ++ h :: post) = (st', [Disconnect p]) /\ e_store st' = s2 /\ e_conn st' = false.
Proof.
  intros Hc Hpre Ha Hht. unfold e_on_headers. rewrite eloop_app, Hpre. cbn [eloop]. rewrite Ha.
  destruct (contradicts (x_cps cfg) Longest (height (create_header s1 h)) (s_id h)); [rewrite Hc; eexists; split; [reflexivity|]; cbn; auto|].
  unfold verify_advance.
  destruct (Z.ltb_spec (height (create_header s1 h)) H) as [Hlt|_]; [lia|].
  destruct (Z.eqb_spec (height (create_header s1 h)) H) as [He|_]; [lia|]. rewrite Hc.
  eexists. split; [reflexivity|]. cbn. auto.
Qed.

(* ------------------------------------------------------------------------------------------- *)
(* 7. cursor_spec: both cursors compute "the least checkpoint with height > h" on sorted lists  *)
(* ------------------------------------------------------------------------------------------- *)
Fixpoint sorted (l : list cp) : Prop :=
  match l with [] => True | c :: r => (forall d, In d r -> fst c < fst d) /\ sorted r end.

Lemma find_app {A} (p : A -> bool) a b : find p (a ++ b) = match find p a with Some x => Some x | None => find p b end.
Proof. induction a as [|x a IH]; [reflexivity|]. cbn. destruct (p x); [reflexivity| exact IH]. Qed.

Lemma sorted_app_last l a : sorted (l ++ [a]) -> sorted l /\ forall d, In d l -> fst d < fst a.
Proof.
  induction l as [|c l IH]; intros H; [split; [exact I| intros d []]|].
  cbn in H. destruct H as [Hc Hs]. destruct (IH Hs) as [Hsl Hlt]. split.
  - cbn. split; [|exact Hsl]. intros d Hd. apply Hc. apply in_or_app. left. exact Hd.
  - intros d [<-|Hd]; [apply Hc; apply in_or_app; right; left; reflexivity| apply Hlt; exact Hd].
Qed.

Lemma find_none_below (l : list cp) h : (forall d, In d l -> fst d <= h) -> find (fun c => h <? fst c) l = None.
Proof.
  intros H. induction l as [|c l IH]; [reflexivity|]. cbn.
  destruct (Z.ltb_spec h (fst c)) as [Hlt|_]; [specialize (H c (or_introl eq_refl)); lia|].
  apply IH. intros d Hd. apply H. right. exact Hd.
Qed.

Lemma scan_back_spec init : forall acc h, sorted (init ++ [acc]) -> h < fst acc ->
  find (fun c => h <? fst c) (init ++ [acc]) = Some (scan_back (rev init) h acc).
Proof.
  induction init as [|c init IH] using rev_ind; intros acc h Hs Hlt.
  - cbn. destruct (Z.ltb_spec h (fst acc)); [reflexivity| lia].
  - rewrite rev_app_distr. cbn [rev app scan_back].
    destruct (sorted_app_last _ _ Hs) as [Hs1 Hall].
    destruct (Z.leb_spec (fst c) h) as [Hle|Hgt].
    + rewrite find_app. rewrite find_none_below.
      * cbn. destruct (Z.ltb_spec h (fst acc)); [reflexivity| lia].
      * intros d Hd. apply in_app_or in Hd. destruct Hd as [Hd|[<-|[]]]; [|lia].
        destruct (sorted_app_last _ _ Hs1) as [_ Hlt2]. specialize (Hlt2 d Hd). lia.
    + rewrite find_app. rewrite (IH c h Hs1 Hgt). reflexivity.
Qed.

Theorem find_next_d_spec cps h : sorted cps -> find_next_d cps h = least_above cps h.
Proof.
  intros Hs. unfold find_next_d, least_above.
  destruct cps as [|c0 cps0] using rev_ind; [reflexivity|]. clear IHcps0.
  rewrite rev_app_distr. cbn [rev app].
  destruct (sorted_app_last _ _ Hs) as [Hs1 Hall].
  destruct (Z.leb_spec (fst c0) h) as [Hle|Hgt].
  - symmetry. apply find_none_below. intros d Hd. apply in_app_or in Hd. destruct Hd as [Hd|[<-|[]]]; [|lia].
    specialize (Hall d Hd). lia.
  - symmetry. apply scan_back_spec; assumption.
Qed.

(* the experimental cursor *)
Lemma search_from_find k cps h : option_map snd (search_from k cps h) = least_above cps h.
Proof.
  unfold least_above. revert k. induction cps as [|c cps IH]; intros k; [reflexivity|]. cbn.
  destruct (h <? fst c); [reflexivity| apply IH].
Qed.

Lemma search_from_index cps : forall k h j c, search_from k cps h = Some (j, c) -> (k <= j)%nat /\ nth_error cps (j - k) = Some c.
Proof.
  induction cps as [|a cps IH]; intros k h j c H; [discriminate|]. cbn in H.
  destruct (h <? fst a).
  - inversion H; subst. split; [lia|]. rewrite Nat.sub_diag. reflexivity.
  - destruct (IH _ _ _ _ H) as [Hle Hn]. split; [lia|].
    replace (j - k)%nat with (S (j - S k)) by lia. exact Hn.
Qed.

Lemma sorted_le_last cps d : sorted cps -> In d cps -> fst d <= final_height cps.
Proof.
  unfold final_height. induction cps as [|c cps IH]; intros Hs Hd; [inversion Hd|].
  destruct Hs as [Hc Hs]. destruct cps as [|c2 cps2].
  - destruct Hd as [<-|[]]. cbn. lia.
  - change (last (c :: c2 :: cps2) (0, 0%N)) with (last (c2 :: cps2) (0, 0%N)).
    destruct Hd as [<-|Hd]; [|apply IH; assumption].
    assert (Hin: In (last (c2 :: cps2) (0, 0%N)) (c2 :: cps2)) by (apply last_in; discriminate).
    specialize (Hc _ Hin). lia.
Qed.

Theorem new_cursor_spec cps h : sorted cps -> new_cursor cps h = search_from 0 cps h.
Proof.
  intros Hs. unfold new_cursor, next_e. destruct cps as [|c cps]; [reflexivity|].
  destruct (Z.leb_spec (final_height (c :: cps)) h) as [Hle|_]; [|reflexivity].
  pose proof (search_from_find 0 (c :: cps) h) as Hf. unfold least_above in Hf.
  rewrite find_none_below in Hf.
  - destruct (search_from 0 (c :: cps) h); [discriminate| reflexivity].
  - intros d Hd. pose proof (sorted_le_last _ d Hs Hd). lia.
Qed.

Lemma search_from_after cps : forall k i c, sorted cps -> nth_error cps i = Some c ->
  search_from k cps (fst c) = match nth_error cps (S i) with Some c' => Some ((k + S i)%nat, c') | None => None end.
Proof.
  induction cps as [|a cps IH]; intros k i c Hs Hn; [destruct i; discriminate|].
  destruct Hs as [Ha Hs]. destruct i as [|i]; cbn [nth_error] in Hn.
  - inversion Hn; subst a. cbn [search_from]. rewrite Z.ltb_irrefl.
    destruct cps as [|b cps]; [reflexivity|]. cbn.
    destruct (Z.ltb_spec (fst c) (fst b)) as [_|Hge]; [replace (k + 1)%nat with (S k) by lia; reflexivity|].
    specialize (Ha b (or_introl eq_refl)). lia.
  - cbn [search_from]. assert (Hin: In c cps) by (eapply nth_error_In; eauto).
    destruct (Z.ltb_spec (fst c) (fst a)) as [Hlt|_]; [specialize (Ha c Hin); lia|].
    rewrite (IH (S k) i c Hs Hn). replace (S k + S i)%nat with (k + S (S i))%nat by lia. reflexivity.
Qed.

(* the index+1 shortcut equals the search, under the cursor invariant (the cursor points INTO the list) *)
Definition cur_ok (cps : list cp) (cur : cursor) : Prop :=
  match cur with Some (i, c) => nth_error cps i = Some c | None => True end.

Lemma sorted_nth_lt l : forall i c c', sorted l -> nth_error l i = Some c -> nth_error l (S i) = Some c' -> fst c < fst c'.
Proof.
  induction l as [|a l IHl]; intros j c c' Hsl H1 H2; [destruct j; discriminate|].
  destruct Hsl as [Ha Hsl]. destruct j as [|j]; cbn [nth_error] in H1.
  - inversion H1; subst a. apply Ha. apply (nth_error_In l 0). exact H2.
  - apply (IHl j c c' Hsl H1 H2).
Qed.

Theorem next_e_spec cps i c : sorted cps -> nth_error cps i = Some c ->
  next_e cps (Some (i, c)) (fst c) = search_from 0 cps (fst c).
Proof.
  intros Hs Hn. rewrite (search_from_after cps 0 i c Hs Hn). unfold next_e.
  destruct cps as [|c0 cps0]; [destruct i; discriminate|].
  destruct (Z.leb_spec (final_height (c0 :: cps0)) (fst c)) as [Hle|Hgt].
  - (* c is the final checkpoint: nothing follows *)
    destruct (nth_error (c0 :: cps0) (S i)) as [c'|] eqn:En; [|reflexivity]. exfalso.
    pose proof (sorted_nth_lt _ i c c' Hs Hn En) as Hlt.
    assert (Hin': In c' (c0 :: cps0)) by (eapply nth_error_In; eauto).
    pose proof (sorted_le_last _ c' Hs Hin') as Hll. lia.
  - destruct (nth_error (c0 :: cps0) (S i)); reflexivity.
Qed.

Theorem cursor_spec cps : sorted cps ->
  (forall h, find_next_d cps h = least_above cps h) /\
  (forall h, option_map snd (new_cursor cps h) = least_above cps h) /\
  (forall i c, nth_error cps i = Some c -> option_map snd (next_e cps (Some (i, c)) (fst c)) = least_above cps (fst c)) /\
  (forall cur h, cur_ok cps cur -> (match cur with Some (_, c) => h = fst c | None => True end) -> cur_ok cps (next_e cps cur h)).
Proof.
  intros Hs. split; [intros h; apply find_next_d_spec; exact Hs|]. split; [|split].
  - intros h. rewrite (new_cursor_spec cps h Hs). apply search_from_find.
  - intros i c Hn. rewrite (next_e_spec cps i c Hs Hn). apply search_from_find.
  - intros cur h Hok Hh. destruct cur as [[i c]|].
    + subst h. rewrite (next_e_spec cps i c Hs Hok).
      destruct (search_from 0 cps (fst c)) as [[j c']|] eqn:E; [|exact I].
      destruct (search_from_index _ _ _ _ _ E) as [_ Hn]. cbn. rewrite Nat.sub_0_r in Hn. exact Hn.
    + fold (new_cursor cps h). rewrite (new_cursor_spec cps h Hs).
      destruct (search_from 0 cps h) as [[j c']|] eqn:E; [|exact I].
      destruct (search_from_index _ _ _ _ _ E) as [_ Hn]. cbn. rewrite Nat.sub_0_r in Hn. exact Hn.
Qed.

(* ------------------------------------------------------------------------------------------- *)
(* 8. checkpoint_match_advances                                                                 *)
(* ------------------------------------------------------------------------------------------- *)
(* default engine: a batch in which the expected checkpoint was received (and some header joined the longest chain)
   moves nextCheckpoint to findNextHeaderCheckpoint(its height) and asks for the next stretch: from the checkpoint up
   to the next one, or - after the last one - from the tip with the zero stop hash *)
Theorem checkpoint_match_advances_default cfg st p c hs s' fh H cid :
  aget p (d_states st) = Some c -> d_hfm st = true -> hs <> [] ->
  d_next st = Some (H, cid) ->
  hloop (c_forb cfg) (sm_cps cfg) (d_next st) (d_store st) false None hs = HDone s' true (Some fh) ->
  on_headers cfg st p hs =
  match find_next_d (c_cps cfg) H with
  | Some (H', c') => send_gh (with_next (with_store st s') (Some (H', c'))) p [cid] c'
  | None => send_gh (with_next (with_store st s') None) p (locator s') 0%N
  end.
Proof.
  intros Hst Hh Hne Hn Hl. unfold on_headers. rewrite Hst, Hh. cbn [negb].
  destruct hs as [|h0 hs0]; [contradiction|]. rewrite Hl, Hn. reflexivity.
Qed.

(* ... and on a sorted list that is the least checkpoint above the matched one *)
Corollary checkpoint_match_advances_default_least cfg st p c hs s' fh H cid :
  sorted (c_cps cfg) ->
  aget p (d_states st) = Some c -> d_hfm st = true -> hs <> [] ->
  d_next st = Some (H, cid) ->
  hloop (c_forb cfg) (sm_cps cfg) (d_next st) (d_store st) false None hs = HDone s' true (Some fh) ->
  d_next (fst (on_headers cfg st p hs)) = least_above (c_cps cfg) H.
Proof.
  intros Hs Hst Hh Hne Hn Hl.
  rewrite (checkpoint_match_advances_default cfg st p c hs s' fh H cid Hst Hh Hne Hn Hl).
  rewrite <- (find_next_d_spec _ H Hs).
  destruct (find_next_d (c_cps cfg) H) as [[H' c']|].
  - destruct (send_gh_frame (with_next (with_store st s') (Some (H', c'))) p [cid] c') as (_ & E & _). exact E.
  - destruct (send_gh_frame (with_next (with_store st s') None) p (locator s') 0%N) as (_ & E & _). exact E.
Qed.

(* when the flag was raised, the checkpoint header itself was in the batch *)
Lemma hloop_received f cps H cid hs : forall s rc fin s' fin',
  hloop f cps (Some (H, cid)) s rc fin hs = HDone s' true fin' -> rc = false -> exists h, In h hs /\ s_id h = cid.
Proof.
  induction hs as [|h hs IH]; intros s rc fin s' fin' Hl Hrc; [cbn in Hl; inversion Hl; congruence|].
  cbn [hloop] in Hl. destruct (add f s h) as [s1 o]. destruct o as [x| | |]; try discriminate.
  - destruct (height (create_header s h) =? H).
    + destruct (N.eqb_spec (s_id h) cid) as [E|_]; [|discriminate]. exists h. split; [left; reflexivity| exact E].
    + destruct (contradicts cps x (height (create_header s h)) (s_id h)); [discriminate|].
      destruct (IH _ _ _ _ _ Hl Hrc) as (h' & Hin & E). exists h'. split; [right; exact Hin| exact E].
  - destruct (IH _ _ _ _ _ Hl Hrc) as (h' & Hin & E). exists h'. split; [right; exact Hin| exact E].
  - destruct (IH _ _ _ _ _ Hl Hrc) as (h' & Hin & E). exists h'. split; [right; exact Hin| exact E].
Qed.

(* with no checkpoint left every further request is unbounded (zero stop hash) *)
Theorem no_checkpoint_left_zero_stop cfg st p c hs s' rc fh :
  aget p (d_states st) = Some c -> d_hfm st = true -> hs <> [] -> d_next st = None ->
  hloop (c_forb cfg) (sm_cps cfg) None (d_store st) false None hs = HDone s' rc (Some fh) ->
  on_headers cfg st p hs = send_gh (with_store st s') p (locator s') 0%N.
Proof.
  intros Hst Hh Hne Hn Hl. unfold on_headers. rewrite Hst, Hh, Hn. cbn [negb].
  destruct hs as [|h0 hs0]; [contradiction|]. rewrite Hl. destruct rc; reflexivity.
Qed.

(* experimental engine: the matching header moves the cursor to the least checkpoint above it *)
Theorem checkpoint_match_advances_exp cps i H cid : sorted cps -> nth_error cps i = Some (H, cid) ->
  exists cur', verify_advance cps (Some (i, (H, cid))) H cid = VOk cur' /\
               option_map snd cur' = least_above cps H /\ cur_ok cps cur'.
Proof.
  intros Hs Hn. unfold verify_advance. rewrite Z.ltb_irrefl, Z.eqb_refl, N.eqb_refl.
  eexists. split; [reflexivity|]. destruct (cursor_spec cps Hs) as (_ & _ & H3 & H4). split.
  - exact (H3 i (H, cid) Hn).
  - apply (H4 (Some (i, (H, cid))) H); [exact Hn| reflexivity].
Qed.

(* the request of the experimental engine carries the cursor's hash, the zero hash when none is left *)
Theorem request_stop_exp p cur s : exists loc,
  e_request p cur s = [GetHeaders p loc (match cur with Some (_, (_, cid)) => cid | None => 0%N end)].
Proof. destruct cur as [[i [H cid]]|]; eexists; reflexivity. Qed.

(* ------------------------------------------------------------------------------------------- *)
(* 9. over all event sequences: the engines never store a forbidden hash                        *)
(* ------------------------------------------------------------------------------------------- *)
Lemma start_sync_store cfg hint st : d_store (fst (start_sync cfg hint st)) = d_store st.
Proof.
  unfold start_sync. destruct (d_sync st); [reflexivity|].
  match goal with |- context [match ?pk with Some p => _ | None => _ end] => destruct pk as [p|] end; [|reflexivity].
  cbv zeta.
  match goal with |- context [let '(a, b) := ?X in _] => destruct X as [st1 e1] eqn:E end. cbn [fst].
  change (d_store (with_sync st1 (Some p))) with (d_store st1).
  destruct (d_next (with_states st _)) as [[H cid]|] eqn:En.
  - destruct (tip_height (d_store st) <? H).
    + match type of E with send_gh ?a ?b ?c ?d = _ => pose proof (send_gh_frame a b c d) as Hf end. rewrite E in Hf. cbn in Hf. apply Hf.
    + match type of E with send_gh ?a ?b ?c ?d = _ => pose proof (send_gh_frame a b c d) as Hf end. rewrite E in Hf. cbn in Hf. apply Hf.
  - match type of E with send_gh ?a ?b ?c ?d = _ => pose proof (send_gh_frame a b c d) as Hf end. rewrite E in Hf. cbn in Hf. apply Hf.
Qed.

Lemma update_sync_peer_store cfg hint st : d_store (fst (update_sync_peer cfg hint st)) = d_store st.
Proof.
  unfold update_sync_peer. destruct (d_sync st) as [sp|]; [|reflexivity].
  pose proof (disc_frame st sp) as Hd. destruct (disc st sp) as [st1 e1]. cbn [fst] in Hd.
  pose proof (start_sync_store cfg hint (with_sync st1 None)) as Hs.
  destruct (start_sync cfg hint (with_sync st1 None)) as [st2 e2]. cbn [fst] in *. rewrite Hs. cbn. apply Hd.
Qed.

Lemma on_headers_no_forb cfg st p hs : no_forb (c_forb cfg) (d_store st) -> no_forb (c_forb cfg) (d_store (fst (on_headers cfg st p hs))).
Proof.
  intros Hs. unfold on_headers. destruct (aget p (d_states st)); [|exact Hs].
  destruct (negb (d_hfm st)); [destruct (disc_frame st p) as (E & _); rewrite E; exact Hs|].
  destruct hs as [|h0 hs0]; [exact Hs|].
  pose proof (hloop_no_forb (c_forb cfg) (sm_cps cfg) (d_next st) (h0 :: hs0) (d_store st) false None Hs) as Hl.
  destruct (hloop (c_forb cfg) (sm_cps cfg) (d_next st) (d_store st) false None (h0 :: hs0)) as [s' rc fin|s'|s']; cbn [hres_store] in Hl.
  - destruct fin as [fh|]; [|exact Hl].
    destruct (if rc then d_next st else None) as [[H cid]|].
    + destruct (find_next_d (c_cps cfg) H) as [[H' c']|].
      * match goal with |- context [send_gh ?a ?b ?c ?d] => destruct (send_gh_frame a b c d) as (E & _) end. rewrite E. exact Hl.
      * match goal with |- context [send_gh ?a ?b ?c ?d] => destruct (send_gh_frame a b c d) as (E & _) end. rewrite E. exact Hl.
    + destruct (d_next st) as [[H c]|].
      * match goal with |- context [send_gh ?a ?b ?c ?d] => destruct (send_gh_frame a b c d) as (E & _) end. rewrite E. exact Hl.
      * match goal with |- context [send_gh ?a ?b ?c ?d] => destruct (send_gh_frame a b c d) as (E & _) end. rewrite E. exact Hl.
  - pose proof (disc_frame (with_store st s') p) as (E & _). destruct (disc (with_store st s') p) as [st1 e1]. cbn [fst] in *. rewrite E. exact Hl.
  - destruct (disc_frame (with_store st s') p) as (E & _). rewrite E. exact Hl.
Qed.

Lemma on_inv_store cfg st p l : d_store (fst (on_inv cfg st p l)) = d_store st.
Proof.
  unfold on_inv. destruct (aget p (d_states st)); [|reflexivity].
  destruct (_ && _); [reflexivity|]. destruct (current cfg st) as [cur|]; [|reflexivity].
  destruct (_ && _); [reflexivity|]. destruct (last_block l) as [h|]; [|reflexivity].
  destruct (if cur then by_hash (d_store st) h else None).
  - destruct (aget p (d_objs st)); reflexivity.
  - apply send_gh_frame.
Qed.

Lemma d_step_store_other cfg hint st e : (forall p hs, e <> EHeaders p hs) -> d_store (fst (d_step cfg hint st e)) = d_store st.
Proof.
  intros Hne. destruct e as [p cand lb|p hs|p l|p|aged|p cand lb]; cbn [d_step].
  - unfold on_new_peer. destruct (_ && _); [|reflexivity]. rewrite start_sync_store. reflexivity.
  - exfalso. apply (Hne p hs). reflexivity.
  - apply on_inv_store.
  - unfold on_done. destruct (aget p (d_states st)); [|reflexivity].
    destruct (opt_eqb (d_sync st) p); [|reflexivity]. rewrite update_sync_peer_store. reflexivity.
  - unfold on_tick. destruct (d_sync st) as [sp|]; [|reflexivity]. destruct (negb aged); [reflexivity|].
    destruct (_ =? _); [reflexivity|]. destruct (aget sp (d_states st)); [|reflexivity]. apply update_sync_peer_store.
  - unfold on_new_peer_gone. destruct (_ && _); [|reflexivity]. rewrite start_sync_store. reflexivity.
Qed.

Theorem d_step_no_forb cfg hint st e : no_forb (c_forb cfg) (d_store st) -> no_forb (c_forb cfg) (d_store (fst (d_step cfg hint st e))).
Proof.
  intros Hs. destruct e as [p cand lb|p hs|p l|p|aged|p cand lb]; try (rewrite d_step_store_other; [exact Hs| intros; discriminate]).
  apply on_headers_no_forb. exact Hs.
Qed.

(* any sequence of events (with any sync-peer choices), from any store without forbidden rows *)
Fixpoint d_run (cfg : dcfg) (st : dstate) (evs : list (N * devent)) : dstate :=
  match evs with [] => st | (hint, e) :: r => d_run cfg (fst (d_step cfg hint st e)) r end.

Theorem forbidden_never_stored_default cfg s evs i :
  no_forb (c_forb cfg) s -> memN i (c_forb cfg) = true -> by_hash (d_store (d_run cfg (d_init cfg s) evs)) i = None.
Proof.
  intros Hs Hi. apply (no_forb_by_hash (c_forb cfg)); [|exact Hi].
  assert (H0: no_forb (c_forb cfg) (d_store (d_init cfg s))) by exact Hs.
  revert H0. generalize (d_init cfg s). induction evs as [|[hint e] evs IH]; intros st Hst; [exact Hst|].
  cbn [d_run]. apply IH. apply d_step_no_forb. exact Hst.
Qed.

Theorem e_step_no_forb cfg p st e : no_forb (x_forb cfg) (e_store st) -> no_forb (x_forb cfg) (e_store (fst (e_step cfg p st e))).
Proof.
  intros Hs. destruct e as [hs|l|]; cbn [e_step].
  - unfold e_on_headers. pose proof (eloop_no_forb cfg hs (e_store st) (e_cur st) O 0 Hs) as Hl.
    destruct (eloop cfg (e_store st) (e_cur st) 0 0 hs) as [s' cur' n lasth|s' cur']; cbn [eres_store] in Hl; [|exact Hl].
    destruct n; [exact Hl|]. destruct (e_shm st); [exact Hl|]. destruct (_ =? _); exact Hl.
  - unfold e_on_inv. destruct (negb (e_sc st)); [exact Hs|]. destruct (last_block l); [|exact Hs].
    destruct (by_hash (e_store st) n); exact Hs.
  - unfold e_on_getheaders. destruct (negb (e_sc st)); exact Hs.
Qed.

Fixpoint e_run (cfg : ecfg) (p : N) (st : estate) (evs : list xevent) : estate :=
  match evs with [] => st | e :: r => e_run cfg p (fst (e_step cfg p st e)) r end.

Theorem forbidden_never_stored_exp cfg p lb s evs i :
  no_forb (x_forb cfg) s -> memN i (x_forb cfg) = true -> by_hash (e_store (e_run cfg p (fst (e_start cfg p lb s)) evs)) i = None.
Proof.
  intros Hs Hi. apply (no_forb_by_hash (x_forb cfg)); [|exact Hi].
  assert (H0: no_forb (x_forb cfg) (e_store (fst (e_start cfg p lb s)))) by exact Hs.
  revert H0. generalize (fst (e_start cfg p lb s)). induction evs as [|e evs IH]; intros st Hst; [exact Hst|].
  cbn [e_run]. apply IH. apply e_step_no_forb. exact Hst.
Qed.

(* ------------------------------------------------------------------------------------------- *)
(* 10. a forbidden hash is refused EVERY time it is submitted                                   *)
(*     (it is never stored, so the duplicate check - the only answer that precedes the         *)
(*     forbidden-list check - can never fire for it; there is no other memory of past hashes)   *)
(* ------------------------------------------------------------------------------------------- *)
Theorem forbidden_always_refused f gid gpl hs h : memN gid f = false -> memN (s_id h) f = true ->
  plan f (run f gid gpl hs) h = (Forbidden, []) /\ add f (run f gid gpl hs) h = (run f gid gpl hs, Forbidden).
Proof.
  intros Hg Hf. pose proof (forbidden_never_stored f gid gpl hs (s_id h) Hg Hf) as Hn.
  split; [unfold plan; rewrite Hn, Hf; reflexivity| apply add_forbidden; assumption].
Qed.

Lemma outcomes_app f pre : forall s rest, outcomes f s (pre ++ rest) = outcomes f s pre ++ outcomes f (run_from f s pre) rest.
Proof.
  induction pre as [|h pre IH]; intros s rest; [reflexivity|].
  cbn [app outcomes]. unfold run_from. cbn [fold_left]. destruct (add f s h) as [s' o] eqn:E. cbn [fst].
  fold (run_from f s' pre). rewrite IH. reflexivity.
Qed.

Lemma outcomes_length f hs : forall s, length (outcomes f s hs) = length hs.
Proof. induction hs as [|h hs IH]; intros s; [reflexivity|]. cbn [outcomes]. destruct (add f s h). cbn. rewrite IH. reflexivity. Qed.

(* in ANY history - in particular one that already contains the same hash any number of times - the submission is answered Forbidden *)
Theorem forbidden_every_time f gid gpl pre h post : memN gid f = false -> memN (s_id h) f = true ->
  nth (length pre) (outcomes f (init gid gpl) (pre ++ h :: post)) ErrNoTip = Forbidden.
Proof.
  intros Hg Hf. rewrite outcomes_app. rewrite app_nth2; rewrite outcomes_length; [|lia]. rewrite Nat.sub_diag.
  cbn [outcomes nth]. fold (run f gid gpl pre). destruct (forbidden_always_refused f gid gpl pre h Hg Hf) as [_ Ea]. rewrite Ea. reflexivity.
Qed.

(* the engines: after ANY sequence of events the store holds no forbidden row, so the sender of a forbidden header is dropped
   at any later time too - a second, third ... delivery of the same hash by whichever peer *)
Lemma d_run_no_forb cfg evs : forall st, no_forb (c_forb cfg) (d_store st) -> no_forb (c_forb cfg) (d_store (d_run cfg st evs)).
Proof. induction evs as [|[hint e] evs IH]; intros st Hst; [exact Hst|]. cbn [d_run]. apply IH, d_step_no_forb, Hst. Qed.

Theorem rejected_peer_dropped_every_time cfg s0 evs p c o pre h post s1 rc1 fin1 :
  no_forb (c_forb cfg) s0 ->
  let st := d_run cfg (d_init cfg s0) evs in
  aget p (d_states st) = Some c -> d_hfm st = true -> aget p (d_objs st) = Some o -> po_conn o = true ->
  hloop (c_forb cfg) (sm_cps cfg) (d_next st) (d_store st) false None pre = HDone s1 rc1 fin1 ->
  memN (s_id h) (c_forb cfg) = true ->
  exists st', on_headers cfg st p (pre ++ h :: post) = (st', [Ban p; Disconnect p]) /\ d_store st' = s1.
Proof.
  intros Hs st Hst Hh Ho Hc Hpre Hf.
  assert (Hnf: no_forb (c_forb cfg) (d_store st)) by (apply d_run_no_forb; exact Hs).
  destruct (rejected_peer_dropped_default' cfg st p c o pre h post s1 rc1 fin1 Hnf Hst Hh Ho Hc Hpre Hf) as (st' & E & Es & _).
  exists st'. auto.
Qed.

(* ------------------------------------------------------------------------------------------- *)
(* 11. every configured checkpoint is enforced, not only the cursor's (fc399a8, a26f54a)        *)
(*     History: before these commits the default engine compared only the checkpoint its cursor pointed at - a branch
       contradicting an already PASSED checkpoint that overtook the tip was adopted with its sender kept
       (passed_checkpoint_fork_adopted_refuted, a vm_compute witness on the old model) - and the experimental engine compared
       only longest-chain headers, so a stale contradicting header kept its sender.                                      *)
(* ------------------------------------------------------------------------------------------- *)
Lemma contradicts_spec cps x hh i : contradicts cps x hh i = true <->
  x <> Orphan /\ exists c, In c cps /\ fst c = hh /\ snd c <> i.
Proof.
  unfold contradicts. rewrite andb_true_iff, negb_true_iff, existsb_exists. split.
  - intros [Hx (c & Hc & Hb)]. apply andb_true_iff in Hb. destruct Hb as [Hh Hn]. apply Z.eqb_eq in Hh. apply negb_true_iff in Hn.
    split; [intros E; subst x; discriminate|]. exists c. split; [exact Hc|]. split; [exact Hh|]. intros E. rewrite E, N.eqb_refl in Hn. discriminate.
  - intros [Hx (c & Hc & Hh & Hn)]. split; [destruct x; try reflexivity; contradiction|].
    exists c. split; [exact Hc|]. apply andb_true_iff. split; [apply Z.eqb_eq; exact Hh|]. apply negb_true_iff. apply N.eqb_neq. exact Hn.
Qed.

(* a list with one checkpoint per height (every sorted list is one) *)
Definition cps_functional (cps : list cp) : Prop := forall c1 c2, In c1 cps -> In c2 cps -> fst c1 = fst c2 -> c1 = c2.
(* the cursor is an entry of the manager's list - an invariant of every reachable state (cursor_in_reachable below) *)
Definition cursor_in (cfg : dcfg) (st : dstate) : Prop := forall c, d_next st = Some c -> In c (sm_cps cfg).

(* default engine: ANY batch, ANY state in which the sender is known and connected: a header that Add stores as a non-orphan at
   the height of ANY checkpoint of the manager's list with another hash -> exactly [Disconnect p], nothing requested, the rest
   of the batch not ingested; the cursor and the sync peer are untouched *)
Theorem checkpoint_contradiction_any_checkpoint_default cfg st p c o pre h post s1 rc1 fin1 s2 x cp0 :
  cps_functional (sm_cps cfg) -> cursor_in cfg st ->
  aget p (d_states st) = Some c -> d_hfm st = true -> aget p (d_objs st) = Some o -> po_conn o = true ->
  hloop (c_forb cfg) (sm_cps cfg) (d_next st) (d_store st) false None pre = HDone s1 rc1 fin1 ->
  add (c_forb cfg) s1 h = (s2, Stored x) -> x <> Orphan ->
  In cp0 (sm_cps cfg) -> fst cp0 = height (create_header s1 h) -> snd cp0 <> s_id h ->
  exists st', on_headers cfg st p (pre ++ h :: post) = (st', [Disconnect p]) /\
    d_store st' = s2 /\ d_next st' = d_next st /\ d_hfm st' = d_hfm st /\ d_sync st' = d_sync st /\ d_states st' = d_states st.
Proof.
  intros Hfun Hcur Hst Hh Ho Hc Hpre Ha Hx Hin Hht Hne. unfold on_headers. rewrite Hst, Hh. cbn [negb].
  destruct (pre ++ h :: post) eqn:E; [destruct pre; discriminate|]. rewrite <- E. clear E.
  rewrite hloop_app, Hpre. cbn [hloop]. rewrite Ha.
  assert (Hcon: contradicts (sm_cps cfg) x (height (create_header s1 h)) (s_id h) = true).
  { apply contradicts_spec. split; [exact Hx|]. exists cp0. auto. }
  assert (Hres: (match d_next st with
                 | Some (H, cid) =>
                   if height (create_header s1 h) =? H
                   then (if N.eqb (s_id h) cid then hloop (c_forb cfg) (sm_cps cfg) (d_next st) s2 true (match x with Longest => Some (s_id h) | _ => fin1 end) post else HMismatch s2)
                   else if contradicts (sm_cps cfg) x (height (create_header s1 h)) (s_id h) then HMismatch s2
                   else hloop (c_forb cfg) (sm_cps cfg) (d_next st) s2 rc1 (match x with Longest => Some (s_id h) | _ => fin1 end) post
                 | None => if contradicts (sm_cps cfg) x (height (create_header s1 h)) (s_id h) then HMismatch s2
                           else hloop (c_forb cfg) (sm_cps cfg) (d_next st) s2 rc1 (match x with Longest => Some (s_id h) | _ => fin1 end) post
                 end) = HMismatch s2).
  { destruct (d_next st) as [[H cid]|] eqn:En; [|rewrite Hcon; reflexivity].
    destruct (Z.eqb_spec (height (create_header s1 h)) H) as [EH|_]; [|rewrite Hcon; reflexivity].
    destruct (N.eqb_spec (s_id h) cid) as [Ec|_]; [|reflexivity]. exfalso.
    (* the header IS the cursor's checkpoint: a second entry at that height with another hash contradicts functionality *)
    assert (Ecp: cp0 = (H, cid)) by (apply Hfun; [exact Hin| apply Hcur; exact En| cbn; congruence]).
    apply Hne. rewrite Ecp. cbn. congruence. }
  rewrite Hres.
  pose proof (disc_frame (with_store st s2) p) as Hfr. pose proof (disc_connected (with_store st s2) p o Ho Hc) as He.
  destruct (disc (with_store st s2) p) as [st1 e1]. cbn [fst snd] in *. subst e1.
  exists st1. split; [reflexivity|]. cbn in Hfr. rewrite ?Hh in Hfr. exact Hfr.
Qed.

(* experimental engine: the same for ANY state of a connected peer and ANY batch - stale or longest alike *)
Theorem checkpoint_contradiction_any_checkpoint_exp cfg p st pre h post s1 cur1 n1 l1 s2 x cp0 :
  e_conn st = true ->
  eloop cfg (e_store st) (e_cur st) O 0 pre = EDoneL s1 cur1 n1 l1 ->
  add (x_forb cfg) s1 h = (s2, Stored x) -> x <> Orphan ->
  In cp0 (x_cps cfg) -> fst cp0 = height (create_header s1 h) -> snd cp0 <> s_id h ->
  exists st', e_on_headers cfg p st (pre ++ h :: post) = (st', [Disconnect p]) /\ e_store st' = s2 /\ e_conn st' = false /\ e_cur st' = cur1.
Proof.
  intros Hc Hpre Ha Hx Hin Hht Hne. unfold e_on_headers. rewrite eloop_app, Hpre. cbn [eloop]. rewrite Ha.
  assert (Hcon: contradicts (x_cps cfg) x (height (create_header s1 h)) (s_id h) = true).
  { apply contradicts_spec. split; [exact Hx|]. exists cp0. auto. }
  rewrite Hcon, Hc. eexists. split; [reflexivity|]. cbn. auto.
Qed.

(* ---- cursor_in holds in every reachable state of the default engine ---- *)
Lemma scan_back_in l : forall h acc, scan_back l h acc = acc \/ In (scan_back l h acc) l.
Proof.
  induction l as [|c l IH]; intros h acc; [left; reflexivity|]. cbn [scan_back].
  destruct (fst c <=? h); [left; reflexivity|]. destruct (IH h c) as [E|Hin]; right; [left; symmetry; exact E| right; exact Hin].
Qed.

Lemma find_next_d_in cps h c : find_next_d cps h = Some c -> In c cps.
Proof.
  unfold find_next_d. destruct (rev cps) as [|final rest] eqn:Er; [discriminate|].
  destruct (fst final <=? h); [discriminate|]. intros E. inversion E; subst c. apply in_rev. rewrite Er.
  destruct (scan_back_in rest h final) as [E1|Hin]; [rewrite E1; left; reflexivity| right; exact Hin].
Qed.

Lemma sm_cps_in_enabled cfg c : In c (sm_cps cfg) -> sm_cps cfg = c_cps cfg.
Proof. unfold sm_cps. destruct (c_disable cfg); [intros []| reflexivity]. Qed.

Lemma start_sync_next cfg hint st : d_next (fst (start_sync cfg hint st)) = d_next st.
Proof.
  unfold start_sync. destruct (d_sync st); [reflexivity|].
  match goal with |- context [match ?pk with Some p => _ | None => _ end] => destruct pk as [p|] end; [|reflexivity].
  cbv zeta.
  match goal with |- context [let '(a, b) := ?X in _] => destruct X as [st1 e1] eqn:E end. cbn [fst].
  change (d_next (with_sync st1 (Some p))) with (d_next st1).
  destruct (d_next (with_states st _)) as [[H cid]|] eqn:En.
  - destruct (tip_height (d_store st) <? H).
    + match type of E with send_gh ?a ?b ?c ?d = _ => pose proof (send_gh_frame a b c d) as Hf end. rewrite E in Hf. cbn in Hf. apply Hf.
    + match type of E with send_gh ?a ?b ?c ?d = _ => pose proof (send_gh_frame a b c d) as Hf end. rewrite E in Hf. cbn in Hf. apply Hf.
  - match type of E with send_gh ?a ?b ?c ?d = _ => pose proof (send_gh_frame a b c d) as Hf end. rewrite E in Hf. cbn in Hf. apply Hf.
Qed.

Lemma update_sync_peer_next cfg hint st : d_next (fst (update_sync_peer cfg hint st)) = d_next st.
Proof.
  unfold update_sync_peer. destruct (d_sync st) as [sp|]; [|reflexivity].
  pose proof (disc_frame st sp) as Hd. destruct (disc st sp) as [st1 e1]. cbn [fst] in Hd.
  pose proof (start_sync_next cfg hint (with_sync st1 None)) as Hs.
  destruct (start_sync cfg hint (with_sync st1 None)) as [st2 e2]. cbn [fst] in *. rewrite Hs. cbn. apply Hd.
Qed.

Lemma d_step_next_other cfg hint st e : (forall p hs, e <> EHeaders p hs) -> d_next (fst (d_step cfg hint st e)) = d_next st.
Proof.
  intros Hne. destruct e as [p cand lb|p hs|p l|p|aged|p cand lb]; cbn [d_step].
  - unfold on_new_peer. destruct (_ && _); [|reflexivity]. rewrite start_sync_next. reflexivity.
  - exfalso. apply (Hne p hs). reflexivity.
  - unfold on_inv. destruct (aget p (d_states st)); [|reflexivity].
    destruct (_ && _); [reflexivity|]. destruct (current cfg st) as [cur|]; [|reflexivity].
    destruct (_ && _); [reflexivity|]. destruct (last_block l) as [h|]; [|reflexivity].
    destruct (if cur then by_hash (d_store st) h else None).
    + destruct (aget p (d_objs st)); reflexivity.
    + apply send_gh_frame.
  - unfold on_done. destruct (aget p (d_states st)); [|reflexivity].
    destruct (opt_eqb (d_sync st) p); [|reflexivity]. rewrite update_sync_peer_next. reflexivity.
  - unfold on_tick. destruct (d_sync st) as [sp|]; [|reflexivity]. destruct (negb aged); [reflexivity|].
    destruct (_ =? _); [reflexivity|]. destruct (aget sp (d_states st)); [|reflexivity]. apply update_sync_peer_next.
  - unfold on_new_peer_gone. destruct (_ && _); [|reflexivity]. rewrite start_sync_next. reflexivity.
Qed.

Lemma on_headers_cursor_in cfg st p hs : cursor_in cfg st -> cursor_in cfg (fst (on_headers cfg st p hs)).
Proof.
  intros Hcur. unfold on_headers. destruct (aget p (d_states st)); [|exact Hcur].
  destruct (negb (d_hfm st)); [intros c Hc; apply Hcur; destruct (disc_frame st p) as (_ & E & _); rewrite <- E; exact Hc|].
  destruct hs as [|h0 hs0]; [exact Hcur|].
  destruct (hloop (c_forb cfg) (sm_cps cfg) (d_next st) (d_store st) false None (h0 :: hs0)) as [s' rc fin|s'|s'].
  - destruct fin as [fh|]; [|exact Hcur].
    destruct (if rc then d_next st else None) as [[H cid]|] eqn:Erc.
    + assert (Hold: In (H, cid) (sm_cps cfg)) by (destruct rc; [apply Hcur; exact Erc| discriminate]).
      destruct (find_next_d (c_cps cfg) H) as [[H' c']|] eqn:Ef.
      * intros c Hc. match type of Hc with d_next (fst (send_gh ?a ?b ?d ?e)) = _ => destruct (send_gh_frame a b d e) as (_ & E & _) end.
        rewrite E in Hc. cbn in Hc. inversion Hc; subst c. rewrite (sm_cps_in_enabled cfg _ Hold). exact (find_next_d_in _ _ _ Ef).
      * intros c Hc. match type of Hc with d_next (fst (send_gh ?a ?b ?d ?e)) = _ => destruct (send_gh_frame a b d e) as (_ & E & _) end.
        rewrite E in Hc. cbn in Hc. discriminate.
    + destruct (d_next st) as [[H c0]|] eqn:En.
      * intros c Hc. match type of Hc with d_next (fst (send_gh ?a ?b ?d ?e)) = _ => destruct (send_gh_frame a b d e) as (_ & E & _) end.
        rewrite E in Hc. cbn in Hc. apply Hcur. exact Hc.
      * intros c Hc. match type of Hc with d_next (fst (send_gh ?a ?b ?d ?e)) = _ => destruct (send_gh_frame a b d e) as (_ & E & _) end.
        rewrite E in Hc. cbn in Hc. rewrite En in Hc. discriminate.
  - pose proof (disc_frame (with_store st s') p) as (_ & E & _). destruct (disc (with_store st s') p) as [st1 e1]. cbn [fst] in *.
    intros c Hc. apply Hcur. rewrite <- Hc, E. reflexivity.
  - intros c Hc. apply Hcur. destruct (disc_frame (with_store st s') p) as (_ & E & _). rewrite <- Hc, E. reflexivity.
Qed.

Theorem cursor_in_reachable cfg s evs : cursor_in cfg (d_run cfg (d_init cfg s) evs).
Proof.
  assert (H0: cursor_in cfg (d_init cfg s)).
  { intros c Hc. unfold d_init in Hc. cbn [d_next] in Hc. unfold sm_cps. destruct (c_disable cfg); [discriminate|]. exact (find_next_d_in _ _ _ Hc). }
  revert H0. generalize (d_init cfg s). induction evs as [|[hint e] evs IH]; intros st Hst; [exact Hst|].
  cbn [d_run]. apply IH. destruct e as [p cand lb|p hs|p l|p|aged|p cand lb];
    try (intros c Hc; apply Hst; rewrite <- Hc; symmetry; apply d_step_next_other; intros; discriminate).
  cbn [d_step]. apply on_headers_cursor_in. exact Hst.
Qed.

(* the statement for every reachable state of the default engine *)
Corollary checkpoint_contradiction_reachable_default cfg s0 evs p c o pre h post s1 rc1 fin1 s2 x cp0 :
  cps_functional (sm_cps cfg) ->
  let st := d_run cfg (d_init cfg s0) evs in
  aget p (d_states st) = Some c -> d_hfm st = true -> aget p (d_objs st) = Some o -> po_conn o = true ->
  hloop (c_forb cfg) (sm_cps cfg) (d_next st) (d_store st) false None pre = HDone s1 rc1 fin1 ->
  add (c_forb cfg) s1 h = (s2, Stored x) -> x <> Orphan ->
  In cp0 (sm_cps cfg) -> fst cp0 = height (create_header s1 h) -> snd cp0 <> s_id h ->
  exists st', on_headers cfg st p (pre ++ h :: post) = (st', [Disconnect p]) /\ d_store st' = s2 /\ d_next st' = d_next st.
Proof.
  intros Hfun st Hst Hh Ho Hc Hpre Ha Hx Hin Hht Hne.
  destruct (checkpoint_contradiction_any_checkpoint_default cfg st p c o pre h post s1 rc1 fin1 s2 x cp0 Hfun (cursor_in_reachable cfg s0 evs) Hst Hh Ho Hc Hpre Ha Hx Hin Hht Hne)
    as (st' & E & Es & En & _).
  exists st'. auto.
Qed.

Lemma sorted_functional cps : sorted cps -> cps_functional cps.
Proof.
  induction cps as [|a l IH]; intros Hs c1 c2 H1 H2 E; [inversion H1|]. destruct Hs as [Ha Hs].
  destruct H1 as [<-|H1], H2 as [<-|H2]; [reflexivity| specialize (Ha _ H2); lia| specialize (Ha _ H1); lia| apply IH; assumption].
Qed.
