(* C12 - the stepwise spec oracle raises no alarm on any run of the repaired model
   (urls within the universe the harness queries after every step). *)
From Coq Require Import ZArith List Bool Lia.
From BHS Require Import Webhook WebhookProofs.
Import ListNotations.
Open Scope Z_scope.

(* ---------- reflexivity of the boolean comparisons ---------- *)
Lemma outcome_eqb_refl : forall o, outcome_eqb o o = true.
Proof. destruct o; simpl; [apply Z.eqb_refl | reflexivity | reflexivity]. Qed.
Lemma status_eqb_refl : forall s, status_eqb s s = true.
Proof. destruct s; simpl; [reflexivity | apply outcome_eqb_refl]. Qed.
Lemma hname_eqb_refl : forall h, hname_eqb h h = true.
Proof. destruct h; simpl; try reflexivity. apply Z.eqb_refl. Qed.
Lemma tokv_eqb_refl : forall t, tokv_eqb t t = true.
Proof. destruct t; simpl; try reflexivity; apply Z.eqb_refl. Qed.
Lemma view_eqb_refl : forall v, view_eqb v v = true.
Proof.
  intros [[[e a] s] t]. unfold view_eqb. rewrite !Z.eqb_refl, status_eqb_refl, Bool.eqb_reflx. reflexivity.
Qed.
Lemma resp_eqb_refl : forall r, resp_eqb r r = true.
Proof. destruct r as [| |v|e|]; simpl; try reflexivity; [apply view_eqb_refl | destruct e; reflexivity]. Qed.
Lemma hdrs_eqb_refl : forall hs, hdrs_eqb hs hs = true.
Proof.
  intros hs. unfold hdrs_eqb. rewrite Nat.eqb_refl. simpl. induction hs as [|[h t] hs IH]; [reflexivity|].
  simpl. rewrite hname_eqb_refl, tokv_eqb_refl. exact IH.
Qed.

Lemma cmp_view_refl : forall mt called v, cmp_view mt called v v = [].
Proof.
  intros mt called [[[[e a] s] t]|]; [|reflexivity]. unfold cmp_view.
  rewrite !Z.eqb_refl, status_eqb_refl, Bool.eqb_reflx. reflexivity.
Qed.

Lemma cmp_posts_refl : forall prod u ps, (length (posts_to u ps) <= 1)%nat -> cmp_posts prod u ps ps = [].
Proof.
  intros prod u ps Hlen. unfold cmp_posts. destruct (posts_to u ps) as [|[u1 hs] [|p2 l]]; [reflexivity | | simpl in Hlen; lia].
  rewrite hdrs_eqb_refl. reflexivity.
Qed.

(* ---------- small list facts ---------- *)
Lemma flat_map_nil : forall {A B} (f : A -> list B) l, (forall x, In x l -> f x = []) -> flat_map f l = [].
Proof.
  intros A B f l. induction l as [|a l IH]; intros H; [reflexivity|]. simpl.
  rewrite (H a (or_introl eq_refl)). simpl. apply IH. intros x Hx. apply H. right. exact Hx.
Qed.

Lemma flat_map_single : forall {A} (f : A -> list A) l, (forall x, In x l -> f x = [x]) -> flat_map f l = l.
Proof.
  intros A f l. induction l as [|a l IH]; intros H; [reflexivity|]. simpl.
  rewrite (H a (or_introl eq_refl)). simpl. f_equal. apply IH. intros x Hx. apply H. right. exact Hx.
Qed.

Lemma combine_map_r : forall {A B} (g : A -> B) l, combine l (map g l) = map (fun u => (u, g u)) l.
Proof. intros A B g l. induction l as [|a l IH]; [reflexivity|]. simpl. f_equal. exact IH. Qed.

Lemma find_obs : forall (g : Z -> option view) l u, In u l ->
  find (fun p : Z * option view => fst p =? u) (map (fun x => (x, g x)) l) = Some (u, g u).
Proof.
  intros g l u. induction l as [|a l IH]; intros Hin; [destruct Hin|]. simpl.
  destruct (a =? u) eqn:He.
  - apply Z.eqb_eq in He. subst a. reflexivity.
  - destruct Hin as [Ha|Hin]; [subst a; rewrite Z.eqb_refl in He; discriminate | apply IH; exact Hin].
Qed.

(* ---------- the posts of one step ---------- *)
Definition urls_in (tb : table) : Prop := forall r, In r tb -> In (r_url r) universe.
Definition op_in_universe (o : op) : Prop := match o with OpRegister u _ _ _ => In u universe | _ => True end.

Lemma step_posts : forall mt prod now o tb, NoDup (map r_url tb) ->
  snd (step fixed mt prod now o tb) =
  match o with OpNotify _ => map post_of (filter r_active tb) | _ => [] end.
Proof.
  intros mt prod now o tb Hnd. destruct o as [u k h t|u|f| |m|]; unfold step.
  - destruct (register fixed u k h t tb). reflexivity.
  - destruct (delete u tb). reflexivity.
  - rewrite (notify_fixed_closed _ _ _ _ _ Hnd). reflexivity.
  - reflexivity.
  - reflexivity.
  - reflexivity.
Qed.

Lemma posts_len : forall u tb, NoDup (map r_url tb) -> (length (posts_to u (map post_of (filter r_active tb))) <= 1)%nat.
Proof.
  intros u tb Hnd. rewrite (posts_to_closed _ _ Hnd). destruct (find_row u tb) as [r|]; [destruct (r_active r)|]; simpl; lia.
Qed.

Lemma step_effective : forall mt prod now o tb, NoDup (map r_url tb) ->
  step fixed mt prod now (effective_outcomes o (snd (step fixed mt prod now o tb))) tb = step fixed mt prod now o tb.
Proof.
  intros mt prod now o tb Hnd. rewrite (step_posts _ _ _ _ _ Hnd).
  destruct o as [u k h t|u|f| |m|]; try reflexivity.
  unfold effective_outcomes, step. rewrite !(notify_fixed_closed _ _ _ _ _ Hnd). f_equal. f_equal.
  apply map_ext_in. intros r Hin. unfold upd. destruct (r_active r) eqn:Ha; [|reflexivity].
  rewrite (posts_to_closed _ _ Hnd), (find_row_in_nodup _ _ Hnd Hin), Ha. reflexivity.
Qed.

(* ---------- urls stay within the universe ---------- *)
Lemma urls_in_map : forall tb tb', map r_url tb' = map r_url tb -> urls_in tb -> urls_in tb'.
Proof.
  intros tb tb' Hm H r Hin. assert (Hu : In (r_url r) (map r_url tb')) by (apply in_map; exact Hin).
  rewrite Hm in Hu. apply in_map_iff in Hu. destruct Hu as [r0 [He Hr0]]. rewrite <- He. apply H. exact Hr0.
Qed.

Lemma urls_in_step : forall mt prod now o tb, NoDup (map r_url tb) -> urls_in tb -> op_in_universe o ->
  urls_in (fst (fst (step fixed mt prod now o tb))).
Proof.
  intros mt prod now o tb Hnd Hin Ho. destruct o as [u k h t|u|f| |m|]; unfold step.
  - unfold register. destruct (find_row u tb) as [r|] eqn:Hf.
    + rewrite load_fixed_id. destruct (r_active r); simpl; [exact Hin|].
      apply (urls_in_map tb); [apply persist_urls | exact Hin].
    + destruct (rewrite_auth k h t) as [hd tk]. simpl. intros r1 Hr. apply in_app_or in Hr.
      destruct Hr as [Hr|[Hr|[]]]; [apply Hin; exact Hr | subst r1; exact Ho].
  - unfold delete. destruct (find_row u tb); simpl; [|exact Hin].
    intros r1 Hr. apply filter_In in Hr. apply Hin. apply Hr.
  - rewrite (notify_fixed_closed _ _ _ _ _ Hnd). simpl.
    apply (urls_in_map tb); [|exact Hin]. rewrite map_map. apply map_ext. intros a. apply upd_url.
  - exact Hin.
  - exact Hin.
  - exact Hin.
Qed.

(* ---------- re-synchronising with one's own report is the identity ---------- *)
Lemma get_fixed_find : forall u tb, get fixed u tb = option_map view_of (find_row u tb).
Proof. intros u tb. unfold get. destruct (find_row u tb); reflexivity. Qed.

Lemma resync_own : forall tb, NoDup (map r_url tb) -> urls_in tb ->
  resync tb (map (fun u => (u, get fixed u tb)) universe) = tb.
Proof.
  intros tb Hnd Hin. unfold resync. rewrite flat_map_single.
  - rewrite flat_map_nil; [apply app_nil_r|]. intros p Hp. apply in_map_iff in Hp. destruct Hp as [u [Hp _]]. subst p.
    simpl fst. simpl snd. rewrite get_fixed_find. destruct (find_row u tb); reflexivity.
  - intros r Hr. unfold resync_row. rewrite (find_obs _ _ _ (Hin r Hr)).
    rewrite get_fixed_find, (find_row_in_nodup _ _ Hnd Hr). simpl. destruct r; reflexivity.
Qed.

(* ---------- one step, then whole runs ---------- *)
Lemma check_step_own : forall mt prod now o tb, NoDup (map r_url tb) -> urls_in tb -> op_in_universe o ->
  let s := step fixed mt prod now o tb in
  check_step mt prod now o tb (snd (fst s), snd s, map (fun u => get fixed u (fst (fst s))) universe)
  = (fst (fst s), []).
Proof.
  intros mt prod now o tb Hok Hin Ho s. unfold check_step, step_fixed.
  pose proof (step_effective mt prod now o tb Hok) as Heff. fold s in Heff. rewrite Heff.
  pose proof (step_posts mt prod now o tb Hok) as Hps. fold s in Hps.
  pose proof (nodup_step mt prod now o tb Hok) as Hok'. fold s in Hok'.
  pose proof (urls_in_step mt prod now o tb Hok Hin Ho) as Hin'. fold s in Hin'.
  destruct s as [[tb' r] ps]. simpl fst in *. simpl snd in *.
  rewrite combine_map_r. rewrite (resync_own _ Hok' Hin'). f_equal.
  assert (Hlen : forall u, (length (posts_to u ps) <= 1)%nat).
  { intros u. rewrite Hps. destruct o; try (simpl; lia). apply posts_len. exact Hok. }
  assert (Huniv : forallb (fun p : post => existsb (fun u => fst p =? u) universe) ps = true).
  { apply forallb_forall. intros p Hp. apply existsb_exists. exists (fst p). split; [|apply Z.eqb_refl].
    rewrite Hps in Hp. destruct o; try (destruct Hp).
    apply in_map_iff in Hp. destruct Hp as [r0 [Hp Hr0]]. subst p. simpl. apply Hin. apply filter_In in Hr0. apply Hr0. }
  rewrite resp_eqb_refl.
  rewrite flat_map_nil by (intros u _; apply cmp_posts_refl; apply Hlen).
  unfold post in Huniv. rewrite Huniv.
  rewrite flat_map_nil; [reflexivity|].
  intros p Hp. apply in_map_iff in Hp. destruct Hp as [u [Hp _]]. subst p. simpl fst. simpl snd. apply cmp_view_refl.
Qed.

Lemma run_from_cons : forall fx mt prod now o ops tb,
  run_from fx mt prod now (o :: ops) tb =
  let s := step fx mt prod now o tb in
  ((snd (fst s), snd s, map (fun u => get fx u (fst (fst s))) universe)
     :: fst (run_from fx (next_mt mt o) prod (now + 1) ops (fst (fst s))),
   snd (run_from fx (next_mt mt o) prod (now + 1) ops (fst (fst s)))).
Proof.
  intros. cbn [run_from]. destruct (step fx mt prod now o tb) as [[tb' r] ps]. cbn [fst snd].
  destruct (run_from fx (next_mt mt o) prod (now + 1) ops tb'). reflexivity.
Qed.

Lemma check_from_cons : forall mt prod now o ops pre so obs,
  check_from mt prod now (o :: ops) pre (so :: obs) =
  map (fun c => (now, c)) (snd (check_step mt prod now o pre so)) ++
  check_from (next_mt mt o) prod (now + 1) ops (fst (check_step mt prod now o pre so)) obs.
Proof. intros. cbn [check_from]. destruct (check_step mt prod now o pre so). reflexivity. Qed.

Lemma check_from_own : forall prod ops mt now tb, NoDup (map r_url tb) -> urls_in tb ->
  Forall op_in_universe ops ->
  check_from mt prod now ops tb (fst (run_from fixed mt prod now ops tb)) = [].
Proof.
  intros prod ops. induction ops as [|o ops IH]; intros mt now tb Hok Hin Hops; [reflexivity|].
  inversion Hops as [|x l Ho Hops']; subst. rewrite run_from_cons. cbv zeta. cbn [fst].
  rewrite check_from_cons.
  rewrite (check_step_own mt prod now o tb Hok Hin Ho). cbn [fst snd map app].
  apply IH; [apply nodup_step; assumption | apply urls_in_step; assumption | exact Hops'].
Qed.

(* the oracle never raises an alarm on a run of the repaired model - whatever the limit is and however restarts change it *)
Theorem oracle_accepts_fixed : forall mt prod ops, Forall op_in_universe ops ->
  oracle mt prod ops (fst (run_fixed mt prod ops)) = [].
Proof.
  intros mt prod ops Hops. unfold oracle, run_fixed, run.
  apply check_from_own; [constructor | intros r [] | exact Hops].
Qed.
