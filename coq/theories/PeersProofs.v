(* C18 proofs, part 1: the admission bookkeeping model [Peers]. *)
From Coq Require Import ZArith Lia Bool List.
From BHS Require Import Peers.
Import ListNotations.
Open Scope Z_scope.

Arguments zlen : simpl never.
Arguments aset : simpl never.
Arguments cincr : simpl never.
Arguments cdecr : simpl never.
Arguments cget : simpl never.

(* ------------------------------------------------------------------ association lists *)
Section Assoc.
Context {A : Type}.
Implicit Types m : list (Z * A).

Lemma aget_adel_same m k : aget (adel m k) k = None.
Proof.
  induction m as [|[k' v] t IH]; simpl; [reflexivity|].
  destruct (k' =? k) eqn:E; [exact IH|]. simpl. rewrite E. exact IH.
Qed.

Lemma aget_adel_other m k k' : k' <> k -> aget (adel m k) k' = aget m k'.
Proof.
  intros Hne. induction m as [|[k0 v] t IH]; simpl; [reflexivity|].
  destruct (k0 =? k) eqn:E.
  - apply Z.eqb_eq in E. subst k0.
    destruct (k =? k') eqn:E2; [apply Z.eqb_eq in E2; congruence|exact IH].
  - simpl. destruct (k0 =? k'); [reflexivity|exact IH].
Qed.

Lemma adel_absent m k : aget m k = None -> adel m k = m.
Proof.
  induction m as [|[k' v] t IH]; simpl; [reflexivity|].
  destruct (k' =? k); [discriminate|]. intros H. rewrite IH by exact H. reflexivity.
Qed.

Lemma aget_aset_same m k v : aget (aset m k v) k = Some v.
Proof. unfold aset. simpl. rewrite Z.eqb_refl. reflexivity. Qed.

Lemma aget_aset_other m k k' v : k' <> k -> aget (aset m k v) k' = aget m k'.
Proof.
  intros Hne. unfold aset. simpl.
  destruct (k =? k') eqn:E; [apply Z.eqb_eq in E; congruence|]. apply aget_adel_other. exact Hne.
Qed.

Lemma length_adel_le m k : (length (adel m k) <= length m)%nat.
Proof.
  induction m as [|[k' v] t IH]; simpl; [lia|]. destruct (k' =? k); simpl; lia.
Qed.

Lemma In_adel m k x : In x (adel m k) -> In x m /\ fst x <> k.
Proof.
  induction m as [|[k' v] t IH]; simpl; [tauto|].
  destruct (k' =? k) eqn:E.
  - intros H. destruct (IH H) as [H1 H2]. split; [right; exact H1|exact H2].
  - intros [H|H].
    + subst x. split; [left; reflexivity|]. simpl. apply Z.eqb_neq in E. exact E.
    + destruct (IH H) as [H1 H2]. split; [right; exact H1|exact H2].
Qed.

Lemma In_aget m k v : In (k, v) m -> aget m k <> None.
Proof.
  induction m as [|[k' v'] t IH]; simpl; [tauto|].
  intros [H|H].
  - inversion H. subst. rewrite Z.eqb_refl. discriminate.
  - destruct (k' =? k); [discriminate|exact (IH H)].
Qed.

Lemma aget_In m k v : aget m k = Some v -> In (k, v) m.
Proof.
  induction m as [|[k' v'] t IH]; simpl; [discriminate|].
  destruct (k' =? k) eqn:E.
  - intros H. inversion H. subst. apply Z.eqb_eq in E. subst. left. reflexivity.
  - intros H. right. exact (IH H).
Qed.

Definition nodupk m := NoDup (map fst m).

Lemma nodupk_adel m k : nodupk m -> nodupk (adel m k).
Proof.
  unfold nodupk. induction m as [|[k' v] t IH]; simpl; intros H; [constructor|].
  inversion H as [|x l Hnin Hnd]. subst.
  destruct (k' =? k); [exact (IH Hnd)|].
  simpl. constructor; [|exact (IH Hnd)].
  intros Hin. apply Hnin. apply in_map_iff in Hin. destruct Hin as [x [Hx1 Hx2]].
  apply In_adel in Hx2. destruct Hx2 as [Hx2 _]. apply in_map_iff. exists x. split; assumption.
Qed.

Lemma nodupk_aset m k v : nodupk m -> nodupk (aset m k v).
Proof.
  intros H. unfold aset, nodupk. simpl. constructor; [|apply nodupk_adel; exact H].
  intros Hin. apply in_map_iff in Hin. destruct Hin as [x [Hx1 Hx2]].
  apply In_adel in Hx2. destruct Hx2 as [_ Hx2]. congruence.
Qed.

(* with unique keys, the entry found by aget is the only one with that key *)
Lemma nodupk_In_aget m k v : nodupk m -> In (k, v) m -> aget m k = Some v.
Proof.
  unfold nodupk. induction m as [|[k' v'] t IH]; simpl; [tauto|].
  intros Hnd [H|H].
  - inversion H. subst. rewrite Z.eqb_refl. reflexivity.
  - inversion Hnd as [|x l Hnin Hnd']. subst.
    destruct (k' =? k) eqn:E.
    + apply Z.eqb_eq in E. subst k'. exfalso. apply Hnin. apply in_map_iff. exists (k, v). split; [reflexivity|exact H].
    + exact (IH Hnd' H).
Qed.
End Assoc.

Lemma cget_cincr_same m k : cget (cincr m k) k = cget m k + 1.
Proof. unfold cincr, cget at 1. rewrite aget_aset_same. reflexivity. Qed.
Lemma cget_cincr_other m k k' : k' <> k -> cget (cincr m k) k' = cget m k'.
Proof. intros H. unfold cincr, cget at 1. rewrite aget_aset_other by exact H. reflexivity. Qed.
Lemma cget_cdecr_same m k : cget (cdecr m k) k = cget m k - 1.
Proof. unfold cdecr, cget at 1. rewrite aget_aset_same. reflexivity. Qed.
Lemma cget_cdecr_other m k k' : k' <> k -> cget (cdecr m k) k' = cget m k'.
Proof. intros H. unfold cdecr, cget at 1. rewrite aget_aset_other by exact H. reflexivity. Qed.

Lemma cget_cincr m k k' : cget (cincr m k) k' = cget m k' + (if k =? k' then 1 else 0).
Proof.
  destruct (k =? k') eqn:E.
  - apply Z.eqb_eq in E. subst. apply cget_cincr_same.
  - apply Z.eqb_neq in E. rewrite cget_cincr_other by congruence. lia.
Qed.
Lemma cget_cdecr m k k' : cget (cdecr m k) k' = cget m k' - (if k =? k' then 1 else 0).
Proof.
  destruct (k =? k') eqn:E.
  - apply Z.eqb_eq in E. subst. apply cget_cdecr_same.
  - apply Z.eqb_neq in E. rewrite cget_cdecr_other by congruence. lia.
Qed.

(* ------------------------------------------------------------------ counting *)
Definition cnt (f : peer -> bool) (l : list (Z * peer)) : Z := zlen (filter (fun e => f (snd e)) l).

Lemma hcount_cnt h l : hcount h l = cnt (fun p => host p =? h) l.
Proof. reflexivity. Qed.
Lemma gcount_cnt g l : gcount g l = cnt (fun p => group p =? g) l.
Proof. reflexivity. Qed.

Lemma cnt_cons f k p l : cnt f ((k, p) :: l) = cnt f l + (if f p then 1 else 0).
Proof. unfold cnt, zlen. simpl. destruct (f p); simpl length; lia. Qed.

Lemma cnt_nonneg f l : 0 <= cnt f l.
Proof. unfold cnt, zlen. lia. Qed.

Lemma cnt_adel_absent f l k : aget l k = None -> cnt f (adel l k) = cnt f l.
Proof. intros H. rewrite adel_absent by exact H. reflexivity. Qed.

Lemma cnt_adel_present f l k p :
  nodupk l -> aget l k = Some p -> cnt f (adel l k) = cnt f l - (if f p then 1 else 0).
Proof.
  unfold nodupk. induction l as [|[k' p'] t IH]; simpl; [discriminate|].
  intros Hnd Hget. inversion Hnd as [|x l0 Hnin Hnd']. subst.
  destruct (k' =? k) eqn:E.
  - inversion Hget. subst p'. apply Z.eqb_eq in E. subst k'.
    rewrite cnt_cons.
    assert (Habs : aget t k = None).
    { destruct (aget t k) eqn:G; [|reflexivity]. exfalso. apply Hnin.
      apply aget_In in G. apply in_map_iff. exists (k, p0). split; [reflexivity|exact G]. }
    rewrite cnt_adel_absent by exact Habs. destruct (f p); lia.
  - rewrite !cnt_cons. rewrite (IH Hnd' Hget). destruct (f p); destruct (f p'); lia.
Qed.

Lemma cnt_aset_absent f l k p : aget l k = None -> cnt f (aset l k p) = cnt f l + (if f p then 1 else 0).
Proof. intros H. unfold aset. rewrite cnt_cons, cnt_adel_absent by exact H. reflexivity. Qed.

Lemma zlen_cons {A} (x : A) l : zlen (x :: l) = zlen l + 1.
Proof. unfold zlen. simpl length. lia. Qed.
Lemma zlen_nonneg {A} (l : list A) : 0 <= zlen l.
Proof. unfold zlen. lia. Qed.
Lemma zlen_adel_le {A} (m : list (Z * A)) k : zlen (adel m k) <= zlen m.
Proof. unfold zlen. pose proof (length_adel_le m k). lia. Qed.
Lemma zlen_aset_le {A} (m : list (Z * A)) k v : zlen (aset m k v) <= zlen m + 1.
Proof. unfold aset. rewrite zlen_cons. pose proof (zlen_adel_le m k). lia. Qed.
Lemma zlen_aset_absent {A} (m : list (Z * A)) k v : aget m k = None -> zlen (aset m k v) = zlen m + 1.
Proof. intros H. unfold aset. rewrite zlen_cons, adel_absent by exact H. reflexivity. Qed.

(* ------------------------------------------------------------------ run / fold *)
Lemma run_app c s l1 l2 : run c s (l1 ++ l2) = run c (run c s l1) l2.
Proof. unfold run. apply fold_left_app. Qed.
Lemma run_cons c s e l : run c s (e :: l) = run c (fst (step c s e)) l.
Proof. reflexivity. Qed.
Lemma run_snoc c s l e : run c s (l ++ [e]) = fst (step c (run c s l) e).
Proof. rewrite run_app. reflexivity. Qed.

(* ------------------------------------------------------------------ total limit (no wf needed) *)
Ltac simp := cbn [fst snd inb outb pers banned groups ccount set_banned] in *.

Lemma step_total c s e : 0 <= max_peers c -> total s <= max_peers c -> total (fst (step c s e)) <= max_peers c.
Proof.
  intros Hmp Hle. destruct e as [p now|p|h now]; cbn [step fst].
  - unfold add_peer.
    destruct (aget (banned s) (host p)) as [e|] eqn:Hb.
    + destruct (now <? e); [exact Hle|].
      set (s1 := set_banned s (adel (banned s) (host p))).
      assert (Ht : total s1 = total s) by reflexivity.
      destruct (cget (ccount s1) (host p) >=? max_per_ip c); [simp; lia|].
      destruct (total s1 >=? max_peers c) eqn:E; [simp; lia|].
      assert (Hlt : total s1 < max_peers c) by lia.
      unfold total in *. destruct (pkind p); simp.
      * pose proof (zlen_aset_le (inb s1) (pid p) p). lia.
      * pose proof (zlen_aset_le (outb s1) (pid p) p). lia.
      * pose proof (zlen_aset_le (pers s1) (pid p) p). lia.
    + destruct (cget (ccount s) (host p) >=? max_per_ip c); [simp; lia|].
      destruct (total s >=? max_peers c) eqn:E; [simp; lia|].
      assert (Hlt : total s < max_peers c) by lia.
      unfold total in *. destruct (pkind p); simp.
      * pose proof (zlen_aset_le (inb s) (pid p) p). lia.
      * pose proof (zlen_aset_le (outb s) (pid p) p). lia.
      * pose proof (zlen_aset_le (pers s) (pid p) p). lia.
  - unfold done_peer, total in *. destruct (pkind p).
    + destruct (aget (inb s) (pid p)); simp; [|lia]. pose proof (zlen_adel_le (inb s) (pid p)). lia.
    + destruct (aget (outb s) (pid p)); simp; [|lia]. pose proof (zlen_adel_le (outb s) (pid p)). lia.
    + destruct (aget (pers s) (pid p)); simp; [|lia]. pose proof (zlen_adel_le (pers s) (pid p)). lia.
  - exact Hle.
Qed.

Theorem count_le_max c evs : 0 <= max_peers c -> total (run c init evs) <= max_peers c.
Proof.
  intros Hmp. induction evs as [|e l IH] using rev_ind.
  - simpl. unfold total. simpl. exact Hmp.
  - rewrite run_snoc. apply step_total; assumption.
Qed.

(* ------------------------------------------------------------------ the bookkeeping invariant *)
(* A = the peer objects handed to Add so far *)
Definition entries_ok (A : list peer) (k : kind) (m : list (Z * peer)) : Prop :=
  forall i q, In (i, q) m -> pid q = i /\ pkind q = k /\ In q A.

Record Inv (A : list peer) (s : st) : Prop := {
  inv_nd_i : nodupk (inb s);
  inv_nd_o : nodupk (outb s);
  inv_nd_p : nodupk (pers s);
  inv_e_i : entries_ok A Inbound (inb s);
  inv_e_o : entries_ok A Outbound (outb s);
  inv_e_p : entries_ok A Persistent (pers s);
  inv_cc : forall h, cget (ccount s) h = hcount h (inb s) + hcount h (outb s);
  inv_gc : forall g, cget (groups s) g = gcount g (outb s) + gcount g (pers s)
}.

Lemma entries_ok_mono A A' k m : incl A A' -> entries_ok A k m -> entries_ok A' k m.
Proof. intros Hi H i q Hin. destruct (H i q Hin) as [H1 [H2 H3]]. auto. Qed.

Lemma entries_ok_adel A k m i : entries_ok A k m -> entries_ok A k (adel m i).
Proof. intros H j q Hin. apply In_adel in Hin. destruct Hin as [Hin _]. exact (H j q Hin). Qed.

Lemma entries_absent A k m p : entries_ok A k m -> ~ In (pid p) (map pid A) -> aget m (pid p) = None.
Proof.
  intros H Hn. destruct (aget m (pid p)) as [q|] eqn:G; [|reflexivity].
  apply aget_In in G. destruct (H _ _ G) as [H1 [_ H3]]. exfalso. apply Hn.
  rewrite <- H1. apply in_map. exact H3.
Qed.

Lemma inv_init : Inv [] init.
Proof.
  constructor; simpl; try (apply NoDup_nil); try (intros i q []); intros; reflexivity.
Qed.

Lemma inv_set_banned A s b : Inv A s -> Inv A (set_banned s b).
Proof. intros [H1 H2 H3 H4 H5 H6 H7 H8]. constructor; assumption. Qed.

Lemma inv_mono A A' s : incl A A' -> Inv A s -> Inv A' s.
Proof.
  intros Hi [H1 H2 H3 H4 H5 H6 H7 H8].
  constructor; try assumption; eapply entries_ok_mono; eassumption.
Qed.

(* Add of a fresh peer object *)
Lemma inv_add c A s p now :
  Inv A s -> ~ In (pid p) (map pid A) -> Inv (p :: A) (fst (add_peer c s p now)).
Proof.
  intros HI Hfresh.
  assert (Hincl : incl A (p :: A)) by (intros x Hx; right; exact Hx).
  unfold add_peer.
  assert (Hgen : forall s1, Inv A s1 ->
    Inv (p :: A) (fst (if cget (ccount s1) (host p) >=? max_per_ip c then (s1, false)
      else if total s1 >=? max_peers c then (s1, false)
      else match pkind p with
      | Inbound => (mkSt (aset (inb s1) (pid p) p) (outb s1) (pers s1) (banned s1) (groups s1) (cincr (ccount s1) (host p)), true)
      | Persistent => (mkSt (inb s1) (outb s1) (aset (pers s1) (pid p) p) (banned s1) (cincr (groups s1) (group p)) (ccount s1), true)
      | Outbound => (mkSt (inb s1) (aset (outb s1) (pid p) p) (pers s1) (banned s1) (cincr (groups s1) (group p)) (cincr (ccount s1) (host p)), true)
      end))).
  { intros s1 H1.
    destruct (cget (ccount s1) (host p) >=? max_per_ip c); [apply (inv_mono A); assumption|].
    destruct (total s1 >=? max_peers c); [apply (inv_mono A); assumption|].
    destruct H1 as [N1 N2 N3 E1 E2 E3 C G].
    pose proof (entries_absent _ _ _ p E1 Hfresh) as Ai.
    pose proof (entries_absent _ _ _ p E2 Hfresh) as Ao.
    pose proof (entries_absent _ _ _ p E3 Hfresh) as Ap.
    assert (Hnew : forall k m, entries_ok A k m -> pkind p = k -> entries_ok (p :: A) k (aset m (pid p) p)).
    { intros k m Hm Hk i q [Hin|Hin].
      - inversion Hin. subst. split; [reflexivity|]. split; [reflexivity|left; reflexivity].
      - apply In_adel in Hin. destruct Hin as [Hin _]. destruct (Hm i q Hin) as [X1 [X2 X3]].
        split; [exact X1|]. split; [exact X2|right; exact X3]. }
    destruct (pkind p) eqn:K; cbn [fst]; constructor; simp;
      try (apply nodupk_aset); try assumption;
      try (apply Hnew; [assumption|reflexivity]);
      try (eapply entries_ok_mono; eassumption).
    - intros h. rewrite cget_cincr, C. rewrite !hcount_cnt, cnt_aset_absent by exact Ai.
      rewrite <- !hcount_cnt. lia.
    - intros h. rewrite cget_cincr, C. rewrite !hcount_cnt, cnt_aset_absent by exact Ao.
      rewrite <- !hcount_cnt. lia.
    - intros g. rewrite cget_cincr, G. rewrite !gcount_cnt, cnt_aset_absent by exact Ao.
      rewrite <- !gcount_cnt. lia.
    - intros g. rewrite cget_cincr, G. rewrite !gcount_cnt, cnt_aset_absent by exact Ap.
      rewrite <- !gcount_cnt. lia. }
  destruct (aget (banned s) (host p)) as [e|].
  - destruct (now <? e); [apply (inv_mono A); assumption|].
    apply Hgen. apply inv_set_banned. exact HI.
  - apply Hgen. exact HI.
Qed.

(* Done of a peer object that is the only one with its pid among those added *)
Lemma inv_done A s p :
  Inv A s -> (forall q, In q A -> pid q = pid p -> q = p) -> Inv A (done_peer s p).
Proof.
  intros [N1 N2 N3 E1 E2 E3 C G] Huniq. unfold done_peer.
  destruct (pkind p) eqn:K.
  - destruct (aget (inb s) (pid p)) as [q|] eqn:Gq; [|constructor; assumption].
    assert (q = p).
    { apply aget_In in Gq. destruct (E1 _ _ Gq) as [X1 [_ X3]]. apply Huniq; assumption. }
    subst q.
    constructor; simp; try assumption; try (apply nodupk_adel; assumption);
      try (apply entries_ok_adel; assumption).
    intros h. rewrite cget_cdecr, C. rewrite !hcount_cnt. rewrite (cnt_adel_present _ _ _ p N1 Gq). lia.
  - destruct (aget (outb s) (pid p)) as [q|] eqn:Gq; [|constructor; assumption].
    assert (q = p).
    { apply aget_In in Gq. destruct (E2 _ _ Gq) as [X1 [_ X3]]. apply Huniq; assumption. }
    subst q.
    constructor; simp; try assumption; try (apply nodupk_adel; assumption);
      try (apply entries_ok_adel; assumption).
    + intros h. rewrite cget_cdecr, C. rewrite !hcount_cnt. rewrite (cnt_adel_present _ _ _ p N2 Gq). lia.
    + intros g. rewrite cget_cdecr, G. rewrite !gcount_cnt. rewrite (cnt_adel_present _ _ _ p N2 Gq). lia.
  - destruct (aget (pers s) (pid p)) as [q|] eqn:Gq; [|constructor; assumption].
    assert (q = p).
    { apply aget_In in Gq. destruct (E3 _ _ Gq) as [X1 [_ X3]]. apply Huniq; assumption. }
    subst q.
    constructor; simp; try assumption; try (apply nodupk_adel; assumption);
      try (apply entries_ok_adel; assumption).
    intros g. rewrite cget_cdecr, G. rewrite !gcount_cnt. rewrite (cnt_adel_present _ _ _ p N3 Gq). lia.
Qed.

(* well-formedness, prefix-wise *)
Lemma added_app l1 l2 : added (l1 ++ l2) = added l1 ++ added l2.
Proof. induction l1 as [|[p t|p|h t] l IH]; simpl; rewrite ?IH; reflexivity. Qed.
Lemma mentioned_app l1 l2 : mentioned (l1 ++ l2) = mentioned l1 ++ mentioned l2.
Proof. induction l1 as [|[p t|p|h t] l IH]; simpl; rewrite ?IH; reflexivity. Qed.
Lemma added_mentioned l p : In p (added l) -> In p (mentioned l).
Proof.
  induction l as [|[q t|q|h t] l IH]; simpl; [tauto| | |].
  - intros [H|H]; [left; exact H|right; exact (IH H)].
  - intros H. right. exact (IH H).
  - exact IH.
Qed.

Lemma NoDup_app_l {A} (l1 l2 : list A) : NoDup (l1 ++ l2) -> NoDup l1.
Proof.
  induction l1 as [|x l IH]; simpl; intros H; [constructor|].
  inversion H as [|y l0 Hn Hd]. subst. constructor; [|exact (IH Hd)].
  intros Hin. apply Hn. apply in_or_app. left. exact Hin.
Qed.

Lemma wf_prefix l1 l2 : wf (l1 ++ l2) -> wf l1.
Proof.
  intros [H1 H2]. split.
  - rewrite added_app, map_app in H1. apply NoDup_app_l in H1. exact H1.
  - intros p q Hp Hq. apply H2; rewrite mentioned_app; apply in_or_app; left; assumption.
Qed.

Theorem inv_run c evs : wf evs -> Inv (added evs) (run c init evs).
Proof.
  induction evs as [|e l IH] using rev_ind; intros Hwf.
  - exact inv_init.
  - pose proof (wf_prefix _ _ Hwf) as Hwl. specialize (IH Hwl).
    rewrite run_snoc, added_app. destruct Hwf as [Hnd Huq].
    destruct e as [p now|p|h now]; simpl.
    + apply (inv_mono (p :: added l)); [intros x [Hx|Hx]; apply in_or_app; [right; left; exact Hx|left; exact Hx]|].
      apply inv_add; [exact IH|].
      rewrite added_app, map_app in Hnd. simpl in Hnd.
      apply NoDup_remove_2 in Hnd. rewrite app_nil_r in Hnd. exact Hnd.
    + rewrite app_nil_r. apply inv_done; [exact IH|].
      intros q Hq Hpid. apply Huq; [| |exact Hpid]; rewrite mentioned_app; apply in_or_app.
      * left. apply added_mentioned. exact Hq.
      * right. left. reflexivity.
    + rewrite app_nil_r. apply inv_set_banned. exact IH.
Qed.

(* the per-host counter equals the number of admitted peers of that host that count against the
   limit; the per-group counter equals the number of admitted outbound/persistent peers of the group *)
Theorem conn_count_exact c evs h :
  wf evs -> cget (ccount (run c init evs)) h = counted_of_host (run c init evs) h.
Proof. intros Hwf. exact (inv_cc _ _ (inv_run c evs Hwf) h). Qed.

Theorem group_count_exact c evs g :
  wf evs -> cget (groups (run c init evs)) g = outbound_of_group (run c init evs) g.
Proof. intros Hwf. exact (inv_gc _ _ (inv_run c evs Hwf) g). Qed.

(* ------------------------------------------------------------------ per-host limit *)
(* the counter itself never exceeds the limit (any history) *)
Lemma step_ccount_le c s e :
  0 <= max_per_ip c -> (forall h, cget (ccount s) h <= max_per_ip c) ->
  forall h, cget (ccount (fst (step c s e))) h <= max_per_ip c.
Proof.
  intros Hm Hle h. destruct e as [p now|p|h' now]; cbn [step fst].
  - unfold add_peer.
    assert (Hgen : forall s1, ccount s1 = ccount s ->
      cget (ccount (fst (if cget (ccount s1) (host p) >=? max_per_ip c then (s1, false)
        else if total s1 >=? max_peers c then (s1, false)
        else match pkind p with
        | Inbound => (mkSt (aset (inb s1) (pid p) p) (outb s1) (pers s1) (banned s1) (groups s1) (cincr (ccount s1) (host p)), true)
        | Persistent => (mkSt (inb s1) (outb s1) (aset (pers s1) (pid p) p) (banned s1) (cincr (groups s1) (group p)) (ccount s1), true)
        | Outbound => (mkSt (inb s1) (aset (outb s1) (pid p) p) (pers s1) (banned s1) (cincr (groups s1) (group p)) (cincr (ccount s1) (host p)), true)
        end))) h <= max_per_ip c).
    { intros s1 Hc. specialize (Hle h).
      destruct (cget (ccount s1) (host p) >=? max_per_ip c) eqn:E1; [simp; rewrite Hc; exact Hle|].
      destruct (total s1 >=? max_peers c); [simp; rewrite Hc; exact Hle|].
      destruct (pkind p); simp; rewrite ?cget_cincr, ?Hc in *;
        try (destruct (host p =? h) eqn:E2; [apply Z.eqb_eq in E2; subst h; lia|lia]). }
    destruct (aget (banned s) (host p)) as [e|].
    + destruct (now <? e); [simp; apply Hle|]. apply Hgen. reflexivity.
    + apply Hgen. reflexivity.
  - unfold done_peer. specialize (Hle h).
    destruct (pkind p).
    + destruct (aget (inb s) (pid p)); simp; [|exact Hle]. rewrite cget_cdecr. destruct (host p =? h); lia.
    + destruct (aget (outb s) (pid p)); simp; [|exact Hle]. rewrite cget_cdecr. destruct (host p =? h); lia.
    + destruct (aget (pers s) (pid p)); simp; exact Hle.
  - simp. apply Hle.
Qed.

Lemma ccount_le_max c evs h : 0 <= max_per_ip c -> cget (ccount (run c init evs)) h <= max_per_ip c.
Proof.
  intros Hm. revert h. induction evs as [|e l IH] using rev_ind; intros h.
  - simpl. exact Hm.
  - rewrite run_snoc. apply step_ccount_le; assumption.
Qed.

Theorem per_host_le_max c evs h :
  0 <= max_per_ip c -> wf evs -> counted_of_host (run c init evs) h <= max_per_ip c.
Proof.
  intros Hm Hwf. rewrite <- (conn_count_exact c evs h Hwf). apply ccount_le_max. exact Hm.
Qed.

(* ------------------------------------------------------------------ bans *)
Lemma time_mono_weaken lo lo' l : lo' <= lo -> time_mono lo l -> time_mono lo' l.
Proof.
  revert lo lo'. induction l as [|e t IH]; simpl; intros lo lo' Hle H; [exact I|].
  destruct (ev_time e) as [x|].
  - destruct H as [H1 H2]. split; [lia|exact H2].
  - exact (IH _ _ Hle H).
Qed.

Lemma time_mono_last lo l p now : time_mono lo (l ++ [Add p now]) -> lo <= now.
Proof.
  revert lo. induction l as [|e t IH]; simpl; intros lo H.
  - destruct H as [H _]. exact H.
  - destruct (ev_time e) as [x|].
    + destruct H as [H1 H2]. specialize (IH _ H2). lia.
    + exact (IH _ H).
Qed.

(* banned field after one step, for a host other than the one touched *)
Lemma add_banned_other c s p now h :
  host p <> h -> aget (banned (fst (add_peer c s p now))) h = aget (banned s) h.
Proof.
  intros Hne. unfold add_peer.
  assert (Hgen : forall s1, aget (banned s1) h = aget (banned s) h ->
    aget (banned (fst (if cget (ccount s1) (host p) >=? max_per_ip c then (s1, false)
      else if total s1 >=? max_peers c then (s1, false)
      else match pkind p with
      | Inbound => (mkSt (aset (inb s1) (pid p) p) (outb s1) (pers s1) (banned s1) (groups s1) (cincr (ccount s1) (host p)), true)
      | Persistent => (mkSt (inb s1) (outb s1) (aset (pers s1) (pid p) p) (banned s1) (cincr (groups s1) (group p)) (ccount s1), true)
      | Outbound => (mkSt (inb s1) (aset (outb s1) (pid p) p) (pers s1) (banned s1) (cincr (groups s1) (group p)) (cincr (ccount s1) (host p)), true)
      end))) h = aget (banned s) h).
  { intros s1 H1.
    destruct (cget (ccount s1) (host p) >=? max_per_ip c); [exact H1|].
    destruct (total s1 >=? max_peers c); [exact H1|].
    destruct (pkind p); exact H1. }
  destruct (aget (banned s) (host p)) as [e|].
  - destruct (now <? e); [reflexivity|]. apply Hgen. simp. apply aget_adel_other. congruence.
  - apply Hgen. reflexivity.
Qed.

Lemma add_rejected_when_banned c s p now e :
  aget (banned s) (host p) = Some e -> now < e -> add_peer c s p now = (s, false).
Proof.
  intros Hb Hlt. unfold add_peer. rewrite Hb.
  assert (E : (now <? e) = true) by (apply Z.ltb_lt; exact Hlt). rewrite E. reflexivity.
Qed.

Lemma done_banned s p : banned (done_peer s p) = banned s.
Proof.
  unfold done_peer. destruct (pkind p).
  - destruct (aget (inb s) (pid p)); reflexivity.
  - destruct (aget (outb s) (pid p)); reflexivity.
  - destruct (aget (pers s) (pid p)); reflexivity.
Qed.

(* once host h is banned at t0, the entry stays (possibly renewed to a later expiry) as long as
   the clock has not reached t0 + ban_dur *)
Lemma ban_persists c h t0 p now :
  host p = h -> now < t0 + ban_dur c ->
  forall evs s lo e,
    aget (banned s) h = Some e -> t0 + ban_dur c <= e -> t0 <= lo ->
    time_mono lo (evs ++ [Add p now]) ->
    step c (run c s evs) (Add p now) = (run c s evs, false).
Proof.
  intros Hh Hnow. induction evs as [|ev l IH]; intros s lo e Hb He Hlo Hm.
  - simpl. apply (add_rejected_when_banned c s p now e); [rewrite Hh; exact Hb|lia].
  - rewrite run_cons. change ((ev :: l) ++ [Add p now]) with (ev :: (l ++ [Add p now])) in Hm.
    destruct ev as [q t|q|h' t]; cbn [time_mono ev_time] in Hm.
    + destruct Hm as [Hm1 Hm2]. pose proof (time_mono_last _ _ _ _ Hm2) as Hle.
      cbn [step]. destruct (Z.eq_dec (host q) h) as [Heq|Hne].
      * rewrite (add_rejected_when_banned c s q t e); [|rewrite Heq; exact Hb|lia].
        cbn [fst]. apply (IH s t e); try assumption; lia.
      * apply (IH _ t e); try assumption; [|lia].
        rewrite add_banned_other by exact Hne. exact Hb.
    + cbn [step fst]. apply (IH _ lo e); try assumption. rewrite done_banned. exact Hb.
    + destruct Hm as [Hm1 Hm2]. cbn [step fst]. unfold ban_host.
      destruct (Z.eq_dec h' h) as [Heq|Hne].
      * subst h'. apply (IH _ t (t + ban_dur c)); try assumption; [|lia|lia].
        simp. apply aget_aset_same.
      * apply (IH _ t e); try assumption; [|lia].
        simp. rewrite aget_aset_other by congruence. exact Hb.
Qed.

(* no peer of a banned host is admitted before the ban duration has elapsed: whatever happened
   before the ban (evs1) and whatever happens between the ban and the Add (evs2, clock readings not
   going backwards), the Add is refused and leaves the state untouched *)
Theorem banned_not_admitted_before_expiry c evs1 evs2 h t0 p now :
  host p = h -> now < t0 + ban_dur c ->
  time_mono t0 (evs2 ++ [Add p now]) ->
  let s := run c init (evs1 ++ Ban h t0 :: evs2) in
  step c s (Add p now) = (s, false).
Proof.
  intros Hh Hnow Hm s. subst s.
  rewrite run_app, run_cons. cbn [step fst].
  apply (ban_persists c h t0 p now Hh Hnow evs2 _ t0 (t0 + ban_dur c)); try lia; [|exact Hm].
  unfold ban_host. simp. apply aget_aset_same.
Qed.

(* every entry of the ban table stems from a Ban event of the history *)
Lemma banned_origin c evs h e :
  aget (banned (run c init evs)) h = Some e -> exists t0, In (Ban h t0) evs /\ e = t0 + ban_dur c.
Proof.
  revert h e. induction evs as [|ev l IH] using rev_ind; intros h e H.
  - discriminate.
  - rewrite run_snoc in H.
    assert (Hold : aget (banned (run c init l)) h = Some e -> exists t0, In (Ban h t0) (l ++ [ev]) /\ e = t0 + ban_dur c).
    { intros H0. destruct (IH _ _ H0) as [t0 [X1 X2]]. exists t0. split; [apply in_or_app; left; exact X1|exact X2]. }
    destruct ev as [q t|q|h' t]; cbn [step fst] in H.
    + destruct (Z.eq_dec (host q) h) as [Heq|Hne].
      * apply Hold. revert H. unfold add_peer.
        destruct (aget (banned (run c init l)) (host q)) as [e'|] eqn:Hb.
        -- destruct (t <? e').
           ++ cbn [fst]. intros H. exact H.
           ++ set (s1 := set_banned (run c init l) (adel (banned (run c init l)) (host q))).
              assert (Hn : aget (banned s1) h = None) by (subst s1; simp; rewrite Heq; apply aget_adel_same).
              destruct (cget (ccount s1) (host q) >=? max_per_ip c); [cbn [fst]; congruence|].
              destruct (total s1 >=? max_peers c); [cbn [fst]; congruence|].
              destruct (pkind q); cbn [fst banned]; congruence.
        -- destruct (cget (ccount (run c init l)) (host q) >=? max_per_ip c); [cbn [fst]; auto|].
           destruct (total (run c init l) >=? max_peers c); [cbn [fst]; auto|].
           destruct (pkind q); cbn [fst banned]; auto.
      * rewrite add_banned_other in H by exact Hne. apply Hold. exact H.
    + rewrite done_banned in H. apply Hold. exact H.
    + unfold ban_host in H. simp.
      destruct (Z.eq_dec h' h) as [Heq|Hne].
      * subst h'. rewrite aget_aset_same in H. inversion H. exists t. split; [apply in_or_app; right; left; reflexivity|reflexivity].
      * rewrite aget_aset_other in H by congruence. apply Hold. exact H.
Qed.

(* ... while it is admitted again afterwards, and admission is not wedged: when every ban of the
   host has run out, fewer than max_per_ip counted peers of the host are actually admitted and fewer
   than max_peers in total, a new peer object IS admitted *)
Theorem admitted_after_expiry c evs p now :
  wf (evs ++ [Add p now]) ->
  (forall t0, In (Ban (host p) t0) evs -> t0 + ban_dur c <= now) ->
  counted_of_host (run c init evs) (host p) < max_per_ip c ->
  total (run c init evs) < max_peers c ->
  snd (step c (run c init evs) (Add p now)) = true /\
  admitted (fst (step c (run c init evs) (Add p now))) p.
Proof.
  intros Hwf Hb Hc Ht.
  pose proof (wf_prefix _ _ Hwf) as Hwl.
  rewrite <- (conn_count_exact c evs (host p) Hwl) in Hc.
  set (s := run c init evs) in *.
  cbn [step]. unfold add_peer.
  assert (Hgen : forall s1, ccount s1 = ccount s -> total s1 = total s ->
    let r := (if cget (ccount s1) (host p) >=? max_per_ip c then (s1, false)
      else if total s1 >=? max_peers c then (s1, false)
      else match pkind p with
      | Inbound => (mkSt (aset (inb s1) (pid p) p) (outb s1) (pers s1) (banned s1) (groups s1) (cincr (ccount s1) (host p)), true)
      | Persistent => (mkSt (inb s1) (outb s1) (aset (pers s1) (pid p) p) (banned s1) (cincr (groups s1) (group p)) (ccount s1), true)
      | Outbound => (mkSt (inb s1) (aset (outb s1) (pid p) p) (pers s1) (banned s1) (cincr (groups s1) (group p)) (cincr (ccount s1) (host p)), true)
      end) in snd r = true /\ admitted (fst r) p).
  { intros s1 E1 E2 r. subst r. rewrite E1, E2.
    assert (X1 : (cget (ccount s) (host p) >=? max_per_ip c) = false) by lia.
    assert (X2 : (total s >=? max_peers c) = false) by lia.
    rewrite X1, X2. unfold admitted.
    destruct (pkind p); cbn [fst snd inb outb pers]; (split; [reflexivity|apply aget_aset_same]). }
  destruct (aget (banned s) (host p)) as [e|] eqn:Hbe.
  - destruct (banned_origin c evs _ _ Hbe) as [t0 [X1 X2]]. specialize (Hb _ X1).
    assert (E : (now <? e) = false) by lia. rewrite E. apply Hgen; reflexivity.
  - apply Hgen; reflexivity.
Qed.

(* ------------------------------------------------------------------ counters return to zero *)
Definition amap (k : kind) (s : st) : list (Z * peer) :=
  match k with Inbound => inb s | Outbound => outb s | Persistent => pers s end.

Lemma add_amap c s p now k :
  amap k (fst (add_peer c s p now)) = amap k s \/ amap k (fst (add_peer c s p now)) = aset (amap k s) (pid p) p.
Proof.
  unfold add_peer.
  assert (Hgen : forall s1, amap k s1 = amap k s ->
    let r := (if cget (ccount s1) (host p) >=? max_per_ip c then (s1, false)
      else if total s1 >=? max_peers c then (s1, false)
      else match pkind p with
      | Inbound => (mkSt (aset (inb s1) (pid p) p) (outb s1) (pers s1) (banned s1) (groups s1) (cincr (ccount s1) (host p)), true)
      | Persistent => (mkSt (inb s1) (outb s1) (aset (pers s1) (pid p) p) (banned s1) (cincr (groups s1) (group p)) (ccount s1), true)
      | Outbound => (mkSt (inb s1) (aset (outb s1) (pid p) p) (pers s1) (banned s1) (cincr (groups s1) (group p)) (cincr (ccount s1) (host p)), true)
      end) in amap k (fst r) = amap k s \/ amap k (fst r) = aset (amap k s) (pid p) p).
  { intros s1 E r. subst r.
    destruct (cget (ccount s1) (host p) >=? max_per_ip c); [left; exact E|].
    destruct (total s1 >=? max_peers c); [left; exact E|].
    destruct (pkind p); destruct k; cbn [fst amap inb outb pers] in *; rewrite ?E; auto. }
  destruct (aget (banned s) (host p)) as [e|].
  - destruct (now <? e); [left; reflexivity|]. apply Hgen. destruct k; reflexivity.
  - apply Hgen. reflexivity.
Qed.

Lemma done_amap s p k :
  amap k (done_peer s p) = amap k s \/ amap k (done_peer s p) = adel (amap k s) (pid p).
Proof.
  unfold done_peer. destruct (pkind p).
  - destruct (aget (inb s) (pid p)); destruct k; cbn [amap inb outb pers]; auto.
  - destruct (aget (outb s) (pid p)); destruct k; cbn [amap inb outb pers]; auto.
  - destruct (aget (pers s) (pid p)); destruct k; cbn [amap inb outb pers]; auto.
Qed.

Lemma done_removes s p : aget (amap (pkind p) (done_peer s p)) (pid p) = None.
Proof.
  unfold done_peer. destruct (pkind p) eqn:K; cbn [amap].
  - destruct (aget (inb s) (pid p)) eqn:G; cbn [inb]; [apply aget_adel_same|exact G].
  - destruct (aget (outb s) (pid p)) eqn:G; cbn [outb]; [apply aget_adel_same|exact G].
  - destruct (aget (pers s) (pid p)) eqn:G; cbn [pers]; [apply aget_adel_same|exact G].
Qed.

Lemma absent_stays c k i l : forall s,
  aget (amap k s) i = None -> ~ In i (map pid (added l)) -> aget (amap k (run c s l)) i = None.
Proof.
  induction l as [|e t IH]; intros s Hn Hni; [exact Hn|].
  rewrite run_cons. destruct e as [p now|p|h now]; cbn [step fst added map] in *.
  - apply IH; [|intros H; apply Hni; right; exact H].
    destruct (add_amap c s p now k) as [E|E]; rewrite E; [exact Hn|].
    rewrite aget_aset_other; [exact Hn|]. intros X. apply Hni. left. congruence.
  - apply IH; [|exact Hni].
    destruct (done_amap s p k) as [E|E]; rewrite E; [exact Hn|].
    destruct (Z.eq_dec i (pid p)) as [X|X]; [subst i; apply aget_adel_same|].
    rewrite aget_adel_other by exact X. exact Hn.
  - apply IH; [|exact Hni]. destruct k; exact Hn.
Qed.

(* p was handed to Add and later to Done *)
Definition left_after (evs : list ev) (p : peer) : Prop :=
  exists l1 t l2 l3, evs = l1 ++ Add p t :: l2 ++ Done p :: l3.

Lemma left_not_admitted c evs p :
  wf evs -> left_after evs p -> aget (amap (pkind p) (run c init evs)) (pid p) = None.
Proof.
  intros [Hnd _] [l1 [t [l2 [l3 E]]]]. subst evs.
  replace (l1 ++ Add p t :: l2 ++ Done p :: l3) with ((l1 ++ Add p t :: l2) ++ Done p :: l3)
    by (rewrite <- app_assoc; reflexivity).
  rewrite run_app, run_cons. cbn [step fst].
  apply absent_stays; [apply done_removes|].
  rewrite !added_app in Hnd. cbn [added] in Hnd. rewrite added_app in Hnd. cbn [added] in Hnd.
  rewrite !map_app in Hnd. cbn [map] in Hnd. rewrite map_app in Hnd.
  apply NoDup_remove_2 in Hnd. intros X. apply Hnd.
  apply in_or_app. right. apply in_or_app. right. exact X.
Qed.

Lemma cnt_zero f l : (forall i q, In (i, q) l -> f q = false) -> cnt f l = 0.
Proof.
  induction l as [|[i q] t IH]; intros H; [reflexivity|].
  rewrite cnt_cons, IH; [|intros j r Hr; apply (H j r); right; exact Hr].
  rewrite (H i q) by (left; reflexivity). reflexivity.
Qed.

(* "per-host counters return to zero when the corresponding peers have left" *)
Theorem host_counter_returns_to_zero c evs h :
  wf evs ->
  (forall p, In p (added evs) -> host p = h -> pkind p <> Persistent -> left_after evs p) ->
  cget (ccount (run c init evs)) h = 0.
Proof.
  intros Hwf Hleft. rewrite (conn_count_exact c evs h Hwf). unfold counted_of_host.
  pose proof (inv_run c evs Hwf) as [N1 N2 N3 E1 E2 E3 _ _].
  rewrite !hcount_cnt, !cnt_zero; [reflexivity| |].
  - intros i q Hin. destruct (E2 _ _ Hin) as [X1 [X2 X3]].
    destruct (host q =? h) eqn:E; [|reflexivity]. apply Z.eqb_eq in E. exfalso.
    assert (Hl : left_after evs q) by (apply Hleft; [exact X3|exact E|rewrite X2; discriminate]).
    pose proof (left_not_admitted c evs q Hwf Hl) as Hn. rewrite X2 in Hn. cbn [amap] in Hn.
    rewrite X1 in Hn. rewrite (nodupk_In_aget _ _ _ N2 Hin) in Hn. discriminate.
  - intros i q Hin. destruct (E1 _ _ Hin) as [X1 [X2 X3]].
    destruct (host q =? h) eqn:E; [|reflexivity]. apply Z.eqb_eq in E. exfalso.
    assert (Hl : left_after evs q) by (apply Hleft; [exact X3|exact E|rewrite X2; discriminate]).
    pose proof (left_not_admitted c evs q Hwf Hl) as Hn. rewrite X2 in Hn. cbn [amap] in Hn.
    rewrite X1 in Hn. rewrite (nodupk_In_aget _ _ _ N1 Hin) in Hn. discriminate.
Qed.

(* "... and per-group counters" *)
Theorem group_counter_returns_to_zero c evs g :
  wf evs ->
  (forall p, In p (added evs) -> group p = g -> pkind p <> Inbound -> left_after evs p) ->
  cget (groups (run c init evs)) g = 0.
Proof.
  intros Hwf Hleft. rewrite (group_count_exact c evs g Hwf). unfold outbound_of_group.
  pose proof (inv_run c evs Hwf) as [N1 N2 N3 E1 E2 E3 _ _].
  rewrite !gcount_cnt, !cnt_zero; [reflexivity| |].
  - intros i q Hin. destruct (E3 _ _ Hin) as [X1 [X2 X3]].
    destruct (group q =? g) eqn:E; [|reflexivity]. apply Z.eqb_eq in E. exfalso.
    assert (Hl : left_after evs q) by (apply Hleft; [exact X3|exact E|rewrite X2; discriminate]).
    pose proof (left_not_admitted c evs q Hwf Hl) as Hn. rewrite X2 in Hn. cbn [amap] in Hn.
    rewrite X1 in Hn. rewrite (nodupk_In_aget _ _ _ N3 Hin) in Hn. discriminate.
  - intros i q Hin. destruct (E2 _ _ Hin) as [X1 [X2 X3]].
    destruct (group q =? g) eqn:E; [|reflexivity]. apply Z.eqb_eq in E. exfalso.
    assert (Hl : left_after evs q) by (apply Hleft; [exact X3|exact E|rewrite X2; discriminate]).
    pose proof (left_not_admitted c evs q Hwf Hl) as Hn. rewrite X2 in Hn. cbn [amap] in Hn.
    rewrite X1 in Hn. rewrite (nodupk_In_aget _ _ _ N2 Hin) in Hn. discriminate.
Qed.

(* ------------------------------------------------------------------ the hypotheses are satisfiable *)
Module PeersExamples.
Definition c0 := mkCfg 125 5 10.
Definition p1 := mkPeer 1 3 1 Inbound.
Definition p2 := mkPeer 2 3 1 Outbound.
Definition p3 := mkPeer 3 7 2 Outbound.
Definition p4 := mkPeer 4 7 2 Inbound.
Definition p5 := mkPeer 5 3 1 Persistent.

Ltac wf_tac :=
  split; [cbn; repeat constructor; cbn; intuition discriminate
         | cbn; intros p q Hp Hq Hpid;
           repeat (destruct Hp as [Hp|Hp]; [subst p|]); try contradiction;
           repeat (destruct Hq as [Hq|Hq]; [subst q|]); try contradiction;
           first [reflexivity | discriminate Hpid]].

Definition p9 := mkPeer 9 3 1 Inbound.
Definition hist1 := [Add p1 0; Add p2 0; Add p5 0; Ban 7 1; Add p3 2; Done p1; Done p9].

Example hist1_wf : wf hist1.
Proof. wf_tac. Qed.

(* count_le_max / per_host_le_max / conn_count_exact / group_count_exact on hist1:
   three peers admitted (p1 left again), host 3 counts one (p2; the persistent p5 is exempt),
   group 1 counts two (p2, p5) *)
Example hist1_values :
  total (run c0 init hist1) = 2 /\ counted_of_host (run c0 init hist1) 3 = 1 /\
  cget (ccount (run c0 init hist1)) 3 = 1 /\ outbound_of_group (run c0 init hist1) 1 = 2 /\
  cget (groups (run c0 init hist1)) 1 = 2.
Proof. vm_compute. repeat split. Qed.

Example hist1_exact : cget (ccount (run c0 init hist1)) 3 = counted_of_host (run c0 init hist1) 3.
Proof. exact (conn_count_exact c0 hist1 3 hist1_wf). Qed.

(* banned_not_admitted_before_expiry: host 7 banned at 1 for 10 units, p3 (host 7) knocks at 2 *)
Example banned_ex :
  step c0 (run c0 init ([Add p1 0; Add p2 0] ++ Ban 7 1 :: [Done p1])) (Add p3 2)
  = (run c0 init ([Add p1 0; Add p2 0] ++ Ban 7 1 :: [Done p1]), false).
Proof.
  apply (banned_not_admitted_before_expiry c0 [Add p1 0; Add p2 0] [Done p1] 7 1 p3 2).
  - reflexivity.
  - cbn. lia.
  - cbn. lia.
Qed.

(* admitted_after_expiry: the same host at 11 = 1 + 10 *)
Example readmitted_ex :
  snd (step c0 (run c0 init hist1) (Add p4 11)) = true /\
  admitted (fst (step c0 (run c0 init hist1) (Add p4 11))) p4.
Proof.
  apply admitted_after_expiry.
  - unfold hist1. wf_tac.
  - intros t0 Hin. cbn in Hin. repeat (destruct Hin as [Hin|Hin]; try discriminate Hin); try contradiction.
    inversion Hin. subst. cbn. lia.
  - vm_compute. reflexivity.
  - vm_compute. reflexivity.
Qed.

(* host_counter_returns_to_zero: both counted peers of host 3 have left *)
Definition hist2 := [Add p1 0; Add p2 0; Add p3 0; Done p2; Add p5 1; Done p1].
Example zero_ex : cget (ccount (run c0 init hist2)) 3 = 0.
Proof.
  apply host_counter_returns_to_zero.
  - unfold hist2. wf_tac.
  - intros p Hin Hh Hk. cbn in Hin.
    destruct Hin as [E|[E|[E|[E|[]]]]]; subst p; try discriminate Hh.
    + exists [], 0, [Add p2 0; Add p3 0; Done p2; Add p5 1], []. reflexivity.
    + exists [Add p1 0], 0, [Add p3 0], [Add p5 1; Done p1]. reflexivity.
    + exfalso. apply Hk. reflexivity.
Qed.
End PeersExamples.

(* ------------------------------------------------------------------ the Done-before-Add defect *)
(* peerHandler's select may deliver the Done of a peer before its Add (both channels are ready when
   a peer disconnects right after its version message).  Then the Add still admits the - already
   disconnected - peer, and nothing ever removes it: "counters return to zero when the peers have
   left" is false if "left" is read as "was delivered to Done", in whatever order. *)
Theorem done_before_add_leaks_refuted :
  ~ (forall c evs h, wf evs ->
       (forall p, In p (added evs) -> host p = h -> pkind p <> Persistent -> In (Done p) evs) ->
       cget (ccount (run c init evs)) h = 0).
Proof.
  intros H.
  specialize (H PeersExamples.c0 [Done PeersExamples.p1; Add PeersExamples.p1 0] 3).
  assert (W : wf [Done PeersExamples.p1; Add PeersExamples.p1 0]) by PeersExamples.wf_tac.
  specialize (H W).
  assert (L : forall p, In p (added [Done PeersExamples.p1; Add PeersExamples.p1 0]) -> host p = 3 ->
              pkind p <> Persistent -> In (Done p) [Done PeersExamples.p1; Add PeersExamples.p1 0]).
  { intros p Hin _ _. cbn in Hin. destruct Hin as [E|[]]. subst p. left. reflexivity. }
  specialize (H L). vm_compute in H. discriminate H.
Qed.

