(* C18 proofs, part 1: the admission bookkeeping model [Peers]. *)
From Coq Require Import ZArith Lia Bool List.
From BHS Require Import Peers.
Import ListNotations.
Open Scope Z_scope.

Arguments zlen : simpl never.
Arguments aset : simpl never.
Arguments cincr : simpl never.
Arguments cdecr : simpl never.
Arguments cget : simpl never.

(* ------------------------------------------------------------------ association lists *)
Section Assoc.
Context {A : Type}.
Implicit Types m : list (Z * A).

Lemma aget_adel_same m k : aget (adel m k) k = None.
Proof.
  induction m as [|[k' v] t IH]; simpl; [reflexivity|].
  destruct (k' =? k) eqn:E; [exact IH|]. simpl. rewrite E. exact IH.
Qed.

Lemma aget_adel_other m k k' : k' <> k -> aget (adel m k) k' = aget m k'.
Proof.
  intros Hne. induction m as [|[k0 v] t IH]; simpl; [reflexivity|].
  destruct (k0 =? k) eqn:E.
  - apply Z.eqb_eq in E. subst k0.
    destruct (k =? k') eqn:E2; [apply Z.eqb_eq in E2; congruence|exact IH].
  - simpl. destruct (k0 =? k'); [reflexivity|exact IH].
Qed.

Lemma adel_absent m k : aget m k = None -> adel m k = m.
Proof.
  induction m as [|[k' v] t IH]; simpl; [reflexivity|].
  destruct (k' =? k); [discriminate|]. intros H. rewrite IH by exact H. reflexivity.
Qed.

Lemma aget_aset_same m k v : aget (aset m k v) k = Some v.
Proof. unfold aset. simpl. rewrite Z.eqb_refl. reflexivity. Qed.

Lemma aget_aset_other m k k' v : k' <> k -> aget (aset m k v) k' = aget m k'.
Proof.
  intros Hne. unfold aset. simpl.
  destruct (k =? k') eqn:E; [apply Z.eqb_eq in E; congruence|]. apply aget_adel_other. exact Hne.
Qed.

Lemma length_adel_le m k : (length (adel m k) <= length m)%nat.
Proof.
  induction m as [|[k' v] t IH]; simpl; [lia|]. destruct (k' =? k); simpl; lia.
Qed.

Lemma In_adel m k x : In x (adel m k) -> In x m /\ fst x <> k.
Proof.
  induction m as [|[k' v] t IH]; simpl; [tauto|].
  destruct (k' =? k) eqn:E.
  - intros H. destruct (IH H) as [H1 H2]. split; [right; exact H1|exact H2].
  - intros [H|H].
    + subst x. split; [left; reflexivity|]. simpl. apply Z.eqb_neq in E. exact E.
    + destruct (IH H) as [H1 H2]. split; [right; exact H1|exact H2].
Qed.

Lemma In_aget m k v : In (k, v) m -> aget m k <> None.
Proof.
  induction m as [|[k' v'] t IH]; simpl; [tauto|].
  intros [H|H].
  - inversion H. subst. rewrite Z.eqb_refl. discriminate.
  - destruct (k' =? k); [discriminate|exact (IH H)].
Qed.

Lemma aget_In m k v : aget m k = Some v -> In (k, v) m.
Proof.
  induction m as [|[k' v'] t IH]; simpl; [discriminate|].
  destruct (k' =? k) eqn:E.
  - intros H. inversion H. subst. apply Z.eqb_eq in E. subst. left. reflexivity.
  - intros H. right. exact (IH H).
Qed.

Definition nodupk m := NoDup (map fst m).

Lemma nodupk_adel m k : nodupk m -> nodupk (adel m k).
Proof.
  unfold nodupk. induction m as [|[k' v] t IH]; simpl; intros H; [constructor|].
  inversion H as [|x l Hnin Hnd]. subst.
  destruct (k' =? k); [exact (IH Hnd)|].
  simpl. constructor; [|exact (IH Hnd)].
  intros Hin. apply Hnin. apply in_map_iff in Hin. destruct Hin as [x [Hx1 Hx2]].
  apply In_adel in Hx2. destruct Hx2 as [Hx2 _]. apply in_map_iff. exists x. split; assumption.
Qed.

Lemma nodupk_aset m k v : nodupk m -> nodupk (aset m k v).
Proof.
  intros H. unfold aset, nodupk. simpl. constructor; [|apply nodupk_adel; exact H].
  intros Hin. apply in_map_iff in Hin. destruct Hin as [x [Hx1 Hx2]].
  apply In_adel in Hx2. destruct Hx2 as [_ Hx2]. congruence.
Qed.

(* with unique keys, the entry found by aget is the only one with that key *)
Lemma nodupk_In_aget m k v : nodupk m -> In (k, v) m -> aget m k = Some v.
Proof.
  unfold nodupk. induction m as [|[k' v'] t IH]; simpl; [tauto|].
  intros Hnd [H|H].
  - inversion H. subst. rewrite Z.eqb_refl. reflexivity.
  - inversion Hnd as [|x l Hnin Hnd']. subst.
    destruct (k' =? k) eqn:E.
    + apply Z.eqb_eq in E. subst k'. exfalso. apply Hnin. apply in_map_iff. exists (k, v). split; [reflexivity|exact H].
    + exact (IH Hnd' H).
Qed.
End Assoc.

Lemma cget_cincr_same m k : cget (cincr m k) k = cget m k + 1.
Proof. unfold cincr, cget at 1. rewrite aget_aset_same. reflexivity. Qed.
Lemma cget_cincr_other m k k' : k' <> k -> cget (cincr m k) k' = cget m k'.
Proof. intros H. unfold cincr, cget at 1. rewrite aget_aset_other by exact H. reflexivity. Qed.
Lemma cget_cdecr_same m k : cget (cdecr m k) k = cget m k - 1.
Proof. unfold cdecr, cget at 1. rewrite aget_aset_same. reflexivity. Qed.
Lemma cget_cdecr_other m k k' : k' <> k -> cget (cdecr m k) k' = cget m k'.
Proof. intros H. unfold cdecr, cget at 1. rewrite aget_aset_other by exact H. reflexivity. Qed.

Lemma cget_cincr m k k' : cget (cincr m k) k' = cget m k' + (if k =? k' then 1 else 0).
Proof.
  destruct (k =? k') eqn:E.
  - apply Z.eqb_eq in E. subst. apply cget_cincr_same.
  - apply Z.eqb_neq in E. rewrite cget_cincr_other by congruence. lia.
Qed.
Lemma cget_cdecr m k k' : cget (cdecr m k) k' = cget m k' - (if k =? k' then 1 else 0).
Proof.
  destruct (k =? k') eqn:E.
  - apply Z.eqb_eq in E. subst. apply cget_cdecr_same.
  - apply Z.eqb_neq in E. rewrite cget_cdecr_other by congruence. lia.
Qed.

(* ------------------------------------------------------------------ counting *)
Definition cnt (f : peer -> bool) (l : list (Z * peer)) : Z := zlen (filter (fun e => f (snd e)) l).

Lemma hcount_cnt h l : hcount h l = cnt (fun p => host p =? h) l.
Proof. reflexivity. Qed.
Lemma gcount_cnt g l : gcount g l = cnt (fun p => group p =? g) l.
Proof. reflexivity. Qed.

Lemma cnt_cons f k p l : cnt f ((k, p) :: l) = cnt f l + (if f p then 1 else 0).
Proof. unfold cnt, zlen. simpl. destruct (f p); simpl length; lia. Qed.

Lemma cnt_nonneg f l : 0 <= cnt f l.
Proof. unfold cnt, zlen. lia. Qed.

Lemma cnt_adel_absent f l k : aget l k = None -> cnt f (adel l k) = cnt f l.
Proof. intros H. rewrite adel_absent by exact H. reflexivity. Qed.

Lemma cnt_adel_present f l k p :
  nodupk l -> aget l k = Some p -> cnt f (adel l k) = cnt f l - (if f p then 1 else 0).
Proof.
  unfold nodupk. induction l as [|[k' p'] t IH]; simpl; [discriminate|].
  intros Hnd Hget. inversion Hnd as [|x l0 Hnin Hnd']. subst.
  destruct (k' =? k) eqn:E.
  - inversion Hget. subst p'. apply Z.eqb_eq in E. subst k'.
    rewrite cnt_cons.
    assert (Habs : aget t k = None).
    { destruct (aget t k) eqn:G; [|reflexivity]. exfalso. apply Hnin.
      apply aget_In in G. apply in_map_iff. exists (k, p0). split; [reflexivity|exact G]. }
    rewrite cnt_adel_absent by exact Habs. destruct (f p); lia.
  - rewrite !cnt_cons. rewrite (IH Hnd' Hget). destruct (f p); destruct (f p'); lia.
Qed.

Lemma cnt_aset_absent f l k p : aget l k = None -> cnt f (aset l k p) = cnt f l + (if f p then 1 else 0).
Proof. intros H. unfold aset. rewrite cnt_cons, cnt_adel_absent by exact H. reflexivity. Qed.

Lemma zlen_cons {A} (x : A) l : zlen (x :: l) = zlen l + 1.
Proof. unfold zlen. simpl length. lia. Qed.
Lemma zlen_nonneg {A} (l : list A) : 0 <= zlen l.
Proof. unfold zlen. lia. Qed.
Lemma zlen_adel_le {A} (m : list (Z * A)) k : zlen (adel m k) <= zlen m.
Proof. unfold zlen. pose proof (length_adel_le m k). lia. Qed.
Lemma zlen_aset_le {A} (m : list (Z * A)) k v : zlen (aset m k v) <= zlen m + 1.
Proof. unfold aset. rewrite zlen_cons. pose proof (zlen_adel_le m k). lia. Qed.
Lemma zlen_aset_absent {A} (m : list (Z * A)) k v : aget m k = None -> zlen (aset m k v) = zlen m + 1.
Proof. intros H. unfold aset. rewrite zlen_cons, adel_absent by exact H. reflexivity. Qed.

(* ------------------------------------------------------------------ run / fold *)
Lemma run_app c s l1 l2 : run c s (l1 ++ l2) = run c (run c s l1) l2.
Proof. unfold run. apply fold_left_app. Qed.
Lemma run_cons c s e l : run c s (e :: l) = run c (fst (step c s e)) l.
Proof. reflexivity. Qed.
Lemma run_snoc c s l e : run c s (l ++ [e]) = fst (step c (run c s l) e).
Proof. rewrite run_app. reflexivity. Qed.

(* ------------------------------------------------------------------ case analysis of the handler *)
Ltac simp := cbn [fst snd inb outb pers banned groups ccount gone set_banned mark_gone] in *.

Lemma admit_cases c s1 p :
  admit_peer c s1 p = (mark_gone s1 (pid p), false) \/
  (admit_peer c s1 p = (insert s1 p, true) /\ cget (ccount s1) (host p) < max_per_ip c /\ total s1 < max_peers c).
Proof.
  unfold admit_peer. destruct (cget (ccount s1) (host p) >=? max_per_ip c) eqn:E1; [left; reflexivity|].
  destruct (total s1 >=? max_peers c) eqn:E2; [left; reflexivity|]. right. split; [reflexivity|lia].
Qed.

Lemma add_peer_cases c s p now :
  (zmem (pid p) (gone s) = true /\ add_peer c s p now = (s, false)) \/
  (zmem (pid p) (gone s) = false /\
   ((exists e, aget (banned s) (host p) = Some e /\ now < e /\ add_peer c s p now = (mark_gone s (pid p), false)) \/
    (exists e, aget (banned s) (host p) = Some e /\ e <= now /\
               add_peer c s p now = admit_peer c (set_banned s (adel (banned s) (host p))) p) \/
    (aget (banned s) (host p) = None /\ add_peer c s p now = admit_peer c s p))).
Proof.
  unfold add_peer. destruct (zmem (pid p) (gone s)); [left; split; reflexivity|]. right. split; [reflexivity|].
  destruct (aget (banned s) (host p)) as [e|].
  - destruct (now <? e) eqn:E.
    + left. exists e. repeat split; try reflexivity. lia.
    + right. left. exists e. repeat split; try reflexivity. lia.
  - right. right. split; reflexivity.
Qed.

(* a state predicate kept by "disconnect", by ban-table updates and by insertion is kept by Add *)
Lemma add_preserves (Q : st -> Prop) c s p now :
  (forall x k, Q x -> Q (mark_gone x k)) ->
  (forall x b, Q x -> Q (set_banned x b)) ->
  (forall x, Q x -> cget (ccount x) (host p) < max_per_ip c -> total x < max_peers c -> Q (insert x p)) ->
  Q s -> Q (fst (add_peer c s p now)).
Proof.
  intros Hg Hb Hi HQ.
  assert (Ha : forall x, Q x -> Q (fst (admit_peer c x p))).
  { intros x Hx. destruct (admit_cases c x p) as [E|[E [L1 L2]]]; rewrite E; cbn [fst]; auto. }
  destruct (add_peer_cases c s p now) as [[_ E]|[_ [[e [_ [_ E]]]|[[e [_ [_ E]]]|[_ E]]]]]; rewrite E; cbn [fst]; auto.
Qed.

Lemma total_mark_gone s k : total (mark_gone s k) = total s.
Proof. reflexivity. Qed.
Lemma total_set_banned s b : total (set_banned s b) = total s.
Proof. reflexivity. Qed.
Lemma total_insert_le s p : total (insert s p) <= total s + 1.
Proof.
  unfold insert, total. destruct (pkind p); simp.
  - pose proof (zlen_aset_le (inb s) (pid p) p). lia.
  - pose proof (zlen_aset_le (outb s) (pid p) p). lia.
  - pose proof (zlen_aset_le (pers s) (pid p) p). lia.
Qed.

(* ------------------------------------------------------------------ total limit (no wf needed) *)
Lemma step_total c s e : 0 <= max_peers c -> total s <= max_peers c -> total (fst (step c s e)) <= max_peers c.
Proof.
  intros Hmp Hle. destruct e as [p now|p|h now|p]; cbn [step fst].
  - apply (add_preserves (fun x => total x <= max_peers c)); auto.
    intros x Hx _ Hlt. pose proof (total_insert_le x p). lia.
  - unfold done_peer, total in *. destruct (pkind p).
    + destruct (aget (inb s) (pid p)); simp; [|lia]. pose proof (zlen_adel_le (inb s) (pid p)). lia.
    + destruct (aget (outb s) (pid p)); simp; [|lia]. pose proof (zlen_adel_le (outb s) (pid p)). lia.
    + destruct (aget (pers s) (pid p)); simp; [|lia]. pose proof (zlen_adel_le (pers s) (pid p)). lia.
  - exact Hle.
  - exact Hle.
Qed.

Theorem count_le_max c evs : 0 <= max_peers c -> total (run c init evs) <= max_peers c.
Proof.
  intros Hmp. induction evs as [|e l IH] using rev_ind.
  - simpl. unfold total. simpl. exact Hmp.
  - rewrite run_snoc. apply step_total; assumption.
Qed.

(* ------------------------------------------------------------------ the bookkeeping invariant *)
(* A = the peer objects handed to Add so far *)
Definition entries_ok (A : list peer) (k : kind) (m : list (Z * peer)) : Prop :=
  forall i q, In (i, q) m -> pid q = i /\ pkind q = k /\ In q A.

Record Inv (A : list peer) (s : st) : Prop := {
  inv_nd_i : nodupk (inb s);
  inv_nd_o : nodupk (outb s);
  inv_nd_p : nodupk (pers s);
  inv_e_i : entries_ok A Inbound (inb s);
  inv_e_o : entries_ok A Outbound (outb s);
  inv_e_p : entries_ok A Persistent (pers s);
  inv_cc : forall h, cget (ccount s) h = hcount h (inb s) + hcount h (outb s);
  inv_gc : forall g, cget (groups s) g = gcount g (outb s) + gcount g (pers s)
}.

Lemma entries_ok_mono A A' k m : incl A A' -> entries_ok A k m -> entries_ok A' k m.
Proof. intros Hi H i q Hin. destruct (H i q Hin) as [H1 [H2 H3]]. auto. Qed.

Lemma entries_ok_adel A k m i : entries_ok A k m -> entries_ok A k (adel m i).
Proof. intros H j q Hin. apply In_adel in Hin. destruct Hin as [Hin _]. exact (H j q Hin). Qed.

Lemma entries_absent A k m p : entries_ok A k m -> ~ In (pid p) (map pid A) -> aget m (pid p) = None.
Proof.
  intros H Hn. destruct (aget m (pid p)) as [q|] eqn:G; [|reflexivity].
  apply aget_In in G. destruct (H _ _ G) as [H1 [_ H3]]. exfalso. apply Hn.
  rewrite <- H1. apply in_map. exact H3.
Qed.

Lemma inv_init : Inv [] init.
Proof.
  constructor; simpl; try (apply NoDup_nil); try (intros i q []); intros; reflexivity.
Qed.

Lemma inv_set_banned A s b : Inv A s -> Inv A (set_banned s b).
Proof. intros [H1 H2 H3 H4 H5 H6 H7 H8]. constructor; assumption. Qed.

Lemma inv_mark_gone A s k : Inv A s -> Inv A (mark_gone s k).
Proof. intros [H1 H2 H3 H4 H5 H6 H7 H8]. constructor; assumption. Qed.

Lemma inv_mono A A' s : incl A A' -> Inv A s -> Inv A' s.
Proof.
  intros Hi [H1 H2 H3 H4 H5 H6 H7 H8].
  constructor; try assumption; eapply entries_ok_mono; eassumption.
Qed.

Lemma inv_insert A s1 p : Inv A s1 -> ~ In (pid p) (map pid A) -> Inv (p :: A) (insert s1 p).
Proof.
  intros H1 Hfresh.
  assert (Hincl : incl A (p :: A)) by (intros x Hx; right; exact Hx).
  destruct H1 as [N1 N2 N3 E1 E2 E3 C G].
  pose proof (entries_absent _ _ _ p E1 Hfresh) as Ai.
  pose proof (entries_absent _ _ _ p E2 Hfresh) as Ao.
  pose proof (entries_absent _ _ _ p E3 Hfresh) as Ap.
  assert (Hnew : forall k m, entries_ok A k m -> pkind p = k -> entries_ok (p :: A) k (aset m (pid p) p)).
  { intros k m Hm Hk i q [Hin|Hin].
    - inversion Hin. subst. split; [reflexivity|]. split; [reflexivity|left; reflexivity].
    - apply In_adel in Hin. destruct Hin as [Hin _]. destruct (Hm i q Hin) as [X1 [X2 X3]].
      split; [exact X1|]. split; [exact X2|right; exact X3]. }
  unfold insert.
  destruct (pkind p) eqn:K; constructor; simp;
    try (apply nodupk_aset); try assumption;
    try (apply Hnew; [assumption|reflexivity]);
    try (eapply entries_ok_mono; eassumption).
  - intros h. rewrite cget_cincr, C. rewrite !hcount_cnt, cnt_aset_absent by exact Ai.
    rewrite <- !hcount_cnt. lia.
  - intros h. rewrite cget_cincr, C. rewrite !hcount_cnt, cnt_aset_absent by exact Ao.
    rewrite <- !hcount_cnt. lia.
  - intros g. rewrite cget_cincr, G. rewrite !gcount_cnt, cnt_aset_absent by exact Ao.
    rewrite <- !gcount_cnt. lia.
  - intros g. rewrite cget_cincr, G. rewrite !gcount_cnt, cnt_aset_absent by exact Ap.
    rewrite <- !gcount_cnt. lia.
Qed.

(* Add of a fresh peer object *)
Lemma inv_add c A s p now :
  Inv A s -> ~ In (pid p) (map pid A) -> Inv (p :: A) (fst (add_peer c s p now)).
Proof.
  intros HI Hfresh.
  assert (Hincl : incl A (p :: A)) by (intros x Hx; right; exact Hx).
  assert (Ha : forall x, Inv A x -> Inv (p :: A) (fst (admit_peer c x p))).
  { intros x Hx. destruct (admit_cases c x p) as [E|[E _]]; rewrite E; cbn [fst].
    - apply (inv_mono A); [exact Hincl|]. apply inv_mark_gone. exact Hx.
    - apply inv_insert; assumption. }
  destruct (add_peer_cases c s p now) as [[_ E]|[_ [[e [_ [_ E]]]|[[e [_ [_ E]]]|[_ E]]]]]; rewrite E; cbn [fst].
  - apply (inv_mono A); assumption.
  - apply (inv_mono A); [exact Hincl|]. apply inv_mark_gone. exact HI.
  - apply Ha. apply inv_set_banned. exact HI.
  - apply Ha. exact HI.
Qed.

(* Done of a peer object that is the only one with its pid among those added *)
Lemma inv_done A s p :
  Inv A s -> (forall q, In q A -> pid q = pid p -> q = p) -> Inv A (done_peer s p).
Proof.
  intros [N1 N2 N3 E1 E2 E3 C G] Huniq. unfold done_peer.
  destruct (pkind p) eqn:K.
  - destruct (aget (inb s) (pid p)) as [q|] eqn:Gq; [|constructor; assumption].
    assert (q = p).
    { apply aget_In in Gq. destruct (E1 _ _ Gq) as [X1 [_ X3]]. apply Huniq; assumption. }
    subst q.
    constructor; simp; try assumption; try (apply nodupk_adel; assumption);
      try (apply entries_ok_adel; assumption).
    intros h. rewrite cget_cdecr, C. rewrite !hcount_cnt. rewrite (cnt_adel_present _ _ _ p N1 Gq). lia.
  - destruct (aget (outb s) (pid p)) as [q|] eqn:Gq; [|constructor; assumption].
    assert (q = p).
    { apply aget_In in Gq. destruct (E2 _ _ Gq) as [X1 [_ X3]]. apply Huniq; assumption. }
    subst q.
    constructor; simp; try assumption; try (apply nodupk_adel; assumption);
      try (apply entries_ok_adel; assumption).
    + intros h. rewrite cget_cdecr, C. rewrite !hcount_cnt. rewrite (cnt_adel_present _ _ _ p N2 Gq). lia.
    + intros g. rewrite cget_cdecr, G. rewrite !gcount_cnt. rewrite (cnt_adel_present _ _ _ p N2 Gq). lia.
  - destruct (aget (pers s) (pid p)) as [q|] eqn:Gq; [|constructor; assumption].
    assert (q = p).
    { apply aget_In in Gq. destruct (E3 _ _ Gq) as [X1 [_ X3]]. apply Huniq; assumption. }
    subst q.
    constructor; simp; try assumption; try (apply nodupk_adel; assumption);
      try (apply entries_ok_adel; assumption).
    intros g. rewrite cget_cdecr, G. rewrite !gcount_cnt. rewrite (cnt_adel_present _ _ _ p N3 Gq). lia.
Qed.

(* well-formedness, prefix-wise *)
Lemma added_app l1 l2 : added (l1 ++ l2) = added l1 ++ added l2.
Proof. induction l1 as [|[p t|p|h t|p] l IH]; simpl; rewrite ?IH; reflexivity. Qed.
Lemma mentioned_app l1 l2 : mentioned (l1 ++ l2) = mentioned l1 ++ mentioned l2.
Proof. induction l1 as [|[p t|p|h t|p] l IH]; simpl; rewrite ?IH; reflexivity. Qed.
Lemma added_mentioned l p : In p (added l) -> In p (mentioned l).
Proof.
  induction l as [|[q t|q|h t|q] l IH]; simpl; [tauto| | | |].
  - intros [H|H]; [left; exact H|right; exact (IH H)].
  - intros H. right. exact (IH H).
  - exact IH.
  - intros H. right. exact (IH H).
Qed.

Lemma NoDup_app_l {A} (l1 l2 : list A) : NoDup (l1 ++ l2) -> NoDup l1.
Proof.
  induction l1 as [|x l IH]; simpl; intros H; [constructor|].
  inversion H as [|y l0 Hn Hd]. subst. constructor; [|exact (IH Hd)].
  intros Hin. apply Hn. apply in_or_app. left. exact Hin.
Qed.

Lemma wf_prefix l1 l2 : wf (l1 ++ l2) -> wf l1.
Proof.
  intros [H1 H2]. split.
  - rewrite added_app, map_app in H1. apply NoDup_app_l in H1. exact H1.
  - intros p q Hp Hq. apply H2; rewrite mentioned_app; apply in_or_app; left; assumption.
Qed.

Lemma wf_snoc_add l p now : wf (l ++ [Add p now]) -> ~ In (pid p) (map pid (added l)).
Proof.
  intros [Hnd _]. rewrite added_app, map_app in Hnd. simpl in Hnd.
  apply NoDup_remove_2 in Hnd. rewrite app_nil_r in Hnd. exact Hnd.
Qed.

Lemma wf_snoc_uniq l e p : wf (l ++ [e]) -> In p (mentioned [e]) ->
  forall q, In q (added l) -> pid q = pid p -> q = p.
Proof.
  intros [_ Huq] Hp q Hq Hpid. apply Huq; [| |exact Hpid]; rewrite mentioned_app; apply in_or_app.
  - left. apply added_mentioned. exact Hq.
  - right. exact Hp.
Qed.

Theorem inv_run c evs : wf evs -> Inv (added evs) (run c init evs).
Proof.
  induction evs as [|e l IH] using rev_ind; intros Hwf.
  - exact inv_init.
  - pose proof (wf_prefix _ _ Hwf) as Hwl. specialize (IH Hwl).
    rewrite run_snoc, added_app.
    destruct e as [p now|p|h now|p]; simpl.
    + apply (inv_mono (p :: added l)); [intros x [Hx|Hx]; apply in_or_app; [right; left; exact Hx|left; exact Hx]|].
      apply inv_add; [exact IH|]. exact (wf_snoc_add _ _ _ Hwf).
    + rewrite app_nil_r. apply inv_done; [exact IH|].
      apply (wf_snoc_uniq l (Done p) p Hwf). left. reflexivity.
    + rewrite app_nil_r. apply inv_set_banned. exact IH.
    + rewrite app_nil_r. apply inv_mark_gone. exact IH.
Qed.

(* the per-host counter equals the number of admitted peers of that host that count against the
   limit; the per-group counter equals the number of admitted outbound/persistent peers of the group *)
Theorem conn_count_exact c evs h :
  wf evs -> cget (ccount (run c init evs)) h = counted_of_host (run c init evs) h.
Proof. intros Hwf. exact (inv_cc _ _ (inv_run c evs Hwf) h). Qed.

Theorem group_count_exact c evs g :
  wf evs -> cget (groups (run c init evs)) g = outbound_of_group (run c init evs) g.
Proof. intros Hwf. exact (inv_gc _ _ (inv_run c evs Hwf) g). Qed.

(* ------------------------------------------------------------------ per-host limit *)
Lemma ccount_insert s p h : cget (ccount (insert s p)) h <= cget (ccount s) h + (if host p =? h then 1 else 0).
Proof.
  unfold insert. destruct (pkind p); simp; rewrite ?cget_cincr; destruct (host p =? h); lia.
Qed.

Lemma step_ccount_le c s e :
  0 <= max_per_ip c -> (forall h, cget (ccount s) h <= max_per_ip c) ->
  forall h, cget (ccount (fst (step c s e))) h <= max_per_ip c.
Proof.
  intros Hm Hle. destruct e as [p now|p|h' now|p]; cbn [step fst].
  - apply (add_preserves (fun x => forall h, cget (ccount x) h <= max_per_ip c)); auto.
    intros x Hx Hlt _ h. pose proof (ccount_insert x p h) as Hi. specialize (Hx h).
    destruct (host p =? h) eqn:E; [apply Z.eqb_eq in E; subst h; lia|lia].
  - intros h. unfold done_peer. specialize (Hle h).
    destruct (pkind p).
    + destruct (aget (inb s) (pid p)); simp; [|exact Hle]. rewrite cget_cdecr. destruct (host p =? h); lia.
    + destruct (aget (outb s) (pid p)); simp; [|exact Hle]. rewrite cget_cdecr. destruct (host p =? h); lia.
    + destruct (aget (pers s) (pid p)); simp; exact Hle.
  - exact Hle.
  - exact Hle.
Qed.

Lemma ccount_le_max c evs h : 0 <= max_per_ip c -> cget (ccount (run c init evs)) h <= max_per_ip c.
Proof.
  intros Hm. revert h. induction evs as [|e l IH] using rev_ind; intros h.
  - simpl. exact Hm.
  - rewrite run_snoc. apply step_ccount_le; assumption.
Qed.

Theorem per_host_le_max c evs h :
  0 <= max_per_ip c -> wf evs -> counted_of_host (run c init evs) h <= max_per_ip c.
Proof.
  intros Hm Hwf. rewrite <- (conn_count_exact c evs h Hwf). apply ccount_le_max. exact Hm.
Qed.

(* ------------------------------------------------------------------ bans *)
Lemma time_mono_last lo l p now : time_mono lo (l ++ [Add p now]) -> lo <= now.
Proof.
  revert lo. induction l as [|e t IH]; simpl; intros lo H.
  - destruct H as [H _]. exact H.
  - destruct (ev_time e) as [x|].
    + destruct H as [H1 H2]. specialize (IH _ H2). lia.
    + exact (IH _ H).
Qed.

Lemma banned_insert s p : banned (insert s p) = banned s.
Proof. unfold insert. destruct (pkind p); reflexivity. Qed.

Lemma admit_banned c s1 p : banned (fst (admit_peer c s1 p)) = banned s1.
Proof. destruct (admit_cases c s1 p) as [E|[E _]]; rewrite E; cbn [fst]; [reflexivity|apply banned_insert]. Qed.

(* banned field after an Add, for a host other than the peer's *)
Lemma add_banned_other c s p now h :
  host p <> h -> aget (banned (fst (add_peer c s p now))) h = aget (banned s) h.
Proof.
  intros Hne.
  destruct (add_peer_cases c s p now) as [[_ E]|[_ [[e [_ [_ E]]]|[[e [_ [_ E]]]|[_ E]]]]]; rewrite E; cbn [fst];
    rewrite ?admit_banned; simp; try reflexivity.
  apply aget_adel_other. congruence.
Qed.

(* an entry of the ban table after an Add was there before *)
Lemma add_banned_sub c s p now h e :
  aget (banned (fst (add_peer c s p now))) h = Some e -> aget (banned s) h = Some e.
Proof.
  destruct (add_peer_cases c s p now) as [[_ E]|[_ [[e' [_ [_ E]]]|[[e' [_ [_ E]]]|[_ E]]]]]; rewrite E; cbn [fst];
    rewrite ?admit_banned; simp; auto.
  destruct (Z.eq_dec h (host p)) as [X|X].
  - subst h. rewrite aget_adel_same. discriminate.
  - rewrite aget_adel_other by exact X. auto.
Qed.

Lemma add_when_banned c s p now e :
  aget (banned s) (host p) = Some e -> now < e ->
  snd (add_peer c s p now) = false /\ books (fst (add_peer c s p now)) = books s.
Proof.
  intros Hb Hlt. unfold add_peer. destruct (zmem (pid p) (gone s)); [split; reflexivity|].
  rewrite Hb. assert (E : (now <? e) = true) by (apply Z.ltb_lt; exact Hlt). rewrite E. split; reflexivity.
Qed.

Lemma books_banned s s' : books s' = books s -> banned s' = banned s.
Proof. unfold books. intros H. inversion H. reflexivity. Qed.

Lemma done_banned s p : banned (done_peer s p) = banned s.
Proof.
  unfold done_peer. destruct (pkind p).
  - destruct (aget (inb s) (pid p)); reflexivity.
  - destruct (aget (outb s) (pid p)); reflexivity.
  - destruct (aget (pers s) (pid p)); reflexivity.
Qed.

(* once host h is banned at t0, the entry stays (possibly renewed to a later expiry) as long as
   the clock has not reached t0 + ban_dur *)
Lemma ban_persists c h t0 p now :
  host p = h -> now < t0 + ban_dur c ->
  forall evs s lo e,
    aget (banned s) h = Some e -> t0 + ban_dur c <= e -> t0 <= lo ->
    time_mono lo (evs ++ [Add p now]) ->
    snd (step c (run c s evs) (Add p now)) = false /\
    books (fst (step c (run c s evs) (Add p now))) = books (run c s evs).
Proof.
  intros Hh Hnow. induction evs as [|ev l IH]; intros s lo e Hb He Hlo Hm.
  - simpl. apply (add_when_banned c s p now e); [rewrite Hh; exact Hb|lia].
  - rewrite run_cons. change ((ev :: l) ++ [Add p now]) with (ev :: (l ++ [Add p now])) in Hm.
    destruct ev as [q t|q|h' t|q]; cbn [time_mono ev_time] in Hm.
    + destruct Hm as [Hm1 Hm2]. pose proof (time_mono_last _ _ _ _ Hm2) as Hle.
      cbn [step]. destruct (Z.eq_dec (host q) h) as [Heq|Hne].
      * assert (X : aget (banned s) (host q) = Some e) by (rewrite Heq; exact Hb).
        destruct (add_when_banned c s q t e X ltac:(lia)) as [_ Hbk].
        apply (IH _ t e); try assumption; [|lia].
        rewrite (books_banned _ _ Hbk). exact Hb.
      * apply (IH _ t e); try assumption; [|lia].
        rewrite add_banned_other by exact Hne. exact Hb.
    + cbn [step fst]. apply (IH _ lo e); try assumption. rewrite done_banned. exact Hb.
    + destruct Hm as [Hm1 Hm2]. cbn [step fst]. unfold ban_host.
      destruct (Z.eq_dec h' h) as [Heq|Hne].
      * subst h'. apply (IH _ t (t + ban_dur c)); try assumption; [|lia|lia].
        simp. apply aget_aset_same.
      * apply (IH _ t e); try assumption; [|lia].
        simp. rewrite aget_aset_other by congruence. exact Hb.
    + cbn [step fst]. apply (IH _ lo e); try assumption.
Qed.

(* no peer of a banned host is admitted before the ban duration has elapsed: whatever happened
   before the ban (evs1) and whatever happens between the ban and the Add (evs2, clock readings not
   going backwards), the Add is refused and leaves the admission bookkeeping untouched *)
Theorem banned_not_admitted_before_expiry c evs1 evs2 h t0 p now :
  host p = h -> now < t0 + ban_dur c ->
  time_mono t0 (evs2 ++ [Add p now]) ->
  let s := run c init (evs1 ++ Ban h t0 :: evs2) in
  snd (step c s (Add p now)) = false /\ books (fst (step c s (Add p now))) = books s.
Proof.
  intros Hh Hnow Hm s. subst s.
  rewrite run_app, run_cons. cbn [step fst].
  apply (ban_persists c h t0 p now Hh Hnow evs2 _ t0 (t0 + ban_dur c)); try lia; [|exact Hm].
  unfold ban_host. simp. apply aget_aset_same.
Qed.

(* every entry of the ban table stems from a Ban event of the history *)
Lemma banned_origin c evs h e :
  aget (banned (run c init evs)) h = Some e -> exists t0, In (Ban h t0) evs /\ e = t0 + ban_dur c.
Proof.
  revert h e. induction evs as [|ev l IH] using rev_ind; intros h e H.
  - discriminate.
  - rewrite run_snoc in H.
    assert (Hold : aget (banned (run c init l)) h = Some e -> exists t0, In (Ban h t0) (l ++ [ev]) /\ e = t0 + ban_dur c).
    { intros H0. destruct (IH _ _ H0) as [t0 [X1 X2]]. exists t0. split; [apply in_or_app; left; exact X1|exact X2]. }
    destruct ev as [q t|q|h' t|q]; cbn [step fst] in H.
    + apply Hold. exact (add_banned_sub _ _ _ _ _ _ H).
    + rewrite done_banned in H. apply Hold. exact H.
    + unfold ban_host in H. simp.
      destruct (Z.eq_dec h' h) as [Heq|Hne].
      * subst h'. rewrite aget_aset_same in H. inversion H. exists t. split; [apply in_or_app; right; left; reflexivity|reflexivity].
      * rewrite aget_aset_other in H by congruence. apply Hold. exact H.
    + apply Hold. exact H.
Qed.

(* a peer object is disconnected only by a Disc event or by an Add that refused it *)
Lemma zmem_cons k x l : zmem k (x :: l) = (k =? x) || zmem k l.
Proof. reflexivity. Qed.

Lemma gone_insert s p : gone (insert s p) = gone s.
Proof. unfold insert. destruct (pkind p); reflexivity. Qed.

Lemma add_gone c s p now k :
  zmem k (gone (fst (add_peer c s p now))) = true -> zmem k (gone s) = true \/ k = pid p.
Proof.
  assert (Ha : forall x, gone x = gone s -> zmem k (gone (fst (admit_peer c x p))) = true -> zmem k (gone s) = true \/ k = pid p).
  { intros x Hx. destruct (admit_cases c x p) as [E|[E _]]; rewrite E; cbn [fst].
    - simp. rewrite zmem_cons, Hx. intros H. apply orb_true_iff in H. destruct H as [H|H]; [right; apply Z.eqb_eq; exact H|left; exact H].
    - rewrite gone_insert, Hx. auto. }
  destruct (add_peer_cases c s p now) as [[_ E]|[_ [[e [_ [_ E]]]|[[e [_ [_ E]]]|[_ E]]]]]; rewrite E; cbn [fst].
  - auto.
  - simp. rewrite zmem_cons. intros H. apply orb_true_iff in H. destruct H as [H|H]; [right; apply Z.eqb_eq; exact H|left; exact H].
  - apply Ha. reflexivity.
  - apply Ha. reflexivity.
Qed.

Lemma done_gone s p : gone (done_peer s p) = gone s.
Proof.
  unfold done_peer. destruct (pkind p).
  - destruct (aget (inb s) (pid p)); reflexivity.
  - destruct (aget (outb s) (pid p)); reflexivity.
  - destruct (aget (pers s) (pid p)); reflexivity.
Qed.

Lemma gone_origin c evs k :
  zmem k (gone (run c init evs)) = true ->
  exists q, pid q = k /\ (In (Disc q) evs \/ In q (added evs)).
Proof.
  induction evs as [|ev l IH] using rev_ind; intros H; [discriminate|].
  rewrite run_snoc in H.
  assert (Hold : zmem k (gone (run c init l)) = true -> exists q, pid q = k /\ (In (Disc q) (l ++ [ev]) \/ In q (added (l ++ [ev])))).
  { intros H0. destruct (IH H0) as [q [X1 X2]]. exists q. split; [exact X1|].
    rewrite added_app. destruct X2 as [X2|X2]; [left|right]; apply in_or_app; left; exact X2. }
  destruct ev as [q t|q|h' t|q]; cbn [step fst] in H.
  - destruct (add_gone _ _ _ _ _ H) as [X|X]; [apply Hold; exact X|].
    exists q. split; [congruence|]. right. rewrite added_app. apply in_or_app. right. left. reflexivity.
  - rewrite done_gone in H. apply Hold. exact H.
  - apply Hold. exact H.
  - simp. rewrite zmem_cons in H. apply orb_true_iff in H. destruct H as [H|H]; [|apply Hold; exact H].
    apply Z.eqb_eq in H. exists q. split; [congruence|]. left. apply in_or_app. right. left. reflexivity.
Qed.

(* ... while it is admitted again afterwards, and admission is not wedged: when every ban of the
   host has run out, fewer than max_per_ip counted peers of the host are actually admitted and fewer
   than max_peers in total, a new peer object that is still connected IS admitted *)
Theorem admitted_after_expiry c evs p now :
  wf (evs ++ [Add p now]) ->
  (forall q, In (Disc q) evs -> pid q <> pid p) ->
  (forall t0, In (Ban (host p) t0) evs -> t0 + ban_dur c <= now) ->
  counted_of_host (run c init evs) (host p) < max_per_ip c ->
  total (run c init evs) < max_peers c ->
  snd (step c (run c init evs) (Add p now)) = true /\
  admitted (fst (step c (run c init evs) (Add p now))) p.
Proof.
  intros Hwf Hconn Hb Hc Ht.
  pose proof (wf_prefix _ _ Hwf) as Hwl.
  rewrite <- (conn_count_exact c evs (host p) Hwl) in Hc.
  set (s := run c init evs) in *.
  assert (Hng : zmem (pid p) (gone s) = false).
  { destruct (zmem (pid p) (gone s)) eqn:G; [|reflexivity]. exfalso.
    destruct (gone_origin c evs _ G) as [q [Q1 [Q2|Q2]]].
    - exact (Hconn q Q2 Q1).
    - apply (wf_snoc_add _ _ _ Hwf). rewrite <- Q1. apply in_map. exact Q2. }
  assert (Ha : forall x, ccount x = ccount s -> total x = total s ->
             snd (admit_peer c x p) = true /\ admitted (fst (admit_peer c x p)) p).
  { intros x E1 E2. unfold admit_peer. rewrite E1, E2.
    assert (X1 : (cget (ccount s) (host p) >=? max_per_ip c) = false) by lia.
    assert (X2 : (total s >=? max_peers c) = false) by lia.
    rewrite X1, X2. cbn [fst snd]. split; [reflexivity|].
    unfold admitted, insert. destruct (pkind p); cbn [inb outb pers]; apply aget_aset_same. }
  cbn [step].
  destruct (add_peer_cases c s p now) as [[G _]|[_ [[e [Hbe [Hlt _]]]|[[e [_ [_ E]]]|[_ E]]]]].
  - congruence.
  - exfalso. destruct (banned_origin c evs _ _ Hbe) as [t0 [X1 X2]]. specialize (Hb _ X1). lia.
  - rewrite E. apply Ha; reflexivity.
  - rewrite E. apply Ha; reflexivity.
Qed.

(* ------------------------------------------------------------------ counters return to zero *)
Definition amap (k : kind) (s : st) : list (Z * peer) :=
  match k with Inbound => inb s | Outbound => outb s | Persistent => pers s end.

Lemma insert_amap s p k : amap k (insert s p) = amap k s \/ amap k (insert s p) = aset (amap k s) (pid p) p.
Proof. unfold insert. destruct (pkind p); destruct k; cbn [amap inb outb pers]; auto. Qed.

Lemma add_amap c s p now k :
  amap k (fst (add_peer c s p now)) = amap k s \/
  (zmem (pid p) (gone s) = false /\ amap k (fst (add_peer c s p now)) = aset (amap k s) (pid p) p).
Proof.
  assert (Ha : forall x, amap k x = amap k s ->
     amap k (fst (admit_peer c x p)) = amap k s \/ amap k (fst (admit_peer c x p)) = aset (amap k s) (pid p) p).
  { intros x Hx. destruct (admit_cases c x p) as [E|[E _]]; rewrite E; cbn [fst].
    - left. destruct k; exact Hx.
    - rewrite <- Hx. apply insert_amap. }
  destruct (add_peer_cases c s p now) as [[_ E]|[G [[e [_ [_ E]]]|[[e [_ [_ E]]]|[_ E]]]]]; rewrite E; cbn [fst].
  - left. reflexivity.
  - left. destruct k; reflexivity.
  - destruct (Ha (set_banned s (adel (banned s) (host p)))) as [X|X]; [destruct k; reflexivity|left; exact X|right; split; assumption].
  - destruct (Ha s eq_refl) as [X|X]; [left; exact X|right; split; assumption].
Qed.

Lemma done_amap s p k :
  amap k (done_peer s p) = amap k s \/ amap k (done_peer s p) = adel (amap k s) (pid p).
Proof.
  unfold done_peer. destruct (pkind p).
  - destruct (aget (inb s) (pid p)); destruct k; cbn [amap inb outb pers]; auto.
  - destruct (aget (outb s) (pid p)); destruct k; cbn [amap inb outb pers]; auto.
  - destruct (aget (pers s) (pid p)); destruct k; cbn [amap inb outb pers]; auto.
Qed.

Lemma done_removes s p : aget (amap (pkind p) (done_peer s p)) (pid p) = None.
Proof.
  unfold done_peer. destruct (pkind p) eqn:K; cbn [amap].
  - destruct (aget (inb s) (pid p)) eqn:G; cbn [inb]; [apply aget_adel_same|exact G].
  - destruct (aget (outb s) (pid p)) eqn:G; cbn [outb]; [apply aget_adel_same|exact G].
  - destruct (aget (pers s) (pid p)) eqn:G; cbn [pers]; [apply aget_adel_same|exact G].
Qed.

Lemma inv_amap A s k : Inv A s -> entries_ok A k (amap k s).
Proof. intros [N1 N2 N3 E1 E2 E3 _ _]. destruct k; assumption. Qed.

Lemma proto_app c l1 : forall s l2, proto c s (l1 ++ l2) -> proto c s l1 /\ proto c (run c s l1) l2.
Proof.
  induction l1 as [|e t IH]; intros s l2 H; [split; [exact I|exact H]|].
  cbn [app proto] in H. destruct H as [H1 H2]. destruct (IH _ _ H2) as [H3 H4].
  split; [cbn [proto]; split; assumption|]. rewrite run_cons. exact H4.
Qed.

(* a peer that was delivered to Done is disconnected (and stays so), and no admitted peer has been
   delivered to Done: whichever of a peer's Add and Done is processed first *)
Record Kinv (hist : list ev) (s : st) : Prop := {
  k_gone : forall q, In (Done q) hist -> zmem (pid q) (gone s) = true;
  k_live : forall k i q, In (i, q) (amap k s) -> ~ In (Done q) hist
}.

Lemma zmem_add_mono c s p now k : zmem k (gone s) = true -> zmem k (gone (fst (add_peer c s p now))) = true.
Proof.
  intros H.
  assert (Ha : forall x, gone x = gone s -> zmem k (gone (fst (admit_peer c x p))) = true).
  { intros x Hx. destruct (admit_cases c x p) as [E|[E _]]; rewrite E; cbn [fst].
    - simp. rewrite zmem_cons, Hx, H. apply orb_true_r.
    - rewrite gone_insert, Hx. exact H. }
  destruct (add_peer_cases c s p now) as [[_ E]|[_ [[e [_ [_ E]]]|[[e [_ [_ E]]]|[_ E]]]]]; rewrite E; cbn [fst].
  - exact H.
  - simp. rewrite zmem_cons, H. apply orb_true_r.
  - apply Ha. reflexivity.
  - apply Ha. reflexivity.
Qed.

Lemma in_done_snoc q l e : In (Done q) (l ++ [e]) -> In (Done q) l \/ e = Done q.
Proof. intros H. apply in_app_or in H. destruct H as [H|[H|[]]]; auto. Qed.

Theorem kinv_run c evs : wf evs -> proto c init evs -> Kinv evs (run c init evs).
Proof.
  induction evs as [|e l IH] using rev_ind; intros Hwf Hp.
  - constructor; [intros q []|]. intros k i q H. destruct k; destruct H.
  - pose proof (wf_prefix _ _ Hwf) as Hwl.
    destruct (proto_app c l init [e] Hp) as [Hp1 Hp2].
    specialize (IH Hwl Hp1). destruct IH as [G L].
    pose proof (inv_run c (l ++ [e]) Hwf) as HI. rewrite run_snoc in *.
    set (s := run c init l) in *.
    destruct e as [p now|p|h now|p]; cbn [step fst] in *.
    + constructor.
      * intros q Hq. apply in_done_snoc in Hq. destruct Hq as [Hq|Hq]; [|discriminate].
        apply zmem_add_mono. exact (G q Hq).
      * intros k i q Hin Hq. apply in_done_snoc in Hq. destruct Hq as [Hq|Hq]; [|discriminate].
        destruct (add_amap c s p now k) as [E|[Hng E]]; rewrite E in Hin.
        -- exact (L k i q Hin Hq).
        -- destruct Hin as [Hin|Hin].
           ++ inversion Hin. subst q. rewrite (G p Hq) in Hng. discriminate.
           ++ apply In_adel in Hin. destruct Hin as [Hin _]. exact (L k i q Hin Hq).
    + cbn [proto] in Hp2. destruct Hp2 as [Hpg _].
      constructor.
      * intros q Hq. rewrite done_gone. apply in_done_snoc in Hq. destruct Hq as [Hq|Hq]; [exact (G q Hq)|].
        inversion Hq. subst q. exact Hpg.
      * intros k i q Hin Hq. apply in_done_snoc in Hq. destruct Hq as [Hq|Hq].
        -- destruct (done_amap s p k) as [E|E]; rewrite E in Hin.
           ++ exact (L k i q Hin Hq).
           ++ apply In_adel in Hin. destruct Hin as [Hin _]. exact (L k i q Hin Hq).
        -- inversion Hq. subst q.
           destruct (inv_amap _ _ k HI i p Hin) as [X1 [X2 _]]. subst k i.
           apply In_aget in Hin. apply Hin. apply done_removes.
    + constructor.
      * intros q Hq. apply in_done_snoc in Hq. destruct Hq as [Hq|Hq]; [exact (G q Hq)|discriminate].
      * intros k i q Hin Hq. apply in_done_snoc in Hq. destruct Hq as [Hq|Hq]; [|discriminate].
        apply (L k i q); [destruct k; exact Hin|exact Hq].
    + constructor.
      * intros q Hq. apply in_done_snoc in Hq. destruct Hq as [Hq|Hq]; [|discriminate].
        simp. rewrite zmem_cons, (G q Hq). apply orb_true_r.
      * intros k i q Hin Hq. apply in_done_snoc in Hq. destruct Hq as [Hq|Hq]; [|discriminate].
        apply (L k i q); [destruct k; exact Hin|exact Hq].
Qed.

Lemma cnt_zero f l : (forall i q, In (i, q) l -> f q = false) -> cnt f l = 0.
Proof.
  induction l as [|[i q] t IH]; intros H; [reflexivity|].
  rewrite cnt_cons, IH; [|intros j r Hr; apply (H j r); right; exact Hr].
  rewrite (H i q) by (left; reflexivity). reflexivity.
Qed.

(* "per-host counters return to zero when the corresponding peers have left": every counted peer of
   host h that was handed to Add has also been handed to Done - in whichever order *)
Theorem host_counter_returns_to_zero c evs h :
  wf evs -> proto c init evs ->
  (forall p, In p (added evs) -> host p = h -> pkind p <> Persistent -> In (Done p) evs) ->
  cget (ccount (run c init evs)) h = 0.
Proof.
  intros Hwf Hp Hleft. rewrite (conn_count_exact c evs h Hwf). unfold counted_of_host.
  pose proof (inv_run c evs Hwf) as [N1 N2 N3 E1 E2 E3 _ _].
  pose proof (kinv_run c evs Hwf Hp) as [_ L].
  rewrite !hcount_cnt, !cnt_zero; [reflexivity| |].
  - intros i q Hin. destruct (E2 _ _ Hin) as [X1 [X2 X3]].
    destruct (host q =? h) eqn:E; [|reflexivity]. apply Z.eqb_eq in E. exfalso.
    apply (L Outbound i q Hin). apply Hleft; [exact X3|exact E|rewrite X2; discriminate].
  - intros i q Hin. destruct (E1 _ _ Hin) as [X1 [X2 X3]].
    destruct (host q =? h) eqn:E; [|reflexivity]. apply Z.eqb_eq in E. exfalso.
    apply (L Inbound i q Hin). apply Hleft; [exact X3|exact E|rewrite X2; discriminate].
Qed.

(* "... and per-group counters" *)
Theorem group_counter_returns_to_zero c evs g :
  wf evs -> proto c init evs ->
  (forall p, In p (added evs) -> group p = g -> pkind p <> Inbound -> In (Done p) evs) ->
  cget (groups (run c init evs)) g = 0.
Proof.
  intros Hwf Hp Hleft. rewrite (group_count_exact c evs g Hwf). unfold outbound_of_group.
  pose proof (inv_run c evs Hwf) as [N1 N2 N3 E1 E2 E3 _ _].
  pose proof (kinv_run c evs Hwf Hp) as [_ L].
  rewrite !gcount_cnt, !cnt_zero; [reflexivity| |].
  - intros i q Hin. destruct (E3 _ _ Hin) as [X1 [X2 X3]].
    destruct (group q =? g) eqn:E; [|reflexivity]. apply Z.eqb_eq in E. exfalso.
    apply (L Persistent i q Hin). apply Hleft; [exact X3|exact E|rewrite X2; discriminate].
  - intros i q Hin. destruct (E2 _ _ Hin) as [X1 [X2 X3]].
    destruct (group q =? g) eqn:E; [|reflexivity]. apply Z.eqb_eq in E. exfalso.
    apply (L Outbound i q Hin). apply Hleft; [exact X3|exact E|rewrite X2; discriminate].
Qed.

(* a peer whose disconnect was processed first is simply ignored by Add (fix 1a05aed) *)
Theorem gone_peer_not_admitted c s p now :
  zmem (pid p) (gone s) = true -> step c s (Add p now) = (s, false).
Proof. intros H. cbn [step]. unfold add_peer. rewrite H. reflexivity. Qed.

(* ------------------------------------------------------------------ the hypotheses are satisfiable *)
Module PeersExamples.
Definition c0 := mkCfg 125 5 10.
Definition p1 := mkPeer 1 3 1 Inbound.
Definition p2 := mkPeer 2 3 1 Outbound.
Definition p3 := mkPeer 3 7 2 Outbound.
Definition p4 := mkPeer 4 7 2 Inbound.
Definition p5 := mkPeer 5 3 1 Persistent.
Definition p9 := mkPeer 9 3 1 Inbound.

Ltac wf_tac :=
  split; [cbn; repeat constructor; cbn; intuition discriminate
         | cbn; intros p q Hp Hq Hpid;
           repeat (destruct Hp as [Hp|Hp]; [subst p|]); try contradiction;
           repeat (destruct Hq as [Hq|Hq]; [subst q|]); try contradiction;
           first [reflexivity | discriminate Hpid]].

Definition hist1 := [Add p1 0; Add p2 0; Add p5 0; Ban 7 1; Add p3 2; Disc p1; Done p1; Disc p9; Done p9].

Example hist1_wf : wf hist1.
Proof. wf_tac. Qed.

Example hist1_proto : proto c0 init hist1.
Proof. vm_compute. repeat split. Qed.

(* count_le_max / per_host_le_max / conn_count_exact / group_count_exact on hist1:
   p1 left again, p3 was refused (banned host); host 3 counts one (p2; the persistent p5 is exempt),
   group 1 counts two (p2, p5) *)
Example hist1_values :
  total (run c0 init hist1) = 2 /\ counted_of_host (run c0 init hist1) 3 = 1 /\
  cget (ccount (run c0 init hist1)) 3 = 1 /\ outbound_of_group (run c0 init hist1) 1 = 2 /\
  cget (groups (run c0 init hist1)) 1 = 2.
Proof. vm_compute. repeat split. Qed.

Example hist1_exact : cget (ccount (run c0 init hist1)) 3 = counted_of_host (run c0 init hist1) 3.
Proof. exact (conn_count_exact c0 hist1 3 hist1_wf). Qed.

(* banned_not_admitted_before_expiry: host 7 banned at 1 for 10 units, p3 (host 7) knocks at 2 *)
Example banned_ex :
  let s := run c0 init ([Add p1 0; Add p2 0] ++ Ban 7 1 :: [Disc p1; Done p1]) in
  snd (step c0 s (Add p3 2)) = false /\ books (fst (step c0 s (Add p3 2))) = books s.
Proof.
  apply (banned_not_admitted_before_expiry c0 [Add p1 0; Add p2 0] [Disc p1; Done p1] 7 1 p3 2).
  - reflexivity.
  - cbn. lia.
  - cbn. lia.
Qed.

(* admitted_after_expiry: the same host at 11 = 1 + 10 *)
Example readmitted_ex :
  snd (step c0 (run c0 init hist1) (Add p4 11)) = true /\
  admitted (fst (step c0 (run c0 init hist1) (Add p4 11))) p4.
Proof.
  apply admitted_after_expiry.
  - unfold hist1. wf_tac.
  - intros q Hin. cbn in Hin. repeat (destruct Hin as [Hin|Hin]; try discriminate Hin); try contradiction;
      inversion Hin; subst; discriminate.
  - intros t0 Hin. cbn in Hin. repeat (destruct Hin as [Hin|Hin]; try discriminate Hin); try contradiction.
    inversion Hin. subst. cbn. lia.
  - vm_compute. reflexivity.
  - vm_compute. reflexivity.
Qed.

(* host_counter_returns_to_zero: both counted peers of host 3 are done - p1 in the usual order, p2's
   disconnect and Done are processed BEFORE its Add (which is then ignored) *)
Definition hist2 := [Add p1 0; Disc p2; Done p2; Add p3 0; Add p2 0; Add p5 1; Disc p1; Done p1].
Example zero_ex : cget (ccount (run c0 init hist2)) 3 = 0.
Proof.
  apply host_counter_returns_to_zero.
  - unfold hist2. wf_tac.
  - vm_compute. repeat split.
  - intros p Hin Hh Hk. cbn in Hin.
    destruct Hin as [E|[E|[E|[E|[]]]]]; subst p; try discriminate Hh; try (exfalso; apply Hk; reflexivity); cbn; auto 10.
Qed.
End PeersExamples.
