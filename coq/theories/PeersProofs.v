(* C18 proofs, part 1: the admission bookkeeping model [Peers]. *)
From Coq Require Import ZArith Lia Bool List.
From BHS Require Import Peers.
Import ListNotations.
Open Scope Z_scope.

Arguments zlen : simpl never.
Arguments aset : simpl never.
Arguments cincr : simpl never.
Arguments cdecr : simpl never.
Arguments cget : simpl never.

(* ------------------------------------------------------------------ association lists *)
Section Assoc.
Context {A : Type}.
Implicit Types m : list (Z * A).

Lemma aget_adel_same m k : aget (adel m k) k = None.
Proof.
  induction m as [|[k' v] t IH]; simpl; [reflexivity|].
  destruct (k' =? k) eqn:E; [exact IH|]. simpl. rewrite E. exact IH.
Qed.

Lemma aget_adel_other m k k' : k' <> k -> aget (adel m k) k' = aget m k'.
Proof.
  intros Hne. induction m as [|[k0 v] t IH]; simpl; [reflexivity|].
  destruct (k0 =? k) eqn:E.
  - apply Z.eqb_eq in E. subst k0.
    destruct (k =? k') eqn:E2; [apply Z.eqb_eq in E2; congruence|exact IH].
  - simpl. destruct (k0 =? k'); [reflexivity|exact IH].
Qed.

Lemma adel_absent m k : aget m k = None -> adel m k = m.
Proof.
  induction m as [|[k' v] t IH]; simpl; [reflexivity|].
  destruct (k' =? k); [discriminate|]. intros H. rewrite IH by exact H. reflexivity.
Qed.

Lemma aget_aset_same m k v : aget (aset m k v) k = Some v.
Proof. unfold aset. simpl. rewrite Z.eqb_refl. reflexivity. Qed.

Lemma aget_aset_other m k k' v : k' <> k -> aget (aset m k v) k' = aget m k'.
Proof.
  intros Hne. unfold aset. simpl.
  destruct (k =? k') eqn:E; [apply Z.eqb_eq in E; congruence|]. apply aget_adel_other. exact Hne.
Qed.

Lemma length_adel_le m k : (length (adel m k) <= length m)%nat.
Proof.
  induction m as [|[k' v] t IH]; simpl; [lia|]. destruct (k' =? k); simpl; lia.
Qed.

Lemma In_adel m k x : In x (adel m k) -> In x m /\ fst x <> k.
Proof.
  induction m as [|[k' v] t IH]; simpl; [tauto|].
  destruct (k' =? k) eqn:E.
  - intros H. destruct (IH H) as [H1 H2]. split; [right; exact H1|exact H2].
  - intros [H|H].
    + subst x. split; [left; reflexivity|]. simpl. apply Z.eqb_neq in E. exact E.
    + destruct (IH H) as [H1 H2]. split; [right; exact H1|exact H2].
Qed.

Lemma In_aget m k v : In (k, v) m -> aget m k <> None.
Proof.
  induction m as [|[k' v'] t IH]; simpl; [tauto|].
  intros [H|H].
  - inversion H. subst. rewrite Z.eqb_refl. discriminate.
  - destruct (k' =? k); [discriminate|exact (IH H)].
Qed.

Lemma aget_In m k v : aget m k = Some v -> In (k, v) m.
Proof.
  induction m as [|[k' v'] t IH]; simpl; [discriminate|].
  destruct (k' =? k) eqn:E.
  - intros H. inversion H. subst. apply Z.eqb_eq in E. subst. left. reflexivity.
  - intros H. right. exact (IH H).
Qed.

Definition nodupk m := NoDup (map fst m).

Lemma nodupk_adel m k : nodupk m -> nodupk (adel m k).
Proof.
  unfold nodupk. induction m as [|[k' v] t IH]; simpl; intros H; [constructor|].
  inversion H as [|x l Hnin Hnd]. subst.
  destruct (k' =? k); [exact (IH Hnd)|].
  simpl. constructor; [|exact (IH Hnd)].
  intros Hin. apply Hnin. apply in_map_iff in Hin. destruct Hin as [x [Hx1 Hx2]].
  apply In_adel in Hx2. destruct Hx2 as [Hx2 _]. apply in_map_iff. exists x. split; assumption.
Qed.

Lemma nodupk_aset m k v : nodupk m -> nodupk (aset m k v).
Proof.
  intros H. unfold aset, nodupk. simpl. constructor; [|apply nodupk_adel; exact H].
  intros Hin. apply in_map_iff in Hin. destruct Hin as [x [Hx1 Hx2]].
  apply In_adel in Hx2. destruct Hx2 as [_ Hx2]. congruence.
Qed.

(* with unique keys, the entry found by aget is the only one with that key *)
Lemma nodupk_In_aget m k v : nodupk m -> In (k, v) m -> aget m k = Some v.
Proof.
  unfold nodupk. induction m as [|[k' v'] t IH]; simpl; [tauto|].
  intros Hnd [H|H].
  - inversion H. subst. rewrite Z.eqb_refl. reflexivity.
  - inversion Hnd as [|x l Hnin Hnd']. subst.
    destruct (k' =? k) eqn:E.
    + apply Z.eqb_eq in E. subst k'. exfalso. apply Hnin. apply in_map_iff. exists (k, v). split; [reflexivity|exact H].
    + exact (IH Hnd' H).
Qed.
End Assoc.

Lemma cget_cincr_same m k : cget (cincr m k) k = cget m k + 1.
Proof. unfold cincr, cget at 1. rewrite aget_aset_same. reflexivity. Qed.
Lemma cget_cincr_other m k k' : k' <> k -> cget (cincr m k) k' = cget m k'.
Proof. intros H. unfold cincr, cget at 1. rewrite aget_aset_other by exact H. reflexivity. Qed.
Lemma cget_cdecr_same m k : cget (cdecr m k) k = cget m k - 1.
Proof. unfold cdecr, cget at 1. rewrite aget_aset_same. reflexivity. Qed.
Lemma cget_cdecr_other m k k' : k' <> k -> cget (cdecr m k) k' = cget m k'.
Proof. intros H. unfold cdecr, cget at 1. rewrite aget_aset_other by exact H. reflexivity. Qed.

Lemma cget_cincr m k k' : cget (cincr m k) k' = cget m k' + (if k =? k' then 1 else 0).
Proof.
  destruct (k =? k') eqn:E.
  - apply Z.eqb_eq in E. subst. apply cget_cincr_same.
  - apply Z.eqb_neq in E. rewrite cget_cincr_other by congruence. lia.
Qed.
Lemma cget_cdecr m k k' : cget (cdecr m k) k' = cget m k' - (if k =? k' then 1 else 0).
Proof.
  destruct (k =? k') eqn:E.
  - apply Z.eqb_eq in E. subst. apply cget_cdecr_same.
  - apply Z.eqb_neq in E. rewrite cget_cdecr_other by congruence. lia.
Qed.

(* ------------------------------------------------------------------ counting *)
Definition cnt (f : peer -> bool) (l : list (Z * peer)) : Z := zlen (filter (fun e => f (snd e)) l).

Lemma hcount_cnt h l : hcount h l = cnt (fun p => host p =? h) l.
Proof. reflexivity. Qed.
Lemma gcount_cnt g l : gcount g l = cnt (fun p => group p =? g) l.
Proof. reflexivity. Qed.

Lemma cnt_cons f k p l : cnt f ((k, p) :: l) = cnt f l + (if f p then 1 else 0).
Proof. unfold cnt, zlen. simpl. destruct (f p); simpl length; lia. Qed.

Lemma cnt_nonneg f l : 0 <= cnt f l.
Proof. unfold cnt, zlen. lia. Qed.

Lemma cnt_adel_absent f l k : aget l k = None -> cnt f (adel l k) = cnt f l.
Proof. intros H. rewrite adel_absent by exact H. reflexivity. Qed.

Lemma cnt_adel_present f l k p :
  nodupk l -> aget l k = Some p -> cnt f (adel l k) = cnt f l - (if f p then 1 else 0).
Proof.
  unfold nodupk. induction l as [|[k' p'] t IH]; simpl; [discriminate|].
  intros Hnd Hget. inversion Hnd as [|x l0 Hnin Hnd']. subst.
  destruct (k' =? k) eqn:E.
  - inversion Hget. subst p'. apply Z.eqb_eq in E. subst k'.
    rewrite cnt_cons.
    assert (Habs : aget t k = None).
    { destruct (aget t k) eqn:G; [|reflexivity]. exfalso. apply Hnin.
      apply aget_In in G. apply in_map_iff. exists (k, p0). split; [reflexivity|exact G]. }
    rewrite cnt_adel_absent by exact Habs. destruct (f p); lia.
  - rewrite !cnt_cons. rewrite (IH Hnd' Hget). destruct (f p); destruct (f p'); lia.
Qed.

Lemma cnt_aset_absent f l k p : aget l k = None -> cnt f (aset l k p) = cnt f l + (if f p then 1 else 0).
Proof. intros H. unfold aset. rewrite cnt_cons, cnt_adel_absent by exact H. reflexivity. Qed.

Lemma zlen_cons {A} (x : A) l : zlen (x :: l) = zlen l + 1.
Proof. unfold zlen. simpl length. lia. Qed.
Lemma zlen_nonneg {A} (l : list A) : 0 <= zlen l.
Proof. unfold zlen. lia. Qed.
Lemma zlen_adel_le {A} (m : list (Z * A)) k : zlen (adel m k) <= zlen m.
Proof. unfold zlen. pose proof (length_adel_le m k). lia. Qed.
Lemma zlen_aset_le {A} (m : list (Z * A)) k v : zlen (aset m k v) <= zlen m + 1.
Proof. unfold aset. rewrite zlen_cons. pose proof (zlen_adel_le m k). lia. Qed.
Lemma zlen_aset_absent {A} (m : list (Z * A)) k v : aget m k = None -> zlen (aset m k v) = zlen m + 1.
Proof. intros H. unfold aset. rewrite zlen_cons, adel_absent by exact H. reflexivity. Qed.

(* ------------------------------------------------------------------ run / fold *)
Lemma run_app c s l1 l2 : run c s (l1 ++ l2) = run c (run c s l1) l2.
Proof. unfold run. apply fold_left_app. Qed.
Lemma run_cons c s e l : run c s (e :: l) = run c (fst (step c s e)) l.
Proof. reflexivity. Qed.
Lemma run_snoc c s l e : run c s (l ++ [e]) = fst (step c (run c s l) e).
Proof. rewrite run_app. reflexivity. Qed.

(* ------------------------------------------------------------------ total limit (no wf needed) *)
Ltac simp := cbn [fst snd inb outb pers banned groups ccount set_banned] in *.

Lemma step_total c s e : 0 <= max_peers c -> total s <= max_peers c -> total (fst (step c s e)) <= max_peers c.
Proof.
  intros Hmp Hle. destruct e as [p now|p|h now]; cbn [step fst].
  - unfold add_peer.
    destruct (aget (banned s) (host p)) as [e|] eqn:Hb.
    + destruct (now <? e); [exact Hle|].
      set (s1 := set_banned s (adel (banned s) (host p))).
      assert (Ht : total s1 = total s) by reflexivity.
      destruct (cget (ccount s1) (host p) >=? max_per_ip c); [simp; lia|].
      destruct (total s1 >=? max_peers c) eqn:E; [simp; lia|].
      assert (Hlt : total s1 < max_peers c) by lia.
      unfold total in *. destruct (pkind p); simp.
      * pose proof (zlen_aset_le (inb s1) (pid p) p). lia.
      * pose proof (zlen_aset_le (outb s1) (pid p) p). lia.
      * pose proof (zlen_aset_le (pers s1) (pid p) p). lia.
    + destruct (cget (ccount s) (host p) >=? max_per_ip c); [simp; lia|].
      destruct (total s >=? max_peers c) eqn:E; [simp; lia|].
      assert (Hlt : total s < max_peers c) by lia.
      unfold total in *. destruct (pkind p); simp.
      * pose proof (zlen_aset_le (inb s) (pid p) p). lia.
      * pose proof (zlen_aset_le (outb s) (pid p) p). lia.
      * pose proof (zlen_aset_le (pers s) (pid p) p). lia.
  - unfold done_peer, total in *. destruct (pkind p).
    + destruct (aget (inb s) (pid p)); simp; [|lia]. pose proof (zlen_adel_le (inb s) (pid p)). lia.
    + destruct (aget (outb s) (pid p)); simp; [|lia]. pose proof (zlen_adel_le (outb s) (pid p)). lia.
    + destruct (aget (pers s) (pid p)); simp; [|lia]. pose proof (zlen_adel_le (pers s) (pid p)). lia.
  - exact Hle.
Qed.

Theorem count_le_max c evs : 0 <= max_peers c -> total (run c init evs) <= max_peers c.
Proof.
  intros Hmp. induction evs as [|e l IH] using rev_ind.
  - simpl. unfold total. simpl. exact Hmp.
  - rewrite run_snoc. apply step_total; assumption.
Qed.

(* ------------------------------------------------------------------ the bookkeeping invariant *)
(* A = the peer objects handed to Add so far *)
Definition entries_ok (A : list peer) (k : kind) (m : list (Z * peer)) : Prop :=
  forall i q, In (i, q) m -> pid q = i /\ pkind q = k /\ In q A.

Record Inv (A : list peer) (s : st) : Prop := {
  inv_nd_i : nodupk (inb s);
  inv_nd_o : nodupk (outb s);
  inv_nd_p : nodupk (pers s);
  inv_e_i : entries_ok A Inbound (inb s);
  inv_e_o : entries_ok A Outbound (outb s);
  inv_e_p : entries_ok A Persistent (pers s);
  inv_cc : forall h, cget (ccount s) h = hcount h (inb s) + hcount h (outb s);
  inv_gc : forall g, cget (groups s) g = gcount g (outb s) + gcount g (pers s)
}.

Lemma entries_ok_mono A A' k m : incl A A' -> entries_ok A k m -> entries_ok A' k m.
Proof. intros Hi H i q Hin. destruct (H i q Hin) as [H1 [H2 H3]]. auto. Qed.

Lemma entries_ok_adel A k m i : entries_ok A k m -> entries_ok A k (adel m i).
Proof. intros H j q Hin. apply In_adel in Hin. destruct Hin as [Hin _]. exact (H j q Hin). Qed.

Lemma entries_absent A k m p : entries_ok A k m -> ~ In (pid p) (map pid A) -> aget m (pid p) = None.
Proof.
  intros H Hn. destruct (aget m (pid p)) as [q|] eqn:G; [|reflexivity].
  apply aget_In in G. destruct (H _ _ G) as [H1 [_ H3]]. exfalso. apply Hn.
  rewrite <- H1. apply in_map. exact H3.
Qed.

Lemma inv_init : Inv [] init.
Proof.
  constructor; simpl; try (apply NoDup_nil); try (intros i q []); intros; reflexivity.
Qed.

Lemma inv_set_banned A s b : Inv A s -> Inv A (set_banned s b).
Proof. intros [H1 H2 H3 H4 H5 H6 H7 H8]. constructor; assumption. Qed.

Lemma inv_mono A A' s : incl A A' -> Inv A s -> Inv A' s.
Proof.
  intros Hi [H1 H2 H3 H4 H5 H6 H7 H8].
  constructor; try assumption; eapply entries_ok_mono; eassumption.
Qed.

(* Add of a fresh peer object *)
Lemma inv_add c A s p now :
  Inv A s -> ~ In (pid p) (map pid A) -> Inv (p :: A) (fst (add_peer c s p now)).
Proof.
  intros HI Hfresh.
  assert (Hincl : incl A (p :: A)) by (intros x Hx; right; exact Hx).
  unfold add_peer.
  assert (Hgen : forall s1, Inv A s1 ->
    Inv (p :: A) (fst (if cget (ccount s1) (host p) >=? max_per_ip c then (s1, false)
      else if total s1 >=? max_peers c then (s1, false)
      else match pkind p with
      | Inbound => (mkSt (aset (inb s1) (pid p) p) (outb s1) (pers s1) (banned s1) (groups s1) (cincr (ccount s1) (host p)), true)
      | Persistent => (mkSt (inb s1) (outb s1) (aset (pers s1) (pid p) p) (banned s1) (cincr (groups s1) (group p)) (ccount s1), true)
      | Outbound => (mkSt (inb s1) (aset (outb s1) (pid p) p) (pers s1) (banned s1) (cincr (groups s1) (group p)) (cincr (ccount s1) (host p)), true)
      end))).
  { intros s1 H1.
    destruct (cget (ccount s1) (host p) >=? max_per_ip c); [apply (inv_mono A); assumption|].
    destruct (total s1 >=? max_peers c); [apply (inv_mono A); assumption|].
    destruct H1 as [N1 N2 N3 E1 E2 E3 C G].
    pose proof (entries_absent _ _ _ p E1 Hfresh) as Ai.
    pose proof (entries_absent _ _ _ p E2 Hfresh) as Ao.
    pose proof (entries_absent _ _ _ p E3 Hfresh) as Ap.
    assert (Hnew : forall k m, entries_ok A k m -> pkind p = k -> entries_ok (p :: A) k (aset m (pid p) p)).
    { intros k m Hm Hk i q [Hin|Hin].
      - inversion Hin. subst. split; [reflexivity|]. split; [reflexivity|left; reflexivity].
      - apply In_adel in Hin. destruct Hin as [Hin _]. destruct (Hm i q Hin) as [X1 [X2 X3]].
        split; [exact X1|]. split; [exact X2|right; exact X3]. }
    destruct (pkind p) eqn:K; cbn [fst]; constructor; simp;
      try (apply nodupk_aset); try assumption;
      try (apply Hnew; [assumption|reflexivity]);
      try (eapply entries_ok_mono; eassumption).
    - intros h. rewrite cget_cincr, C. rewrite !hcount_cnt, cnt_aset_absent by exact Ai.
      rewrite <- !hcount_cnt. lia.
    - intros h. rewrite cget_cincr, C. rewrite !hcount_cnt, cnt_aset_absent by exact Ao.
      rewrite <- !hcount_cnt. lia.
    - intros g. rewrite cget_cincr, G. rewrite !gcount_cnt, cnt_aset_absent by exact Ao.
      rewrite <- !gcount_cnt. lia.
    - intros g. rewrite cget_cincr, G. rewrite !gcount_cnt, cnt_aset_absent by exact Ap.
      rewrite <- !gcount_cnt. lia. }
  destruct (aget (banned s) (host p)) as [e|].
  - destruct (now <? e); [apply (inv_mono A); assumption|].
    apply Hgen. apply inv_set_banned. exact HI.
  - apply Hgen. exact HI.
Qed.

(* Done of a peer object that is the only one with its pid among those added *)
Lemma inv_done A s p :
  Inv A s -> (forall q, In q A -> pid q = pid p -> q = p) -> Inv A (done_peer s p).
Proof.
  intros [N1 N2 N3 E1 E2 E3 C G] Huniq. unfold done_peer.
  destruct (pkind p) eqn:K.
  - destruct (aget (inb s) (pid p)) as [q|] eqn:Gq; [|constructor; assumption].
    assert (q = p).
    { apply aget_In in Gq. destruct (E1 _ _ Gq) as [X1 [_ X3]]. apply Huniq; assumption. }
    subst q.
    constructor; simp; try assumption; try (apply nodupk_adel; assumption);
      try (apply entries_ok_adel; assumption).
    intros h. rewrite cget_cdecr, C. rewrite !hcount_cnt. rewrite (cnt_adel_present _ _ _ p N1 Gq). lia.
  - destruct (aget (outb s) (pid p)) as [q|] eqn:Gq; [|constructor; assumption].
    assert (q = p).
    { apply aget_In in Gq. destruct (E2 _ _ Gq) as [X1 [_ X3]]. apply Huniq; assumption. }
    subst q.
    constructor; simp; try assumption; try (apply nodupk_adel; assumption);
      try (apply entries_ok_adel; assumption).
    + intros h. rewrite cget_cdecr, C. rewrite !hcount_cnt. rewrite (cnt_adel_present _ _ _ p N2 Gq). lia.
    + intros g. rewrite cget_cdecr, G. rewrite !gcount_cnt. rewrite (cnt_adel_present _ _ _ p N2 Gq). lia.
  - destruct (aget (pers s) (pid p)) as [q|] eqn:Gq; [|constructor; assumption].
    assert (q = p).
    { apply aget_In in Gq. destruct (E3 _ _ Gq) as [X1 [_ X3]]. apply Huniq; assumption. }
    subst q.
    constructor; simp; try assumption; try (apply nodupk_adel; assumption);
      try (apply entries_ok_adel; assumption).
    intros g. rewrite cget_cdecr, G. rewrite !gcount_cnt. rewrite (cnt_adel_present _ _ _ p N3 Gq). lia.
Qed.

(* well-formedness, prefix-wise *)
Lemma added_app l1 l2 : added (l1 ++ l2) = added l1 ++ added l2.
Proof. induction l1 as [|[p t|p|h t] l IH]; simpl; rewrite ?IH; reflexivity. Qed.
Lemma mentioned_app l1 l2 : mentioned (l1 ++ l2) = mentioned l1 ++ mentioned l2.
Proof. induction l1 as [|[p t|p|h t] l IH]; simpl; rewrite ?IH; reflexivity. Qed.
Lemma added_mentioned l p : In p (added l) -> In p (mentioned l).
Proof.
  induction l as [|[q t|q|h t] l IH]; simpl; [tauto| | |].
  - intros [H|H]; [left; exact H|right; exact (IH H)].
  - intros H. right. exact (IH H).
  - exact IH.
Qed.

Lemma NoDup_app_l {A} (l1 l2 : list A) : NoDup (l1 ++ l2) -> NoDup l1.
Proof.
  induction l1 as [|x l IH]; simpl; intros H; [constructor|].
  inversion H as [|y l0 Hn Hd]. subst. constructor; [|exact (IH Hd)].
  intros Hin. apply Hn. apply in_or_app. left. exact Hin.
Qed.

Lemma wf_prefix l1 l2 : wf (l1 ++ l2) -> wf l1.
Proof.
  intros [H1 H2]. split.
  - rewrite added_app, map_app in H1. apply NoDup_app_l in H1. exact H1.
  - intros p q Hp Hq. apply H2; rewrite mentioned_app; apply in_or_app; left; assumption.
Qed.

Theorem inv_run c evs : wf evs -> Inv (added evs) (run c init evs).
Proof.
  induction evs as [|e l IH] using rev_ind; intros Hwf.
  - exact inv_init.
  - pose proof (wf_prefix _ _ Hwf) as Hwl. specialize (IH Hwl).
    rewrite run_snoc, added_app. destruct Hwf as [Hnd Huq].
    destruct e as [p now|p|h now]; simpl.
    + apply (inv_mono (p :: added l)); [intros x [Hx|Hx]; apply in_or_app; [right; left; exact Hx|left; exact Hx]|].
      apply inv_add; [exact IH|].
      rewrite added_app, map_app in Hnd. simpl in Hnd.
      apply NoDup_remove_2 in Hnd. rewrite app_nil_r in Hnd. exact Hnd.
    + rewrite app_nil_r. apply inv_done; [exact IH|].
      intros q Hq Hpid. apply Huq; [| |exact Hpid]; rewrite mentioned_app; apply in_or_app.
      * left. apply added_mentioned. exact Hq.
      * right. left. reflexivity.
    + rewrite app_nil_r. apply inv_set_banned. exact IH.
Qed.

(* the per-host counter equals the number of admitted peers of that host that count against the
   limit; the per-group counter equals the number of admitted outbound/persistent peers of the group *)
Theorem conn_count_exact c evs h :
  wf evs -> cget (ccount (run c init evs)) h = counted_of_host (run c init evs) h.
Proof. intros Hwf. exact (inv_cc _ _ (inv_run c evs Hwf) h). Qed.

Theorem group_count_exact c evs g :
  wf evs -> cget (groups (run c init evs)) g = outbound_of_group (run c init evs) g.
Proof. intros Hwf. exact (inv_gc _ _ (inv_run c evs Hwf) g). Qed.
