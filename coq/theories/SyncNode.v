(* Shared definitions of the sync models (C06, C07).  Definitions only.
     - checkpoints and the two "next checkpoint" cursors:
         find_next_d  = SyncManager.findNextHeaderCheckpoint (transports/p2p/p2psync/manager.go), as written
                        (scan from the end of the list);
         next_e / verify_advance = checkpoint.findNextCheckpoint / next / VerifyAndAdvance
                        (internal/transports/p2p/peer/checkpoint.go), as written (index + 1 shortcut);
         least_above  = the declarative meaning: first checkpoint (in list order) with height > h;
     - locator        = HeaderService.LatestHeaderLocator (service/header_service.go);
     - a protocol-conformant node: reply = the next headers of its best chain after the first locator
       hash it knows (from the first header when it knows none), at most cap, up to and including stop;
     - effects and messages exchanged between the engines and the nodes. *)
From Coq Require Import ZArith NArith List Bool.
From BHS Require Import Work Store Chain.
Import ListNotations.
Open Scope Z_scope.

(* ---------------- checkpoints ---------------- *)
Definition cp := (Z * N)%type.          (* height, hash id *)

(* default engine: nextCheckpoint := final; for i := len-2 .. 0 { if height >= cps[i].Height break; nextCheckpoint = cps[i] } *)
Fixpoint scan_back (rev_init : list cp) (h : Z) (acc : cp) : cp :=
  match rev_init with
  | [] => acc
  | c :: rest => if fst c <=? h then acc else scan_back rest h c
  end.
Definition find_next_d (cps : list cp) (h : Z) : option cp :=
  match rev cps with
  | [] => None
  | final :: rest => if fst final <=? h then None else Some (scan_back rest h final)
  end.

(* the declarative meaning *)
Definition least_above (cps : list cp) (h : Z) : option cp := find (fun c => h <? fst c) cps.

(* experimental engine: cursor = (currentIndex, currentCheckpoint), None = no current checkpoint (index -1) *)
Definition cursor := option (nat * cp).
Fixpoint search_from (i : nat) (cps : list cp) (h : Z) : cursor :=
  match cps with
  | [] => None
  | c :: rest => if h <? fst c then Some (i, c) else search_from (S i) rest h
  end.
Definition final_height (cps : list cp) : Z := fst (last cps (0, 0%N)).
Definition next_e (cps : list cp) (cur : cursor) (h : Z) : cursor :=
  match cps with
  | [] => None
  | _ => if final_height cps <=? h then None else
         match cur with
         | Some (i, _) => match nth_error cps (S i) with       (* &ch.checkpoints[currentIndex+1]; in range under the cursor invariant *)
                          | Some c => Some (S i, c)
                          | None => None
                          end
         | None => search_from 0 cps h
         end
  end.
Definition new_cursor (cps : list cp) (tip_height : Z) : cursor := next_e cps None tip_height.

Inductive vres := VOk (c : cursor) | VErr.
Definition verify_advance (cps : list cp) (cur : cursor) (h : Z) (i : N) : vres :=
  match cur with
  | None => VOk cur
  | Some (_, (ch, cid)) =>
    if h <? ch then VOk cur
    else if h =? ch then (if N.eqb i cid then VOk (next_e cps cur h) else VErr)
    else VErr
  end.

(* fc399a8 / a26f54a: a stored NON-ORPHAN header at the height of ANY configured checkpoint (passed or still ahead) whose hash
   differs from that checkpoint (SyncManager.contradictedCheckpoint, checkpoint.Contradicts) *)
Definition contradicts (cps : list cp) (x : hstate) (h : Z) (i : N) : bool :=
  negb (st_eqb x Orphan) && existsb (fun c => (fst c =? h) && negb (N.eqb (snd c) i)) cps.

(* ---------------- reads of the header service used by both engines ---------------- *)
Definition tip_height (s : store) : Z := match tipB s with Some t => height t | None => 0 end.

(* GetHeaderByHeight(height) with state LONGEST_CHAIN *)
Definition l_at (s : store) (h : Z) : option row :=
  find (fun r => st_eqb (st r) Longest && (height r =? h)) (rev s).

(* LatestHeaderLocator: tip, then heights tip-1, tip-2, ...; [len] = entries appended so far (the header at height h is the
   last of them); the step doubles after a fetch made while the locator has more than 10 entries; genesis is last *)
Fixpoint loc_from (fuel : nat) (s : store) (h step : Z) (len : nat) : list N :=
  match fuel with
  | O => []
  | S f =>
    if h =? 0 then [] else
    let h' := Z.max (h - step) 0 in
    match l_at s h' with
    | None => []
    | Some r => id r :: loc_from f s h' (if 10 <? Z.of_nat len then step * 2 else step) (S len)
    end
  end.
Definition locator (s : store) : list N :=
  match tipB s with
  | None => []
  | Some t => id t :: loc_from (length s) s (height t) 1 1%nat
  end.

(* HeaderService.IsCurrent: None = index out of range (empty config.Checkpoints) *)
Definition is_current (cps : list cp) (now : Z) (s : store) : option bool :=
  match cps with
  | [] => None
  | _ => match tipB s with
         | None => Some true
         | Some t => if height t <? final_height cps then Some false
                     else Some (now - 86400 <=? p_ts (pl t))
         end
  end.

(* ---------------- a protocol-conformant node ---------------- *)
Fixpoint index_of (i : N) (l : list N) : option nat :=
  match l with
  | [] => None
  | x :: r => if N.eqb x i then Some O else option_map S (index_of i r)
  end.
Fixpoint first_known (known loc : list N) : option nat :=
  match loc with
  | [] => None
  | x :: r => match index_of x known with Some k => Some k | None => first_known known r end
  end.
(* number of chain headers to skip: the index (= height) of the first locator hash the node knows; 0 when none *)
Definition start_index (gid : N) (C : list src) (loc : list N) : nat :=
  match first_known (gid :: map s_id C) loc with Some k => k | None => O end.
Fixpoint upto_stop (stop : N) (l : list src) : list src :=
  match l with
  | [] => []
  | h :: t => if N.eqb (s_id h) stop then [h] else h :: upto_stop stop t
  end.
Definition reply (gid : N) (C : list src) (loc : list N) (stop : N) (cap : nat) : list src :=
  firstn cap (upto_stop stop (skipn (start_index gid C loc) C)).

(* ---------------- messages and effects ---------------- *)
Inductive msg := MHeaders (hs : list src) | MInv (l : list (bool * N)).     (* inv entries: (is a block, hash) *)

Inductive eff :=
| GetHeaders (p : N) (loc : list N) (stop : N)
| Disconnect (p : N)
| Ban (p : N)
| SendHdrs (p : N)         (* the experimental engine's sendheaders *)
| Serve (p : N)            (* the experimental engine answering a getheaders (unreachable: the flag is never set) *)
| Panic.

(* searchForFinalBlock: the last block-typed entry *)
Fixpoint last_block (l : list (bool * N)) : option N :=
  match l with
  | [] => None
  | (b, i) :: r => match last_block r with Some x => Some x | None => if b then Some i else None end
  end.
