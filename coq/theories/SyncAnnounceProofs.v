(* C06: announcements after the initial sync, ONE peer (the sync peer), default engine at /repo HEAD (after 1572875).
   From the idle state that catchup_linear ends in (everything of C delivered, nothing in flight), the peer's chain grows
   by the headers [new] (1 <= |new| <= cap, extending C) and the peer announces them
     - by inv     : handleInvMsg sends getheaders(locator from the tip, stop = the announced hash); that request differs from
                    the previous one in its stop hash and is NOT filtered; the reply brings exactly [new];
     - by headers : the unsolicited headers message is ingested directly;
   in both cases the system runs to quiescence with longest chain = C ++ new (tip = the last announced header), every later
   request being sent (never filtered) with the tip as locator head, and ends in the idle state for C ++ new - so the
   theorem applies again to the next announcement (induction over any number of announcements). *)
From Coq Require Import ZArith NArith List Lia Bool.
From BHS Require Import Work Store Chain ChainSpec StoreProofs ChainInv ChainReorg ChainAdd ChainMain
     SyncNode SyncDefault SyncExp SyncSys SyncSpec SyncC07Proofs SyncC06Proofs.
Import ListNotations.
Open Scope Z_scope.

Lemma upto_stop_last l : forall d, NoDup (map s_id l) -> l <> [] -> upto_stop (s_id (last l d)) l = l.
Proof.
  induction l as [|h t IH]; intros d Hnd Hne; [contradiction|].
  cbn [map] in Hnd. apply NoDup_cons_iff in Hnd. destruct Hnd as [Hnotin Hnd].
  destruct t as [|h2 t2].
  - cbn. rewrite N.eqb_refl. reflexivity.
  - change (last (h :: h2 :: t2) d) with (last (h2 :: t2) d). cbn [upto_stop].
    destruct (N.eqb_spec (s_id h) (s_id (last (h2 :: t2) d))) as [E|_].
    + exfalso. apply Hnotin. rewrite E. apply in_map. apply last_in. discriminate.
    + f_equal. apply IH; [exact Hnd| discriminate].
Qed.

Lemma nodup_app_disj {A} (a b : list A) : NoDup (a ++ b) -> forall x, In x a -> In x b -> False.
Proof.
  induction a as [|h t IH]; intros Hnd x Ha Hb; [inversion Ha|]. cbn in Hnd. apply NoDup_cons_iff in Hnd. destruct Hnd as [Hn Hnd].
  destruct Ha as [<-|Ha]; [apply Hn; apply in_or_app; right; exact Hb| apply (IH Hnd x Ha Hb)].
Qed.

Lemma nodup_app_r {A} (a b : list A) : NoDup (a ++ b) -> NoDup b.
Proof. induction a as [|h t IH]; intros H; [exact H|]. cbn in H. apply NoDup_cons_iff in H. apply IH, H. Qed.

Lemma last_block_map (l : list src) d : l <> [] -> last_block (map (fun h => (true, s_id h)) l) = Some (s_id (last l d)).
Proof.
  induction l as [|h t IH]; intros Hne; [contradiction|]. cbn [map last_block].
  destruct t as [|h2 t2]; [reflexivity|]. rewrite (IH ltac:(discriminate)). reflexivity.
Qed.

Section Announce.
Variables (cfg : dcfg) (gid : N) (C new : list src) (p : N) (cap : nat) (rest : list src).
Notation C' := (C ++ new).
Hypothesis HC' : good_chain (c_forb cfg) gid C'.
Hypothesis Hcps : cps_ok gid C (eff_cps cfg).
Hypothesis Hsorted : sorted (eff_cps cfg).
Hypothesis Hcap : (1 <= cap)%nat.
Hypothesis Hnew1 : new <> [].
Hypothesis Hnewcap : (length new <= cap)%nat.
Notation dflt := (ex_sub 0 0 0).

Lemma cids_app : cids gid C' = cids gid C ++ map s_id new.
Proof. unfold cids. rewrite map_app. reflexivity. Qed.

Lemma cps_ok_ext : cps_ok gid C' (eff_cps cfg).
Proof.
  intros c Hc. destruct (Hcps c Hc) as (i & Ei & Hn). exists i. split; [exact Ei|].
  rewrite cids_app. rewrite nth_error_app1; [exact Hn|]. apply nth_error_Some. congruence.
Qed.

Lemma no_checkpoint_above : least_above (eff_cps cfg) (Z.of_nat (length C)) = None.
Proof.
  destruct (least_above (eff_cps cfg) (Z.of_nat (length C))) as [[H cid]|] eqn:El; [|reflexivity]. exfalso.
  destruct (next_on_chain cfg gid C cap Hcps Hcap (length C) H cid El) as (Hn & _ & Hlt & _ & Hle). lia.
Qed.

Lemma tipid_ext : tipid gid C' (length C) = tipid gid C (length C).
Proof. unfold tipid. rewrite cids_app. apply app_nth1. rewrite cids_length. lia. Qed.

Lemma new_len : (length C' = length C + length new)%nat.
Proof. apply app_length. Qed.

Lemma skipn_ext : skipn (length C) C' = new.
Proof. rewrite skipn_app, skipn_all, Nat.sub_diag. reflexivity. Qed.

Lemma good_ext s : Good gid C (length C) s -> (forall h, In h new -> by_hash s (s_id h) = None) -> Good gid C' (length C) s.
Proof.
  intros (tip & HI & Hids & _) Hf. exists tip. split; [exact HI|]. split.
  - rewrite Hids. f_equal. rewrite cids_app. rewrite firstn_app.
    replace (S (length C) - length (cids gid C))%nat with O by (rewrite cids_length; lia). cbn [firstn]. rewrite app_nil_r. reflexivity.
  - rewrite skipn_ext. exact Hf.
Qed.

Lemma eng_ext st : eng_ok cfg gid C p (length C) st -> (forall h, In h new -> by_hash (d_store st) (s_id h) = None) ->
  eng_ok cfg gid C' p (length C) st.
Proof.
  intros (Hh & Hs & Hst & (o & Eo & Hc & Hpb & Hps) & Hn & HG) Hf.
  split; [exact Hh|]. split; [exact Hs|]. split; [exact Hst|]. split; [|split; [exact Hn| apply good_ext; assumption]].
  exists o. split; [exact Eo|]. split; [exact Hc|]. split; [rewrite tipid_ext; exact Hpb|].
  intros s0 Hs0. destruct (Hps s0 Hs0) as [E|Hin]; [left; exact E| right; rewrite cids_app; apply in_or_app; left; exact Hin].
Qed.

(* the batch [new] in flight: the system is "k = |C|" of a catch-up along C' *)
Lemma announced_sys_ok y n' : idle_ok cfg gid C p cap (new ++ rest) y ->
  (forall h, In h new -> by_hash (d_store (y_eng y)) (s_id h) = None) ->
  n_chain n' = C' -> n_reserve n' = rest -> n_cap n' = cap -> n_open n' = true -> n_stalled n' = false -> n_out n' = [MHeaders new] ->
  forall eng', eng_ok cfg gid C' p (length C) eng' ->
  sys_ok cfg gid C' p cap rest (length C) (y_with y eng' [(p, n')] (y_done y) (y_hints y)).
Proof.
  intros (Ecfg & Egid & Heng & Edone & _) Hf Hch Hrs Hcp Hop Hns Hout eng' Heng'.
  unfold sys_ok. cbn [y_cfg y_gid y_eng y_done y_nodes y_with]. split; [exact Ecfg|]. split; [exact Egid|]. split; [exact Heng'|].
  split; [exact Edone|]. exists n'. split; [reflexivity|].
  split; [exact Hch|]. split; [exact Hrs|]. split; [exact Hcp|]. split; [exact Hop|]. split; [exact Hns|].
  exists (length new). split; [rewrite Hout, skipn_ext, firstn_all; reflexivity|]. split; [rewrite new_len; lia|].
  split; [intros _; destruct (length new) eqn:Eln; [apply length_zero_iff_nil in Eln; contradiction| lia]|].
  destruct Heng' as (_ & _ & _ & _ & Hn & _). rewrite Hn, no_checkpoint_above. exact I.
Qed.

(* ---- announcement by headers ---- *)
Theorem announce_headers y fuel : idle_ok cfg gid C p cap (new ++ rest) y ->
  (forall h, In h new -> by_hash (d_store (y_eng y)) (s_id h) = None) ->
  (length new + 1 <= fuel)%nat ->
  exists y1 y2 t2,
    y_cmd y (CAnnounce p (length new) false) = (y1, []) /\
    y_cmd y1 (CRun fuel) = (y2, t2) /\ quiescent y2 = true /\
    Good gid C' (length C') (d_store (y_eng y2)) /\ idle_ok cfg gid C' p cap rest y2 /\ Forall (entry_ok p) t2.
Proof.
  intros Hidle Hf Hfu. pose proof Hidle as (Ecfg & Egid & Heng & Edone & n & En & Hch & Hrs & Hcp & Hop & Hns & Hout).
  set (n' := node_announce n (length new) false).
  assert (Ecmd: y_cmd y (CAnnounce p (length new) false) = (y_with y (y_eng y) [(p, n')] (y_done y) (y_hints y), [])).
  { unfold y_cmd. rewrite En. unfold upd_node. cbn [map fst snd]. rewrite N.eqb_refl. reflexivity. }
  assert (Hfirst: firstn (length new) (n_reserve n) = new) by (rewrite Hrs, firstn_app, Nat.sub_diag, firstn_all; cbn; apply app_nil_r).
  assert (Hskip: skipn (length new) (n_reserve n) = rest) by (rewrite Hrs, skipn_app, skipn_all, Nat.sub_diag; reflexivity).
  assert (Hn': n_chain n' = C' /\ n_reserve n' = rest /\ n_cap n' = cap /\ n_open n' = true /\ n_stalled n' = false /\ n_out n' = [MHeaders new]).
  { unfold n', node_announce, n_with. rewrite Hfirst, Hskip, Hop, Hns, Hout, Hch. cbn [n_chain n_reserve n_cap n_open n_stalled n_out negb andb app].
    destruct new as [|h0 t0]; [contradiction|]. repeat split; try reflexivity; assumption. }
  destruct Hn' as (A1 & A2 & A3 & A4 & A5 & A6).
  pose proof (announced_sys_ok y n' Hidle Hf A1 A2 A3 A4 A5 A6 (y_eng y) (eng_ext _ Heng Hf)) as Hsys.
  destruct (run_linear cfg gid C' p cap rest HC' cps_ok_ext Hsorted Hcap fuel (length C) _ ltac:(rewrite new_len; lia) Hsys ltac:(rewrite new_len; lia))
    as (y2 & t2 & Er & Ht2 & Hq & HG2 & Hi2).
  eexists _, y2, t2. split; [exact Ecmd|]. split; [exact Er|]. auto.
Qed.

(* ---- announcement by inv ---- *)
Hypothesis Hcpsne : c_cps cfg <> [].       (* HeaderService.IsCurrent indexes the last configured checkpoint *)

Theorem announce_inv y fuel : idle_ok cfg gid C p cap (new ++ rest) y ->
  (forall h, In h new -> by_hash (d_store (y_eng y)) (s_id h) = None) ->
  (length new + 1 <= fuel)%nat ->
  exists y1 y2 ev st1 loc t2,
    y_cmd y (CAnnounce p (length new) true) = (y1, []) /\
    y_cmd y1 (CRun (S fuel)) = (y2, (ev, [GetHeaders p loc (s_id (last new dflt))], st1) :: t2) /\
    (* the request triggered by the inv is sent (not filtered): locator from the tip, stop = the announced block *)
    ev = EInv p (map (fun h => (true, s_id h)) new) /\ hd_error loc = Some (tipid gid C (length C)) /\
    quiescent y2 = true /\
    Good gid C' (length C') (d_store (y_eng y2)) /\ idle_ok cfg gid C' p cap rest y2 /\ Forall (entry_ok p) t2.
Proof.
  intros Hidle Hf Hfu. pose proof Hidle as (Ecfg & Egid & Heng & Edone & n & En & Hch & Hrs & Hcp & Hop & Hns & Hout).
  pose proof Heng as (Hhfm & Hsync & Hstates & (o & Eobjs & Hconn & Hpb & Hps) & Hnext & HG).
  set (st := y_eng y) in *.
  set (l := map (fun h => (true, s_id h)) new).
  set (n' := node_announce n (length new) true).
  assert (Ecmd: y_cmd y (CAnnounce p (length new) true) = (y_with y st [(p, n')] (y_done y) (y_hints y), [])).
  { unfold y_cmd. rewrite En. unfold upd_node. cbn [map fst snd]. rewrite N.eqb_refl. reflexivity. }
  assert (Hfirst: firstn (length new) (n_reserve n) = new) by (rewrite Hrs, firstn_app, Nat.sub_diag, firstn_all; cbn; apply app_nil_r).
  assert (Hskip: skipn (length new) (n_reserve n) = rest) by (rewrite Hrs, skipn_app, skipn_all, Nat.sub_diag; reflexivity).
  assert (Hn': n_chain n' = C' /\ n_reserve n' = rest /\ n_cap n' = cap /\ n_open n' = true /\ n_stalled n' = false /\ n_out n' = [MInv l] /\ n_used n' = n_used n).
  { unfold n', node_announce, n_with. rewrite Hfirst, Hskip, Hop, Hns, Hout, Hch. cbn [n_chain n_reserve n_cap n_open n_stalled n_out n_used negb andb app].
    destruct new as [|h0 t0]; [contradiction|]. repeat split; try reflexivity; assumption. }
  destruct Hn' as (A1 & A2 & A3 & A4 & A5 & A6 & A7).
  set (y1 := y_with y st [(p, n')] (y_done y) (y_hints y)).
  (* the announced hash *)
  set (h := s_id (last new dflt)).
  assert (Hlin: In (last new dflt) new) by (apply last_in; exact Hnew1).
  assert (Hh0: h <> 0%N). { apply (gc_each _ _ _ HC' (last new dflt)). apply in_or_app. right. exact Hlin. }
  assert (HhC: ~ In h (cids gid C)).
  { pose proof (gc_nodup _ _ _ HC') as Hnd. rewrite cids_app in Hnd. intros Hin.
    apply (nodup_app_disj _ _ Hnd h Hin). apply in_map. exact Hlin. }
  (* handleInvMsg *)
  destruct (good_locator gid C (length C) (d_store st) (le_n _) HG) as (lrest & Eloc & Etb).
  assert (Einv: on_inv cfg st p l =
                (with_objs st [(p, {| po_conn := true; po_last := po_last o; po_start := po_start o;
                                      po_pb := Some (tipid gid C (length C)); po_ps := Some h |})],
                 [GetHeaders p (locator (d_store st)) h])).
  { unfold on_inv. rewrite Hstates. cbn [aget]. rewrite N.eqb_refl.
    unfold l. rewrite (last_block_map new dflt Hnew1). fold h. rewrite Hsync. cbn [opt_eqb]. rewrite N.eqb_refl. cbn [andb].
    assert (Hcur: exists cur, current cfg st = Some cur).
    { unfold current, is_current. destruct (c_cps cfg) as [|c0 cl] eqn:Ec; [contradiction|].
      destruct (tipB (d_store st)) as [t|]; [|rewrite Hsync; eexists; reflexivity].
      destruct (height t <? final_height (c0 :: cl)); [eexists; reflexivity|].
      destruct (c_now cfg - 86400 <=? p_ts (pl t)); [rewrite Hsync|]; eexists; reflexivity. }
    destruct Hcur as (cur & Ecur). rewrite Ecur. cbn [negb andb].
    assert (Hnone: (if cur then by_hash (d_store st) h else None) = None) by (destruct cur; [exact (Hf _ Hlin)| reflexivity]). rewrite Hnone.
    rewrite (send_gh_sent st p o _ h Eobjs Hconn); [rewrite Eloc; reflexivity|].
    destruct (po_ps o) as [s0|] eqn:Es0; [|reflexivity]. rewrite Hpb, Eloc. cbn [hd_error].
    destruct (N.eqb_spec h s0) as [E|_]; [|reflexivity]. exfalso.
    destruct (Hps s0 eq_refl) as [E0|Hin]; [congruence| apply HhC; rewrite E; exact Hin]. }
  (* the delivery of the inv *)
  set (n1 := n_with n' (n_chain n') (n_reserve n') (n_open n') (n_used n') (n_stalled n') []).
  set (n2 := node_request gid n1 (locator (d_store st)) h).
  set (eng2 := with_objs st [(p, {| po_conn := true; po_last := po_last o; po_start := po_start o;
                                     po_pb := Some (tipid gid C (length C)); po_ps := Some h |})]).
  assert (Edel: deliver y1 p = (y_with y1 eng2 [(p, n2)] (y_done y) (tl (y_hints y)), [(EInv p l, [GetHeaders p (locator (d_store st)) h], eng2)])).
  { unfold deliver, y1. cbn [y_nodes y_with aget]. rewrite N.eqb_refl, A4, A6. cbn [negb].
    unfold upd_node. cbn [map fst snd]. rewrite N.eqb_refl.
    unfold eng_event. cbn [y_cfg y_eng y_with y_hints y_gid y_nodes y_done d_step]. rewrite Ecfg. fold st. rewrite Einv. fold eng2.
    cbn [apply_effs]. unfold upd_node. cbn [map fst snd]. rewrite N.eqb_refl. cbn [apply_effs]. rewrite Egid. reflexivity. }
  assert (Hn2: n_chain n2 = C' /\ n_reserve n2 = rest /\ n_cap n2 = cap /\ n_open n2 = true /\ n_stalled n2 = false /\ n_out n2 = [MHeaders new]).
  { unfold n2, node_request, n1, n_with. cbn [n_open n_stalled n_chain n_reserve n_used n_out n_cap]. rewrite A4, A5. cbn [negb andb app].
    cbn [n_chain n_reserve n_cap n_open n_stalled n_out]. rewrite A1, A2, A3. repeat split; auto.
    rewrite Eloc, <- tipid_ext. f_equal. f_equal.
    unfold tipid, reply. rewrite (start_index_head (c_forb cfg) gid C' HC' (length C) lrest ltac:(rewrite new_len; lia)).
    rewrite skipn_ext. unfold h. rewrite upto_stop_last; [apply firstn_all2; exact Hnewcap| | exact Hnew1].
    pose proof (gc_nodup _ _ _ HC') as Hnd. rewrite cids_app in Hnd. apply nodup_app_r in Hnd. exact Hnd. }
  destruct Hn2 as (B1 & B2 & B3 & B4 & B5 & B6).
  assert (Heng2: eng_ok cfg gid C' p (length C) eng2).
  { unfold eng2. split; [exact Hhfm|]. split; [exact Hsync|]. split; [exact Hstates|]. split; [|split; [exact Hnext| apply good_ext; assumption]].
    eexists. split; [reflexivity|]. cbn [po_conn po_pb po_ps]. split; [reflexivity|]. split; [rewrite tipid_ext; reflexivity|].
    intros s0 Hs0. inversion Hs0; subst s0. right. rewrite cids_app. apply in_or_app. right. apply in_map. exact Hlin. }
  assert (Hsys: sys_ok cfg gid C' p cap rest (length C) (y_with y1 eng2 [(p, n2)] (y_done y) (tl (y_hints y)))).
  { unfold sys_ok. cbn [y_cfg y_gid y_eng y_done y_nodes y_with y1]. split; [exact Ecfg|]. split; [exact Egid|]. split; [exact Heng2|].
    split; [exact Edone|]. exists n2. split; [reflexivity|].
    split; [exact B1|]. split; [exact B2|]. split; [exact B3|]. split; [exact B4|]. split; [exact B5|].
    exists (length new). split; [rewrite B6, skipn_ext, firstn_all; reflexivity|]. split; [rewrite new_len; lia|].
    split; [intros _; destruct (length new) eqn:Eln; [apply length_zero_iff_nil in Eln; contradiction| lia]|].
    cbn [d_next eng2 with_objs]. rewrite Hnext, no_checkpoint_above. exact I. }
  destruct (run_linear cfg gid C' p cap rest HC' cps_ok_ext Hsorted Hcap fuel (length C) _ ltac:(rewrite new_len; lia) Hsys ltac:(rewrite new_len; lia))
    as (y2 & t2 & Er & Ht2 & Hq & HG2 & Hi2).
  exists y1, y2, (EInv p l), eng2, (locator (d_store st)), t2.
  split; [exact Ecmd|]. split.
  - cbn [y_cmd run_q].
    assert (Hready: next_ready y1 = Some (false, p)).
    { unfold next_ready, y1. cbn [y_nodes y_with find snd]. rewrite A4, A6. reflexivity. }
    rewrite Hready, Edel, Er. reflexivity.
  - split; [reflexivity|]. split; [rewrite Eloc; reflexivity|]. auto.
Qed.
End Announce.
