(* C09 proofs about the model of Auth.v: every statement quantifies over every header value, admin token,
   token table and handler. *)
From Coq Require Import String Ascii List Bool Arith Lia.
From BHS Require Import Tokens TokensProofs Auth.
Import ListNotations.
Open Scope string_scope.

(* ---------------- strings.Split(h, " ") ---------------- *)

Lemma is_space_true : forall c, is_space c = true -> c = " "%char.
Proof. intros c H. unfold is_space in H. apply Ascii.eqb_eq in H. exact H. Qed.

Lemma split_sp_nonnil : forall s, split_sp s <> [].
Proof.
  intros s. destruct s as [| c r]; simpl; [intros H; discriminate H |].
  destruct (is_space c); [intros H; discriminate H |].
  destruct (split_sp r); intros H; discriminate H.
Qed.

Lemma no_space_split : forall s, no_spaceb s = true -> split_sp s = [s].
Proof.
  intros s. induction s as [| c r IH]; simpl; intros H; [reflexivity |].
  apply andb_true_iff in H. destruct H as [Hc Hr]. apply negb_true_iff in Hc. rewrite Hc, (IH Hr). reflexivity.
Qed.

Lemma split_sp_app : forall a r, no_spaceb a = true -> split_sp (a ++ String " " r) = a :: split_sp r.
Proof.
  intros a r. induction a as [| c a IH]; simpl; intros H; [reflexivity |].
  apply andb_true_iff in H. destruct H as [Hc Ha]. apply negb_true_iff in Hc. rewrite Hc, (IH Ha). reflexivity.
Qed.

(* the parts determine the string: either one space-free part, or first part + " " + the rest *)
Lemma split_sp_inv : forall s parts, split_sp s = parts ->
  match parts with
  | [] => False
  | [a] => s = a /\ no_spaceb a = true
  | a :: rest => exists r, s = a ++ String " " r /\ no_spaceb a = true /\ split_sp r = rest
  end.
Proof.
  intros s. induction s as [| c r IH]; intros parts H; simpl in H.
  - subst parts. split; reflexivity.
  - destruct (is_space c) eqn:Hc.
    + clear IH. subst parts. destruct (split_sp r) as [| x xs] eqn:Hr; [exfalso; exact (split_sp_nonnil r Hr) |].
      exists r. apply is_space_true in Hc. subst c. repeat split; try reflexivity; try exact Hr.
    + specialize (IH (split_sp r) eq_refl).
      destruct (split_sp r) as [| p ps] eqn:Hr; [exfalso; exact IH |].
      subst parts. destruct ps as [| q qs].
      * destruct IH as [Hs Hn]. subst p. split; [reflexivity |]. simpl. rewrite Hc, Hn. reflexivity.
      * destruct IH as [r0 [Hs [Hn Hsp]]]. exists r0. split; [rewrite Hs; reflexivity |].
        split; [simpl; rewrite Hc, Hn; reflexivity | exact Hsp].
Qed.

(* ---------------- parseAuthHeader ---------------- *)

Theorem parse_missing_iff : forall h, parse_auth_header h = Missing <-> h = "".
Proof.
  intros h. unfold parse_auth_header. destruct (String.eqb h "") eqn:He.
  - apply String.eqb_eq in He. split; [intros _; exact He | reflexivity].
  - apply String.eqb_neq in He. split; [| intros H; contradiction].
    destruct (split_sp h) as [| a [| b [| c l]]]; try (intros H; discriminate H).
    destruct (String.eqb a "Bearer"); intros H; discriminate H.
Qed.

Theorem parse_tok_iff : forall h t,
  parse_auth_header h = Tok t <-> h = "Bearer " ++ t /\ no_spaceb t = true.
Proof.
  intros h t. unfold parse_auth_header. split.
  - destruct (String.eqb h "") eqn:He; [intros H; discriminate H |].
    destruct (split_sp h) as [| a [| b [| c l]]] eqn:Hs; try (intros H; discriminate H).
    destruct (String.eqb a "Bearer") eqn:Ha; [| intros H; discriminate H].
    intros H. inversion H. subst b. apply String.eqb_eq in Ha. subst a.
    apply split_sp_inv in Hs. destruct Hs as [r [Hh [_ Hr]]].
    apply split_sp_inv in Hr. destruct Hr as [Hr Hn]. subst r. split; [rewrite Hh; reflexivity | exact Hn].
  - intros [Hh Hn]. subst h. simpl String.eqb.
    change ("Bearer " ++ t) with ("Bearer" ++ String " " t).
    rewrite split_sp_app by reflexivity. rewrite (no_space_split t Hn). reflexivity.
Qed.

Theorem parse_invalid_iff : forall h,
  parse_auth_header h = Invalid <-> h <> "" /\ forall t, ~ (h = "Bearer " ++ t /\ no_spaceb t = true).
Proof.
  intros h. split.
  - intros H. split.
    + intros He. apply parse_missing_iff in He. rewrite He in H. discriminate H.
    + intros t Ht. apply parse_tok_iff in Ht. rewrite Ht in H. discriminate H.
  - intros [Hne Hno]. destruct (parse_auth_header h) as [| | t] eqn:Hp; [| reflexivity |].
    + apply parse_missing_iff in Hp. contradiction.
    + apply parse_tok_iff in Hp. exfalso. exact (Hno t Hp).
Qed.

(* ---------------- the middleware ---------------- *)

Lemma get_token_valid : forall admin st t, get_token admin st t <> NoTok <-> t = admin \/ In t st.
Proof.
  intros admin st t. unfold get_token. destruct (String.eqb t admin) eqn:He.
  - apply String.eqb_eq in He. split; [intros _; left; exact He | intros _ H; discriminate H].
  - apply String.eqb_neq in He. destruct (mem t st) eqn:Hm.
    + apply mem_In in Hm. split; [intros _; right; exact Hm | intros _ H; discriminate H].
    + split; [intros H; exfalso; apply H; reflexivity |].
      intros [H | H]; [contradiction | apply mem_In in H; rewrite H in Hm; discriminate Hm].
Qed.

Lemma middleware_pass_iff : forall admin st hdr r,
  middleware true admin st hdr = Pass (Some r) <->
  exists t, hdr = "Bearer " ++ t /\ no_spaceb t = true /\ get_token admin st t = r /\ r <> NoTok.
Proof.
  intros admin st hdr r. unfold middleware. split.
  - destruct (parse_auth_header hdr) as [| | t] eqn:Hp; try (intros H; discriminate H).
    apply parse_tok_iff in Hp. destruct Hp as [Hh Hn].
    destruct (get_token admin st t) eqn:Hg; intros H; inversion H; subst r;
      exists t; repeat split; try assumption; intros Hd; discriminate Hd.
  - intros [t [Hh [Hn [Hg Hr]]]]. rewrite (proj2 (parse_tok_iff hdr t) (conj Hh Hn)). rewrite Hg.
    destruct r; [reflexivity | reflexivity | contradiction].
Qed.

(* accepted iff the header is "Bearer " ++ t with t space-free and t the admin token or an issued token *)
Theorem header_accepted_iff : forall admin st hdr,
  (exists r, middleware true admin st hdr = Pass (Some r)) <->
  exists t, hdr = "Bearer " ++ t /\ no_spaceb t = true /\ (t = admin \/ In t st).
Proof.
  intros admin st hdr. split.
  - intros [r Hm]. apply middleware_pass_iff in Hm. destruct Hm as [t [Hh [Hn [Hg Hr]]]].
    exists t. repeat split; try assumption. apply get_token_valid. rewrite Hg. exact Hr.
  - intros [t [Hh [Hn Hv]]]. exists (get_token admin st t). apply middleware_pass_iff.
    exists t. repeat split; try assumption. apply get_token_valid. exact Hv.
Qed.

(* when authentication is on, the middleware either passes with a token value or rejects: never "Pass None" *)
Lemma middleware_on_not_pass_none : forall admin st hdr, middleware true admin st hdr <> Pass None.
Proof.
  intros admin st hdr. unfold middleware. destruct (parse_auth_header hdr); try (intros H; discriminate H).
  destruct (get_token admin st t); intros H; discriminate H.
Qed.

Theorem auth_off_passes : forall admin st hdr wrapped, decide false admin st wrapped hdr = Reached.
Proof. intros admin st hdr wrapped. unfold decide. simpl. rewrite andb_false_r. reflexivity. Qed.

(* a route that is not wrapped is reached iff the header is accepted *)
Theorem decide_plain_iff : forall admin st hdr,
  decide true admin st false hdr = Reached <->
  exists t, hdr = "Bearer " ++ t /\ no_spaceb t = true /\ (t = admin \/ In t st).
Proof.
  intros admin st hdr. rewrite <- header_accepted_iff. unfold decide.
  destruct (middleware true admin st hdr) as [[r |] | e] eqn:Hm; simpl.
  - split; [intros _; exists r; reflexivity | reflexivity].
  - exfalso. exact (middleware_on_not_pass_none admin st hdr Hm).
  - split; [intros H; discriminate H | intros [r H]; discriminate H].
Qed.

(* creating and revoking tokens: reached iff the header carries the admin token *)
Theorem admin_routes : forall admin st hdr,
  decide true admin st true hdr = Reached <-> hdr = "Bearer " ++ admin /\ no_spaceb admin = true.
Proof.
  intros admin st hdr. unfold decide.
  destruct (middleware true admin st hdr) as [[r |] | e] eqn:Hm; simpl.
  - apply middleware_pass_iff in Hm. destruct Hm as [t [Hh [Hn [Hg Hr]]]]. destruct r; simpl.
    + apply only_admin_is_admin in Hg. subst t. split; [intros _; split; assumption | reflexivity].
    + split; [intros H; discriminate H |]. intros [Hh' Hn']. exfalso. rewrite Hh in Hh'.
      assert (Ht : t = admin).
      { clear -Hh'. simpl in Hh'. inversion Hh'. reflexivity. }
      subst t. rewrite (proj2 (only_admin_is_admin admin st admin) eq_refl) in Hg. discriminate Hg.
    + contradiction.
  - exfalso. exact (middleware_on_not_pass_none admin st hdr Hm).
  - split; [intros H; discriminate H |]. intros [Hh Hn]. exfalso.
    assert (Hp : middleware true admin st hdr = Pass (Some Admin)).
    { apply middleware_pass_iff. exists admin. repeat split; try assumption.
      - apply only_admin_is_admin. reflexivity.
      - intros Hd; discriminate Hd. }
    rewrite Hp in Hm. discriminate Hm.
Qed.

(* a request that is not reached is answered with one of the five structured 401 errors, and which one *)
Theorem denied_reason : forall admin st wrapped hdr e,
  decide true admin st wrapped hdr = Denied e ->
  (e = ErrMissingAuthHeader /\ hdr = "") \/
  (e = ErrInvalidAuthHeader /\ parse_auth_header hdr = Invalid) \/
  (e = ErrInvalidAccessToken /\ exists t, parse_auth_header hdr = Tok t /\ get_token admin st t = NoTok) \/
  (e = ErrUnauthorized /\ wrapped = true /\ exists t, parse_auth_header hdr = Tok t /\ get_token admin st t = User).
Proof.
  intros admin st wrapped hdr e. unfold decide, middleware.
  destruct (parse_auth_header hdr) as [| | t] eqn:Hp.
  - intros H. inversion H. left. split; [reflexivity | apply parse_missing_iff; exact Hp].
  - intros H. inversion H. right; left. split; reflexivity.
  - destruct (get_token admin st t) eqn:Hg.
    + destruct wrapped; simpl; intros H; discriminate H.
    + destruct wrapped; simpl; intros H; [| discriminate H]. inversion H.
      right; right; right. split; [reflexivity |]. split; [reflexivity |]. exists t. split; [reflexivity | exact Hg].
    + intros H. inversion H. right; right; left. split; [reflexivity |]. exists t. split; [reflexivity | exact Hg].
Qed.

(* ---------------- the handler chain ---------------- *)

(* a rejected request: the chain stops in the middleware - whatever handlers follow, none runs, the state
   is the initial one and the response is the 401 error *)
Theorem rejected_before_any_handler : forall (S : Type) use_auth admin st hdr e,
  middleware use_auth admin st hdr = Reject e ->
  forall (hs : list (handler S)) (s : S),
    run_chain S (mw_handler S use_auth admin st hdr :: hs) (init_ctx S s) = abort_with S e (init_ctx S s).
Proof.
  intros S use_auth admin st hdr e Hm hs s. simpl. unfold mw_handler. rewrite Hm.
  destruct hs as [| h r]; simpl; reflexivity.
Qed.

(* the API chain of a route agrees with [decide]: denied -> state untouched, aborted, 401 error recorded and
   the route handler h never applied; reached -> exactly h applied to the context carrying the token *)
Theorem chain_decide : forall (S : Type) use_auth admin st hdr wrapped (h : handler S) (s : S),
  let c := run_chain S (api_chain S use_auth admin st hdr wrapped h) (init_ctx S s) in
  match decide use_auth admin st wrapped hdr with
  | Denied e => c = abort_with S e {| state := s; tokv := tokv S c; aborted := false; resp := None |}
                /\ state S c = s /\ resp S c = Some e /\ aborted S c = true
  | Reached => exists tok, middleware use_auth admin st hdr = Pass tok /\
                 c = h {| state := s; tokv := tok; aborted := false; resp := None |}
  end.
Proof.
  intros S use_auth admin st hdr wrapped h s. unfold decide, api_chain. simpl.
  unfold mw_handler. destruct (middleware use_auth admin st hdr) as [[r |] | e] eqn:Hm; simpl.
  - destruct wrapped; simpl.
    + destruct use_auth; simpl.
      * unfold wrap_admin. simpl. destruct r; simpl; try (repeat split; reflexivity).
        exists (Some Admin). split; reflexivity.
      * exists (Some r). split; reflexivity.
    + exists (Some r). split; reflexivity.
  - destruct wrapped; simpl.
    + destruct use_auth; simpl.
      * repeat split; reflexivity.
      * exists None. split; reflexivity.
    + exists None. split; reflexivity.
  - repeat split; reflexivity.
Qed.

(* ---------------- the declarative reading used by the oracle ---------------- *)

Lemma substring_all : forall s, substring 0 (String.length s) s = s.
Proof. intros s. induction s as [| c r IH]; simpl; [reflexivity | rewrite IH; reflexivity]. Qed.

Lemma prefix_split : forall p h, prefix p h = true ->
  h = p ++ substring (String.length p) (String.length h - String.length p) h.
Proof.
  intros p. induction p as [| a p IH]; intros h H; simpl.
  - rewrite Nat.sub_0_r. symmetry. apply substring_all.
  - destruct h as [| b h]; simpl in H; [discriminate H |].
    destruct (ascii_dec a b) as [Hab | Hab]; [| discriminate H]. subst b. simpl. f_equal. apply IH. exact H.
Qed.

Lemma prefix_app : forall p t, prefix p (p ++ t) = true.
Proof.
  intros p t. induction p as [| a p IH]; simpl; [destruct t; reflexivity |].
  destruct (ascii_dec a a) as [_ | Hn]; [exact IH | exfalso; apply Hn; reflexivity].
Qed.

Lemma substring_app : forall p t,
  substring (String.length p) (String.length (p ++ t) - String.length p) (p ++ t) = t.
Proof.
  intros p t. induction p as [| a p IH]; simpl.
  - rewrite Nat.sub_0_r. apply substring_all.
  - exact IH.
Qed.

Lemma bearer_of_iff : forall hdr t, bearer_of hdr = Some t <-> hdr = "Bearer " ++ t.
Proof.
  intros hdr t. unfold bearer_of. split.
  - destruct (prefix "Bearer " hdr) eqn:Hp; [| intros H; discriminate H].
    intros H. inversion H as [Ht]. apply prefix_split in Hp. simpl String.length in Hp. exact Hp.
  - intros H. subst hdr. rewrite prefix_app.
    change 7 with (String.length "Bearer "). rewrite substring_app. reflexivity.
Qed.

Lemma bearer_inj : forall t t', "Bearer " ++ t = "Bearer " ++ t' -> t = t'.
Proof. intros t t' H. simpl in H. inversion H. reflexivity. Qed.

(* the oracle's reading (prefix / suffix, no splitter) coincides with the model's decision *)
Theorem decide_iff_spec : forall use_auth admin st r hdr,
  decide use_auth admin st (needs_admin r) hdr = Reached <-> spec_reaches use_auth admin st r hdr = true.
Proof.
  intros use_auth admin st r hdr. unfold spec_reaches. destruct use_auth.
  2: { rewrite auth_off_passes. split; reflexivity. }
  unfold spec_accepts. destruct (needs_admin r).
  - rewrite admin_routes. destruct (bearer_of hdr) as [t |] eqn:Hb.
    + apply bearer_of_iff in Hb. simpl. rewrite orb_false_r, andb_true_iff, String.eqb_eq. split.
      * intros [Hh Hn]. rewrite Hh in Hb. apply bearer_inj in Hb. subst t. split; [exact Hn | reflexivity].
      * intros [Hn He]. subst t. split; assumption.
    + split; [| intros H; discriminate H]. intros [Hh _]. apply bearer_of_iff in Hh. rewrite Hh in Hb. discriminate Hb.
  - rewrite decide_plain_iff. destruct (bearer_of hdr) as [t |] eqn:Hb.
    + apply bearer_of_iff in Hb. simpl. rewrite andb_true_iff, orb_true_iff, String.eqb_eq, mem_In. split.
      * intros [t' [Hh [Hn Hv]]]. rewrite Hh in Hb. apply bearer_inj in Hb. subst t'. split; assumption.
      * intros [Hn Hv]. exists t. repeat split; assumption.
    + split; [| intros H; discriminate H]. intros [t [Hh _]]. apply bearer_of_iff in Hh. rewrite Hh in Hb. discriminate Hb.
Qed.

(* ---------------- the regenerated routing table ---------------- *)

(* what [allow] means *)
Theorem allow_spec : forall profiling metrics m p, allow profiling metrics (m, p) = true ->
  m = "GET" /\
  (p = "/status" \/ prefix "/swagger/" p = true \/ (metrics = true /\ p = "/metrics") \/
   (profiling = true /\ prefix "/pprof/debug/" p = true) \/ p = "/connection/websocket").
Proof.
  intros profiling metrics m p H. unfold allow in H. apply andb_true_iff in H. destruct H as [Hm H].
  apply String.eqb_eq in Hm. split; [exact Hm |].
  repeat (apply orb_true_iff in H; destruct H as [H | H]).
  - left. apply String.eqb_eq. exact H.
  - right; left. exact H.
  - right; right; left. apply andb_true_iff in H. destruct H as [H1 H2]. apply String.eqb_eq in H2. split; assumption.
  - right; right; right; left. apply andb_true_iff in H. exact H.
  - right; right; right; right. apply String.eqb_eq. exact H.
Qed.

Lemma cfg_ok_sound : forall a p m routes, cfg_ok (a, p, m, routes) = true ->
  (forall r, In r routes -> under_api r = false -> allow p m r = true) /\ api_part routes <> [].
Proof.
  intros a p m routes H. unfold cfg_ok in H. apply andb_true_iff in H. destruct H as [Ho Hn]. split.
  - intros r Hin Hu. unfold outside_ok in Ho. rewrite forallb_forall in Ho. apply Ho.
    apply filter_In. split; [exact Hin | rewrite Hu; reflexivity].
  - intros He. rewrite He in Hn. discriminate Hn.
Qed.

Theorem table_ok : forall (table : list cfg_entry), forallb cfg_ok table = true ->
  forall a p m routes, In (a, p, m, routes) table ->
    (forall r, In r routes -> under_api r = false -> allow p m r = true) /\ api_part routes <> [].
Proof.
  intros table H a p m routes Hin. rewrite forallb_forall in H. apply cfg_ok_sound with (a := a). apply H. exact Hin.
Qed.

(* The verdict for a request is a function of (use_auth, admin token, table, route class, its own header): the other
   authentications that are in flight or were made before - over HTTP or the websocket, with whatever tokens, valid
   or not - take no part in it (they leave the table as it is, Tokens.auths_do_not_interfere). *)
Theorem verdict_independent_of_other_requests : forall use_auth admin others st wrapped hdr,
  forallb is_auth others = true ->
  decide use_auth admin (run admin st others) wrapped hdr = decide use_auth admin st wrapped hdr.
Proof.
  intros use_auth admin others st wrapped hdr H. rewrite (auths_do_not_interfere admin others st H). reflexivity.
Qed.

(* ---------------- Examples ---------------- *)

Example ex_split : split_sp "Bearer  a b " = ["Bearer"; ""; "a"; "b"; ""] /\ split_sp "" = [""].
Proof. vm_compute. split; reflexivity. Qed.

Example ex_parse :
  parse_auth_header "Bearer abc" = Tok "abc" /\ parse_auth_header "Bearer " = Tok "" /\
  parse_auth_header "Bearer" = Invalid /\ parse_auth_header "Bearer a b" = Invalid /\
  parse_auth_header "bearer abc" = Invalid /\ parse_auth_header " Bearer abc" = Invalid /\
  parse_auth_header "" = Missing.
Proof. vm_compute. repeat split; reflexivity. Qed.

Example ex_decide :
  let st := ["u1"; "u2"] in
  decide true "adm" st false "Bearer u2" = Reached /\ decide true "adm" st true "Bearer u2" = Denied ErrUnauthorized /\
  decide true "adm" st true "Bearer adm" = Reached /\ decide true "adm" st false "Bearer u3" = Denied ErrInvalidAccessToken /\
  decide true "adm" st false "Basic adm" = Denied ErrInvalidAuthHeader /\ decide true "adm" st false "" = Denied ErrMissingAuthHeader /\
  decide false "adm" st true "" = Reached.
Proof. vm_compute. repeat split; reflexivity. Qed.

(* the hypotheses of header_accepted_iff / admin_routes are satisfiable *)
Example ex_accepted : exists t, "Bearer u2" = "Bearer " ++ t /\ no_spaceb t = true /\ (t = "adm" \/ In t ["u1"; "u2"]).
Proof. exists "u2". repeat split; try reflexivity. right. right. left. reflexivity. Qed.

Example ex_chain :
  let h : handler nat := fun c => {| state := S (state nat c); tokv := tokv nat c; aborted := aborted nat c; resp := resp nat c |} in
  state nat (run_chain nat (api_chain nat true "adm" ["u1"] "Bearer u1" true h) (init_ctx nat 5)) = 5 /\
  state nat (run_chain nat (api_chain nat true "adm" ["u1"] "Bearer adm" true h) (init_ctx nat 5)) = 6 /\
  state nat (run_chain nat (api_chain nat true "adm" ["u1"] "Bearer u1" false h) (init_ctx nat 5)) = 6 /\
  resp nat (run_chain nat (api_chain nat true "adm" ["u1"] "Bearer zz" false h) (init_ctx nat 5)) = Some ErrInvalidAccessToken.
Proof. vm_compute. repeat split; reflexivity. Qed.

(* ---- token store failing: the decision fails closed ---- *)
Theorem store_failure_fails_closed : forall admin st wrapped hdr,
  decide true admin (visible false st) wrapped hdr = Reached ->
  hdr = "Bearer " ++ admin /\ no_spaceb admin = true.
Proof.
  intros admin st wrapped hdr H. unfold visible in H. destruct wrapped.
  - apply admin_routes in H. exact H.
  - apply decide_plain_iff in H. destruct H as [t [Hh [Hn [Ht | []]]]]. subst. split; [reflexivity | exact Hn].
Qed.

Theorem store_failure_admits_no_more : forall admin st wrapped hdr,
  decide true admin (visible false st) wrapped hdr = Reached -> decide true admin st wrapped hdr = Reached.
Proof.
  intros admin st wrapped hdr H. apply store_failure_fails_closed in H. destruct H as [Hh Hn].
  destruct wrapped.
  - apply admin_routes. split; assumption.
  - apply decide_plain_iff. exists admin. split; [exact Hh | split; [exact Hn | left; reflexivity]].
Qed.

Theorem store_failure_admin_still_admin : forall admin st wrapped,
  no_spaceb admin = true -> decide true admin (visible false st) wrapped ("Bearer " ++ admin) = Reached.
Proof.
  intros admin st wrapped Hn. destruct wrapped.
  - apply admin_routes. split; [reflexivity | exact Hn].
  - apply decide_plain_iff. exists admin. split; [reflexivity | split; [exact Hn | left; reflexivity]].
Qed.
