(* C09 model: the Authorization-header parser, the API middleware, the RequireAdmin wrapper, gin's
   handler chain with Abort, and the classification of routes.
   Definitions only (no proofs) so that extraction still works when a proof breaks.

   Mirrors
     /repo/transports/http/auth/auth_token_middleware.go   ApplyToAPI / parseAuthHeader / getToken
     /repo/transports/http/auth/require_auth.go            RequireAdmin / validateToken
     /repo/transports/http/endpoints/bhs_endpoints.go      engine.Group("/api/v1", middleware) vs. root routes
     /repo/transports/http/endpoints/api/access/endpoints.go   which routes are wrapped by RequireAdmin
     gin Context.Next / Abort                              (handler-chain model)
   The token check itself is BHS.Tokens.get_token (C10). *)
From Coq Require Import String Ascii List Bool.
From BHS Require Import Tokens.
Import ListNotations.
Open Scope string_scope.

(* ---------------- strings.Split(h, " ") ---------------- *)
Definition is_space (c : ascii) : bool := Ascii.eqb c " "%char.

Fixpoint split_sp (s : string) : list string :=
  match s with
  | EmptyString => [EmptyString]                 (* strings.Split("", " ") = [""] *)
  | String c r =>
    if is_space c then EmptyString :: split_sp r
    else match split_sp r with
         | p :: ps => String c p :: ps
         | [] => [String c EmptyString]         (* not reachable: split_sp never returns [] *)
         end
  end.

Fixpoint no_spaceb (s : string) : bool :=
  match s with
  | EmptyString => true
  | String c r => negb (is_space c) && no_spaceb r
  end.

Inductive errcode :=
| ErrMissingAuthHeader | ErrInvalidAuthHeader | ErrInvalidAccessToken | ErrUnauthorized | ErrAdminTokenNotFound.

Inductive parse_res := Missing | Invalid | Tok (t : string).

(* parseAuthHeader: the argument is the value gin's c.GetHeader("Authorization") returns
   ("" when the header is absent) *)
Definition parse_auth_header (h : string) : parse_res :=
  if String.eqb h "" then Missing
  else match split_sp h with
       | [a; b] => if String.eqb a "Bearer" then Tok b else Invalid
       | _ => Invalid
       end.

(* ApplyToAPI *)
Inductive mw_result := Pass (tok : option role) | Reject (e : errcode).

Definition middleware (use_auth : bool) (admin : token) (st : list token) (hdr : string) : mw_result :=
  if use_auth then
    match parse_auth_header hdr with
    | Missing => Reject ErrMissingAuthHeader
    | Invalid => Reject ErrInvalidAuthHeader
    | Tok t => match get_token admin st t with
               | NoTok => Reject ErrInvalidAccessToken
               | r => Pass (Some r)
               end
    end
  else Pass None.

(* RequireAdmin(handler, requireAdmin) / validateToken on the context value "token" *)
Definition require_admin (tok : option role) : option errcode :=
  match tok with
  | None => Some ErrAdminTokenNotFound
  | Some Admin => None
  | Some _ => Some ErrUnauthorized
  end.

Inductive verdict := Reached | Denied (e : errcode).

(* the whole decision for one request on a route of the API group; wrapped = the route's handler is
   wrapped by RequireAdmin(h, cfg.UseAuth) *)
Definition decide (use_auth : bool) (admin : token) (st : list token) (wrapped : bool) (hdr : string) : verdict :=
  match middleware use_auth admin st hdr with
  | Reject e => Denied e
  | Pass tok =>
    if wrapped && use_auth then
      match require_admin tok with Some e => Denied e | None => Reached end
    else Reached
  end.

(* A token lookup that FAILS (storage error in GetTokenByValue): TokenService.GetToken returns the error, the
   middleware maps every error to ErrInvalidAccessToken.  The admin token is compared before the lookup, so the
   request is decided as if no token were issued: [visible false st = []]. *)
Definition visible (store_ok : bool) (st : list token) : list token := if store_ok then st else [].

(* routes whose handler access/endpoints.go wraps with RequireAdmin *)
Definition needs_admin (r : string * string) : bool :=
  let '(m, p) := r in
  (String.eqb m "POST" && String.eqb p "/api/v1/access") ||
  (String.eqb m "DELETE" && String.eqb p "/api/v1/access/:token").

(* ---------------- gin's handler chain ---------------- *)
Section Chain.
  Variable S : Type.                                   (* everything a handler can change *)
  Record ctx := { state : S; tokv : option role; aborted : bool; resp : option errcode }.
  Definition handler := ctx -> ctx.

  (* Context.Next: handlers run in order until one aborts *)
  Fixpoint run_chain (hs : list handler) (c : ctx) : ctx :=
    match hs with
    | [] => c
    | h :: r => if aborted c then c else run_chain r (h c)
    end.

  Definition abort_with (e : errcode) (c : ctx) : ctx :=
    {| state := state c; tokv := tokv c; aborted := true; resp := Some e |}.

  (* ApplyToAPI as a handler: c.Set("token", t) or AbortWithStatusJSON(401, ...) *)
  Definition mw_handler (use_auth : bool) (admin : token) (st : list token) (hdr : string) : handler :=
    fun c => match middleware use_auth admin st hdr with
             | Reject e => abort_with e c
             | Pass None => c
             | Pass (Some r) => {| state := state c; tokv := Some r; aborted := aborted c; resp := resp c |}
             end.

  (* RequireAdmin(h, requireAdmin) *)
  Definition wrap_admin (require : bool) (h : handler) : handler :=
    if require then
      fun c => match require_admin (tokv c) with None => h c | Some e => abort_with e c end
    else h.

  Definition init_ctx (s : S) : ctx := {| state := s; tokv := None; aborted := false; resp := None |}.

  (* the chain gin runs for a route of the API group *)
  Definition api_chain (use_auth : bool) (admin : token) (st : list token) (hdr : string)
             (wrapped : bool) (h : handler) : list handler :=
    [mw_handler use_auth admin st hdr; if wrapped then wrap_admin use_auth h else h].
End Chain.

(* ---------------- declarative side (the statement of C09) ---------------- *)

(* "the request carries 'Authorization: Bearer <token>' where the token is the admin token or an issued,
   unrevoked token" - written without the splitter *)
Definition bearer_of (hdr : string) : option string :=
  if String.prefix "Bearer " hdr then Some (String.substring 7 (String.length hdr - 7) hdr) else None.

Definition spec_accepts (admin : token) (st : list token) (admin_only : bool) (hdr : string) : bool :=
  match bearer_of hdr with
  | Some t => no_spaceb t && (String.eqb t admin || (negb admin_only && mem t st))
  | None => false
  end.

(* what the statement demands of one request: true = must reach the handler, false = must be answered 401 *)
Definition spec_reaches (use_auth : bool) (admin : token) (st : list token) (r : string * string) (hdr : string) : bool :=
  if use_auth then spec_accepts admin st (needs_admin r) hdr else true.

Definition under_api (r : string * string) : bool :=
  String.prefix "/api/v1/" (snd r) || String.eqb (snd r) "/api/v1".

(* the only routes that may exist outside the authenticated prefix *)
Definition allow (profiling metrics : bool) (r : string * string) : bool :=
  let '(m, p) := r in
  String.eqb m "GET" &&
  (String.eqb p "/status"
   || String.prefix "/swagger/" p
   || (metrics && String.eqb p "/metrics")
   || (profiling && String.prefix "/pprof/debug/" p)
   || String.eqb p "/connection/websocket").

Definition outside_ok (profiling metrics : bool) (routes : list (string * string)) : bool :=
  forallb (allow profiling metrics) (filter (fun r => negb (under_api r)) routes).

Definition api_part (routes : list (string * string)) : list (string * string) := filter under_api routes.

(* a configuration of the regenerated table: ((use_auth, profiling, metrics), routes) *)
Definition cfg_entry := (bool * bool * bool * list (string * string))%type.
Definition cfg_ok (e : cfg_entry) : bool :=
  let '(_, prof, met, routes) := e in
  outside_ok prof met routes && negb (match api_part routes with [] => true | _ => false end).
