(* C06, several peers / stalls / disconnects: the SAFETY half, for every sequence of events the block handler can
   serialise (any peers, any interleaving, any sync-peer choices, any timer ticks):
     (S1) whatever is stored was pre-loaded or delivered in some headers message;
     (S2) the store stays Valid and the cumulative work of the reported tip never decreases;
     (S3) when the sync peer's done event is handled it stops being the sync peer, and a new one is chosen whenever a
          candidate that is not behind the tip is known.
   Convergence for these situations is NOT proved (and is false in general: C06_lagging_sync_peer_refuted). *)
From Coq Require Import ZArith NArith List Lia Bool.
From BHS Require Import Work Store Chain ChainSpec StoreProofs ChainInv ChainReorg ChainAdd ChainMain
     SyncNode SyncDefault SyncSpec SyncC07Proofs.
Import ListNotations.
Open Scope Z_scope.

(* ---------------- one lemma shape for everything on_headers does to the store ---------------- *)
Lemma on_headers_store (P : store -> Prop) cfg st p hs :
  P (d_store st) ->
  (P (d_store st) -> P (hres_store (hloop (c_forb cfg) (sm_cps cfg) (d_next st) (d_store st) false None hs))) ->
  P (d_store (fst (on_headers cfg st p hs))).
Proof.
  intros Hs Hl. unfold on_headers. destruct (aget p (d_states st)); [|exact Hs].
  destruct (negb (d_hfm st)); [destruct (disc_frame st p) as (E & _); rewrite E; exact Hs|].
  destruct hs as [|h0 hs0]; [exact Hs|]. specialize (Hl Hs).
  destruct (hloop (c_forb cfg) (sm_cps cfg) (d_next st) (d_store st) false None (h0 :: hs0)) as [s' rc fin|s'|s']; cbn [hres_store] in Hl.
  - destruct fin as [fh|]; [|exact Hl].
    destruct (if rc then d_next st else None) as [[H cid]|].
    + destruct (find_next_d (c_cps cfg) H) as [[H' c']|].
      * match goal with |- context [send_gh ?a ?b ?c ?d] => destruct (send_gh_frame a b c d) as (E & _) end. rewrite E. exact Hl.
      * match goal with |- context [send_gh ?a ?b ?c ?d] => destruct (send_gh_frame a b c d) as (E & _) end. rewrite E. exact Hl.
    + destruct (d_next st) as [[H c]|].
      * match goal with |- context [send_gh ?a ?b ?c ?d] => destruct (send_gh_frame a b c d) as (E & _) end. rewrite E. exact Hl.
      * match goal with |- context [send_gh ?a ?b ?c ?d] => destruct (send_gh_frame a b c d) as (E & _) end. rewrite E. exact Hl.
  - pose proof (disc_frame (with_store st s') p) as (E & _). destruct (disc (with_store st s') p) as [st1 e1]. cbn [fst] in *. rewrite E. exact Hl.
  - destruct (disc_frame (with_store st s') p) as (E & _). rewrite E. exact Hl.
Qed.

Lemma d_step_store (P : store -> Prop) cfg hint st e :
  P (d_store st) ->
  (forall p hs, e = EHeaders p hs -> P (d_store st) -> P (hres_store (hloop (c_forb cfg) (sm_cps cfg) (d_next st) (d_store st) false None hs))) ->
  P (d_store (fst (d_step cfg hint st e))).
Proof.
  intros Hs Hl. destruct e as [p cand lb|p hs|p l|p|aged|p cand lb]; try (rewrite d_step_store_other; [exact Hs| intros; discriminate]).
  cbn [d_step]. apply on_headers_store; [exact Hs| apply (Hl p hs eq_refl)].
Qed.

(* ---------------- (S1) stored ids ---------------- *)
Lemma add_ids f s h r : In r (fst (add f s h)) -> In (id r) (ids s) \/ id r = s_id h.
Proof.
  rewrite add_is_explicit. unfold add_explicit.
  assert (Hold: In r s -> In (id r) (ids s) \/ id r = s_id h) by (intros H; left; apply in_map; exact H).
  destruct (by_hash s (s_id h)); [exact Hold|]. destruct (memN (s_id h) f); [exact Hold|].
  destruct (negb _).
  - cbn [fst]. intros [<-|Hr]; [right; reflexivity| apply Hold; exact Hr].
  - destruct (tipB s) as [t|]; [|exact Hold].
    destruct (cum t <? cum (create_header s h)); cbn [fst]; intros [<-|Hr]; try (right; reflexivity).
    + left. destruct (in_update_state _ _ _ _ Hr) as (r1 & Hr1 & E1 & _). destruct (in_update_state _ _ _ _ Hr1) as (r2 & Hr2 & E2 & _).
      rewrite E1, E2. apply in_map. exact Hr2.
    + apply Hold; exact Hr.
Qed.

Lemma hloop_ids f cps next hs : forall s rc fin r, In r (hres_store (hloop f cps next s rc fin hs)) -> In (id r) (ids s) \/ In (id r) (map s_id hs).
Proof.
  induction hs as [|h hs IH]; intros s rc fin r Hr; [left; apply in_map; exact Hr|].
  cbn [hloop] in Hr. pose proof (add_ids f s h) as Ha. destruct (add f s h) as [s' o]. cbn [fst] in Ha.
  assert (Hstep: forall x, In (id x) (ids s') -> In (id x) (ids s) \/ In (id x) (map s_id (h :: hs))).
  { intros x Hx. apply in_map_iff in Hx. destruct Hx as (y & Ey & Hy). destruct (Ha y Hy) as [H1|H1]; rewrite <- Ey; [left; exact H1| right; left; symmetry; exact H1]. }
  assert (Hrec: forall rc' fin', In r (hres_store (hloop f cps next s' rc' fin' hs)) -> In (id r) (ids s) \/ In (id r) (map s_id (h :: hs))).
  { intros rc' fin' H. destruct (IH _ _ _ _ H) as [H1|H1]; [apply Hstep; exact H1| right; right; exact H1]. }
  assert (Hstop: In r s' -> In (id r) (ids s) \/ In (id r) (map s_id (h :: hs))).
  { intros H. apply Hstep. apply in_map. exact H. }
  destruct o as [x| | |]; try (apply (Hrec _ _ Hr)); try (apply Hstop; exact Hr).
  destruct next as [[H cid]|].
  - destruct (height (create_header s h) =? H).
    + destruct (N.eqb (s_id h) cid); [apply (Hrec _ _ Hr)| apply Hstop; exact Hr].
    + destruct (contradicts cps x (height (create_header s h)) (s_id h)); [apply Hstop; exact Hr| apply (Hrec _ _ Hr)].
  - destruct (contradicts cps x (height (create_header s h)) (s_id h)); [apply Hstop; exact Hr| apply (Hrec _ _ Hr)].
Qed.

Fixpoint delivered (evs : list (N * devent)) : list N :=
  match evs with
  | [] => []
  | (_, EHeaders _ hs) :: r => map s_id hs ++ delivered r
  | _ :: r => delivered r
  end.

Theorem stored_was_offered cfg evs : forall st r, In r (d_store (d_run cfg st evs)) ->
  In (id r) (ids (d_store st)) \/ In (id r) (delivered evs).
Proof.
  induction evs as [|[hint e] evs IH]; intros st r Hr; [left; apply in_map; exact Hr|].
  cbn [d_run] in Hr. destruct (IH _ r Hr) as [H1|H1].
  - assert (Hgen: forall x, In (id x) (ids (d_store (fst (d_step cfg hint st e)))) ->
                  In (id x) (ids (d_store st)) \/ In (id x) (delivered ((hint, e) :: evs))).
    { intros x. apply (d_step_store (fun s' => In (id x) (ids s') -> In (id x) (ids (d_store st)) \/ In (id x) (delivered ((hint, e) :: evs)))).
      - intros H; left; exact H.
      - intros p hs -> _ Hx. apply in_map_iff in Hx. destruct Hx as (y & Ey & Hy).
        destruct (hloop_ids _ _ _ _ _ _ _ y Hy) as [H2|H2]; rewrite <- Ey; [left; exact H2| right; cbn [delivered]; apply in_or_app; left; exact H2]. }
    apply Hgen. exact H1.
  - right. destruct e; cbn [delivered]; try exact H1. apply in_or_app. right. exact H1.
Qed.

(* ---------------- (S2) Valid is kept, the tip's work never decreases ---------------- *)
Definition tip_cum (s : store) : Z := match tipB s with Some t => cum t | None => 0 end.

Lemma best_cons_cum a l b : best l = Some b -> exists b', best (a :: l) = Some b' /\ cum b <= cum b'.
Proof.
  intros Hb. cbn [best]. rewrite Hb. destruct (orph a); [exists b; split; [reflexivity| lia]|].
  destruct (Z.ltb_spec (cum b) (cum a)); [exists a; split; [reflexivity| lia]| exists b; split; [reflexivity| lia]].
Qed.

Lemma inv2_tip_cum s tip : Inv2 s tip -> exists b, best s = Some b /\ tip_cum s = cum b.
Proof.
  intros [HI Hb]. pose proof HI as (_ & (t & Ht & _) & _). exists t. split; [rewrite Hb; exact Ht|].
  unfold tip_cum. rewrite (tipB_is_tip s tip HI), Ht. reflexivity.
Qed.

Lemma add_tip_mono f s tip h : Inv2 s tip -> 0 < calc_work (p_bits (s_pl h)) -> s_id h <> 0%N ->
  (exists tip', Inv2 (fst (add f s h)) tip') /\ tip_cum s <= tip_cum (fst (add f s h)).
Proof.
  intros HI2 Hw Hz. destruct (step_related f s tip h HI2 Hw Hz) as (tip' & HI' & Hd & _).
  split; [exists tip'; exact HI'|].
  destruct (inv2_tip_cum s tip HI2) as (b & Hb & ->). destruct (inv2_tip_cum _ tip' HI') as (b' & Hb' & ->).
  assert (Hbd: best (map dummy s) = Some (dummy b)) by (rewrite (best_map dummy s same_struct_dummy), Hb; reflexivity).
  assert (Hbd': best (map dummy (fst (add f s h))) = Some (dummy b')) by (rewrite (best_map dummy _ same_struct_dummy), Hb'; reflexivity).
  rewrite Hd in Hbd'. unfold spec_step in Hbd'.
  destruct (by_hash (map dummy s) (s_id h)); cbn [fst] in Hbd'.
  - rewrite Hbd in Hbd'. assert (E: dummy b = dummy b') by congruence. apply (f_equal cum) in E. unfold dummy in E. cbn in E. lia.
  - destruct (memN (s_id h) f); cbn [fst] in Hbd'.
    + rewrite Hbd in Hbd'. assert (E: dummy b = dummy b') by congruence. apply (f_equal cum) in E. unfold dummy in E. cbn in E. lia.
    + destruct (best_cons_cum (accept (map dummy s) h) _ _ Hbd) as (b2 & Eb2 & Hle). rewrite Eb2 in Hbd'.
      assert (E: b2 = dummy b') by congruence. subst b2. unfold dummy in Hle. cbn in Hle. exact Hle.
Qed.

Definition pos_hdrs (hs : list src) := forall h, In h hs -> 0 < calc_work (p_bits (s_pl h)) /\ s_id h <> 0%N.

Lemma hloop_tip_mono f cps next hs : forall s rc fin, Valid s -> pos_hdrs hs ->
  Valid (hres_store (hloop f cps next s rc fin hs)) /\ tip_cum s <= tip_cum (hres_store (hloop f cps next s rc fin hs)).
Proof.
  induction hs as [|h hs IH]; intros s rc fin Hv Hp; [split; [exact Hv| cbn; lia]|].
  cbn [hloop]. destruct Hv as (tip & HI2). destruct (Hp h (or_introl eq_refl)) as [Hw Hz].
  destruct (add_tip_mono f s tip h HI2 Hw Hz) as (Hv' & Hle). destruct (add f s h) as [s' o]. cbn [fst] in *.
  assert (Hp': pos_hdrs hs) by (intros x Hx; apply Hp; right; exact Hx).
  assert (Hrec: forall rc' fin', Valid (hres_store (hloop f cps next s' rc' fin' hs)) /\ tip_cum s <= tip_cum (hres_store (hloop f cps next s' rc' fin' hs))).
  { intros rc' fin'. destruct (IH s' rc' fin' Hv' Hp') as [H1 H2]. split; [exact H1| lia]. }
  assert (Hstop: Valid s' /\ tip_cum s <= tip_cum s') by (split; [exact Hv'| exact Hle]).
  destruct o as [x| | |]; try apply Hrec; try exact Hstop.
  destruct next as [[H cid]|].
  - destruct (height (create_header s h) =? H).
    + destruct (N.eqb (s_id h) cid); [apply Hrec| exact Hstop].
    + destruct (contradicts cps x (height (create_header s h)) (s_id h)); [exact Hstop| apply Hrec].
  - destruct (contradicts cps x (height (create_header s h)) (s_id h)); [exact Hstop| apply Hrec].
Qed.

Definition pos_event (e : devent) := match e with EHeaders _ hs => pos_hdrs hs | _ => True end.

Theorem d_step_tip_mono cfg hint st e : Valid (d_store st) -> pos_event e ->
  Valid (d_store (fst (d_step cfg hint st e))) /\ tip_cum (d_store st) <= tip_cum (d_store (fst (d_step cfg hint st e))).
Proof.
  intros Hv Hp. apply (d_step_store (fun s' => Valid s' /\ tip_cum (d_store st) <= tip_cum s')).
  - split; [exact Hv| lia].
  - intros p hs -> _. apply hloop_tip_mono; [exact Hv| exact Hp].
Qed.

Theorem d_run_tip_mono cfg evs : forall st, Valid (d_store st) -> Forall (fun x => pos_event (snd x)) evs ->
  Valid (d_store (d_run cfg st evs)) /\ tip_cum (d_store st) <= tip_cum (d_store (d_run cfg st evs)).
Proof.
  induction evs as [|[hint e] evs IH]; intros st Hv Hp; [split; [exact Hv| cbn [d_run]; lia]|].
  inversion Hp as [|x l Hx Hl]; subst. cbn [d_run].
  destruct (d_step_tip_mono cfg hint st e Hv Hx) as [Hv1 Hle1]. destruct (IH _ Hv1 Hl) as [Hv2 Hle2].
  split; [exact Hv2| lia].
Qed.

(* ---------------- (S3) the sync peer's done event ---------------- *)
Lemma aget_adel_same {A} p (l : list (N * A)) : aget p (adel p l) = None.
Proof. induction l as [|[q a] l IH]; [reflexivity|]. cbn. destruct (N.eqb_spec q p) as [E|E]; [exact IH|]. cbn. destruct (N.eqb_spec q p); [contradiction| exact IH]. Qed.

Lemma aget_adel_other {A} p q (l : list (N * A)) : q <> p -> aget q (adel p l) = aget q l.
Proof.
  intros Hne. induction l as [|[x a] l IH]; [reflexivity|]. cbn. destruct (N.eqb_spec x p) as [E|E].
  - subst x. destruct (N.eqb_spec p q); [congruence| exact IH].
  - cbn. destruct (N.eqb x q); [reflexivity| exact IH].
Qed.

Lemma in_keys_aget {A} q (l : list (N * A)) : In q (map fst l) -> aget q l <> None.
Proof.
  induction l as [|[x a] l IH]; intros H; [inversion H|]. cbn. destruct (N.eqb_spec x q) as [E|E]; [discriminate|].
  destruct H as [H|H]; [cbn in H; contradiction| apply IH; exact H].
Qed.

Lemma aget_in_filter q (l : list (N * bool)) (g : N * bool -> bool) :
  aget q l = Some true -> g (q, true) = true -> In q (map fst (filter g (filter (fun pc => snd pc) l))).
Proof.
  induction l as [|[x a] l IH]; intros H Hg; [discriminate|]. cbn in H. destruct (N.eqb_spec x q) as [E|E].
  - inversion H; subst. cbn. rewrite Hg. left. reflexivity.
  - specialize (IH H Hg). cbn. destruct a; cbn; [destruct (g (x, true)); [right|]; exact IH| exact IH].
Qed.

Definition picked (st : dstate) (x : option N) : Prop := match x with Some q => aget q (d_states st) <> None | None => True end.

(* whoever startSync selects is a known peer *)
Lemma start_sync_picks cfg hint st : d_sync st = None ->
  picked st (d_sync (fst (start_sync cfg hint st))).
Proof.
  intros Hn. unfold start_sync. rewrite Hn.
  set (best := tip_height (d_store st)). set (cands := filter (fun pc => snd pc) (d_states st)).
  set (bestp := map fst (filter (fun pc => best <? last_of st (fst pc)) cands)).
  set (okp := map fst (filter (fun pc => last_of st (fst pc) =? best) cands)).
  assert (Hsub: forall l, (forall q, In q l -> In q (map fst (d_states st))) ->
                forall q, (if memN hint l then Some hint else hd_error l) = Some q -> aget q (d_states st) <> None).
  { intros l Hl q Hq. apply in_keys_aget. destruct (memN hint l) eqn:Em.
    - inversion Hq; subst. apply Hl. apply memN_in. exact Em.
    - destruct l as [|a l']; [discriminate|]. inversion Hq; subst. apply Hl. left. reflexivity. }
  assert (Hb: forall q, In q bestp -> In q (map fst (d_states st))).
  { intros q Hq. unfold bestp, cands in Hq. apply in_map_iff in Hq. destruct Hq as (x & <- & Hx).
    apply filter_In in Hx. destruct Hx as [Hx _]. apply filter_In in Hx. apply in_map. apply Hx. }
  assert (Ho: forall q, In q okp -> In q (map fst (d_states st))).
  { intros q Hq. unfold okp, cands in Hq. apply in_map_iff in Hq. destruct Hq as (x & <- & Hx).
    apply filter_In in Hx. destruct Hx as [Hx _]. apply filter_In in Hx. apply in_map. apply Hx. }
  match goal with |- context [match ?pk with Some p => _ | None => _ end] => destruct pk as [q|] eqn:Epk end.
  - cbv zeta. match goal with |- context [let '(a, b) := ?X in _] => destruct X as [st1 e1] end. cbn [fst d_sync with_sync picked].
    destruct bestp as [|b0 bl] eqn:Eb; [apply (Hsub okp Ho q Epk)| rewrite <- Eb in *; apply (Hsub bestp Hb q Epk)].
  - cbn [fst d_sync with_states]. rewrite Hn. exact I.
Qed.

Lemma start_sync_finds cfg hint st q : d_sync st = None -> aget q (d_states st) = Some true ->
  tip_height (d_store st) <= last_of st q -> d_sync (fst (start_sync cfg hint st)) <> None.
Proof.
  intros Hn Hq Hle. unfold start_sync. rewrite Hn.
  set (best := tip_height (d_store st)) in *. set (cands := filter (fun pc => snd pc) (d_states st)).
  set (bestp := map fst (filter (fun pc => best <? last_of st (fst pc)) cands)).
  set (okp := map fst (filter (fun pc => last_of st (fst pc) =? best) cands)).
  assert (Hne: forall l, l <> [] -> (if memN hint l then Some hint else hd_error l) <> None).
  { intros l Hl. destruct (memN hint l); [discriminate|]. destruct l; [contradiction| discriminate]. }
  assert (Hin: In q bestp \/ In q okp).
  { destruct (Z.ltb_spec best (last_of st q)) as [Hlt|Hge].
    - left. unfold bestp, cands. apply (aget_in_filter q (d_states st) (fun pc => best <? last_of st (fst pc)) Hq). cbn. apply Z.ltb_lt. exact Hlt.
    - right. unfold okp, cands. apply (aget_in_filter q (d_states st) (fun pc => last_of st (fst pc) =? best) Hq). cbn. apply Z.eqb_eq. lia. }
  match goal with |- context [match ?pk with Some p => _ | None => _ end] => destruct pk as [x|] eqn:Epk end.
  - cbv zeta. match goal with |- context [let '(a, b) := ?X in _] => destruct X as [st1 e1] end. cbn [fst d_sync with_sync]. discriminate.
  - exfalso. destruct bestp as [|b0 bl] eqn:Eb.
    + destruct Hin as [[]|Hin]. apply (Hne okp); [intro E; rewrite E in Hin; inversion Hin| exact Epk].
    + rewrite <- Eb in Epk. apply (Hne bestp); [rewrite Eb; discriminate| exact Epk].
Qed.

Lemma disc_states_objs st p q : let st' := fst (disc st p) in last_of st' q = last_of st q.
Proof.
  unfold disc. destruct (aget p (d_objs st)) as [o|] eqn:Eo; [|reflexivity]. cbn [fst]. unfold last_of. cbn [d_objs with_objs].
  induction (d_objs st) as [|[x a] l IH]; [discriminate|]. cbn in Eo |- *. destruct (N.eqb_spec x p) as [E|E].
  - inversion Eo; subst. cbn. destruct (N.eqb p q); reflexivity.
  - cbn. destruct (N.eqb x q); [reflexivity| apply IH; exact Eo].
Qed.

Theorem done_selects_new_sync_peer cfg hint st p c :
  aget p (d_states st) = Some c -> d_sync st = Some p ->
  let st' := fst (on_done cfg hint st p) in
  d_sync st' <> Some p /\
  (forall q, q <> p -> aget q (d_states st) = Some true -> tip_height (d_store st) <= last_of st q -> d_sync st' <> None).
Proof.
  intros Hp Hs. unfold on_done. rewrite Hp. unfold opt_eqb. rewrite Hs, N.eqb_refl.
  unfold update_sync_peer. cbn [d_sync with_states]. rewrite Hs.
  set (st1 := with_states st (adel p (d_states st))).
  pose proof (disc_frame st1 p) as (Est & _ & _ & Esy & Ess). pose proof (disc_states_objs st1 p) as Hlast.
  destruct (disc st1 p) as [st2 e2]. cbn [fst] in *.
  set (st3 := with_sync st2 None).
  assert (Hn3: d_sync st3 = None) by reflexivity.
  assert (Hss3: d_states st3 = adel p (d_states st)) by (cbn; rewrite Ess; reflexivity).
  pose proof (start_sync_picks cfg hint st3 Hn3) as Hpk.
  destruct (start_sync cfg hint st3) as [st4 e4] eqn:E4. cbn [fst] in *. split.
  - intros Eq. rewrite Eq in Hpk. cbn [picked] in Hpk. rewrite Hss3, aget_adel_same in Hpk. apply Hpk. reflexivity.
  - intros q Hne Hq Hle. pose proof (start_sync_finds cfg hint st3 q Hn3) as Hf. rewrite E4 in Hf. cbn [fst] in Hf. apply Hf.
    + rewrite Hss3, (aget_adel_other p q _ Hne). exact Hq.
    + cbn [d_store st3 with_sync]. rewrite Est. cbn [d_store st1 with_states].
      assert (El: last_of st3 q = last_of st q). { unfold st3. unfold last_of at 1. cbn [d_objs with_sync]. fold (last_of st2 q). rewrite (Hlast q). reflexivity. }
      rewrite El. exact Hle.
Qed.

(* ---------------- competing branches: one reply ---------------- *)
(* after a batch the reported tip carries at least the work of every connected header in the store - in particular of
   every header of the reply: a competing branch is adopted as soon as one reply brings a header that overtakes the tip *)
Theorem fork_one_reply f cps next hs s rc fin s' rc' fin' : Valid s -> pos_hdrs hs ->
  hloop f cps next s rc fin hs = HDone s' rc' fin' ->
  Valid s' /\ tip_cum s <= tip_cum s' /\ forall r, In r s' -> orph r = false -> cum r <= tip_cum s'.
Proof.
  intros Hv Hp Hl. destruct (hloop_tip_mono f cps next hs s rc fin Hv Hp) as [Hv' Hle]. rewrite Hl in Hv', Hle. cbn [hres_store] in *.
  split; [exact Hv'|]. split; [exact Hle|]. intros r Hr Ho.
  destruct (valid_tip s' Hv') as (t & HtB & _ & _ & _ & Hb). unfold tip_cum. rewrite HtB.
  destruct (best_spec s' t Hb) as (_ & newer & older & Es & Hn & Hol). rewrite Es in Hr.
  apply in_app_or in Hr. destruct Hr as [Hr|[<-|Hr]]; [apply Hn; assumption| lia| specialize (Hol r Hr Ho); lia].
Qed.

(* the stated caveat: a reply in which no header joined the longest chain ends the conversation (no further request) *)
Theorem stops_when_no_longest cfg st p c hs s' rc :
  aget p (d_states st) = Some c -> d_hfm st = true ->
  hloop (c_forb cfg) (sm_cps cfg) (d_next st) (d_store st) false None hs = HDone s' rc None ->
  snd (on_headers cfg st p hs) = [] /\ d_next (fst (on_headers cfg st p hs)) = d_next st.
Proof.
  intros Hst Hh Hl. unfold on_headers. rewrite Hst, Hh. cbn [negb].
  destruct hs as [|h0 hs0]; [split; reflexivity|]. rewrite Hl. split; reflexivity.
Qed.

(* and it does happen: a branch that needs two replies to overtake is never adopted *)
Example ex_two_replies_needed :
  let cfg := {| c_cps := []; c_disable := false; c_forb := []; c_now := 0 |} in
  let mk := fun i p => ex_sub i p 545259519 in
  let store := run_from [] (init 1 (ex_pl 486604799)) [mk 20 1; mk 21 20; mk 22 21]%N in
  let st0 := fst (on_new_peer cfg 0 (d_init cfg store) 7 true 4) in
  let '(st1, e1) := on_headers cfg st0 7 [mk 2 1; mk 3 2]%N in          (* the first two of the peer's four headers *)
  e1 = [] /\ option_map id (tipB (d_store st1)) = Some 22%N /\ map st (d_store st1) = [Stale; Stale; Longest; Longest; Longest; Longest].
Proof. vm_compute. repeat split; reflexivity. Qed.

(* ---------------- re-sync after the sync peer is done: the step, fully characterised ---------------- *)
(* The sync peer p goes away in the middle of a sync while exactly one other peer q is known (a connected candidate that is
   not behind the tip and has not been asked anything yet).  Handling p's done event makes q the sync peer and sends q
   exactly one getheaders whose locator is the store's (head = the tip) and whose stop is the next checkpoint's hash (zero when
   none is ahead); store, nextCheckpoint and headersFirstMode are untouched.  From there the exchange with q is the
   single-peer catch-up of catchup_linear (q's request filter is fresh) - the closed-system statement for two nodes is not
   proved (sys_ok is a single-node invariant). *)
Lemma aget_aset_other {A} p q (a : A) (l : list (N * A)) : q <> p -> aget q (aset p a l) = aget q l.
Proof.
  intros Hne. induction l as [|[x b] l IH]; cbn.
  - destruct (N.eqb_spec p q); [congruence| reflexivity].
  - destruct (N.eqb_spec x p) as [E|E]; cbn.
    + subst x. destruct (N.eqb_spec p q); [congruence| reflexivity].
    + destruct (N.eqb x q); [reflexivity| exact IH].
Qed.

Lemma disc_other st p q : q <> p -> aget q (d_objs (fst (disc st p))) = aget q (d_objs st).
Proof.
  intros Hne. unfold disc. destruct (aget p (d_objs st)) as [o|]; [|reflexivity]. cbn [fst d_objs with_objs]. apply aget_aset_other. exact Hne.
Qed.

Lemma disc_effs st p : snd (disc st p) = [] \/ snd (disc st p) = [Disconnect p].
Proof. unfold disc. destruct (aget p (d_objs st)) as [o|]; [|left; reflexivity]. cbn [snd]. destruct (po_conn o); [right| left]; reflexivity. Qed.

Theorem resync_after_done cfg hint st p q c oq : q <> p ->
  d_sync st = Some p -> aget p (d_states st) = Some c -> adel p (d_states st) = [(q, true)] ->
  aget q (d_objs st) = Some oq -> po_conn oq = true -> po_ps oq = None ->
  tip_height (d_store st) <= po_last oq ->
  let stop := match d_next st with Some (H, cid) => if tip_height (d_store st) <? H then cid else 0%N | None => 0%N end in
  exists st' pre,
    on_done cfg hint st p = (st', pre ++ [GetHeaders q (locator (d_store st)) stop]) /\ (pre = [] \/ pre = [Disconnect p]) /\
    d_sync st' = Some q /\ d_states st' = [(q, true)] /\ d_store st' = d_store st /\ d_next st' = d_next st /\
    (d_hfm st = true -> d_hfm st' = true).
Proof.
  intros Hne Hs Hp Hadel Hq Hconn Hps Hle stop.
  unfold on_done. rewrite Hp. unfold opt_eqb. rewrite Hs, N.eqb_refl.
  unfold update_sync_peer. cbn [d_sync with_states]. rewrite Hs.
  set (st1 := with_states st (adel p (d_states st))).
  pose proof (disc_frame st1 p) as (Est & Enx & Ehf & Esy & Ess). pose proof (disc_other st1 p q Hne) as Hoq. pose proof (disc_effs st1 p) as Heff.
  destruct (disc st1 p) as [st2 e2]. cbn [fst snd] in *.
  set (st3 := with_sync st2 None).
  assert (Hq3: aget q (d_objs st3) = Some oq) by (cbn [st3 with_sync d_objs]; rewrite Hoq; exact Hq).
  assert (Hss3: d_states st3 = [(q, true)]) by (cbn [st3 with_sync d_states]; rewrite Ess; exact Hadel).
  assert (Hst3: d_store st3 = d_store st) by (cbn [st3 with_sync d_store]; rewrite Est; reflexivity).
  assert (Hnx3: d_next st3 = d_next st) by (cbn [st3 with_sync d_next]; rewrite Enx; reflexivity).
  assert (Hl3: last_of st3 q = po_last oq) by (unfold last_of; rewrite Hq3; reflexivity).
  unfold start_sync. cbn [d_sync st3 with_sync]. fold st3. rewrite Hss3. cbn [filter snd fst map]. rewrite Hl3, Hst3.
  replace (po_last oq <? tip_height (d_store st)) with false by (symmetry; apply Z.ltb_ge; lia). cbn [andb].
  match goal with |- context [match (match ?bp with _ :: _ => ?a | [] => ?b end) with Some _ => _ | None => _ end] =>
    assert (Hpick: (match bp with _ :: _ => a | [] => b end) = Some q) end.
  { destruct (Z.ltb_spec (tip_height (d_store st)) (po_last oq)) as [Hlt|Hge]; cbn [map fst].
    - destruct (memN hint [q]) eqn:Em; [|reflexivity]. apply memN_in in Em. destruct Em as [<-|[]]. reflexivity.
    - destruct (Z.eqb_spec (po_last oq) (tip_height (d_store st))) as [_|Hn]; [|lia]. cbn [map fst].
      destruct (memN hint [q]) eqn:Em; [|reflexivity]. apply memN_in in Em. destruct Em as [<-|[]]. reflexivity. }
  rewrite Hpick. clear Hpick.
  set (st0 := with_states st3 [(q, true)]).
  assert (Hq0: aget q (d_objs st0) = Some oq) by exact Hq3.
  assert (Hsend: forall stx loc stp, aget q (d_objs stx) = Some oq ->
            send_gh stx q loc stp = (with_objs stx (aset q {| po_conn := po_conn oq; po_last := po_last oq; po_start := po_start oq; po_pb := hd_error loc; po_ps := Some stp |} (d_objs stx)),
                                     [GetHeaders q loc stp])).
  { intros stx loc stp Hx. unfold send_gh. rewrite Hx, Hps, Hconn. reflexivity. }
  cbn [d_next d_store st0 with_states]. fold st0. rewrite Hnx3, Hst3. unfold stop.
  destruct (d_next st) as [[H cid]|] eqn:En.
  - destruct (tip_height (d_store st) <? H).
    + rewrite (Hsend (with_hfm st0 true) _ cid Hq0). eexists _, e2. split; [reflexivity|]. split; [exact Heff|].
      cbn. rewrite Est, Enx. repeat split; auto.
    + rewrite (Hsend st0 _ 0%N Hq0). eexists _, e2. split; [reflexivity|]. split; [exact Heff|].
      cbn. rewrite Est, Enx, Ehf. repeat split; auto.
  - rewrite (Hsend st0 _ 0%N Hq0). eexists _, e2. split; [reflexivity|]. split; [exact Heff|].
    cbn. rewrite Est, Enx, Ehf. repeat split; auto.
Qed.
